import HeartwoodModel.Driver.Loop
import HeartwoodModel.Driver.C27
def main : IO Unit := HeartwoodModel.Driver.driverMain "C27" HeartwoodModel.Driver.C27.run
