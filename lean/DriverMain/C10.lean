import HeartwoodModel.Driver.Loop
import HeartwoodModel.Driver.C10
def main : IO Unit := HeartwoodModel.Driver.driverMain "C10" HeartwoodModel.Driver.C10.run
