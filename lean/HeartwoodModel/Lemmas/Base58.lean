import HeartwoodModel.Model.Base58
/-!
Lemmas for C21 about `Model/Base58.lean`: positional notation (`toDigitsLE` / `ofDigitsLE` are mutually
inverse on minimal digit lists, fuel sufficiency), the alphabet, leading zeros.
-/
set_option linter.unusedSimpArgs false
set_option linter.unusedVariables false
namespace HeartwoodModel.Base58

/-! ### positional notation -/

theorem toDigitsLE_zero (b f : Nat) : toDigitsLE b f 0 = some [] := by
  cases f <;> rfl

theorem toDigitsLE_pos (b f : Nat) {n : Nat} (h : 0 < n) :
    toDigitsLE b (f + 1) n =
      match toDigitsLE b f (n / b) with
      | none => none
      | some ds => some (n % b :: ds) := by
  cases n with
  | zero => omega
  | succ m => rfl

/-- `ds` is a minimal digit list: digits in range, no leading (= last, little-endian) zero. -/
def Minimal (b : Nat) (ds : List Nat) : Prop := (∀ d ∈ ds, d < b) ∧ ds.getLast? ≠ some 0

theorem toDigitsLE_spec {b : Nat} (hb : 2 ≤ b) {f n : Nat} {ds : List Nat}
    (h : toDigitsLE b f n = some ds) : ofDigitsLE b ds = n ∧ Minimal b ds := by
  induction f generalizing n ds with
  | zero =>
    cases n with
    | zero => simp only [toDigitsLE, Option.some.injEq] at h; subst h; simp [ofDigitsLE, Minimal]
    | succ m => simp [toDigitsLE] at h
  | succ f ih =>
    cases n with
    | zero => simp only [toDigitsLE, Option.some.injEq] at h; subst h; simp [ofDigitsLE, Minimal]
    | succ m =>
      rw [toDigitsLE_pos b f (by omega)] at h
      split at h
      · cases h
      · rename_i ds' hds'
        simp only [Option.some.injEq] at h; subst h
        obtain ⟨hv, hd, hl⟩ := ih hds'
        refine ⟨?_, ?_, ?_⟩
        · simp only [ofDigitsLE, hv]; exact Nat.mod_add_div _ _
        · intro d hd'
          rcases List.mem_cons.mp hd' with e | m'
          · rw [e]; exact Nat.mod_lt _ (by omega)
          · exact hd d m'
        · cases ds' with
          | nil =>
            simp only [ofDigitsLE] at hv
            have hlt : m + 1 < b := by
              rcases Nat.lt_or_ge (m + 1) b with h1 | h1
              · exact h1
              · have := Nat.div_pos h1 (by omega : 0 < b); omega
            simp [Nat.mod_eq_of_lt hlt]
          | cons x xs => rw [List.getLast?_cons_cons]; exact hl

theorem ofDigitsLE_pos {b : Nat} (hb : 0 < b) {ds : List Nat} (hne : ds ≠ []) (hl : ds.getLast? ≠ some 0) :
    0 < ofDigitsLE b ds := by
  induction ds with
  | nil => exact absurd rfl hne
  | cons d ds ih =>
    cases ds with
    | nil =>
      simp only [List.getLast?_singleton, ne_eq, Option.some.injEq] at hl
      simp only [ofDigitsLE]; omega
    | cons x xs =>
      rw [List.getLast?_cons_cons] at hl
      have := ih (by simp) hl
      simp only [ofDigitsLE] at this ⊢
      have : 0 < b * (x + b * ofDigitsLE b xs) := Nat.mul_pos hb this
      omega

theorem toDigitsLE_ofDigitsLE {b : Nat} (hb : 2 ≤ b) (ds : List Nat) (f : Nat) (hm : Minimal b ds)
    (hf : ds.length ≤ f) : toDigitsLE b f (ofDigitsLE b ds) = some ds := by
  induction ds generalizing f with
  | nil => simp [ofDigitsLE, toDigitsLE_zero]
  | cons d ds ih =>
    obtain ⟨hd, hl⟩ := hm
    cases f with
    | zero => simp at hf
    | succ f =>
      have hdb : d < b := hd d (by simp)
      have hpos : 0 < ofDigitsLE b (d :: ds) := ofDigitsLE_pos (by omega) (by simp) hl
      rw [toDigitsLE_pos b f hpos]
      have hmod : ofDigitsLE b (d :: ds) % b = d := by
        simp only [ofDigitsLE, Nat.add_mul_mod_self_left]; exact Nat.mod_eq_of_lt hdb
      have hdiv : ofDigitsLE b (d :: ds) / b = ofDigitsLE b ds := by
        simp only [ofDigitsLE]
        rw [Nat.add_mul_div_left _ _ (by omega : 0 < b), Nat.div_eq_of_lt hdb]; omega
      have hl' : ds.getLast? ≠ some 0 := by
        cases ds with
        | nil => simp
        | cons x xs => rw [List.getLast?_cons_cons] at hl; exact hl
      rw [hmod, hdiv, ih f ⟨fun x hx => hd x (by simp [hx]), hl'⟩ (by simp at hf; omega)]

/-- Minimal digit lists are unique. -/
theorem minimal_unique {b : Nat} (hb : 2 ≤ b) {ds ds' : List Nat} (h : Minimal b ds) (h' : Minimal b ds')
    (e : ofDigitsLE b ds = ofDigitsLE b ds') : ds = ds' := by
  have h1 := toDigitsLE_ofDigitsLE hb ds (ds.length + ds'.length) h (by omega)
  have h2 := toDigitsLE_ofDigitsLE hb ds' (ds.length + ds'.length) h' (by omega)
  rw [e, h2] at h1
  exact (Option.some.inj h1).symm

theorem ofDigitsLE_lt {b : Nat} (hb : 0 < b) {ds : List Nat} (h : ∀ d ∈ ds, d < b) :
    ofDigitsLE b ds < b ^ ds.length := by
  induction ds with
  | nil => simp [ofDigitsLE]
  | cons d ds ih =>
    have hd := h d (by simp)
    have hv := ih (fun x hx => h x (by simp [hx]))
    simp only [ofDigitsLE, List.length_cons, Nat.pow_succ]
    have : b * (ofDigitsLE b ds + 1) ≤ b * b ^ ds.length := Nat.mul_le_mul_left b hv
    rw [Nat.mul_add, Nat.mul_one] at this
    rw [Nat.mul_comm (b ^ ds.length) b]
    omega

/-- Fuel sufficiency. -/
theorem toDigitsLE_total {b : Nat} (hb : 2 ≤ b) (f n : Nat) (h : n < b ^ f) :
    ∃ ds, toDigitsLE b f n = some ds := by
  induction f generalizing n with
  | zero =>
    simp only [Nat.pow_zero] at h
    have : n = 0 := by omega
    subst this; exact ⟨[], rfl⟩
  | succ f ih =>
    rcases Nat.eq_zero_or_pos n with rfl | hpos
    · exact ⟨[], toDigitsLE_zero b _⟩
    · rw [toDigitsLE_pos b f hpos]
      have : n / b < b ^ f := by
        apply Nat.div_lt_of_lt_mul
        rw [Nat.pow_succ, Nat.mul_comm] at h; exact h
      obtain ⟨ds, hds⟩ := ih (n / b) this
      exact ⟨n % b :: ds, by rw [hds]⟩

/-- The heart of both round trips: convert a minimal base-`b1` list to base `b2` and back. -/
theorem toDigits_roundtrip {b1 b2 : Nat} (h1 : 2 ≤ b1) (h2 : 2 ≤ b2) {R D E : List Nat} {f2 f1 : Nat}
    (hR : Minimal b1 R) (hD : toDigitsLE b2 f2 (ofDigitsLE b1 R) = some D)
    (hE : toDigitsLE b1 f1 (ofDigitsLE b2 D) = some E) : E = R := by
  obtain ⟨vD, _⟩ := toDigitsLE_spec h2 hD
  obtain ⟨vE, mE⟩ := toDigitsLE_spec h1 hE
  exact minimal_unique h1 mE hR (by rw [vE, vD])

/-! ### leading zeros -/

theorem zeros_split (l : List Nat) : l = List.replicate (leadingZeros l) 0 ++ dropZeros l := by
  induction l with
  | nil => rfl
  | cons x xs ih =>
    cases x with
    | zero =>
      simp only [leadingZeros, dropZeros, List.replicate_succ, List.cons_append]
      rw [← ih]
    | succ n => simp [leadingZeros, dropZeros]

theorem dropZeros_head (l : List Nat) : (dropZeros l).head? ≠ some 0 := by
  induction l with
  | nil => simp [dropZeros]
  | cons x xs ih =>
    cases x with
    | zero => simpa [dropZeros] using ih
    | succ n => simp [dropZeros]

theorem mem_dropZeros {l : List Nat} {x : Nat} (h : x ∈ dropZeros l) : x ∈ l := by
  have := zeros_split l
  rw [this]; exact List.mem_append_right _ h

theorem dropZeros_length_le (l : List Nat) : (dropZeros l).length ≤ l.length := by
  have := congrArg List.length (zeros_split l)
  simp only [List.length_append, List.length_replicate] at this
  omega

theorem zeros_of_head {l : List Nat} (h : l.head? ≠ some 0) : leadingZeros l = 0 ∧ dropZeros l = l := by
  cases l with
  | nil => simp [leadingZeros, dropZeros]
  | cons x xs =>
    cases x with
    | zero => simp at h
    | succ n => simp [leadingZeros, dropZeros]

theorem zeros_replicate_append {l : List Nat} (h : l.head? ≠ some 0) (z : Nat) :
    leadingZeros (List.replicate z 0 ++ l) = z ∧ dropZeros (List.replicate z 0 ++ l) = l := by
  induction z with
  | zero => simpa using zeros_of_head h
  | succ z ih =>
    simp only [List.replicate_succ, List.cons_append, leadingZeros, dropZeros]
    exact ⟨by rw [ih.1], ih.2⟩

theorem minimal_reverse {b : Nat} {R : List Nat} (hlt : ∀ d ∈ R, d < b) (hh : R.head? ≠ some 0) :
    Minimal b R.reverse :=
  ⟨fun d hd => hlt d (List.mem_reverse.mp hd), by rw [List.getLast?_reverse]; exact hh⟩

/-! ### alphabet -/

theorem b58Digit_char_all : ∀ d, d < 58 → b58Digit? (b58Char d) = some d := by decide

theorem b58Digit_char {d : Nat} (h : d < 58) : b58Digit? (b58Char d) = some d := b58Digit_char_all d h

def charDigitOk (c : Nat) : Bool :=
  match b58Digit? c with
  | some d => b58Char d == c && decide (d < 58)
  | none => true

theorem b58Char_digit_all : ∀ c, c < 123 → charDigitOk c = true := by decide

theorem b58Digit_none {c : Nat} (h : 123 ≤ c) : b58Digit? c = none := by
  unfold b58Digit?
  repeat' split
  all_goals first | rfl | omega

theorem b58Char_digit {c d : Nat} (h : b58Digit? c = some d) : b58Char d = c ∧ d < 58 := by
  rcases Nat.lt_or_ge c 123 with hc | hc
  · have := b58Char_digit_all c hc
    simp only [charDigitOk, h, Bool.and_eq_true, beq_iff_eq, decide_eq_true_eq] at this
    exact this
  · rw [b58Digit_none hc] at h; cases h

theorem digits_map {ds : List Nat} (h : ∀ d ∈ ds, d < 58) : digits? (ds.map b58Char) = some ds := by
  induction ds with
  | nil => rfl
  | cons d ds ih =>
    simp [digits?, b58Digit_char (h d (by simp)), ih (fun x hx => h x (by simp [hx]))]

theorem digits_spec {s ds : List Nat} (h : digits? s = some ds) : s = ds.map b58Char ∧ ∀ d ∈ ds, d < 58 := by
  induction s generalizing ds with
  | nil => simp only [digits?, Option.some.injEq] at h; subst h; simp
  | cons c cs ih =>
    simp only [digits?] at h
    split at h
    · rename_i d ds' hd hds'
      simp only [Option.some.injEq] at h; subst h
      obtain ⟨e, hlt⟩ := ih hds'
      obtain ⟨ec, hd58⟩ := b58Char_digit hd
      refine ⟨by simp [ec, ← e], ?_⟩
      intro x hx
      rcases List.mem_cons.mp hx with e1 | m
      · rw [e1]; exact hd58
      · exact hlt x m
    · cases h

end HeartwoodModel.Base58
