import HeartwoodModel.Model.Gossip
/-!
The gossip store of `Model/Gossip.lean` as a table with a unique key `(node, kind, repo)`.

* `UniqueKeys rows` — at most one row per key (the `UNIQUE (node, repo, type)` constraint of the SQL table).
* `GrowOps rows rows'` — `rows'` is reached from `rows` by upserts (`announced`) and flag-only updates
  (`set_relay`, `relays`): the only ways a step touches the table, apart from the final `prune` (a filter).
* `GrowOps` preserves `UniqueKeys` and yields `Grow`: every row of `rows'` keeps the rowid of a row of `rows`
  with the same key, or has a key that is new; no key disappears.
* `stable_of_origin`: with unique keys, a row that carries the same announcement identity before and after
  has the same rowid.
-/
set_option linter.unusedSimpArgs false
set_option linter.unusedVariables false
namespace HeartwoodModel.Gossip

/-! ## `sameKey` is an equivalence -/

theorem sameKey_iff {a b : AnnId} :
    sameKey a b = true ↔ a.node = b.node ∧ a.kind = b.kind ∧ a.repo = b.repo := by
  simp [sameKey, and_assoc]

theorem sameKey_refl (a : AnnId) : sameKey a a = true := sameKey_iff.mpr ⟨rfl, rfl, rfl⟩

theorem sameKey_of_eq {a b : AnnId} (h : a = b) : sameKey a b = true := h ▸ sameKey_refl a

theorem sameKey_symm {a b : AnnId} (h : sameKey a b = true) : sameKey b a = true := by
  obtain ⟨h1, h2, h3⟩ := sameKey_iff.mp h
  exact sameKey_iff.mpr ⟨h1.symm, h2.symm, h3.symm⟩

theorem sameKey_trans {a b c : AnnId} (h1 : sameKey a b = true) (h2 : sameKey b c = true) :
    sameKey a c = true := by
  obtain ⟨a1, a2, a3⟩ := sameKey_iff.mp h1
  obtain ⟨b1, b2, b3⟩ := sameKey_iff.mp h2
  exact sameKey_iff.mpr ⟨a1.trans b1, a2.trans b2, a3.trans b3⟩

/-- Rows with the same key are interchangeable on the left of `sameKey`. -/
theorem sameKey_congr_left {a b : AnnId} (h : sameKey a b = true) (c : AnnId) :
    sameKey a c = sameKey b c := by
  cases hb : sameKey b c with
  | true => exact sameKey_trans h hb
  | false =>
    cases ha : sameKey a c with
    | false => rfl
    | true => rw [sameKey_trans (sameKey_symm h) ha] at hb; exact hb.symm ▸ rfl

theorem sameKey_congr_right {a b : AnnId} (h : sameKey a b = true) (c : AnnId) :
    sameKey c a = sameKey c b := by
  cases hb : sameKey c b with
  | true => exact sameKey_trans hb (sameKey_symm h)
  | false =>
    cases ha : sameKey c a with
    | false => rfl
    | true => rw [sameKey_trans ha h] at hb; exact hb.symm ▸ rfl

/-! ## Unique keys -/

/-- At most one row per `(node, kind, repo)`. -/
def UniqueKeys (rows : List Row) : Prop :=
  rows.Pairwise (fun r1 r2 => sameKey r1.id r2.id = false)

/-- `(rowid, identity)` of a row: what flag-only updates leave alone. -/
def core (r : Row) : Nat × AnnId := (r.rowid, r.id)

theorem uniqueKeys_iff_ids (rows : List Row) :
    UniqueKeys rows ↔ (rows.map (·.id)).Pairwise (fun a b => sameKey a b = false) := by
  unfold UniqueKeys
  rw [List.pairwise_map]

theorem ids_of_core {rows1 rows2 : List Row} (h : rows2.map core = rows1.map core) :
    rows2.map (·.id) = rows1.map (·.id) := by
  have := congrArg (List.map Prod.snd) h
  rw [List.map_map, List.map_map] at this
  exact this

theorem UniqueKeys.of_core {rows1 rows2 : List Row} (h : rows2.map core = rows1.map core)
    (hu : UniqueKeys rows1) : UniqueKeys rows2 := by
  rw [uniqueKeys_iff_ids] at hu ⊢
  rw [ids_of_core h]; exact hu

theorem mem_of_core {rows1 rows2 : List Row} (h : rows2.map core = rows1.map core) {r2 : Row}
    (hr : r2 ∈ rows2) : ∃ r1 ∈ rows1, r1.rowid = r2.rowid ∧ r1.id = r2.id := by
  have : core r2 ∈ rows2.map core := List.mem_map_of_mem hr
  rw [h, List.mem_map] at this
  obtain ⟨r1, hr1, he⟩ := this
  simp only [core, Prod.mk.injEq] at he
  exact ⟨r1, hr1, he.1, he.2⟩

/-- With unique keys, two rows of the table with the same key are the same row. -/
theorem UniqueKeys.eq_of_sameKey {rows : List Row} (hu : UniqueKeys rows) {r1 r2 : Row}
    (h1 : r1 ∈ rows) (h2 : r2 ∈ rows) (hk : sameKey r1.id r2.id = true) : r1 = r2 := by
  induction rows with
  | nil => simp at h1
  | cons x xs ih =>
    unfold UniqueKeys at hu
    rw [List.pairwise_cons] at hu
    obtain ⟨hx, hxs⟩ := hu
    simp only [List.mem_cons] at h1 h2
    rcases h1 with rfl | h1 <;> rcases h2 with rfl | h2
    · rfl
    · rw [hx r2 h2] at hk; simp at hk
    · have hk' := sameKey_symm hk
      rw [hx r1 h1] at hk'; simp at hk'
    · exact ih hxs h1 h2

/-- With unique keys, `find?` by key returns *the* row of that key. -/
theorem UniqueKeys.find_eq {rows : List Row} (hu : UniqueKeys rows) {r0 : Row} {id : AnnId}
    (h0 : r0 ∈ rows) (hk : sameKey r0.id id = true) :
    rows.find? (fun r => sameKey r.id id) = some r0 := by
  cases hf : rows.find? (fun r => sameKey r.id id) with
  | none =>
    have := List.find?_eq_none.mp hf r0 h0
    simp [hk] at this
  | some r1 =>
    have hm := List.mem_of_find?_eq_some hf
    have hk1 : sameKey r1.id id = true := by simpa using List.find?_some hf
    have := hu.eq_of_sameKey hm h0 (sameKey_trans hk1 (sameKey_symm hk))
    rw [this]

theorem UniqueKeys.sublist {rows rows' : List Row} (h : rows'.Sublist rows) (hu : UniqueKeys rows) :
    UniqueKeys rows' :=
  List.Pairwise.sublist h hu

/-- The upsert keeps the key unique. -/
theorem UniqueKeys.upsert {rows : List Row} (hu : UniqueKeys rows) (id : AnnId) (inv : List Nat) :
    UniqueKeys (announced rows id inv).1 := by
  unfold announced
  split
  · rename_i r0 hf
    split
    · -- update in place: every row keeps its key
      unfold UniqueKeys
      rw [List.pairwise_map]
      refine List.Pairwise.imp ?_ hu
      intro x y hxy
      have kx : ∀ z : Row, sameKey (if sameKey z.id id = true then { z with id := id, inv := inv } else z).id
          = sameKey z.id := by
        intro z
        funext c
        split
        · rename_i hz; exact (sameKey_congr_left hz c).symm
        · rfl
      have ky : ∀ (c : AnnId) (z : Row),
          sameKey c (if sameKey z.id id = true then { z with id := id, inv := inv } else z).id
          = sameKey c z.id := by
        intro c z
        split
        · rename_i hz; exact (sameKey_congr_right hz c).symm
        · rfl
      rw [kx x, ky _ y]; exact hxy
    · exact hu
  · rename_i hf
    unfold UniqueKeys
    rw [List.pairwise_append]
    refine ⟨hu, by simp, ?_⟩
    intro a ha b hb
    simp only [List.mem_singleton] at hb
    subst hb
    have := List.find?_eq_none.mp hf a ha
    simpa using this

/-! ## How a step changes the table -/

/-- `rows'` is reached from `rows` by upserts and flag-only updates. -/
inductive GrowOps : List Row → List Row → Prop
  | refl (rows : List Row) : GrowOps rows rows
  | upsert {rows rows1 : List Row} (id : AnnId) (inv : List Nat) :
      GrowOps rows rows1 → GrowOps rows (announced rows1 id inv).1
  | flags {rows rows1 rows2 : List Row} :
      GrowOps rows rows1 → rows2.map core = rows1.map core → GrowOps rows rows2

theorem GrowOps.trans {a b c : List Row} (h1 : GrowOps a b) (h2 : GrowOps b c) : GrowOps a c := by
  induction h2 with
  | refl => exact h1
  | upsert id inv _ ih => exact GrowOps.upsert id inv ih
  | flags _ hc ih => exact GrowOps.flags ih hc

theorem GrowOps.of_eq {a b : List Row} (h : b = a) : GrowOps a b := h ▸ GrowOps.refl a

theorem GrowOps.unique {rows rows' : List Row} (h : GrowOps rows rows') (hu : UniqueKeys rows) :
    UniqueKeys rows' := by
  induction h with
  | refl => exact hu
  | upsert id inv _ ih => exact ih.upsert id inv
  | flags _ hc ih => exact ih.of_core hc

/-- A row of the new table descends from an old row: same rowid, same key. -/
def FromRow (rows : List Row) (r' : Row) : Prop :=
  ∃ r ∈ rows, r.rowid = r'.rowid ∧ sameKey r.id r'.id = true

/-- A row of the new table has a key no old row has. -/
def FreshKey (rows : List Row) (r' : Row) : Prop :=
  ∀ r ∈ rows, sameKey r.id r'.id = false

structure Grow (rows rows' : List Row) : Prop where
  origin : ∀ r' ∈ rows', FromRow rows r' ∨ FreshKey rows r'
  keep : ∀ r ∈ rows, ∃ r' ∈ rows', sameKey r'.id r.id = true

theorem Grow.refl (rows : List Row) : Grow rows rows :=
  ⟨fun r' h => Or.inl ⟨r', h, rfl, sameKey_refl _⟩, fun r h => ⟨r, h, sameKey_refl _⟩⟩

theorem Grow.trans {a b c : List Row} (h1 : Grow a b) (h2 : Grow b c) : Grow a c := by
  refine ⟨fun r2 hr2 => ?_, fun r hr => ?_⟩
  · rcases h2.origin r2 hr2 with ⟨r1, hr1, hid, hk⟩ | hfresh
    · rcases h1.origin r1 hr1 with ⟨r, hr, hid0, hk0⟩ | hf1
      · exact Or.inl ⟨r, hr, hid0.trans hid, sameKey_trans hk0 hk⟩
      · refine Or.inr (fun r hr => ?_)
        rw [← sameKey_congr_right hk r.id]
        exact hf1 r hr
    · refine Or.inr (fun r hr => ?_)
      obtain ⟨r1, hr1, hk1⟩ := h1.keep r hr
      cases hv : sameKey r.id r2.id with
      | false => rfl
      | true =>
        have := hfresh r1 hr1
        rw [sameKey_trans hk1 hv] at this
        simp at this
  · obtain ⟨r1, hr1, hk1⟩ := h1.keep r hr
    obtain ⟨r2, hr2, hk2⟩ := h2.keep r1 hr1
    exact ⟨r2, hr2, sameKey_trans hk2 hk1⟩

theorem Grow.upsert (rows : List Row) (id : AnnId) (inv : List Nat) :
    Grow rows (announced rows id inv).1 := by
  unfold announced
  split
  · rename_i r0 hf
    split
    · refine ⟨fun r' hr' => ?_, fun r hr => ?_⟩
      · simp only [List.mem_map] at hr'
        obtain ⟨x, hx, rfl⟩ := hr'
        left
        refine ⟨x, hx, ?_, ?_⟩
        · split <;> rfl
        · split
          · rename_i hz; exact hz
          · exact sameKey_refl _
      · refine ⟨_, List.mem_map_of_mem (f := fun x =>
            if sameKey x.id id = true then { x with id := id, inv := inv } else x) hr, ?_⟩
        split
        · rename_i hz; exact sameKey_symm hz
        · exact sameKey_refl _
    · exact Grow.refl rows
  · rename_i hf
    refine ⟨fun r' hr' => ?_, fun r hr => ⟨r, List.mem_append_left _ hr, sameKey_refl _⟩⟩
    simp only [List.mem_append, List.mem_singleton] at hr'
    rcases hr' with h | rfl
    · exact Or.inl ⟨r', h, rfl, sameKey_refl _⟩
    · refine Or.inr (fun r hr => ?_)
      have := List.find?_eq_none.mp hf r hr
      simpa using this

theorem Grow.of_core {rows1 rows2 : List Row} (h : rows2.map core = rows1.map core) : Grow rows1 rows2 := by
  refine ⟨fun r2 hr2 => ?_, fun r1 hr1 => ?_⟩
  · obtain ⟨r1, hr1, h1, h2⟩ := mem_of_core h hr2
    exact Or.inl ⟨r1, hr1, h1, sameKey_of_eq h2⟩
  · obtain ⟨r2, hr2, _, h2⟩ := mem_of_core h.symm hr1
    exact ⟨r2, hr2, sameKey_of_eq h2⟩

theorem GrowOps.grow {rows rows' : List Row} (h : GrowOps rows rows') : Grow rows rows' := by
  induction h with
  | refl => exact Grow.refl _
  | upsert id inv _ ih => exact ih.trans (Grow.upsert _ id inv)
  | flags _ hc ih => exact ih.trans (Grow.of_core hc)

/-- **Rowid stability.** With unique keys, if every row of `rows'` descends from a row of `rows` or has a
new key, then a row of `rows'` that carries the identity of a row of `rows` has that row's rowid. -/
theorem stable_of_origin {rows rows' : List Row} (hu : UniqueKeys rows)
    (ho : ∀ r' ∈ rows', FromRow rows r' ∨ FreshKey rows r') {r r' : Row} (hr : r ∈ rows) (hr' : r' ∈ rows')
    (hid : r'.id = r.id) : r'.rowid = r.rowid := by
  rcases ho r' hr' with ⟨r0, hr0, hrow, hk⟩ | hf
  · have : r0 = r := hu.eq_of_sameKey hr0 hr (by rw [← hid]; exact hk)
    rw [← hrow, this]
  · have := hf r hr
    rw [← hid, sameKey_refl] at this
    simp at this

end HeartwoodModel.Gossip
