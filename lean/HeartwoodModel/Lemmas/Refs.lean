import HeartwoodModel.Model.Refs
/-!
Helper lemmas for C20 about `Model/Refs.lean`: the byte order, splitting, UTF-8 state machine,
hex digits, ordered insertion.
-/
set_option linter.unusedSimpArgs false
set_option linter.unusedVariables false
namespace HeartwoodModel.Refs

/-! ### `ltB` is a strict total order -/

theorem ltB_irrefl (a : Bytes) : ltB a a = false := by
  induction a with
  | nil => rfl
  | cons x xs ih => simp [ltB, ih]

theorem ltB_trans {a b c : Bytes} (h1 : ltB a b = true) (h2 : ltB b c = true) : ltB a c = true := by
  induction a generalizing b c with
  | nil =>
    cases b with
    | nil => simp [ltB] at h1
    | cons y ys => cases c with
      | nil => simp [ltB] at h2
      | cons z zs => simp [ltB]
  | cons x xs ih =>
    cases b with
    | nil => simp [ltB] at h1
    | cons y ys => cases c with
      | nil => simp [ltB] at h2
      | cons z zs =>
        simp only [ltB, Bool.or_eq_true, decide_eq_true_eq, Bool.and_eq_true, beq_iff_eq] at h1 h2 ⊢
        rcases h1 with h1 | ⟨rfl, h1⟩
        · rcases h2 with h2 | ⟨rfl, h2⟩
          · left; omega
          · left; exact h1
        · rcases h2 with h2 | ⟨rfl, h2⟩
          · left; exact h2
          · right; exact ⟨rfl, ih h1 h2⟩

theorem ltB_asymm {a b : Bytes} (h : ltB a b = true) : ltB b a = false := by
  cases hba : ltB b a with
  | false => rfl
  | true => have := ltB_trans h hba; rw [ltB_irrefl] at this; cases this

theorem ltB_ne {a b : Bytes} (h : ltB a b = true) : a ≠ b := by
  intro e; subst e; rw [ltB_irrefl] at h; cases h

theorem ltB_total {a b : Bytes} (h1 : ltB a b = false) (h2 : a ≠ b) : ltB b a = true := by
  induction a generalizing b with
  | nil => cases b with
    | nil => exact absurd rfl h2
    | cons y ys => simp [ltB] at h1
  | cons x xs ih => cases b with
    | nil => simp [ltB]
    | cons y ys =>
      simp only [ltB, Bool.or_eq_false_iff, decide_eq_false_iff_not, Bool.and_eq_false_imp, beq_iff_eq,
        Bool.or_eq_true, decide_eq_true_eq, Bool.and_eq_true] at h1 ⊢
      obtain ⟨hlt, himp⟩ := h1
      by_cases hxy : x = y
      · subst hxy
        right
        refine ⟨rfl, ih (himp rfl) ?_⟩
        intro e; exact h2 (by rw [e])
      · left; omega

/-! ### splitting -/

theorem splitOnce_append {sep : Nat} {a : Bytes} (b : Bytes) (h : sep ∉ a) :
    splitOnce sep (a ++ sep :: b) = some (a, b) := by
  induction a with
  | nil => simp [splitOnce]
  | cons x xs ih =>
    have hx : x ≠ sep := fun e => h (by simp [e])
    have hxs : sep ∉ xs := fun m => h (by simp [m])
    simp [splitOnce, hx, ih hxs]

theorem splitOnce_spec {sep : Nat} {s a b : Bytes} (h : splitOnce sep s = some (a, b)) :
    s = a ++ sep :: b ∧ sep ∉ a := by
  induction s generalizing a b with
  | nil => simp [splitOnce] at h
  | cons c cs ih =>
    simp only [splitOnce] at h
    split at h
    · rename_i hc
      simp only [Option.some.injEq, Prod.mk.injEq] at h
      obtain ⟨rfl, rfl⟩ := h
      simp [hc]
    · rename_i hc
      split at h
      · cases h
      · rename_i a' b' heq
        simp only [Option.some.injEq, Prod.mk.injEq] at h
        obtain ⟨rfl, rfl⟩ := h
        obtain ⟨h1, h2⟩ := ih heq
        refine ⟨by rw [h1]; rfl, ?_⟩
        intro m
        rcases List.mem_cons.mp m with e | m
        · exact hc e.symm
        · exact h2 m

theorem append_sep_inj {sep : Nat} {a a' b b' : Bytes} (h : sep ∉ a) (h' : sep ∉ a')
    (e : a ++ sep :: b = a' ++ sep :: b') : a = a' ∧ b = b' := by
  have h1 := splitOnce_append b h
  rw [e, splitOnce_append b' h'] at h1
  simp only [Option.some.injEq, Prod.mk.injEq] at h1
  exact ⟨h1.1.symm, h1.2.symm⟩

theorem splitOn_ne_nil (sep : Nat) (s : Bytes) : splitOn sep s ≠ [] := by
  cases s with
  | nil => simp [splitOn]
  | cons c cs =>
    simp only [splitOn]
    split
    · simp
    · split <;> simp

theorem mem_splitOn {sep : Nat} {s : Bytes} {c : Nat} (h : c ∈ s) :
    c = sep ∨ ∃ x ∈ splitOn sep s, c ∈ x := by
  induction s with
  | nil => cases h
  | cons d ds ih =>
    simp only [splitOn]
    split
    · rename_i hd
      rcases List.mem_cons.mp h with e | m
      · left; rw [e, hd]
      · rcases ih m with e | ⟨x, hx, hc⟩
        · left; exact e
        · right; exact ⟨x, List.mem_cons_of_mem _ hx, hc⟩
    · rename_i hd
      split
      · rename_i heq; exact absurd heq (splitOn_ne_nil sep ds)
      · rename_i x xs heq
        rcases List.mem_cons.mp h with e | m
        · right; exact ⟨d :: x, by simp, by simp [e]⟩
        · rcases ih m with e | ⟨y, hy, hc⟩
          · left; exact e
          · right
            rw [heq] at hy
            rcases List.mem_cons.mp hy with e | hy
            · exact ⟨d :: x, by simp, by rw [← e]; exact List.mem_cons_of_mem _ hc⟩
            · exact ⟨y, List.mem_cons_of_mem _ hy, hc⟩

/-- No byte of a valid ref name is a rejected character; in particular no space, LF or CR. -/
theorem validRef_bytes {s : Name} (h : validRef s = true) {c : Nat} (hc : c ∈ s) : badByte c = false := by
  simp only [validRef, Bool.and_eq_true, List.all_eq_true] at h
  rcases mem_splitOn (sep := 0x2f) hc with e | ⟨x, hx, hcx⟩
  · subst e; decide
  · have := h.2 x hx
    simp only [validComponent, Bool.and_eq_true, List.all_eq_true, Bool.not_eq_true'] at this
    exact this.1.1.1.1.2 c hcx

theorem validRef_ne_nil {s : Name} (h : validRef s = true) : s ≠ [] := by
  intro e; subst e; simp [validRef] at h

theorem not_mem_of_bad {s : Name} (h : validRef s = true) {c : Nat} (hb : badByte c = true) : c ∉ s := by
  intro m; rw [validRef_bytes h m] at hb; cases hb

/-! ### lines -/

theorem rawLines_line {l : Bytes} (rest : Bytes) (h : 0x0a ∉ l) :
    rawLines (l ++ 0x0a :: rest) = (l, true) :: rawLines rest := by
  induction l with
  | nil => simp [rawLines]
  | cons x xs ih =>
    have hx : x ≠ 0x0a := fun e => h (by simp [e])
    have hxs : 0x0a ∉ xs := fun m => h (by simp [m])
    simp [rawLines, hx, ih hxs]

/-! ### UTF-8 -/

theorem utf8Step_ascii_start {b : Nat} (h : b < 0x80) : utf8Step utf8Start b = some utf8Start := by
  simp [utf8Step, utf8Start, h]

/-- States reachable from `utf8Start`. -/
def GoodState (s : U8State) : Prop := s = utf8Start ∨ (0 < s.1 ∧ 0x80 ≤ s.2.1)

theorem utf8Step_good {s s' : U8State} {b : Nat} (hs : utf8Step s b = some s') : GoodState s' := by
  obtain ⟨n, lo, hi⟩ := s
  cases n with
  | zero =>
    simp only [utf8Step] at hs
    repeat' split at hs
    all_goals (cases hs <;> first | (left; rfl) | (right; decide))
  | succ n =>
    simp only [utf8Step] at hs
    split at hs
    · split at hs
      · simp only [Option.some.injEq] at hs; subst hs; left; rfl
      · simp only [Option.some.injEq] at hs; subst hs; right
        exact ⟨by simp only; omega, by simp⟩
    · cases hs

/-- An ASCII byte is only accepted between characters. -/
theorem utf8Step_ascii {s s' : U8State} {b : Nat} (h : b < 0x80) (hg : GoodState s)
    (hs : utf8Step s b = some s') : s = utf8Start ∧ s' = utf8Start := by
  rcases hg with rfl | ⟨h1, h2⟩
  · rw [utf8Step_ascii_start h] at hs
    exact ⟨rfl, (Option.some.inj hs).symm⟩
  · obtain ⟨n, lo, hi⟩ := s
    cases n with
    | zero => simp at h1
    | succ n =>
      simp only [utf8Step] at hs
      split at hs
      · simp only at h2; omega
      · cases hs

theorem utf8Run_append (s : U8State) (a b : Bytes) :
    utf8Run s (a ++ b) = (utf8Run s a).bind (fun s' => utf8Run s' b) := by
  induction a generalizing s with
  | nil => simp [utf8Run]
  | cons x xs ih =>
    simp only [List.cons_append, utf8Run]
    cases utf8Step s x with
    | none => simp
    | some s' => simp [ih]

theorem utf8Run_good {s s' : U8State} {a : Bytes} (hg : GoodState s) (h : utf8Run s a = some s') :
    GoodState s' := by
  induction a generalizing s with
  | nil => simp only [utf8Run, Option.some.injEq] at h; subst h; exact hg
  | cons x xs ih =>
    simp only [utf8Run] at h
    cases hst : utf8Step s x with
    | none => simp [hst] at h
    | some s1 => simp only [hst] at h; exact ih (utf8Step_good hst) h

theorem utf8Run_ascii {a : Bytes} (rest : Bytes) (h : ∀ b ∈ a, b < 0x80) :
    utf8Run utf8Start (a ++ rest) = utf8Run utf8Start rest := by
  induction a with
  | nil => rfl
  | cons x xs ih =>
    simp only [List.cons_append, utf8Run, utf8Step_ascii_start (h x (by simp))]
    exact ih (fun b hb => h b (by simp [hb]))

/-- Valid UTF-8 may be cut at an ASCII byte. -/
theorem utf8Valid_split {a n : Bytes} {c : Nat} (hc : c < 0x80) (h : utf8Valid (a ++ c :: n) = true) :
    utf8Valid a = true ∧ utf8Valid n = true := by
  simp only [utf8Valid, beq_iff_eq] at h ⊢
  rw [utf8Run_append] at h
  cases h1 : utf8Run utf8Start a with
  | none => simp [h1] at h
  | some s1 =>
    simp only [h1, Option.bind_some, utf8Run] at h
    cases h2 : utf8Step s1 c with
    | none => simp [h2] at h
    | some s2 =>
      simp only [h2] at h
      obtain ⟨e1, e2⟩ := utf8Step_ascii hc (utf8Run_good (Or.inl rfl) h1) h2
      subst e1 e2
      exact ⟨rfl, h⟩

theorem utf8Valid_append {a b : Bytes} (ha : utf8Valid a = true) (hb : utf8Valid b = true) :
    utf8Valid (a ++ b) = true := by
  simp only [utf8Valid, beq_iff_eq] at ha hb ⊢
  rw [utf8Run_append, ha]; simpa using hb

/-! ### hex -/

theorem hexDigit_ge (n : Nat) : 0x30 ≤ hexDigit n := by
  unfold hexDigit; split <;> omega

theorem hexDigit_lt {n : Nat} (h : n < 16) : hexDigit n < 0x80 := by
  unfold hexDigit; split <;> omega

theorem hexVal_hexDigit {n : Nat} (h : n < 16) : hexVal? (hexDigit n) = some n := by
  unfold hexDigit hexVal?
  split
  · rw [if_pos (by omega)]; congr 1; omega
  · rw [if_neg (by omega), if_pos (by omega)]; congr 1; omega

theorem hexVal_lt {c v : Nat} (h : hexVal? c = some v) : v < 16 := by
  unfold hexVal? at h
  repeat' split at h
  all_goals (cases h <;> omega)

theorem hexVals_map {o : List Nat} (h : ∀ n ∈ o, n < 16) : hexVals? (o.map hexDigit) = some o := by
  induction o with
  | nil => rfl
  | cons x xs ih =>
    simp [hexVals?, hexVal_hexDigit (h x (by simp)), ih (fun n hn => h n (by simp [hn]))]

theorem hexVals_spec {s vs : List Nat} (h : hexVals? s = some vs) :
    vs.length = s.length ∧ ∀ v ∈ vs, v < 16 := by
  induction s generalizing vs with
  | nil => simp only [hexVals?, Option.some.injEq] at h; subst h; simp
  | cons c cs ih =>
    simp only [hexVals?] at h
    split at h
    · rename_i v ws hv hws
      simp only [Option.some.injEq] at h; subst h
      obtain ⟨h1, h2⟩ := ih hws
      refine ⟨by simp [h1], ?_⟩
      intro x hx
      rcases List.mem_cons.mp hx with e | hx
      · rw [e]; exact hexVal_lt hv
      · exact h2 x hx
    · cases h

theorem oidFromStr_toStr {o : Oid} (h : WfOid o) : oidFromStr (oidToStr o) = some o := by
  obtain ⟨hl, hn⟩ := h
  simp [oidFromStr, oidToStr, hl, hexVals_map hn]

theorem oidFromStr_wf {s : Bytes} {o : Oid} (h : oidFromStr s = some o) : WfOid o := by
  unfold oidFromStr at h
  split at h
  · cases h
  · rename_i hlen
    split at h
    · cases h
    · rename_i vs hvs
      simp only [Option.some.injEq] at h; subst h
      obtain ⟨h1, h2⟩ := hexVals_spec hvs
      refine ⟨by simp only [List.length_append, List.length_replicate]; omega, ?_⟩
      intro n hn
      rcases List.mem_append.mp hn with m | m
      · exact h2 n m
      · rw [(List.mem_replicate.mp m).2]; decide

theorem oidToStr_inj {o o' : Oid} (h : WfOid o) (h' : WfOid o') (e : oidToStr o = oidToStr o') : o = o' := by
  have h1 := oidFromStr_toStr h
  rw [e, oidFromStr_toStr h'] at h1
  exact (Option.some.inj h1).symm

theorem oidToStr_length (o : Oid) : (oidToStr o).length = o.length := by simp [oidToStr]

theorem oidToStr_mem {o : Oid} {c : Nat} (h : c ∈ oidToStr o) : 0x30 ≤ c := by
  simp only [oidToStr, List.mem_map] at h
  obtain ⟨n, _, rfl⟩ := h
  exact hexDigit_ge n

/-! ### ordered insertion -/

theorem mem_insert {k : Name} {v : Oid} {l : Refs} {e : Name × Oid} (h : e ∈ insert k v l) :
    e = (k, v) ∨ e ∈ l := by
  induction l with
  | nil => simp [insert] at h; left; exact h
  | cons x xs ih =>
    obtain ⟨k', v'⟩ := x
    simp only [insert] at h
    split at h
    · rcases List.mem_cons.mp h with e1 | m
      · left; exact e1
      · right; exact m
    · split at h
      · rcases List.mem_cons.mp h with e1 | m
        · left; exact e1
        · right; exact List.mem_cons_of_mem _ m
      · rcases List.mem_cons.mp h with e1 | m
        · right; rw [e1]; simp
        · rcases ih m with e2 | m2
          · left; exact e2
          · right; exact List.mem_cons_of_mem _ m2

theorem insert_sorted {k : Name} {v : Oid} {l : Refs} (h : Sorted l) : Sorted (insert k v l) := by
  induction l with
  | nil => simp [insert, Sorted]
  | cons x xs ih =>
    obtain ⟨k', v'⟩ := x
    simp only [Sorted, List.pairwise_cons] at h
    obtain ⟨hx, hxs⟩ := h
    simp only [insert]
    split
    · rename_i hlt
      simp only [Sorted, List.pairwise_cons]
      refine ⟨?_, hx, hxs⟩
      intro e he
      rcases List.mem_cons.mp he with e1 | m
      · rw [e1]; exact hlt
      · exact ltB_trans hlt (hx e m)
    · rename_i hnlt
      split
      · rename_i heq
        subst heq
        simp only [Sorted, List.pairwise_cons]
        exact ⟨hx, hxs⟩
      · rename_i hne
        simp only [Sorted, List.pairwise_cons]
        refine ⟨?_, ih hxs⟩
        intro e he
        rcases mem_insert he with e1 | m
        · rw [e1]; exact ltB_total (by simpa using hnlt) hne
        · exact hx e m

theorem insert_append {k : Name} {v : Oid} {l : Refs} (h : ∀ e ∈ l, ltB e.1 k = true) :
    insert k v l = l ++ [(k, v)] := by
  induction l with
  | nil => rfl
  | cons x xs ih =>
    obtain ⟨k', v'⟩ := x
    have hk := h (k', v') (by simp)
    simp only [insert, ltB_asymm hk, Bool.false_eq_true, if_false, if_neg (ltB_ne hk).symm, List.cons_append]
    rw [ih (fun e he => h e (by simp [he]))]

end HeartwoodModel.Refs
