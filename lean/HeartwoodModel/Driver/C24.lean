import HeartwoodModel.Model.Stores
import HeartwoodModel.Driver.Util
/-! Driver entry for C24.

Case: `<store> <op> <op> …`, `store ∈ {routing, sync, refs, policy, gossip}`; every op is a `:`-separated
token. Output: one token per op (`result` for queries, `result|dump` for writes, where `dump` is the whole
table, sorted). All identifiers are small indices into pools fixed by the harness.

* `routing`: `add:<nid>:<t>:<rid,…>` → one of `S`/`T`/`N` per rid (SeedAdded/TimeUpdated/NotUpdated) ·
  `rm:<rid>:<nid>` → `0|1` · `rmm:<nid>:<rid,…>` → `ok` ·
  `prune:<oldest>:<limit|->:<ignore>:<deleted>` → count; `<deleted>` (`rid.nid,…` or `-`) is the set of rows
  the REAL code deleted: the model checks that it is the outcome of a legal selection of the inner `SELECT`
  (else `rejected`) · queries `entry:<rid>:<nid>`, `get:<rid>`, `inv:<nid>`, `len`, `count:<rid>`.
  Dump: `rid.nid@ts,…`.
* `sync`: `syn:<rid>:<nid>:<head>:<t>` → `0|1` · queries `for:<rid>`, `by:<nid>`. Dump: `rid.nid=head@ts,…`.
* `refs`: `set:<repo>:<ns>:<ref>:<oid>:<t>` → `0|1` · `del:<repo>:<ns>:<ref>` → `0|1` · `get:…` · `count`.
* `policy`: `follow:<id>:<alias>` `fpol:<id>:<a|b>` `unfollow:<id>` `unblockn:<id>` `seed:<id>:<f|a>`
  `spol:<id>:<a|b>` `unseed:<id>` `unblockr:<id>` → `0|1`. Dump: `F:id=alias/p,…;S:id=A.f|A.a|B,…`.
* `gossip`: `ann:<node>:<repo>:<type>:<payload>:<ts>` → rowid / `none` / `panic` (the run stops) ·
  `relay:<rowid>:<r|d|t<now>>` → `ok` · `relays:<now>` → `rowid:row,…` in rowid order · `prune:<cutoff>` → count ·
  queries `filt:<from>:<to>`, `last`. Dump: `node.repo.type=payload@ts,…`. -/
namespace HeartwoodModel.Driver.C24
open HeartwoodModel.Stores HeartwoodModel.Driver.Util

def insertBy (lt : α → α → Bool) (x : α) : List α → List α
  | [] => [x]
  | y :: ys => if lt x y then x :: y :: ys else y :: insertBy lt x ys

def sortBy (lt : α → α → Bool) (l : List α) : List α := l.foldl (fun acc x => insertBy lt x acc) []

def lexLt : List Nat → List Nat → Bool
  | [], [] => false
  | [], _ :: _ => true
  | _ :: _, [] => false
  | a :: as, b :: bs => if a < b then true else if b < a then false else lexLt as bs

def showRows (rows : List (List Nat × String)) : String :=
  if rows.isEmpty then "-" else joinWith "," ((sortBy (fun a b => lexLt a.1 b.1) rows).map (·.2))

def sortNats (l : List Nat) : List Nat := sortBy (fun a b => decide (a < b)) l

/-! ### routing -/

def dumpRouting (st : Routing) : String :=
  showRows (st.map fun e => ([e.1.1, e.1.2], s!"{e.1.1}.{e.1.2}@{e.2}"))

def parseKeys (s : String) : Option (List RKey) :=
  if s == "-" then some [] else
    (splitOn s ',').mapM fun k =>
      match splitOn k '.' with
      | [a, b] => do
        let a ← nat? a
        let b ← nat? b
        some (a, b)
      | _ => none

def sameSet (a b : List RKey) : Bool := a.all b.contains && b.all a.contains

/-- From the set of deleted rows, reconstruct a selection of the inner `SELECT` that explains it: all
candidates strictly older than the cut, the deleted rows at the cut, and as many rows of the ignored node at
the cut as are needed to fill the limit. -/
def guessSelection (st : Routing) (oldest : Nat) (limit : Option Nat) (ignore : Nat) (deleted : List RKey) :
    List RKey :=
  let cand := sortBy (fun a b => decide (a.2 < b.2)) (Routing.candidates st oldest)
  let k := Routing.selSize st oldest limit
  match (cand.drop (k - 1)).head? with
  | none => []
  | some cut =>
    if k = 0 then [] else
    let must := (cand.filter (fun e => e.2 < cut.2)).map (·.1)
    let ties := (cand.filter (fun e => e.2 = cut.2)).map (·.1)
    let chosen := ties.filter deleted.contains
    let fill := (ties.filter (fun key => key.2 = ignore)).take (k - must.length - chosen.length)
    must ++ chosen ++ fill

def routingOp (st : Routing) (f : List String) : Option (Routing × String) :=
  match f with
  | ["add", nid, t, rids] => do
    let nid ← nat? nid
    let t ← nat? t
    let rids ← nats? rids
    let r := Routing.add st rids nid t
    let chars := r.2.map fun
      | .seedAdded => "S"
      | .timeUpdated => "T"
      | .notUpdated => "N"
    some (r.1, s!"{joinWith "" chars}|{dumpRouting r.1}")
  | ["rm", rid, nid] => do
    let rid ← nat? rid
    let nid ← nat? nid
    let r := Routing.remove st rid nid
    some (r.1, s!"{showBool r.2}|{dumpRouting r.1}")
  | ["rmm", nid, rids] => do
    let nid ← nat? nid
    let rids ← nats? rids
    let r := Routing.removeMany st rids nid
    some (r, s!"ok|{dumpRouting r}")
  | ["prune", oldest, limit, ignore, deleted] => do
    let oldest ← nat? oldest
    let limit ← (if limit == "-" then some none else (nat? limit).map some)
    let ignore ← nat? ignore
    let deleted ← parseKeys deleted
    let sel := guessSelection st oldest limit ignore deleted
    match Routing.step st (.prune oldest limit ignore sel) with
    | none => some (st, "rejected")
    | some st' =>
      let gone := (st.filter (fun e => (find e.1 st').isNone)).map (·.1)
      if sameSet gone deleted then
        some (st', s!"{(Routing.pruneWith st ignore sel).2}|{dumpRouting st'}")
      else some (st, "rejected")
  | ["entry", rid, nid] => do
    let rid ← nat? rid
    let nid ← nat? nid
    some (st, match find (rid, nid) st with
      | some t => toString t
      | none => "-")
  | ["get", rid] => do
    let rid ← nat? rid
    some (st, showNats (sortNats (Routing.get st rid)))
  | ["inv", nid] => do
    let nid ← nat? nid
    some (st, showNats (sortNats (Routing.inventory st nid)))
  | ["len"] => some (st, toString st.length)
  | ["count", rid] => do
    let rid ← nat? rid
    some (st, toString (Routing.get st rid).length)
  | _ => none

/-! ### sync status -/

def dumpSync (st : SyncStatus) : String :=
  showRows (st.map fun e => ([e.1.1, e.1.2], s!"{e.1.1}.{e.1.2}={e.2.1}@{e.2.2}"))

def syncOp (st : SyncStatus) (f : List String) : Option (SyncStatus × String) :=
  match f with
  | ["syn", rid, nid, head, t] => do
    let rid ← nat? rid
    let nid ← nat? nid
    let head ← nat? head
    let t ← nat? t
    let r := Guarded.set st (rid, nid) head t
    some (r.1, s!"{showBool r.2}|{dumpSync r.1}")
  | ["for", rid] => do
    let rid ← nat? rid
    some (st, showRows ((st.filter (fun e => e.1.1 = rid)).map fun e => ([e.1.2], s!"{e.1.2}={e.2.1}@{e.2.2}")))
  | ["by", nid] => do
    let nid ← nat? nid
    some (st, showRows ((st.filter (fun e => e.1.2 = nid)).map fun e => ([e.1.1], s!"{e.1.1}={e.2.1}@{e.2.2}")))
  | _ => none

/-! ### refs -/

def dumpRefs (st : RefsDb) : String :=
  showRows (st.map fun e => ([e.1.1, e.1.2.1, e.1.2.2], s!"{e.1.1}.{e.1.2.1}.{e.1.2.2}={e.2.1}@{e.2.2}"))

def refsOp (st : RefsDb) (f : List String) : Option (RefsDb × String) :=
  match f with
  | ["set", repo, ns, rf, oid, t] => do
    let repo ← nat? repo
    let ns ← nat? ns
    let rf ← nat? rf
    let oid ← nat? oid
    let t ← nat? t
    let r := Guarded.set st (repo, ns, rf) oid t
    some (r.1, s!"{showBool r.2}|{dumpRefs r.1}")
  | ["del", repo, ns, rf] => do
    let repo ← nat? repo
    let ns ← nat? ns
    let rf ← nat? rf
    let r := Guarded.delete st (repo, ns, rf)
    some (r.1, s!"{showBool r.2}|{dumpRefs r.1}")
  | ["get", repo, ns, rf] => do
    let repo ← nat? repo
    let ns ← nat? ns
    let rf ← nat? rf
    some (st, match find (repo, ns, rf) st with
      | some (o, t) => s!"{o}@{t}"
      | none => "-")
  | ["count"] => some (st, toString st.length)
  | _ => none

/-! ### policies -/

def policy? (s : String) : Option Policy :=
  if s == "a" then some .allow else if s == "b" then some .block else none

def showPolicy : Policy → String
  | .allow => "a"
  | .block => "b"

def dumpPolicy (db : PolicyDb) : String :=
  let f := showRows (db.following.map fun e => ([e.1], s!"{e.1}={e.2.alias}/{showPolicy e.2.policy}"))
  let s := showRows (db.seeding.map fun e => ([e.1],
    match db.seedPolicy e.1 with
    | some (.allow .followed) => s!"{e.1}=A.f"
    | some (.allow .all) => s!"{e.1}=A.a"
    | some .block => s!"{e.1}=B"
    | none => s!"{e.1}=?"))
  s!"F:{f};S:{s}"

def policyOp (db : PolicyDb) (f : List String) : Option (PolicyDb × String) := do
  let op : POp ← (match f with
    | ["follow", id, a] => do
      let id ← nat? id
      let a ← nat? a
      some (POp.follow id a)
    | ["fpol", id, p] => do
      let id ← nat? id
      let p ← policy? p
      some (POp.setFollowPolicy id p)
    | ["unfollow", id] => (nat? id).map POp.unfollow
    | ["unblockn", id] => (nat? id).map POp.unblockNid
    | ["seed", id, s] => do
      let id ← nat? id
      let s ← (if s == "f" then some Scope.followed else if s == "a" then some Scope.all else none)
      some (POp.seed id s)
    | ["spol", id, p] => do
      let id ← nat? id
      let p ← policy? p
      some (POp.setSeedPolicy id p)
    | ["unseed", id] => (nat? id).map POp.unseed
    | ["unblockr", id] => (nat? id).map POp.unblockRid
    | _ => none)
  let r := db.step op
  some (r.1, s!"{showBool r.2}|{dumpPolicy r.1}")

/-! ### gossip -/

def showGRow (e : GKey × GRow) : String := s!"{e.1.1}.{e.1.2.1}.{e.1.2.2}={e.2.payload}@{e.2.ts}"

def dumpGossip (st : Gossip) : String :=
  showRows (st.map fun e => ([e.1.1, e.1.2.1, e.1.2.2], showGRow e))

def relay? (s : String) : Option Relay :=
  if s == "r" then some .relay
  else if s == "d" then some .dontRelay
  else if s.startsWith "t" then (nat? (String.ofList (s.toList.drop 1))).map .relayedAt
  else none

def validKey (repo ty : Nat) : Bool := (ty = 2 && repo ≥ 1) || (ty < 2 && repo = 0)

/-- `none` = malformed; `some (none, out)` = the store panicked. -/
def gossipOp (st : Gossip) (f : List String) : Option (Option Gossip × String) :=
  match f with
  | ["ann", node, repo, ty, p, ts] => do
    let node ← nat? node
    let repo ← nat? repo
    let ty ← nat? ty
    let p ← nat? p
    let ts ← nat? ts
    if !validKey repo ty then none else
    match Gossip.step st (.announced (node, repo, ty) p ts) with
    | none => some (none, "panic")
    | some (st', .id (some id)) => some (some st', s!"{id}|{dumpGossip st'}")
    | some (st', _) => some (some st', s!"none|{dumpGossip st'}")
  | ["relay", id, r] => do
    let id ← nat? id
    let r ← relay? r
    match Gossip.step st (.setRelay id r) with
    | some (st', _) => some (some st', "ok")
    | none => some (none, "panic")
  | ["relays", now] => do
    let now ← nat? now
    match Gossip.step st (.relays now) with
    | some (st', .rows rows) =>
      let rows := sortBy (fun a b => decide (a.2.rowid < b.2.rowid)) rows
      some (some st', if rows.isEmpty then "-" else joinWith "," (rows.map fun e => s!"{e.2.rowid}:{showGRow e}"))
    | _ => some (none, "panic")
  | ["prune", cutoff] => do
    let cutoff ← nat? cutoff
    match Gossip.step st (.prune cutoff) with
    | some (st', .count n) => some (some st', s!"{n}|{dumpGossip st'}")
    | _ => some (none, "panic")
  | ["filt", a, b] => do
    let a ← nat? a
    let b ← nat? b
    some (some st, dumpGossip (Gossip.filtered st a b))
  | ["last"] =>
    some (some st, match Gossip.last st with
      | some t => toString t
      | none => "-")
  | _ => none

/-! ### dispatch -/

def runOps (step : σ → List String → Option (σ × String)) : σ → List String → List String → Option (List String)
  | _, [], acc => some acc.reverse
  | st, op :: ops, acc =>
    match step st (splitOn op ':') with
    | none => none
    | some (st', out) => runOps step st' ops (out :: acc)

def runGossip : Gossip → List String → List String → Option (List String)
  | _, [], acc => some acc.reverse
  | st, op :: ops, acc =>
    match gossipOp st (splitOn op ':') with
    | none => none
    | some (none, out) => some (out :: acc).reverse
    | some (some st', out) => runGossip st' ops (out :: acc)

def run (args : List String) : String :=
  let res : Option (List String) :=
    match args with
    | "routing" :: ops => runOps routingOp [] ops []
    | "sync" :: ops => runOps syncOp [] ops []
    | "refs" :: ops => runOps refsOp [] ops []
    | "policy" :: ops => runOps policyOp ⟨[], []⟩ ops []
    | "gossip" :: ops => runGossip [] ops []
    | _ => none
  match res with
  | some outs => if outs.isEmpty then "empty" else joinWith " " outs
  | none => "bad-op"

end HeartwoodModel.Driver.C24
