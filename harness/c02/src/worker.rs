//! Node-level run of a scenario: two real `radicle-node` nodes (`radicle_node::test::environment`), the
//! serving one with the laboratory's serving repository in its storage, the fetching one calling
//! `handle.fetch`, i.e. `worker::fetch::Handle::{new, fetch}` over the real wire protocol. Observes the
//! fetcher's storage afterwards.
use std::collections::BTreeMap;

use fetchlab::{WorkerJob, WorkerObs};
use radicle::node::config::{Config, Relay};
use radicle::node::policy::Scope;
use radicle::node::{Alias, FetchResult, Handle as _};
use radicle::storage::ReadStorage;
use radicle_node::test::environment::Node;

/// A storage repository needs a resolvable `HEAD` to count as present (`Storage::contains` calls `head()`,
/// which otherwise needs a quorum of the delegates' branches): point `HEAD` at a `refs/heads/master` made
/// from some namespace's master, as `set_head` would after a successful fetch.
fn give_head(path: &std::path::Path) -> Result<(), String> {
    let repo = radicle::git::raw::Repository::open(path).map_err(|e| e.to_string())?;
    let mut target = None;
    for r in repo.references_glob("refs/namespaces/*/refs/heads/master").map_err(|e| e.to_string())?.flatten() {
        target = r.target();
        break;
    }
    if let Some(t) = target {
        repo.reference("refs/heads/master", t, true, "lab").map_err(|e| e.to_string())?;
        repo.set_head("refs/heads/master").map_err(|e| e.to_string())?;
    }
    Ok(())
}

fn refs_of(path: &std::path::Path) -> BTreeMap<String, String> {
    let mut out = BTreeMap::new();
    if let Ok(repo) = radicle::git::raw::Repository::open(path) {
        if let Ok(refs) = repo.references() {
            for r in refs.flatten() {
                if let (Some(n), Some(t)) = (r.name(), r.resolve().ok().and_then(|r| r.target())) {
                    out.insert(n.to_string(), t.to_string());
                }
            }
        }
    }
    out
}

/// A failure that says nothing about the property: the two nodes did not get to exchange the repository
/// (machine load, timeouts, connection problems). Everything else that makes a fetch fail is a verdict of
/// the fetch itself (threshold, validation, signatures, missing or diverged refs…).
fn is_infrastructure(reason: &str) -> bool {
    let r = reason.to_lowercase();
    [
        "handshake", "timed out", "timeout", "connection", "consume the pack", "not connected", "disconnect",
        "broken pipe", "reset", "eof", "i/o", "io error", "session", "unavailable", "busy", "would block",
        "channel", "worker", "no such file", "interrupted", "closed",
    ]
    .iter()
    .any(|k| r.contains(k))
}

/// Run the scenario through two fresh nodes; an infrastructure failure is retried (3 attempts in all, with a
/// generous fetch timeout). `Err("inconclusive: …")` if no attempt got a verdict.
pub fn run(job: &WorkerJob) -> Result<WorkerObs, String> {
    let mut last = String::new();
    for attempt in 0..3 {
        match attempt_once(job) {
            Ok(obs) if obs.success || !is_infrastructure(&obs.detail) => return Ok(obs),
            Ok(obs) => last = obs.detail,
            Err(e) => last = e,
        }
        std::thread::sleep(std::time::Duration::from_millis(500 * (attempt + 1)));
    }
    Err(format!("inconclusive: {last}"))
}

fn attempt_once(job: &WorkerJob) -> Result<WorkerObs, String> {
    // a panic inside the test environment (e.g. a node that did not come up under load) is infrastructure too
    match std::panic::catch_unwind(std::panic::AssertUnwindSafe(|| attempt(job))) {
        Ok(r) => r,
        Err(_) => Err("worker environment panicked".to_string()),
    }
}

fn attempt(job: &WorkerJob) -> Result<WorkerObs, String> {
    // test knob: pretend the nodes never connect
    if std::env::var("FETCHLAB_WORKER_UNREACHABLE").is_ok() {
        return Err("connection timed out (forced)".to_string());
    }
    let tmp = tempfile::tempdir().map_err(|e| e.to_string())?;
    let cfg = |alias: &'static str| Config { relay: Relay::Always, ..Config::test(Alias::new(alias)) };
    let server = Node::init(tmp.path(), cfg("server"));
    let fetcher = Node::init(tmp.path(), cfg("fetcher"));
    let s_dst = server.storage.path_of(&job.rid);
    fetchlab::copy_tree(job.server_repo, &s_dst).map_err(|e| e.to_string())?;
    give_head(&s_dst)?;
    let f_dst = fetcher.storage.path_of(&job.rid);
    if let Some(l) = job.local_repo {
        fetchlab::copy_tree(l, &f_dst).map_err(|e| e.to_string())?;
        give_head(&f_dst)?;
    }
    let before = refs_of(&f_dst);
    let mut server = server.spawn();
    let mut fetcher = fetcher.spawn();
    // the serving node only serves repositories it seeds
    server.handle.seed(job.rid, Scope::All).map_err(|e| e.to_string())?;
    fetcher.connect(&server);
    fetcher.handle.seed(job.rid, Scope::All).map_err(|e| e.to_string())?;
    let result = fetcher.handle.fetch(job.rid, server.id, std::time::Duration::from_secs(90)).map_err(|e| e.to_string())?;
    let (success, detail) = match &result {
        FetchResult::Success { .. } => (true, String::new()),
        FetchResult::Failed { reason } => (false, reason.clone()),
    };
    if std::env::var("FETCHLAB_TIMING").is_ok() { eprintln!("node-level result: {result:?}"); }
    let dir = f_dst.exists();
    let opens = fetcher.storage.repository(job.rid).is_ok();
    let contains = match fetcher.storage.contains(&job.rid) {
        Ok(true) => "true".to_string(),
        Ok(false) => "false".to_string(),
        Err(_) => "error".to_string(),
    };
    let refs_unchanged = refs_of(&f_dst) == before;
    Ok(WorkerObs { success, dir, opens, contains, refs_unchanged, detail })
}
