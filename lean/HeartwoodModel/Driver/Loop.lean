/-!
Line-protocol loop shared by the per-property driver executables: reads case lines
`<prop> <caseid> <token>…` from stdin and prints `<prop> <caseid> => <model output>` for each.
Import-free so that the executables link.
-/
namespace HeartwoodModel.Driver

partial def loop (prop : String) (run : List String → String) (h out : IO.FS.Stream) : IO Unit := do
  let line ← h.getLine
  if line.isEmpty then return ()
  -- strip only the line terminator: trailing spaces can be significant (empty last token)
  let l := (line.dropEndWhile (fun c => c == '\n' || c == '\r')).toString
  if l.isEmpty || l.startsWith "#" then
    loop prop run h out
  else
    match l.splitOn " " with
    | p :: cid :: args =>
      if p == prop then out.putStrLn s!"{p} {cid} => {run args}"
      else out.putStrLn s!"{p} {cid} => bad-prop"
      loop prop run h out
    | _ =>
      out.putStrLn s!"? ? => bad-line"
      loop prop run h out

def driverMain (prop : String) (run : List String → String) : IO Unit := do
  let stdin ← IO.getStdin
  let stdout ← IO.getStdout
  loop prop run stdin stdout
  stdout.flush

end HeartwoodModel.Driver
