import HeartwoodModel.Driver.Loop
import HeartwoodModel.Driver.C13
def main : IO Unit := HeartwoodModel.Driver.driverMain "C13" HeartwoodModel.Driver.C13.run
