import HeartwoodModel.Lemmas.Fetch
/-!
# C02 — Fetches respect the delegate threshold and never rewind delegate sigrefs

Property theorems about `Model/Fetch.lean` (`fetch env cfg L A = (outcome, post)`), the model shared with C01.

* `delegate_sigrefs_monotone` (from `sigrefs_monotone`, which holds for *every* namespace): a stored
  `rad/sigrefs` is, after any fetch and for every outcome, the same commit or one that git ancestry reports as
  `Ahead` of it — never behind, never diverged, never deleted.
* `below_threshold_fails_unchanged`: if fewer delegates than the threshold in force can have valid signed
  refs at all (stored before the fetch, or validly offered by it), the fetch does not succeed and storage is
  unchanged; `failed_unchanged`: `Failed` always means unchanged.
* `threshold_arith`: the threshold in force is the identity threshold, minus one iff the local node is a
  delegate; blocked delegates — and, on `pull`, the local node — are not among the delegates that count.
-/
set_option linter.unusedSimpArgs false
set_option linter.unusedVariables false
namespace HeartwoodModel.Fetch

/-- **A fetch never moves a `rad/sigrefs` reference backwards or sideways** — of any namespace, for every
input and every outcome (success, failure, error with partial application). -/
theorem sigrefs_monotone (env : Env) (hw : EnvWf env) (cfg : Config) (L A : Refdb) (k : Key) (c : Oid) (hc : L.get (k, env.nSig) = some c) :
    ∃ c', (fetch env cfg L A).2.get (k, env.nSig) = some c' ∧ (c' = c ∨ env.anc c c' = some .ahead) := by
  rcases fetch_cases env cfg L A with ⟨h, _⟩ | ⟨anchor, stage, sr, l, _, hs, hsr, hl, _, hpost, _⟩
  · exact ⟨c, by rw [h]; exact hc, Or.inl rfl⟩
  · rw [hpost]
    obtain ⟨hsorted, hfacts⟩ := loop_remotes_spec hsr hl
    exact sigrefs_monotone_aux env hw l.remotes hsorted hfacts k c hc

/-- **C02, first sentence**: for every delegate of the identity document that anchors the fetch (blocked or
not, local or not) with a stored signed-refs commit `c`, the commit stored after the fetch is `c` or a commit
`Ahead` of `c`. -/
theorem delegate_sigrefs_monotone (env : Env) (hw : EnvWf env) (cfg : Config) (L A : Refdb)
    (anchor : Doc) (_ha : anchorOf cfg = some anchor)
    (d : Key) (_hd : d ∈ anchor.delegates) (c : Oid) (hc : L.get (d, env.nSig) = some c) :
    ∃ c', (fetch env cfg L A).2.get (d, env.nSig) = some c' ∧ (c' = c ∨ env.anc c c' = some .ahead) :=
  sigrefs_monotone env hw cfg L A d c hc

/-- The special references offered by the fetch (advertised `rad/id` / `rad/sigrefs` that pass the scope and
block-list filters, or the announced `refs_at`). -/
def offer (env : Env) (cfg : Config) (anchor : Doc) (A : Refdb) : Refdb :=
  match specialStage env cfg (blockedOf cfg) (delegatesOf cfg anchor) (thresholdOf cfg anchor) A with
  | .ok stage => stage.sp
  | .error _ => []

/-- **C02, second sentence**: if fewer delegates than the threshold in force can have valid signed refs —
counting every considered delegate with a `rad/sigrefs` stored before the fetch or validly offered by it — the
fetch does not report success and local storage is unchanged. -/
theorem below_threshold_fails_unchanged (env : Env) (cfg : Config) (L A : Refdb) (anchor : Doc)
    (ha : anchorOf cfg = some anchor) (hnd : anchor.delegates.Nodup)
    (hlt : (canBeValid env L (offer env cfg anchor A) (delegatesOf cfg anchor)).length < thresholdOf cfg anchor) :
    (fetch env cfg L A).2 = L ∧ ∀ rs, (fetch env cfg L A).1 ≠ .success rs := by
  rcases fetch_cases env cfg L A with h | ⟨anchor', stage, sr, l, ha', hs, hsr, hl, hge, _, _⟩
  · exact h
  · exfalso
    rw [ha] at ha'; injection ha' with ha'; subst ha'
    have hoffer : offer env cfg anchor A = stage.sp := by unfold offer; rw [hs]
    rw [hoffer] at hlt
    obtain ⟨hload, _⟩ := remoteRefsLoad_spec stage.loadKeys [] sr hsr (by simp) List.Pairwise.nil
    have hnd' : (delegatesOf cfg anchor).Nodup := hnd.filter _
    obtain ⟨hsub, hvnd⟩ := validateAll_valid sr _ l hl hload
      (by
        intro x hx
        simp only [storedDelegates, List.mem_filter] at hx
        unfold canBeValid
        rw [List.mem_filter]
        exact ⟨hx.1, by simp [hx.2]⟩)
      (hnd'.filter _)
    have := length_le_of_subset_nodup hvnd hsub
    omega

/-- `FetchResult::Failed` leaves local storage unchanged. -/
theorem failed_unchanged (env : Env) (cfg : Config) (L A : Refdb)
    (h : (fetch env cfg L A).1 = .failed) : (fetch env cfg L A).2 = L := by
  rcases fetch_cases env cfg L A with ⟨h', _⟩ | ⟨_, _, _, _, _, _, _, _, _, _, hout⟩
  · exact h'
  · rcases hout with ho | ho <;> (rw [ho] at h; cases h)

/-- **Threshold arithmetic**: the threshold in force is the identity threshold minus one iff the local node
is a delegate of the anchoring document; the delegates that count are those of the document that are not
blocked; on `pull` the local node is never among them. -/
theorem threshold_arith (cfg : Config) (anchor : Doc) :
    (cfg.localKey ∈ anchor.delegates → thresholdOf cfg anchor = anchor.threshold - 1) ∧
    (cfg.localKey ∉ anchor.delegates → thresholdOf cfg anchor = anchor.threshold) ∧
    (∀ d, d ∈ delegatesOf cfg anchor ↔ d ∈ anchor.delegates ∧ d ∉ blockedOf cfg) ∧
    (∀ d, d ∈ cfg.blocked → d ∈ blockedOf cfg) ∧
    (cfg.isClone = false → cfg.localKey ∉ delegatesOf cfg anchor) := by
  refine ⟨?_, ?_, ?_, ?_, ?_⟩
  · intro h; simp [thresholdOf, h]
  · intro h; simp [thresholdOf, h]
  · intro d; simp [delegatesOf, List.mem_filter]
  · intro d hd; unfold blockedOf; split
    · exact hd
    · exact List.mem_cons_of_mem _ hd
  · intro hc hin
    simp only [delegatesOf, List.mem_filter, blockedOf, hc] at hin
    simp at hin

/-! ## Non-vacuity -/

namespace Witness2

/-- names: 0 = `refs/rad/id`, 1 = `refs/rad/sigrefs`, 2 = `refs/heads/master`; delegates 0 and 1, threshold 2;
each delegate's namespace: `rad/sigrefs` (commit 20 + 100·key) and `master`. -/
def blobOf (m : Oid) : Blob := { refs := [(2, m)], sigOk := true, idRoot := .absent }

def env : Env :=
  { nId := 0, nSig := 1, isRad := fun n => decide (n ≤ 1),
    blob := fun k t =>
      if k = 0 ∧ t = 20 then some (blobOf 30) else if k = 0 ∧ t = 21 then some (blobOf 31)
      else if k = 1 ∧ t = 120 then some (blobOf 130)
      else if k = 1 ∧ t = 121 then some { refs := [(2, 131)], sigOk := false, idRoot := .absent }
      else none,
    anc := fun a b => if (a = 20 ∧ b = 21) ∨ (a = 30 ∧ b = 31) then some .ahead
                      else if (a = 21 ∧ b = 20) then some .behind else some .diverged }

def doc : Doc := { delegates := [0, 1], threshold := 2 }
def cfg (clone : Bool) : Config :=
  { localDoc := if clone then none else some doc, advDoc := some doc, localKey := 5, isClone := clone,
    scope := none, blocked := [], refsAt := none }
def L : Refdb := [((0, 1), 21), ((0, 2), 31), ((1, 1), 120), ((1, 2), 130)]

theorem envWf : EnvWf env := by
  refine ⟨by decide, by decide, by decide, ?_⟩
  intro k t b h
  simp only [env] at h
  repeat' (split at h)
  all_goals first | (injection h with h; subst h; simp [blobOf]) | cases h

end Witness2

open Witness2 in
/-- Monotonicity is exercised: the server offers delegate 0's OLDER commit 20 (behind the stored 21): the
fetch succeeds, and `rad/sigrefs` of delegate 0 stays at 21. -/
example : EnvWf env ∧
    L.get (0, env.nSig) = some 21 ∧
    fetch env (cfg false) L [((0, 1), 20), ((1, 1), 120)] = (.success [1], L) := by
  refine ⟨envWf, by decide, rfl⟩

open Witness2 in
/-- The hypothesis of `below_threshold_fails_unchanged` is satisfiable: a clone (nothing stored) in which
delegate 1 is offered only with an invalid signature cannot reach the threshold 2. -/
example : anchorOf (cfg true) = some doc ∧ doc.delegates.Nodup ∧
    (canBeValid env [] (offer env (cfg true) doc [((0, 1), 20), ((1, 1), 121)])
      (delegatesOf (cfg true) doc)).length < thresholdOf (cfg true) doc ∧
    (fetch env (cfg true) [] [((0, 1), 20), ((1, 1), 121)]).1 = .error := by
  refine ⟨rfl, by decide, by decide, rfl⟩

open Witness2 in
/-- … and with delegate 1 not offered at all the outcome is `Failed`. -/
example : (canBeValid env [] (offer env (cfg true) doc [((0, 0), 9), ((0, 1), 20)])
      (delegatesOf (cfg true) doc)).length < thresholdOf (cfg true) doc ∧
    fetch env (cfg true) [] [((0, 0), 9), ((0, 1), 20)] = (.failed, []) := by
  refine ⟨by decide, rfl⟩

end HeartwoodModel.Fetch
