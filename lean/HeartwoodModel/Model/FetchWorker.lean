import HeartwoodModel.Model.Fetch
/-!
# One level above `radicle_fetch`: `radicle_node::worker::fetch::Handle::{new, fetch}`

`Handle::new` looks at `storage.contains(rid)`: an existing repository is pulled in place; otherwise the
clone goes into a temporary directory next to the storage (`Storage::lock_repository`), which `fetch` then
renames into the storage (`mv`). Modelled: the node-level outcome and whether a repository directory exists
in the node's storage afterwards.

`workerFetch` is the CURRENT code: `radicle_fetch::clone(..)?` — an `Err` returns early and the temporary
directory is dropped (deleted) — then `mv(tmp, storage, &rid)?` UNCONDITIONALLY, and only then
`FetchResult::Failed` is turned into `Err(Validation)`: a clone that fails the delegate threshold leaves
the (reference-less) repository directory in storage. `workerFetchRepaired` moves the directory only for
`FetchResult::Success` (fixes-pending/C02-failed-clone-leaves-repo.patch).
-/
namespace HeartwoodModel.FetchWorker
open HeartwoodModel.Fetch

structure WResult where
  /-- `Ok(FetchResult)` of the worker, i.e. `FetchResult::Success` at the node API -/
  success : Bool
  /-- a repository directory for the rid exists in the node's storage afterwards -/
  dirPresent : Bool
  deriving DecidableEq, Repr

def isSuccess : Outcome → Bool
  | .success _ => true
  | _ => false

/-- The current `Handle::fetch`; `existed` = the repository was in storage before (pull). -/
def workerFetch (existed : Bool) (o : Outcome) : WResult :=
  if existed then { success := isSuccess o, dirPresent := true }
  else
    match o with
    | .success _ => { success := true, dirPresent := true }
    | .failed => { success := false, dirPresent := true }
    | .error => { success := false, dirPresent := false }
    | .panic => { success := false, dirPresent := false }

/-- The repaired `Handle::fetch`: the temporary clone is moved into storage iff the fetch succeeded. -/
def workerFetchRepaired (existed : Bool) (o : Outcome) : WResult :=
  if existed then { success := isSuccess o, dirPresent := true }
  else { success := isSuccess o, dirPresent := isSuccess o }

/-- The configuration a node-level fetch runs `radicle_fetch` with in the harness scenarios: the node's own
key owns no namespace and is no delegate; seeding scope `all`; nobody blocked; no announced `refs_at`. -/
def nodeConfig (cfg : Config) (nodeKey : Key) : Config :=
  { cfg with localKey := nodeKey, scope := none, blocked := [], refsAt := none }

end HeartwoodModel.FetchWorker
