import HeartwoodModel.Model.Json
/-!
# Model of `radicle/src/identity/doc.rs` (C19) — identity documents

* `RawDoc.verified` (`Delegates::new`, `Threshold::new`), `Doc.edit` (`toRaw`);
* the serde layer: `RawDoc.ofJson` mirrors `#[derive(Deserialize)]` for `RawDoc` (map *and* sequence form,
  duplicate-field errors, ignored unknown fields, defaults for `version` and `visibility`,
  `Version::deserialize`, the internally tagged `Visibility`), `Doc.toJson` mirrors
  `#[derive(Serialize)]` for `Doc` (fields in declaration order, `version ≤ 1` and public visibility
  skipped); JSON values are the member-list values of `Model/Json.lean`;
* `Doc.encode` = the canonical formatter on `toJson`; the repository id is `hash (encode doc)`.

Opaque parameters (graphs sent with each case): `parseDid : Bytes → Option Did` / `showDid : Did → Bytes`
(`Did::decode` / `Did::encode`: multibase base-58 of a multicodec-prefixed Ed25519 key — the subject of
C21), `nfc`, and `hash : Bytes → Oid` (git blob hash). A `Did` is an abstract natural; the harness numbers
its keys so that `Nat` order is the `Ord` of `Did` (needed for the `BTreeSet<Did>` of `Visibility`).
-/
namespace HeartwoodModel.Doc
open HeartwoodModel.Json

abbrev Did := Nat

def MAX_DELEGATES : Nat := 255
def IDENTITY_VERSION : Nat := 1
def u32Max : Int := 4294967295
def u64Max : Int := 18446744073709551615

inductive DocErr where
  /-- `DocError::Json`: the serde layer refused the document (including an unsupported `version`) -/
  | json
  /-- `DocError::Delegates` -/
  | delegates
  /-- `DocError::Threshold` -/
  | threshold
  deriving Repr, DecidableEq

inductive Visibility where
  | pub
  /-- `allow: BTreeSet<Did>`: kept strictly increasing -/
  | priv (allow : List Did)
  deriving Repr, DecidableEq

/-- `RawDoc`. `version` is a `Version` in Rust (only constructible through `Version::new`, the constant
`IDENTITY_VERSION` or `missing_version`); here a `Nat` that the producers below keep in range. `payload` is
the `BTreeMap<PayloadId, Payload>` as a list ordered by key, values in `serde_json::Value` form (`Json.norm`). -/
structure RawDoc where
  version : Nat
  payload : List (Bytes × Json)
  delegates : List Did
  threshold : Nat
  visibility : Visibility
  deriving Repr

structure Doc where
  version : Nat
  payload : List (Bytes × Json)
  delegates : List Did
  threshold : Nat
  visibility : Visibility
  deriving Repr

/-! ## `RawDoc::verified` -/

/-- The `try_fold` of `Delegates::new`: `acc` is the vector built so far. -/
def dedupe : (acc : List Did) → List Did → Except DocErr (List Did)
  | acc, [] => .ok acc
  | acc, d :: rest =>
    if acc.contains d then dedupe acc rest
    else if acc.length ≥ MAX_DELEGATES then .error .delegates
    else dedupe (acc ++ [d]) rest

/-- `Delegates::new` -/
def delegatesNew (ds : List Did) : Except DocErr (List Did) :=
  match dedupe [] ds with
  | .error e => .error e
  | .ok l => if l.isEmpty then .error .delegates else .ok l

/-- `Threshold::new(t, &delegates)` with `n = delegates.len()` -/
def thresholdNew (t n : Nat) : Except DocErr Nat :=
  if t > MAX_DELEGATES then .error .threshold
  else if t > n then .error .threshold
  else if t = 0 then .error .threshold
  else .ok t

/-- `RawDoc::verified` -/
def RawDoc.verified (r : RawDoc) : Except DocErr Doc :=
  match delegatesNew r.delegates with
  | .error e => .error e
  | .ok ds =>
    match thresholdNew r.threshold ds.length with
    | .error e => .error e
    | .ok t => .ok { version := r.version, payload := r.payload, delegates := ds, threshold := t,
                     visibility := r.visibility }

/-- `Doc::edit` -/
def Doc.toRaw (d : Doc) : RawDoc :=
  { version := d.version, payload := d.payload, delegates := d.delegates, threshold := d.threshold,
    visibility := d.visibility }

/-! ## Deserialisation (`#[derive(Deserialize)]` over serde_json) -/

/-- What the derived `visit_map` knows about one field after scanning all members. -/
inductive Field where
  | missing
  | dup
  | one (v : Json)

def field (name : Bytes) (kvs : List (Bytes × Json)) : Field :=
  match kvs.filter (fun kv => kv.1 == name) with
  | [] => .missing
  | [kv] => .one kv.2
  | _ => .dup

def sVersion : Bytes := [118, 101, 114, 115, 105, 111, 110]
def sPayload : Bytes := [112, 97, 121, 108, 111, 97, 100]
def sDelegates : Bytes := [100, 101, 108, 101, 103, 97, 116, 101, 115]
def sThreshold : Bytes := [116, 104, 114, 101, 115, 104, 111, 108, 100]
def sVisibility : Bytes := [118, 105, 115, 105, 98, 105, 108, 105, 116, 121]
def sType : Bytes := [116, 121, 112, 101]
def sAllow : Bytes := [97, 108, 108, 111, 119]
def sPublic : Bytes := [112, 117, 98, 108, 105, 99]
def sPrivate : Bytes := [112, 114, 105, 118, 97, 116, 101]

/-- `Version::deserialize`: `u32::deserialize` then `Version::new`. -/
def parseVersion : Json → Option Nat
  | .int i =>
    if 0 ≤ i ∧ i ≤ u32Max then
      if i.toNat = 0 then none
      else if i.toNat > IDENTITY_VERSION then none
      else some i.toNat
    else none
  | _ => none

/-- `usize::deserialize` (64-bit) -/
def parseThreshold : Json → Option Nat
  | .int i => if 0 ≤ i ∧ i ≤ u64Max then some i.toNat else none
  | _ => none

def parseDidJson (parseDid : Bytes → Option Did) : Json → Option Did
  | .str s => parseDid s
  | _ => none

/-- `Vec<Did>::deserialize` -/
def parseDids (parseDid : Bytes → Option Did) : Json → Option (List Did)
  | .arr xs => xs.mapM (parseDidJson parseDid)
  | _ => none

/-- `BTreeSet::insert` on a strictly increasing list. -/
def setInsert (d : Did) : List Did → List Did
  | [] => [d]
  | x :: xs => if d < x then d :: x :: xs else if x < d then x :: setInsert d xs else x :: xs

def setOfList (ds : List Did) : List Did := ds.foldl (fun s d => setInsert d s) []

/-- `BTreeMap<PayloadId, Payload>::deserialize`: any object; keys are unvalidated strings (`TypeName`
derives `Deserialize`), values are `serde_json::Value`s. -/
def parsePayload : Json → Option (List (Bytes × Json))
  | .obj kvs => some (mapOfList id (kvs.map (fun kv => (kv.1, norm kv.2))))
  | _ => none

/-- The variant identifier of the internally tagged `Visibility` (a string; serde_json refuses a
variant index here). -/
def parseTag : Json → Option Bool
  | .str s => if s == sPublic then some false else if s == sPrivate then some true else none
  | _ => none

/-- The `allow` field of `Visibility::Private` (`#[serde(default)]`). -/
def parseAllow (parseDid : Bytes → Option Did) : Field → Option (List Did)
  | .missing => some []
  | .dup => none
  | .one v => (parseDids parseDid v).map setOfList

/-- `Visibility::deserialize` (internally tagged, `tag = "type"`): map form — exactly one `type` member,
all other members are the content; the unit variant ignores its content, the struct variant reads
`allow` from it. Sequence form — first element is the tag, the rest is the content sequence. -/
def parseVisibility (parseDid : Bytes → Option Did) : Json → Option Visibility
  | .obj kvs =>
    match field sType kvs with
    | .one t =>
      match parseTag t with
      | some false => some .pub
      | some true =>
        (parseAllow parseDid (field sAllow (kvs.filter (fun kv => !(kv.1 == sType))))).map .priv
      | none => none
    | _ => none
  | .arr (t :: content) =>
    match parseTag t with
    | some false => if content.isEmpty then some .pub else none
    | some true =>
      match content with
      | [] => some (.priv [])
      | [a] => (parseAllow parseDid (.one a)).map .priv
      | _ => none
    | none => none
  | _ => none

def RawDoc.ofFields (parseDid : Bytes → Option Did) (ver pay del thr vis : Field) : Option RawDoc :=
  match ver, pay, del, thr, vis with
  | .dup, _, _, _, _ => none
  | _, _, _, _, .dup => none
  | ver, .one p, .one d, .one t, vis =>
    let version := match ver with | .one v => parseVersion v | _ => some IDENTITY_VERSION
    let visibility := match vis with | .one v => parseVisibility parseDid v | _ => some .pub
    match version, parsePayload p, parseDids parseDid d, parseThreshold t, visibility with
    | some version, some payload, some delegates, some threshold, some visibility =>
      some { version, payload, delegates, threshold, visibility }
    | _, _, _, _, _ => none
  | _, _, _, _, _ => none

/-- `RawDoc::deserialize` from a parsed JSON text (`RawDoc::from_json`). -/
def RawDoc.ofJson (parseDid : Bytes → Option Did) : Json → Option RawDoc
  | .obj kvs =>
    RawDoc.ofFields parseDid (field sVersion kvs) (field sPayload kvs) (field sDelegates kvs)
      (field sThreshold kvs) (field sVisibility kvs)
  | .arr [a, b, c, d] => RawDoc.ofFields parseDid (.one a) (.one b) (.one c) (.one d) .missing
  | .arr [a, b, c, d, e] => RawDoc.ofFields parseDid (.one a) (.one b) (.one c) (.one d) (.one e)
  | _ => none

/-- `Doc::from_blob` / `Doc::deserialize` (`#[serde(try_from = "RawDoc")]`): parse, then `verified`. -/
def Doc.decode (parseDid : Bytes → Option Did) (j : Json) : Except DocErr Doc :=
  match RawDoc.ofJson parseDid j with
  | none => .error .json
  | some raw => raw.verified

/-! ## Serialisation (`#[derive(Serialize)]`) and `Doc::encode` -/

def didsJson (showDid : Did → Bytes) (ds : List Did) : Json := .arr (ds.map (fun d => .str (showDid d)))

def Visibility.toJson (showDid : Did → Bytes) : Visibility → Json
  | .pub => .obj [(sType, .str sPublic)]
  | .priv allow =>
    if allow.isEmpty then .obj [(sType, .str sPrivate)]
    else .obj [(sType, .str sPrivate), (sAllow, didsJson showDid allow)]

def Visibility.isPublic : Visibility → Bool
  | .pub => true
  | .priv _ => false

def Doc.toJson (showDid : Did → Bytes) (d : Doc) : Json :=
  .obj ((if d.version ≤ 1 then [] else [(sVersion, .int d.version)]) ++
        [(sPayload, .obj d.payload), (sDelegates, didsJson showDid d.delegates), (sThreshold, .int d.threshold)] ++
        (if d.visibility.isPublic then [] else [(sVisibility, d.visibility.toJson showDid)]))

/-- `Doc::encode`, the bytes. `none` = serialisation error (a float in a payload). -/
def Doc.encode (nfc : Bytes → Bytes) (showDid : Did → Bytes) (d : Doc) : Option Bytes :=
  Json.encode nfc (d.toJson showDid)

/-- The value the canonical bytes denote (what a JSON parser reads back). -/
def Doc.canonJson (nfc : Bytes → Bytes) (showDid : Did → Bytes) (d : Doc) : Option Json :=
  canon nfc (d.toJson showDid)

/-- Encode, then decode what was written. -/
def Doc.roundtrip (nfc : Bytes → Bytes) (showDid : Did → Bytes) (parseDid : Bytes → Option Did) (d : Doc) :
    Option (Except DocErr Doc) :=
  (d.canonJson nfc showDid).map (Doc.decode parseDid)

/-! ## Equality of documents (`PartialEq`) -/

/-- `BTreeMap<PayloadId, Payload>: PartialEq`: same keys in the same (sorted) order, equal `Value`s. -/
def payloadEqv : List (Bytes × Json) → List (Bytes × Json) → Bool
  | [], [] => true
  | (k, v) :: xs, (l, w) :: ys => k == l && v.eqv w && payloadEqv xs ys
  | _, _ => false

def Doc.beq (a b : Doc) : Bool :=
  a.version == b.version && payloadEqv a.payload b.payload && a.delegates == b.delegates &&
  a.threshold == b.threshold && a.visibility == b.visibility

/-! ## Repository id -/

/-- `Repository::init` / `Doc::encode`: the id is the blob hash of the canonical bytes, which are also
the bytes stored as `embeds/radicle.json` in the root commit (`Transaction::revision`). -/
def initRepo {Oid : Type} (hash : Bytes → Oid) (nfc : Bytes → Bytes) (showDid : Did → Bytes) (d : Doc) :
    Option (Oid × Bytes) :=
  (d.encode nfc showDid).map (fun b => (hash b, b))

/-- The binding check of `Identity::from_root`: `root.blob != *repo.id()` where `root.blob` is the object
id git computed for the stored blob. -/
def rootMatches {Oid : Type} [DecidableEq Oid] (hash : Bytes → Oid) (rid : Oid) (stored : Bytes) : Bool :=
  hash stored == rid

end HeartwoodModel.Doc
