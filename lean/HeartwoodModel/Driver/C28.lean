/-! Driver entry for property C28 (stub: not implemented yet). -/
namespace HeartwoodModel.Driver.C28

def run (_args : List String) : String := "unimplemented"

end HeartwoodModel.Driver.C28
