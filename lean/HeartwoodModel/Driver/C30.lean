/-! Driver entry for property C30 (stub: not implemented yet). -/
namespace HeartwoodModel.Driver.C30

def run (_args : List String) : String := "unimplemented"

end HeartwoodModel.Driver.C30
