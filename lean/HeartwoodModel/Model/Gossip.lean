import HeartwoodModel.Model.Timestamp
/-!
# Model of the gossip state machine of `radicle-node/src/service.rs` (C10, C11, C29)

What is modelled (as read from the code, including the `fix:` commits on `/repo` main):

* `Service::handle_message` for `Message::Announcement` (→ `handle_announcement`, `relay`,
  `gossip::Store::set_relay`) and `Message::Subscribe` (replay of stored gossip, with the visibility
  filter of the C11 fix and the "repository not in storage ⇒ replay" residual);
* `gossip::Store` on SQLite: `announced` (upsert keyed by `(node, repo, type)`, `WHERE timestamp < new`,
  the **rowid survives an update**, new rows get `max(rowid)+1`), `set_relay`, `relays`, `filtered`, `prune`;
* `relayed_by : HashMap<AnnouncementId (= rowid), Vec<NodeId>>` — never cleaned;
* `Service::wake`: the gossip task (`relay_announcements`), the announce task (`announce_inventory`)
  and the prune task, each guarded by its `last_*` timer;
* `Service::connected` / `disconnected` for non-persistent peers (session created / removed; the
  cached node and inventory announcements are re-signed and sent on connect);
* the sites that create announcements signed by the node: `initialize` (pre-loaded refs announcements,
  inventory), `add_inventory`, `remove_inventory` (via `unseed`), `refs_announcement_for`
  (← `announce_refs` ← `Command::AnnounceRefs` and `fetched`), all through `Service::timestamp`;
* the address book (`nodes`/`addresses` upsert `WHERE timestamp < new`), the routing table
  (`add_inventory`, `sync_routing`), the seeding policy, the local `repo-sync-status` rows.

Not modelled (no influence on what is compared): pings, fetch scheduling (every fetch the harness
sees is failed at once), rate limiting (never reached), persistent peers, `maintain_connections`
(`PeerConfig::Static`), events, the refs cache database.

Identifiers: node ids are naturals, **`0` is the local node**. Repository ids are naturals.
Time is milliseconds (`Nat`); `LocalTime - LocalTime` and `Timestamp::saturating_sub` saturate, as `Nat`
subtraction does.
-/
namespace HeartwoodModel.Gossip
open HeartwoodModel.Timestamp

/-! ## Announcements -/

inductive Kind | node | inv | refs
  deriving DecidableEq, Repr

/-- Identity of an announcement: `(announcer, kind, repository, timestamp)`; `repo = 0` unless `refs`. -/
structure AnnId where
  node : Nat
  kind : Kind
  repo : Nat
  ts : Nat
  deriving DecidableEq, Repr

/-- An announcement as delivered by a peer. `sigOk` is the value of `Announcement::verify()` (opaque,
computed by the real code). `inv` is the inventory (kind `inv`), `refsNonEmpty` whether the refs list is
non-empty (kind `refs`), `seedFeature` whether `features.has(Features::SEED)` (kind `node`). -/
structure Ann where
  id : AnnId
  sigOk : Bool
  inv : List Nat
  refsNonEmpty : Bool
  seedFeature : Bool
  deriving Repr

/-- A repository: ground truth about it (`priv`, `delegates`, `allow`) and whether the node has it in
storage (`present`). The code only ever consults repositories with `present = true`.
`ownRefs = some (oid, ctime)`: the local namespace has a `rad/sigrefs` at `oid` committed at `ctime`. -/
structure Repo where
  rid : Nat
  present : Bool
  priv : Bool
  delegates : List Nat
  allow : List Nat
  ownRefs : Option (Nat × Nat)
  deriving Repr

/-- `Doc::is_visible_to` -/
def visible (r : Repo) (p : Nat) : Bool :=
  !r.priv || r.allow.contains p || r.delegates.contains p

/-- Subscription filter (a Bloom filter in the code; the harness checks that it behaves as a set on the
repositories in use). `all` is `Filter::default()` (all ones). -/
inductive Filter
  | all
  | set (rids : List Nat)
  deriving Repr

def Filter.has : Filter → Nat → Bool
  | .all, _ => true
  | .set l, r => l.contains r

def Filter.insert : Filter → Nat → Filter
  | .all, _ => .all
  | .set l, r => .set (r :: l)

structure Sub where
  filter : Filter
  since : Nat
  until_ : Nat
  deriving Repr

/-- A connected session. -/
structure Session where
  id : Nat
  sub : Option Sub
  deriving Repr

/-- A row of the `announcements` table. `flag` ⇔ `relay IS NULL` (to be relayed on the next gossip tick).
`inv` is the inventory carried by the stored message (kind `inv`). -/
structure Row where
  rowid : Nat
  id : AnnId
  inv : List Nat
  flag : Bool
  deriving Repr

/-! ## Outputs -/

/-- Why a message was written: `initial` (cached announcements on connect), `own` (`Outbox::announce`),
`relay` (`Service::relay`: immediately or on the gossip tick), `replay` (answer to `Subscribe`). -/
inductive Origin | initial | own | relay | replay
  deriving DecidableEq, Repr

structure Write where
  peer : Nat
  id : AnnId
  inv : List Nat
  origin : Origin
  deriving Repr

inductive Reason | misbehavior | invalidTimestamp
  deriving DecidableEq, Repr

/-- What one step emits. `created` (ghost, not compared): the announcements newly created and signed
by the node in this step, in creation order. -/
structure Out where
  writes : List Write := []
  discs : List (Nat × Reason) := []
  created : List AnnId := []
  deriving Repr

/-! ## State -/

structure State where
  /-- `config.is_relay()` -/
  isRelay : Bool
  clock : Nat
  /-- `last_timestamp` -/
  lastTs : Nat
  /-- timestamp of the cached node announcement -/
  nodeTs : Nat
  /-- cached inventory announcement -/
  invTs : Nat
  inv : List Nat
  /-- `last_inventory` -/
  lastInventory : Nat
  lastGossip : Nat
  lastAnnounce : Nat
  lastPrune : Nat
  sessions : List Session
  rows : List Row
  /-- `relayed_by`, as the list of `(rowid, relayer)` pairs ever pushed -/
  relayedBy : List (Nat × Nat)
  /-- address book: known node ↦ timestamp of its row -/
  addrBook : List (Nat × Nat)
  /-- routing table `(rid, nid, timestamp)` -/
  routing : List (Nat × Nat × Nat)
  /-- repositories with seeding policy `allow` (default policy is `block`) -/
  seeded : List Nat
  /-- `repo-sync-status` rows of the local node: `(rid, oid, timestamp)` -/
  seedsDb : List (Nat × Nat × Nat)
  repos : List Repo
  deriving Repr

def MAX_TIME_DELTA : Nat := 3600000
def GOSSIP_INTERVAL : Nat := 6000
def ANNOUNCE_INTERVAL : Nat := 3600000
def PRUNE_INTERVAL : Nat := 1800000
def GOSSIP_MAX_AGE : Nat := 1209600000
/-- `i64::MAX`: larger timestamps cannot be bound to an SQLite statement. -/
def I64MAX : Nat := 9223372036854775807

/-- `Peer::config` + `initialize` on an empty storage at local time `t0`: the node announcement gets
`t0 + 1`, the inventory created by `initialize` gets `t0 + 2`. -/
def init (t0 : Nat) (isRelay : Bool) : State :=
  { isRelay, clock := t0, lastTs := t0 + 2, nodeTs := t0 + 1, invTs := t0 + 2, inv := [],
    lastInventory := 0, lastGossip := 0, lastAnnounce := 0, lastPrune := 0,
    sessions := [], rows := [], relayedBy := [], addrBook := [], routing := [], seeded := [],
    seedsDb := [], repos := [] }

/-! ## Small helpers -/

def lookup {α : Type} (k : Nat) : List (Nat × α) → Option α
  | [] => none
  | (k', v) :: rest => if k' = k then some v else lookup k rest

def upsert {α : Type} (k : Nat) (v : α) : List (Nat × α) → List (Nat × α)
  | [] => [(k, v)]
  | (k', v') :: rest => if k' = k then (k, v) :: rest else (k', v') :: upsert k v rest

def findRepo (s : State) (rid : Nat) : Option Repo :=
  s.repos.find? (fun r => r.rid == rid)

/-- `storage.get(rid)` / `storage.repository(rid)`: only repositories the node has. -/
def storageGet (s : State) (rid : Nat) : Option Repo :=
  match findRepo s rid with
  | some r => if r.present then some r else none
  | none => none

def hasSession (s : State) (p : Nat) : Bool := s.sessions.any (fun se => se.id == p)

/-- `Service::timestamp` -/
def timestamp (s : State) : State × Nat :=
  let t := next s.clock s.lastTs
  ({ s with lastTs := t }, t)

/-! ## Gossip store -/

def sameKey (a b : AnnId) : Bool := a.node == b.node && a.kind == b.kind && a.repo == b.repo

def maxRowid (rows : List Row) : Nat := rows.foldl (fun m r => max m r.rowid) 0

/-- `gossip::Store::announced`: returns the new table and `RETURNING rowid` (none = no row changed). -/
def announced (rows : List Row) (id : AnnId) (inv : List Nat) : List Row × Option Nat :=
  match rows.find? (fun r => sameKey r.id id) with
  | some r =>
    if r.id.ts < id.ts then
      (rows.map (fun x => if sameKey x.id id then { x with id := id, inv := inv } else x), some r.rowid)
    else (rows, none)
  | none =>
    let k := maxRowid rows + 1
    (rows ++ [{ rowid := k, id := id, inv := inv, flag := false }], some k)

/-- `gossip::Store::set_relay(id, Relay)` -/
def setRelay (rows : List Row) (k : Nat) : List Row :=
  rows.map (fun r => if r.rowid == k then { r with flag := true } else r)

/-! ## Routing table -/

/-- One iteration of `routing::Store::add_inventory`; the flag says whether a row changed
(`SeedAdded` / `TimeUpdated`). -/
def addRoute (rt : List (Nat × Nat × Nat)) (rid nid ts : Nat) : List (Nat × Nat × Nat) × Bool :=
  match rt.find? (fun e => e.1 == rid && e.2.1 == nid) with
  | some e =>
    if e.2.2 < ts then
      (rt.map (fun x => if x.1 == rid && x.2.1 == nid then (rid, nid, ts) else x), true)
    else (rt, false)
  | none => (rt ++ [(rid, nid, ts)], true)

def addRoutes (rt : List (Nat × Nat × Nat)) (rids : List Nat) (nid ts : Nat) :
    List (Nat × Nat × Nat) × Bool :=
  rids.foldl (fun acc rid => let r := addRoute acc.1 rid nid ts; (r.1, acc.2 || r.2)) (rt, false)

/-- `Service::sync_routing`; the flag is `!synced.is_empty()`. -/
def syncRouting (rt : List (Nat × Nat × Nat)) (inv : List Nat) (nid ts : Nat) :
    List (Nat × Nat × Nat) × Bool :=
  let r1 := addRoutes rt inv nid ts
  let stale := fun (e : Nat × Nat × Nat) => e.2.1 == nid && !inv.contains e.1
  (r1.1.filter (fun e => !stale e), r1.2 || r1.1.any stale)

def removeRoute (rt : List (Nat × Nat × Nat)) (rid nid : Nat) : List (Nat × Nat × Nat) × Bool :=
  (rt.filter (fun e => !(e.1 == rid && e.2.1 == nid)), rt.any (fun e => e.1 == rid && e.2.1 == nid))

/-- `routing.get_inventory(local)` -/
def localInventory (s : State) : List Nat :=
  (s.routing.filter (fun e => e.2.1 == 0)).map (·.1)

/-! ## `handle_announcement` -/

/-- Outcome of the checks `handle_announcement` makes before it touches the gossip store. -/
inductive Verdict
  | reject (r : Reason)
  | ignore
  | accept
  deriving DecidableEq, Repr

/-- Signature, own announcement, zero timestamp, timestamp too far in the future, unknown announcer. -/
def precheck (s : State) (a : Ann) : Verdict :=
  if !a.sigOk then .reject .misbehavior
  else if a.id.node == 0 then .ignore
  else if a.id.ts == 0 then .reject .invalidTimestamp
  else if a.id.ts - s.clock > MAX_TIME_DELTA then .reject .invalidTimestamp
  else if a.id.kind != .node && (lookup a.id.node s.addrBook).isNone then .ignore
  else .accept

/-- "don't relay messages that are too old", except node announcements. -/
def relayDecision (s : State) (a : Ann) (k : Nat) : Option Nat :=
  if a.id.kind == .node || s.clock - a.id.ts ≤ MAX_TIME_DELTA then some k else none

/-- The announcer's own subscription filter learns its inventory. -/
def learnInventory (ss : List Session) (node : Nat) (inv : List Nat) : List Session :=
  ss.map (fun se =>
    if se.id == node then
      { se with sub := se.sub.map (fun sb => { sb with filter := inv.foldl Filter.insert sb.filter }) }
    else se)

def handleInv (s : State) (a : Ann) (relay : Option Nat) : State × Option Nat :=
  let r := syncRouting s.routing a.inv a.id.node a.id.ts
  if !r.2 then ({ s with routing := r.1 }, none)
  else ({ s with routing := r.1, sessions := learnInventory s.sessions a.id.node a.inv }, relay)

def handleRefs (s : State) (a : Ann) (relay : Option Nat) : State × Option Nat :=
  if !a.refsNonEmpty then (s, none)
  else if !s.seeded.contains a.id.repo then
    ({ s with routing := (addRoute s.routing a.id.repo a.id.node a.id.ts).1 }, none)
  else ({ s with routing := (addRoute s.routing a.id.repo a.id.node a.id.ts).1 }, relay)

/-- `addresses.insert(…)` reports an update iff the node is new or its row is older. -/
def addrUpdated (book : List (Nat × Nat)) (node ts : Nat) : Bool :=
  match lookup node book with
  | some t => decide (t < ts)
  | none => true

def handleNode (s : State) (a : Ann) (relay : Option Nat) : State × Option Nat :=
  if !a.seedFeature then (s, relay)
  else if addrUpdated s.addrBook a.id.node a.id.ts then
    ({ s with addrBook := upsert a.id.node a.id.ts s.addrBook }, relay)
  else (s, none)

def handleKind (s : State) (a : Ann) (relay : Option Nat) : State × Option Nat :=
  match a.id.kind with
  | .inv => handleInv s a relay
  | .refs => handleRefs s a relay
  | .node => handleNode s a relay

/-- `Service::handle_announcement`. `ok (s', some rowid)` = `Ok(Some(id))` (to be relayed). -/
def handleAnn (s : State) (relayer : Nat) (a : Ann) : Except Reason (State × Option Nat) :=
  match precheck s a with
  | .reject r => .error r
  | .ignore => .ok (s, none)
  | .accept =>
    match (announced s.rows a.id a.inv).2 with
    | none => .ok (s, none)
    | some k =>
      .ok (handleKind { s with rows := (announced s.rows a.id a.inv).1,
                               relayedBy := (k, relayer) :: s.relayedBy } a (relayDecision s a k))

/-- Recipients chosen by `Service::relay` + `Outbox::relay` for the announcement stored under `rowid`. -/
def relayTargets (s : State) (rowid : Nat) (id : AnnId) : List Nat :=
  (s.sessions.filter (fun se =>
    !s.relayedBy.contains (rowid, se.id) && se.id != id.node &&
    (if id.kind == .refs then
      (match storageGet s id.repo with
       | some r => visible r se.id
       | none => false) &&
      (match se.sub with
       | some sb => sb.filter.has id.repo
       | none => false)
     else true))).map (·.id)

def relayWrites (s : State) (rowid : Nat) (id : AnnId) (inv : List Nat) : List Write :=
  (relayTargets s rowid id).map (fun q => { peer := q, id := id, inv := inv, origin := .relay })

/-- `handle_message` with `Message::Announcement`. -/
def recv (s : State) (p : Nat) (a : Ann) : State × Out :=
  if !hasSession s p then (s, {})
  else
    match handleAnn s p a with
    | .error r => (s, { discs := [(p, r)] })
    | .ok (s1, none) => (s1, {})
    | .ok (s1, some k) =>
      if !s1.isRelay then (s1, {})
      else if a.id.kind == .inv then ({ s1 with rows := setRelay s1.rows k }, {})
      else (s1, { writes := relayWrites s1 k a.id a.inv })

/-! ## `Subscribe` -/

/-- The stored announcements written back in answer to `Subscribe` (current code: with the visibility
filter for repositories in storage; repositories not in storage are replayed). -/
def replayRows (s : State) (p : Nat) (sb : Sub) : List Row :=
  if sb.since > I64MAX || sb.until_ > I64MAX then []
  else
    s.rows.filter (fun r =>
      decide (sb.since ≤ r.id.ts) && decide (r.id.ts < sb.until_) &&
      (r.id.kind != .refs || sb.filter.has r.id.repo) &&
      r.id.node != p &&
      (r.id.kind != .refs ||
        (match storageGet s r.id.repo with
         | some d => visible d p
         | none => true)) &&
      (s.isRelay || r.id.node == 0))

def subscribe (s : State) (p : Nat) (sb : Sub) : State × Out :=
  if !hasSession s p then (s, {})
  else
    ({ s with sessions := s.sessions.map (fun se => if se.id == p then { se with sub := some sb } else se) },
     { writes := (replayRows s p sb).map (fun r => { peer := p, id := r.id, inv := r.inv, origin := .replay }) })

/-! ## Connections -/

/-- `Service::connected` (both directions): a session appears; the cached node and inventory
announcements are (re-)signed and written. -/
def connect (s : State) (p : Nat) : State × Out :=
  ({ s with sessions := s.sessions ++ [{ id := p, sub := none }] },
   { writes := [{ peer := p, id := ⟨0, .node, 0, s.nodeTs⟩, inv := [], origin := .initial },
                { peer := p, id := ⟨0, .inv, 0, s.invTs⟩, inv := s.inv, origin := .initial }] })

/-- `Service::disconnected` for a non-persistent peer. -/
def disconnect (s : State) (p : Nat) : State × Out :=
  ({ s with sessions := s.sessions.filter (fun se => se.id != p) }, {})

/-! ## Own announcements -/

/-- `Service::announce_inventory`. -/
def announceInventory (s : State) : State × List Write :=
  if s.lastInventory == s.invTs then (s, [])
  else
    let id : AnnId := ⟨0, .inv, 0, s.invTs⟩
    ({ s with rows := (announced s.rows id s.inv).1, lastInventory := s.invTs },
     s.sessions.map (fun se => { peer := se.id, id := id, inv := s.inv, origin := .own }))

/-- `Service::refresh_and_announce_inventory(time)`. Creates a new inventory announcement. -/
def refreshInventory (s : State) (t : Nat) : State × Out :=
  let s1 := { s with invTs := t, inv := localInventory s }
  let r := announceInventory s1
  (r.1, { writes := r.2, created := [⟨0, .inv, 0, t⟩] })

/-- `Service::add_inventory` (`Command::AddInventory`). -/
def addInventory (s : State) (rid : Nat) : State × Out :=
  let ts := timestamp s
  match storageGet ts.1 rid with
  | none => (ts.1, {})
  | some _ =>
    -- `updated = !updates.is_empty()` is always true: one result per id
    refreshInventory { ts.1 with routing := (addRoute ts.1.routing rid 0 ts.2).1 } ts.2

/-- `Service::remove_inventory`. -/
def removeInventory (s : State) (rid : Nat) : State × Out :=
  let ts := timestamp s
  let r := removeRoute ts.1.routing rid 0
  if r.2 then refreshInventory { ts.1 with routing := r.1 } ts.2 else (ts.1, {})

/-- `repo-sync-status` upsert `WHERE timestamp < new AND head <> new` (returns the table only). -/
def synced (db : List (Nat × Nat × Nat)) (rid oid ts : Nat) : List (Nat × Nat × Nat) :=
  match lookup rid db with
  | some (o, t) => if t < ts && o != oid then upsert rid (oid, ts) db else db
  | none => upsert rid (oid, ts) db

/-- `Service::refs_announcement_for(rid, [local])` followed by `announce_refs`' bookkeeping and
`Outbox::announce`. The caller has checked that the repository is in storage (`r`). The timestamp is
taken before `RefsAt::new` can fail. `doc` is the document used for the visibility filter. -/
def announceRefs (s : State) (r : Repo) (doc : Repo) : State × Out :=
  let ts := timestamp s
  match r.ownRefs with
  | none => (ts.1, {})
  | some (oid, _) =>
    let id : AnnId := ⟨0, .refs, r.rid, ts.2⟩
    let s2 := { ts.1 with seedsDb := synced ts.1.seedsDb r.rid oid ts.2, rows := (announced ts.1.rows id []).1 }
    (s2, { writes := (s2.sessions.filter (fun se => visible doc se.id &&
              (match se.sub with
               | some sb => sb.filter.has r.rid
               | none => false))).map (fun se => { peer := se.id, id := id, inv := [], origin := .own }),
           created := [id] })

/-- `Command::AnnounceRefs(rid)` -/
def cmdAnnounceRefs (s : State) (rid : Nat) : State × Out :=
  match storageGet s rid with
  | none => (s, {})
  | some r => announceRefs s r r

def seed (s : State) (rid : Nat) : State × Out :=
  ({ s with seeded := if s.seeded.contains rid then s.seeded else rid :: s.seeded }, {})

/-- `Service::unseed` -/
def unseed (s : State) (rid : Nat) : State × Out :=
  if s.seeded.contains rid then removeInventory { s with seeded := s.seeded.filter (· != rid) } rid
  else (s, {})

def appendOut (a b : Out) : Out :=
  { writes := a.writes ++ b.writes, discs := a.discs ++ b.discs, created := a.created ++ b.created }

/-- `fetched`: "announce our new inventory if this fetch was a full clone" of a public repository. -/
def fetchedInventory (s : State) (r : Repo) (clone : Bool) : State × Out :=
  if clone && !r.priv then addInventory s r.rid else (s, {})

/-- `fetched`: announce the refs unless nothing was updated. -/
def fetchedRefs (s : State) (r : Repo) (upd : Bool) : State × Out :=
  if upd then announceRefs s r r else (s, {})

/-- `Service::fetched(rid, p, Ok(FetchResult { clone, updated, namespaces = {local}, doc }))` right after
`Command::Fetch(rid, p)`, with `doc` the document now in storage. Nothing happens unless `p` is connected
(the fetch is refused) — and the harness only issues it for repositories in storage. -/
def fetched (s : State) (rid p : Nat) (clone upd : Bool) : State × Out :=
  if !hasSession s p then (s, {})
  else
    match storageGet s rid with
    | none => (s, {})
    | some r =>
      let r1 := fetchedInventory { s with routing := (addRoute s.routing rid p s.clock).1 } r clone
      let r2 := fetchedRefs r1.1 r upd
      (r2.1, appendOut r1.2 r2.2)

/-! ## `initialize` (restart) -/

/-- Accumulator of the per-repository loop of `Service::initialize`. -/
structure InitAcc where
  s : State
  inventory : List Nat := []
  priv : List Nat := []
  created : List AnnId := []

/-- `initialize`: "skip this repo if the sync status matches what we have in storage". -/
def alreadyAnnounced (db : List (Nat × Nat × Nat)) (rid oid : Nat) : Bool :=
  match lookup rid db with
  | some (o, _) => o == oid
  | none => false

/-- The loop body of `Service::initialize` (storage iterated in the order of `repos`). -/
def initRepo (announcedDb : List (Nat × Nat × Nat)) (acc : InitAcc) (r : Repo) : InitAcc :=
  if !r.present then acc
  else if !acc.s.seeded.contains r.rid then acc
  else
    let acc1 : InitAcc :=
      { acc with inventory := if r.priv then acc.inventory else acc.inventory ++ [r.rid],
                 priv := if r.priv then acc.priv ++ [r.rid] else acc.priv }
    match r.ownRefs with
    | none => acc1
    | some (oid, ctime) =>
      if alreadyAnnounced announcedDb r.rid oid then acc1
      else
        let ts := timestamp { acc.s with seedsDb := synced acc.s.seedsDb r.rid oid ctime }
        let id : AnnId := ⟨0, .refs, r.rid, ts.2⟩
        { acc1 with s := { ts.1 with rows := (announced ts.1.rows id []).1 }, created := acc.created ++ [id] }

/-- `Service::initialize(clock)` called again on the running service (`Peer::restart`). -/
def restart (s : State) : State × Out :=
  let acc := s.repos.foldl (initRepo s.seedsDb) { s := s }
  let s2 := { acc.s with routing := (addRoutes acc.s.routing acc.inventory 0 acc.s.clock).1 }
  let ts := timestamp s2
  let s4 := { ts.1 with invTs := ts.2, inv := acc.inventory,
                        routing := ts.1.routing.filter (fun e => !(e.2.1 == 0 && acc.priv.contains e.1)) }
  (s4, { created := acc.created ++ [⟨0, .inv, 0, ts.2⟩] })

/-! ## Periodic tasks (`Service::wake`) -/

/-- `Service::relay_announcements` -/
def relayAnnouncements (s : State) : State × List Write :=
  let s1 := { s with rows := s.rows.map (fun r => { r with flag := false }) }
  (s1, (s.rows.filter (fun r => r.flag && r.id.node != 0)).flatMap
          (fun r => relayWrites s1 r.rowid r.id r.inv))

/-- The gossip task of `wake`. -/
def gossipTask (s : State) : State × List Write :=
  if s.clock - s.lastGossip ≥ GOSSIP_INTERVAL then
    let r := relayAnnouncements s
    ({ r.1 with lastGossip := s.clock }, r.2)
  else (s, [])

/-- The announce task of `wake`. -/
def announceTask (s : State) : State × List Write :=
  if s.clock - s.lastAnnounce ≥ ANNOUNCE_INTERVAL then
    let r := announceInventory s
    ({ r.1 with lastAnnounce := s.clock }, r.2)
  else (s, [])

/-- The prune task of `wake` (gossip store part). -/
def pruneTask (s : State) : State :=
  if s.clock - s.lastPrune ≥ PRUNE_INTERVAL then
    { s with rows := s.rows.filter (fun r => !(r.id.ts < s.clock - GOSSIP_MAX_AGE)), lastPrune := s.clock }
  else s

def wake (s : State) : State × Out :=
  let r1 := gossipTask s
  let r2 := announceTask r1.1
  (pruneTask r2.1, { writes := r1.2 ++ r2.2 })

/-! ## Repository changes (environment) -/

def insertRepo (r : Repo) : List Repo → List Repo
  | [] => [r]
  | x :: xs => if x.rid = r.rid then r :: xs else if r.rid < x.rid then r :: x :: xs else x :: insertRepo r xs

/-! ## Steps -/

inductive Op
  | connect (p : Nat)
  | disconnect (p : Nat)
  | recv (p : Nat) (a : Ann)
  | subscribe (p : Nat) (sb : Sub)
  /-- `clock += dt; wake()` (`Peer::elapse`) -/
  | elapse (dt : Nat)
  /-- `Service::tick(now)`: monotone-guarded clock update -/
  | tick (now : Nat)
  /-- raw clock write (`*clock_mut() = t`), may move backwards -/
  | setClock (t : Nat)
  | announceRefs (rid : Nat)
  | addInventory (rid : Nat)
  | announceInventory
  | seed (rid : Nat)
  | unseed (rid : Nat)
  | fetched (rid p : Nat) (clone upd : Bool)
  | restart
  | setRepo (r : Repo)
  /-- the address book learns node `nid` with timestamp `ts` (what a SEED node announcement does;
  environment: `addresses.insert` as `Peer::import_addresses` in the tests) -/
  | knowNode (nid ts : Nat)
  deriving Repr

def step (s : State) : Op → State × Out
  | .connect p => connect s p
  | .disconnect p => disconnect s p
  | .recv p a => recv s p a
  | .subscribe p sb => subscribe s p sb
  | .elapse dt => wake { s with clock := s.clock + dt }
  | .tick now => (if now ≥ s.clock then { s with clock := now } else s, {})
  | .setClock t => ({ s with clock := t }, {})
  | .announceRefs rid => cmdAnnounceRefs s rid
  | .addInventory rid => addInventory s rid
  | .announceInventory => let r := announceInventory s; (r.1, { writes := r.2 })
  | .seed rid => seed s rid
  | .unseed rid => unseed s rid
  | .fetched rid p clone upd => fetched s rid p clone upd
  | .restart => restart s
  | .setRepo r => ({ s with repos := insertRepo r s.repos }, {})
  | .knowNode nid ts =>
    (if addrUpdated s.addrBook nid ts then { s with addrBook := upsert nid ts s.addrBook } else s, {})

/-- Run a whole case: the states reached and what each step emitted. -/
def run (s : State) : List Op → List (State × Out)
  | [] => []
  | op :: ops => let r := step s op; r :: run r.1 ops

end HeartwoodModel.Gossip
