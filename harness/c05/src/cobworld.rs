//! Shared by the C05 and C06 harnesses (C06 includes it with `#[path]`).
//!
//! A `World` is a real radicle storage in a temp dir with one real repository and a fixed set of actors
//! (real Ed25519 keys; actor 0 is the only delegate). Issue histories are *injected*: every change of a
//! case is stored as a real change commit with explicit tips, author, timestamp and arbitrary action
//! JSON (`radicle_cob::change::Storage::store`), exactly as a remote peer's changes would arrive — so
//! changes that the local API would refuse to create can be stored. Histories are evaluated by the REAL
//! code through `radicle_cob::verif::get_from_tips` (= `radicle_cob::get` with an explicit, ordered list
//! of tip references) and through `radicle_cob::get` itself (namespace refs set with
//! `object::Storage::update`).
//!
//! Case text (same tokens as `lean/HeartwoodModel/Driver/C05.lean`): change `i` = `actor:ts:parents:kind`.
#![allow(dead_code)]

use std::collections::BTreeSet;
use std::str::FromStr;

use nonempty::NonEmpty;
use radicle::cob;
use radicle::cob::change::Storage as _;
use radicle::cob::issue::{Action, Issue};
use radicle::cob::object::Storage as _;
use radicle::crypto::test::signer::MockSigner;
use radicle::git::Oid;
use radicle::identity::doc::{Doc, Visibility};
use radicle::identity::{Did, Project};
use radicle::node::device::Device;
use radicle::node::Alias;
use radicle::storage::git::{Repository, Storage};
use radicle::storage::WriteRepository as _;
use radicle_cob::object::{Commit, Reference};

/// A peer that attaches a signature which does not cover the change it publishes (signed by the recorded
/// key, but over other bytes): `Entry::valid_signatures()` is false for the stored change.
pub struct Forger<'a>(pub &'a Device<MockSigner>);

impl radicle::crypto::signature::Signer<radicle::crypto::ssh::ExtendedSignature> for Forger<'_> {
    fn try_sign(&self, _msg: &[u8]) -> Result<radicle::crypto::ssh::ExtendedSignature, radicle::crypto::signature::Error> {
        radicle::crypto::signature::Signer::<radicle::crypto::ssh::ExtendedSignature>::try_sign(self.0, b"something else entirely")
    }
}

pub const N_ACTORS: usize = 4;
pub const TS_BASE: u64 = 1_700_000_000;

pub struct World {
    pub tmp: tempfile::TempDir,
    pub storage: Storage,
    pub repo: Repository,
    pub actors: Vec<Device<MockSigner>>,
    pub identity_root: Oid,
    /// a commit that is not a change commit (`storage.load` fails on it)
    pub not_a_change: Oid,
    pub counter: u64,
    pub used: u64,
}

impl World {
    pub fn new() -> World {
        let tmp = tempfile::tempdir().unwrap();
        let actors: Vec<Device<MockSigner>> =
            (0..N_ACTORS).map(|i| Device::from(MockSigner::from_seed([(i as u8) + 11; 32]))).collect();
        let storage = Storage::open(
            tmp.path().join("storage"),
            radicle::git::UserInfo { alias: Alias::new("verif"), key: *actors[0].public_key() },
        )
        .unwrap();
        let project = Project::new(
            "acme".try_into().unwrap(),
            "verification fixture".to_string(),
            radicle::git::RefString::try_from("master").unwrap(),
        )
        .unwrap();
        let doc = Doc::initial(project, Did::from(*actors[0].public_key()), Visibility::Public);
        let (repo, identity_root) = Repository::init(&doc, &storage, &actors[0]).unwrap();
        let raw = repo.raw();
        let sig = git2::Signature::new("verif", "verif@example.com", &git2::Time::new(1514817556, 0)).unwrap();
        let tree = raw.find_tree(raw.treebuilder(None).unwrap().write().unwrap()).unwrap();
        let not_a_change: Oid = raw.commit(None, &sig, &sig, "not a change", &tree, &[]).unwrap().into();
        drop(tree);
        World { tmp, storage, repo, actors, identity_root, not_a_change, counter: 0, used: 0 }
    }

    /// Store one change commit.
    pub fn store(&mut self, actor: usize, tips: Vec<Oid>, ts: u64, actions: Vec<Action>, forged: bool) -> Result<Oid, String> {
        self.counter += 1;
        let contents =
            NonEmpty::from_vec(actions.iter().map(|a| cob::store::encoding::encode(a).unwrap()).collect::<Vec<_>>()).unwrap();
        std::env::set_var("GIT_COMMITTER_DATE", (TS_BASE + ts).to_string());
        let template = cob::change::Template {
            type_name: cob::issue::TYPENAME.clone(),
            tips,
            embeds: vec![],
            contents,
            message: format!("verif change #{}", self.counter),
        };
        let r = if forged {
            self.repo.store(Some(self.identity_root), vec![], &Forger(&self.actors[actor]), template)
        } else {
            self.repo.store(Some(self.identity_root), vec![], &self.actors[actor], template)
        };
        std::env::remove_var("GIT_COMMITTER_DATE");
        r.map(|e| e.id).map_err(|e| e.to_string())
    }
}

#[derive(Clone, Debug)]
pub struct Ch {
    pub actor: usize,
    pub ts: u64,
    /// `None` = the commit that is not a change
    pub parents: Vec<Option<usize>>,
    pub kind: String,
    /// stored with a signature that does not verify (kind written with a trailing `!`)
    pub forged: bool,
}

pub fn parse_refs(s: &str, sep: char) -> Option<Vec<Option<usize>>> {
    if s == "-" {
        return Some(vec![]);
    }
    s.split(sep).map(|t| if t == "x" { Some(None) } else { t.parse::<usize>().ok().map(Some) }).collect()
}

pub const KINDS_OK: [&str; 3] = ["c", "e", "l"];
/// Changes the issue type rejects (each is rejected whatever the state is):
/// * `bt`  `[Edit "t<i>", Edit "a\nb"]`            by the issue author: second title is invalid
/// * `bc`  `[Comment "c<i>", CommentRedact <missing>]` the redacted comment does not exist
/// * `ba`  `[Comment "c<i>", Assign {someone}]`    by a non-delegate: second action is not authorized
/// * `be`  `[Comment ""]`                          empty comment body
/// * `b1`  `[Edit "a\nb"]`                         single invalid action
/// * `bl`  `[Label {l<i>}, Edit "a\rb"]`           by the delegate: label applied, then invalid title
pub const KINDS_BAD: [&str; 6] = ["bt", "bc", "ba", "be", "b1", "bl"];

pub fn parse_changes(s: &str) -> Option<Vec<Ch>> {
    let mut out = vec![];
    for (i, t) in s.split(';').enumerate() {
        let f: Vec<&str> = t.split(':').collect();
        if f.len() != 4 {
            return None;
        }
        let actor: usize = f[0].parse().ok()?;
        let parents = parse_refs(f[2], '+')?;
        if actor >= N_ACTORS || parents.iter().any(|p| matches!(p, Some(j) if *j >= i)) {
            return None;
        }
        let forged = f[3].ends_with('!');
        let kind = f[3].trim_end_matches('!').to_string();
        let known = if i == 0 { kind == "r" } else { KINDS_OK.contains(&kind.as_str()) || KINDS_BAD.contains(&kind.as_str()) };
        if !known {
            return None;
        }
        // the kinds whose rejection depends on who the author is must be used with the right author
        if kind == "ba" && actor == 0 {
            return None;
        }
        if kind == "bl" && actor != 0 {
            return None;
        }
        out.push(Ch { actor, ts: f[1].parse().ok()?, parents, kind, forged });
    }
    if out.is_empty() { None } else { Some(out) }
}

/// Is the change accepted by `Issue::apply` (by construction; the real code decides, the oracle and the
/// model use this only to know what to expect)?
pub fn accepted(chs: &[Ch], i: usize) -> bool {
    let c = &chs[i];
    if c.forged {
        return false;
    }
    match c.kind.as_str() {
        "r" | "c" => true,
        "e" => c.actor == chs[0].actor || c.actor == 0,
        "l" => c.actor == 0,
        _ => false,
    }
}

pub struct Built {
    /// `Entry::valid_signatures()` of every stored change, as computed by the real code on the loaded commit
    pub sig: Vec<bool>,
    pub oids: Vec<Oid>,
    /// rank of each change's oid among the oids of the case
    pub ord: Vec<usize>,
}

fn label(s: &str) -> cob::Label {
    cob::Label::from_str(s).unwrap()
}

/// Store every change of the case as a real change commit.
pub fn build(w: &mut World, chs: &[Ch]) -> Result<Built, String> {
    let mut oids: Vec<Oid> = vec![];
    for (i, c) in chs.iter().enumerate() {
        let tips: Vec<Oid> = c.parents.iter().map(|p| p.map(|j| oids[j]).unwrap_or(w.not_a_change)).collect();
        let root = oids.first().copied();
        let comment = |body: String| Action::Comment { body, reply_to: root, embeds: vec![] };
        let bad_title = |s: &str| Action::Edit { title: s.to_string() };
        let someone = Did::from(*w.actors[1].public_key());
        let missing = Oid::from_str("ffffffffffffffffffffffffffffffffffffffff").unwrap();
        let actions: Vec<Action> = match c.kind.as_str() {
            "r" => vec![Action::Comment { body: "root".into(), reply_to: None, embeds: vec![] }, Action::Edit { title: "t0".into() }],
            "c" => vec![comment(format!("c{i}"))],
            "e" => vec![Action::Edit { title: format!("t{i}") }],
            "l" => vec![Action::Label { labels: BTreeSet::from([label(&format!("l{i}"))]) }],
            "bt" => vec![Action::Edit { title: format!("t{i}") }, bad_title("a\nb")],
            "bc" => vec![comment(format!("c{i}")), Action::CommentRedact { id: missing }],
            "ba" => vec![comment(format!("c{i}")), Action::Assign { assignees: BTreeSet::from([someone]) }],
            "be" => vec![comment(String::new())],
            "b1" => vec![bad_title("a\nb")],
            "bl" => vec![Action::Label { labels: BTreeSet::from([label(&format!("l{i}"))]) }, bad_title("a\rb")],
            _ => return Err("kind".into()),
        };
        oids.push(w.store(c.actor, tips, c.ts, actions, c.forged)?);
    }
    let mut sorted = oids.clone();
    sorted.sort();
    let ord = oids.iter().map(|o| sorted.iter().position(|x| x == o).unwrap()).collect();
    let sig = oids.iter().map(|o| w.repo.load(*o).map(|e| e.valid_signatures()).unwrap_or(false)).collect();
    Ok(Built { sig, oids, ord })
}

/// The tokens computed by the real code that are appended to the case text: order of the oids and the
/// signature bit of every change.
pub fn facts(b: &Built) -> String {
    format!(
        "ord={} sig={}",
        b.ord.iter().map(|x| x.to_string()).collect::<Vec<_>>().join(","),
        b.sig.iter().map(|x| if *x { '1' } else { '0' }).collect::<String>()
    )
}

pub fn refs_of(w: &World, b: &Built, tips: &[Option<usize>]) -> Vec<Reference> {
    tips.iter()
        .enumerate()
        .map(|(j, t)| Reference {
            name: radicle::git::RefString::try_from(format!("refs/verif/tip{j}")).unwrap(),
            target: Commit { id: t.map(|i| b.oids[i]).unwrap_or(w.not_a_change) },
        })
        .collect()
}

pub fn show_idx(xs: &[usize]) -> String {
    if xs.is_empty() { "-".into() } else { xs.iter().map(|x| x.to_string()).collect::<Vec<_>>().join("+") }
}

fn err_class(e: &dyn std::fmt::Display) -> String {
    let s = e.to_string();
    if s.contains("missing from graph") {
        "missing-root".into()
    } else if s.contains("unable to initialize") {
        "init-err".into()
    } else if s.contains("invalid signature") {
        "sig".into()
    } else {
        format!("err:{}", s.replace(' ', "_"))
    }
}

fn index_of(b: &Built, oid: &Oid) -> Option<usize> {
    b.oids.iter().position(|o| o == oid)
}

fn show_history(b: &Built, h: &radicle_cob::History) -> String {
    let g = h.graph();
    let mut nodes = vec![];
    for (i, oid) in b.oids.iter().enumerate() {
        if let Some(n) = g.get(oid) {
            let mut known: Vec<usize> = n.dependencies.iter().filter_map(|d| index_of(b, d)).collect();
            known.sort();
            let mut parts: Vec<String> = known.iter().map(|x| x.to_string()).collect();
            parts.extend(n.dependencies.iter().filter(|d| index_of(b, d).is_none()).map(|_| "x".to_string()));
            nodes.push(format!("{i}({})", parts.join("+")));
        }
    }
    let mut tips: Vec<usize> = h.tips().iter().filter_map(|t| index_of(b, t)).collect();
    tips.sort();
    format!("H{};P{}", nodes.join(","), show_idx(&tips))
}

/// Canonical projection of an evaluated issue (what the property calls the state and the history).
pub struct IssueView {
    pub text: String,
    /// full serialisation of the object, for the exact comparison of the oracle
    pub json: String,
    pub tips: Vec<usize>,
    pub survivors: BTreeSet<usize>,
}

pub fn show_issue(b: &Built, c: &radicle_cob::CollaborativeObject<Issue>) -> IssueView {
    let issue = &c.object;
    let timeline: Vec<String> =
        issue.comments().map(|(id, _)| index_of(b, id).map(|i| i.to_string()).unwrap_or("?".into())).collect();
    let title = issue.title().strip_prefix('t').map(|s| s.to_string()).unwrap_or(format!("?{}", issue.title()));
    let labels: Vec<String> = issue.labels().map(|l| l.name().strip_prefix('l').unwrap_or("?").to_string()).collect();
    let tl = if timeline.is_empty() { "-".to_string() } else { timeline.join("+") };
    let lb = if labels.is_empty() { "-".to_string() } else { labels.join("+") };
    let mut tips: Vec<usize> = c.history.tips().iter().filter_map(|t| index_of(b, t)).collect();
    tips.sort();
    let survivors = (0..b.oids.len()).filter(|i| c.history.graph().contains(&b.oids[*i])).collect();
    IssueView {
        text: format!("T{tl};t{title};L{lb};{}", show_history(b, &c.history)),
        json: serde_json::to_string(issue).unwrap_or_default(),
        tips,
        survivors,
    }
}

/// Evaluate as an issue from the explicit tip references.
pub fn eval_issue(w: &World, b: &Built, tips: &[Option<usize>]) -> Result<Option<IssueView>, String> {
    let refs = refs_of(w, b, tips);
    let oid = cob::ObjectId::from(b.oids[0]);
    match radicle_cob::verif::get_from_tips::<Issue, _>(&w.repo, &refs, &cob::issue::TYPENAME, &oid) {
        Ok(None) => Ok(None),
        Ok(Some(c)) => Ok(Some(show_issue(b, &c))),
        Err(e) => Err(err_class(&e)),
    }
}

/// Evaluate as the raw list of entries (no object-level rejection): the traversal order.
pub fn eval_raw(w: &World, b: &Built, tips: &[Option<usize>]) -> String {
    let refs = refs_of(w, b, tips);
    let oid = cob::ObjectId::from(b.oids[0]);
    match radicle_cob::verif::get_from_tips::<NonEmpty<radicle_cob::Entry>, _>(&w.repo, &refs, &cob::issue::TYPENAME, &oid) {
        Ok(None) => "none".into(),
        Ok(Some(c)) => {
            let order: Vec<usize> = c.object.iter().filter_map(|e| index_of(b, e.id())).collect();
            format!("R{}", show_idx(&order))
        }
        Err(e) => err_class(&e),
    }
}

/// The real `radicle_cob::get`: tips installed as namespace refs of the actors (tip `j` in actor `j`'s
/// namespace), enumerated by the storage itself.
pub fn eval_issue_via_refs(w: &World, b: &Built, tips: &[usize]) -> Result<Option<IssueView>, String> {
    let oid = cob::ObjectId::from(b.oids[0]);
    let tn = cob::issue::TYPENAME.clone();
    for (j, t) in tips.iter().enumerate() {
        w.repo.update(w.actors[j].public_key(), &tn, &oid, &b.oids[*t]).map_err(|e| e.to_string())?;
    }
    let r = match radicle_cob::get::<Issue, _>(&w.repo, &tn, &oid) {
        Ok(None) => Ok(None),
        Ok(Some(c)) => Ok(Some(show_issue(b, &c))),
        Err(e) => Err(err_class(&e)),
    };
    for j in 0..tips.len() {
        let _ = cob::object::Storage::remove(&w.repo, w.actors[j].public_key(), &tn, &oid);
    }
    r
}

/// The loadable changes reachable from the tips (the *change set* of C05), from the case text alone.
pub fn closure(chs: &[Ch], tips: &[Option<usize>]) -> BTreeSet<usize> {
    let mut out = BTreeSet::new();
    let mut st: Vec<usize> = tips.iter().flatten().copied().collect();
    while let Some(i) = st.pop() {
        if out.insert(i) {
            st.extend(chs[i].parents.iter().flatten().copied());
        }
    }
    out
}

pub fn heads(chs: &[Ch]) -> Vec<usize> {
    (0..chs.len()).filter(|i| !chs.iter().any(|c| c.parents.contains(&Some(*i)))).collect()
}

pub fn show_changes(chs: &[Ch]) -> String {
    chs.iter()
        .map(|c| {
            let ps: Vec<String> = c.parents.iter().map(|p| p.map(|j| j.to_string()).unwrap_or("x".into())).collect();
            format!("{}:{}:{}:{}{}", c.actor, c.ts, if ps.is_empty() { "-".into() } else { ps.join("+") }, c.kind, if c.forged { "!" } else { "" })
        })
        .collect::<Vec<_>>()
        .join(";")
}

/// Random history: mostly linear with concurrent branches and merges, timestamps from a tiny domain so
/// that ties are frequent, and also going backwards.
pub fn gen_changes(rng: &mut verif_common::Rng, n: usize, bad_rate: u64, dangling: bool) -> Vec<Ch> {
    let mut chs = vec![Ch { actor: rng.below(N_ACTORS as u64) as usize, ts: rng.below(3), parents: vec![], kind: "r".into(), forged: false }];
    let mut tips: Vec<usize> = vec![0];
    for i in 1..=n {
        let mut parents: Vec<Option<usize>> = match rng.below(6) {
            0 | 1 | 2 => tips.iter().map(|t| Some(*t)).collect(),
            3 => vec![Some(*rng.pick(&tips))],
            _ => {
                let mut p = vec![Some(rng.below(i as u64) as usize)];
                if rng.chance(1, 3) {
                    let q = Some(rng.below(i as u64) as usize);
                    if !p.contains(&q) {
                        p.push(q);
                    }
                }
                p
            }
        };
        if parents.len() > 3 {
            parents.truncate(3);
        }
        // redundant parents: a change may list a commit AND one of that commit's ancestors (grand-parent, root);
        // honest `update` never does (it uses an antichain of tips) but any peer can store such a parent list
        if rng.chance(1, 4) {
            if let Some(Some(p)) = parents.iter().find(|p| p.is_some()).copied() {
                let anc: Vec<usize> = closure(&chs, &[Some(p)]).into_iter().filter(|a| *a != p && !parents.contains(&Some(*a))).collect();
                if !anc.is_empty() {
                    let a = match rng.below(3) {
                        0 => anc[0],                       // the root
                        1 => *anc.last().unwrap(),         // a near ancestor
                        _ => *rng.pick(&anc),
                    };
                    if rng.bool() { parents.push(Some(a)) } else { parents.insert(0, Some(a)) }
                }
            }
        }
        if dangling && rng.chance(1, 12) {
            if rng.bool() { parents.push(None) } else { parents = vec![None] }
        }
        let actor = rng.below(N_ACTORS as u64) as usize;
        let mut kind = if rng.chance(bad_rate, 100) {
            rng.pick(&KINDS_BAD).to_string()
        } else {
            match rng.below(10) {
                0..=5 => "c",
                6..=8 => "e",
                _ => "l",
            }
            .to_string()
        };
        let mut actor = actor;
        if kind == "ba" && actor == 0 {
            actor = 1 + rng.below(N_ACTORS as u64 - 1) as usize;
        }
        if kind == "bl" {
            actor = 0;
        }
        if kind == "bt" && rng.chance(2, 3) {
            actor = chs[0].actor;
        }
        if kind.is_empty() {
            kind = "c".into();
        }
        for p in parents.iter().flatten() {
            tips.retain(|t| t != p);
        }
        tips.push(i);
        // a badly signed change (of any kind), at any position: one in eight when rejections are wanted
        let forged = bad_rate > 0 && rng.chance(1, 8);
        chs.push(Ch { actor, ts: rng.below(4), parents, kind, forged });
    }
    chs
}
