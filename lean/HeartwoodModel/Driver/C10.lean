import HeartwoodModel.Model.Gossip
import HeartwoodModel.Driver.Util
/-!
Driver entry for C10 (and, through `runGossip`, for C11 and C29: the three properties share the model
`Model/Gossip.lean`, the case syntax and the canonical output).

Case: `<t0> <isRelay> <op> <op> …`, `t0` = local time (ms) at which the node was initialised on an empty
storage. Ops (fields separated by `,`; node id `0` is the local node; lists joined by `+`, `-` = empty):

* `c,<p>,<i|o>`                     peer `p` connects (inbound / outbound)
* `d,<p>`                           peer `p` disconnects
* `a,<p>,<node>,<n|i|r>,<repo>,<ts>,<sigOk>,<payload>`   `p` delivers an announcement; payload: inventory
                                    rids (`i`), refs non-empty `0/1` (`r`), SEED feature `0/1` (`n`);
                                    `<sigOk>` = `1` genuine, `0` signed with another key, `r<k>` forged with
                                    the signature bytes of the genuine announcement of op number `k`
* `s,<p>,<filter>,<since>,<until>`  `p` subscribes; filter `*` (all ones) or rids
* `e,<dt>`                          `clock += dt; wake()`
* `k,<t>`                           `Service::tick(t)`
* `j,<t>`                           raw clock write (may go backwards)
* `r,<rid>` `i,<rid>` `I` `z,<rid>` `u,<rid>`   AnnounceRefs / AddInventory / AnnounceInventory / seed / unseed
* `f,<rid>,<p>,<clone>,<upd>`       a fetch of `rid` from `p` succeeded
* `R`                               `initialize` again (`Peer::restart`)
* `n,<nid>,<ts>`                    the address book learns node `nid` (as a SEED node announcement would)
* `p,<rid>,<present>,<priv>,<delegates>,<allow>,<oid|->,<ctime>`   repository `rid` is now this

Output: one group per op, joined by `|`: `.` if nothing was written, nobody disconnected and the gossip
store did not change, else `w=<writes> d=<disconnects> s=<rows>` with writes `peer>node.k.repo.ts[:inv]`,
disconnects `peer!m` (misbehaviour) / `peer!t` (invalid timestamp), rows `node.k.repo.ts` (`s==` if unchanged); every list sorted.
-/
namespace HeartwoodModel.Driver.C10
open HeartwoodModel.Gossip HeartwoodModel.Driver.Util

def plusNats? (s : String) : Option (List Nat) :=
  if s == "-" then some [] else (splitOn s '+').mapM nat?

def kind? (s : String) : Option Kind :=
  if s == "n" then some .node else if s == "i" then some .inv else if s == "r" then some .refs else none

def kindStr : Kind → String
  | .node => "n"
  | .inv => "i"
  | .refs => "r"

def parseOp (tok : String) : Option Op :=
  match splitOn tok ',' with
  | ["c", p, l] => do
    let p ← nat? p
    if l == "i" || l == "o" then some (.connect p) else none
  | ["d", p] => (nat? p).map .disconnect
  | ["a", p, node, k, repo, ts, sig, payload] => do
    let p ← nat? p; let node ← nat? node; let k ← kind? k; let repo ← nat? repo
    -- `r<op>`: forged by re-using the signature of the genuine announcement of op `<op>`: `verify()` fails
    let ts ← nat? ts; let sig ← (if sig.startsWith "r" then some false else bool? sig)
    match k with
    | .inv =>
      if repo != 0 then none else
      let inv ← plusNats? payload
      some (.recv p { id := ⟨node, k, 0, ts⟩, sigOk := sig, inv := inv, refsNonEmpty := false, seedFeature := false })
    | .refs =>
      let b ← bool? payload
      some (.recv p { id := ⟨node, k, repo, ts⟩, sigOk := sig, inv := [], refsNonEmpty := b, seedFeature := false })
    | .node =>
      if repo != 0 then none else
      let b ← bool? payload
      some (.recv p { id := ⟨node, k, 0, ts⟩, sigOk := sig, inv := [], refsNonEmpty := false, seedFeature := b })
  | ["s", p, f, since, until_] => do
    let p ← nat? p; let since ← nat? since; let until_ ← nat? until_
    let f ← (if f == "*" then some Filter.all else (plusNats? f).map Filter.set)
    some (.subscribe p { filter := f, since, until_ })
  | ["e", dt] => (nat? dt).map .elapse
  | ["k", t] => (nat? t).map .tick
  | ["j", t] => (nat? t).map .setClock
  | ["r", rid] => (nat? rid).map .announceRefs
  | ["i", rid] => (nat? rid).map .addInventory
  | ["I"] => some .announceInventory
  | ["z", rid] => (nat? rid).map .seed
  | ["u", rid] => (nat? rid).map .unseed
  | ["f", rid, p, clone, upd] => do
    let rid ← nat? rid; let p ← nat? p; let clone ← bool? clone; let upd ← bool? upd
    some (.fetched rid p clone upd)
  | ["R"] => some .restart
  | ["n", nid, ts] => do
    let nid ← nat? nid; let ts ← nat? ts
    some (.knowNode nid ts)
  | ["p", rid, present, priv, dels, allow, oid, ctime] => do
    let rid ← nat? rid; let present ← bool? present; let priv ← bool? priv
    let dels ← plusNats? dels; let allow ← plusNats? allow; let ctime ← nat? ctime
    let own ← (if oid == "-" then some none else (nat? oid).map (fun o => some (o, ctime)))
    some (.setRepo { rid, present, priv, delegates := dels, allow, ownRefs := own })
  | _ => none

/-- The op whose signature a forged announcement re-uses (`sig` field `r<op>`). -/
def sigRef? (tok : String) : Option Nat :=
  match splitOn tok ',' with
  | ["a", _, _, _, _, _, sig, _] => if sig.startsWith "r" then nat? (sig.drop 1).toString else none
  | _ => none

def sameAnn (a b : Ann) : Bool :=
  a.id == b.id && a.inv == b.inv && a.refsNonEmpty == b.refsNonEmpty && a.seedFeature == b.seedFeature

/-- A re-used signature must come from a genuine announcement of the case with a different message
(otherwise it verifies). -/
def refsOk (toks : List String) (ops : List Op) : Bool :=
  (toks.zip ops).all (fun (tok, op) =>
    if (splitOn tok ',').length == 8 && ((splitOn tok ',').getD 6 "").startsWith "r" then
      match sigRef? tok, op with
      | some k, .recv _ a =>
        (match ops[k]? with
         | some (.recv _ g) => g.sigOk && !sameAnn a g
         | _ => false)
      | _, _ => false
    else true)

/-- Environment preconditions the harness guarantees (the harness answers `bad-case` otherwise):
peers are not the local node; a peer connects only when it has no session; the raw clock stays above
`gossip_max_age` (else `now - gossip_max_age` underflows); no message is received at a clock reading
lower than an earlier one (the rate limiter panics on a backwards clock — C17); a successful fetch is
only reported for a repository in storage; timestamps of delivered announcements fit an `i64`. `hi` is
the highest clock reading at which a message was received so far. -/
def admissible (s : State) (hi : Nat) : Op → Bool
  | .connect p => p != 0 && p < 8 && !hasSession s p
  | .disconnect p => p != 0 && p < 8
  | .recv p a =>
    p != 0 && p < 8 && hi ≤ s.clock && a.id.ts ≤ I64MAX && a.id.node < 8 && a.id.repo < 6 &&
    a.inv.all (· < 6)
  | .subscribe p sb =>
    p != 0 && p < 8 && hi ≤ s.clock &&
    (match sb.filter with
     | .all => true
     | .set l => l.all (· < 6))
  | .setClock t => GOSSIP_MAX_AGE ≤ t
  | .tick t => GOSSIP_MAX_AGE ≤ t
  | .fetched rid p _ _ => p != 0 && p < 8 && (storageGet s rid).isSome
  | .setRepo r =>
    r.rid < 6 && (r.present || r.ownRefs.isNone) && (!r.present || !r.delegates.isEmpty) &&
    (r.delegates ++ r.allow).all (· < 8)
  | .knowNode nid ts => nid != 0 && nid < 8 && ts ≤ I64MAX
  | .announceRefs rid => rid < 6
  | .addInventory rid => rid < 6
  | .seed rid => rid < 6
  | .unseed rid => rid < 6
  | _ => true

def annStr (id : AnnId) : String :=
  s!"{id.node}.{kindStr id.kind}.{id.repo}.{id.ts}"

def sortStrs (xs : List String) : List String := xs.mergeSort (fun a b => decide (a ≤ b))

def sortNats (xs : List Nat) : List Nat := xs.mergeSort (fun a b => decide (a ≤ b))

def showList (xs : List String) : String :=
  if xs.isEmpty then "-" else joinWith "," (sortStrs xs)

def writeStr (w : Write) : String :=
  let base := s!"{w.peer}>{annStr w.id}"
  if w.id.kind == .inv then
    base ++ ":" ++ (if w.inv.isEmpty then "-" else joinWith "+" ((sortNats w.inv.eraseDups).map toString))
  else base

def discStr (d : Nat × Reason) : String :=
  match d.2 with
  | .misbehavior => s!"{d.1}!m"
  | .invalidTimestamp => s!"{d.1}!t"

def rowsStr (s : State) : String := showList (s.rows.map (fun r => annStr r.id))

def stepStr (s s' : State) (o : Out) : String :=
  let rs := rowsStr s'
  let changed := rs != rowsStr s
  if o.writes.isEmpty && o.discs.isEmpty && !changed then "."
  else s!"w={showList (o.writes.map writeStr)} d={showList (o.discs.map discStr)} s={if changed then rs else "="}"

def go (s : State) (hi : Nat) : List Op → List String → Option (List String)
  | [], acc => some acc.reverse
  | op :: ops, acc =>
    if !admissible s hi op then none
    else
      let r := step s op
      let hi' := match op with
        | .recv _ _ => max hi s.clock
        | .subscribe _ _ => max hi s.clock
        | _ => hi
      go r.1 hi' ops (stepStr s r.1 r.2 :: acc)

/-- Shared by the C10, C11 and C29 drivers. -/
def runGossip (args : List String) : String :=
  match args with
  | t0 :: rel :: ops =>
    match nat? t0, bool? rel, ops.mapM parseOp with
    | some t0, some rel, some ops =>
      if t0 < GOSSIP_MAX_AGE || t0 > 1125899906842624 || !refsOk (args.drop 2) ops then "bad-op"
      else match go (init t0 rel) 0 ops [] with
        | some outs => if outs.isEmpty then "-" else joinWith "|" outs
        | none => "bad-op"
    | _, _, _ => "bad-op"
  | _ => "bad-op"

def run (args : List String) : String := runGossip args

end HeartwoodModel.Driver.C10
