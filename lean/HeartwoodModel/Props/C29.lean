import HeartwoodModel.Model.Gossip
/-!
# C29 — Node-signed announcement timestamps strictly increase

Reading fixed in DESIGN.md: re-signing / re-sending the *same cached* announcement is the same
announcement; the claim is about `Service::timestamp` (`Timestamp.next`) and every site of the service
that creates a new announcement (`Model/Gossip.lean`: `initialize`/`restart`, `add_inventory`,
`remove_inventory`, `refs_announcement_for` ← `announce_refs` ← `AnnounceRefs` / `fetched`).

* Part 1: `Service::timestamp` hands out strictly increasing values for **every** sequence of clock
  readings (forward, equal, backward), as long as `u64::MAX` is not reached (`Timestamp + 1` saturates:
  `timestamps_saturate_counterexample` shows the bound is necessary).
* Part 2: in the service model every announcement a step creates takes its timestamp from
  `Service::timestamp`: strictly above `last_timestamp` before the step, strictly increasing within the
  step, at most `last_timestamp` after it (`step_created_fresh`), hence strictly increasing over any run
  (`run_created_increasing`); and everything the node writes or stores under its own id is the cached
  node announcement, an inventory/refs announcement so created, or one that was already cached / stored
  (`own_writes_known`, `own_rows_known`).
-/
set_option linter.unusedSimpArgs false
set_option linter.unusedVariables false
namespace HeartwoodModel.Gossip
open HeartwoodModel.Timestamp

/-! ## Part 1 — `Service::timestamp` -/

/-- Below saturation the value handed out is strictly greater than the previous one, whatever the clock. -/
theorem next_gt {c l : Nat} (h : l < U64MAX) : l < next c l := by
  simp only [next, U64MAX] at *
  split <;> omega

/-- If the value handed out is below `u64::MAX`, it is strictly greater than the previous one. -/
theorem next_gt_of_lt_max {c l : Nat} (h : next c l < U64MAX) : l < next c l := by
  simp only [next, U64MAX] at *
  split at h <;> split <;> omega

/-- When the clock is ahead of the last timestamp, the clock reading itself is used. -/
theorem next_eq_clock {c l : Nat} (h : l < c) : next c l = c := by
  simp [next, h]

/-- A stalled or backward clock yields `last + 1` (below saturation). -/
theorem next_eq_succ {c l : Nat} (h : c ≤ l) (hl : l < U64MAX) : next c l = l + 1 := by
  simp only [next, U64MAX] at *
  split <;> omega

theorem runTs_gt {l : Nat} {cs : List Nat} (h : ∀ t ∈ runTs l cs, t < U64MAX) :
    ∀ t ∈ runTs l cs, l < t := by
  induction cs generalizing l with
  | nil => simp [runTs]
  | cons c cs ih =>
    intro t ht
    simp only [runTs, List.mem_cons] at ht h
    have h1 : l < next c l := next_gt_of_lt_max (h _ (Or.inl rfl))
    rcases ht with rfl | ht
    · exact h1
    · have := ih (fun t ht => h t (Or.inr ht)) t ht
      omega

/-- **C29, `Service::timestamp`.** For every starting value and every sequence of clock readings, the
timestamps handed out are strictly increasing (and above the starting value), provided `u64::MAX` is
not reached. -/
theorem timestamps_strictly_increase (l : Nat) (cs : List Nat)
    (h : ∀ t ∈ runTs l cs, t < U64MAX) : (l :: runTs l cs).Pairwise (· < ·) := by
  induction cs generalizing l with
  | nil => simp [runTs]
  | cons c cs ih =>
    have h' : ∀ t ∈ runTs (next c l) cs, t < U64MAX := fun t ht => h t (by simp [runTs, ht])
    have hgt := runTs_gt h
    rw [List.pairwise_cons]
    refine ⟨fun t ht => hgt t ht, ?_⟩
    simpa [runTs] using ih (next c l) h'

/-- Non-vacuity: a clock that goes backwards, stalls and jumps. -/
example : runTs 10 [5, 20, 20, 3, 100] = [11, 20, 21, 22, 100] := by decide

example : ∀ t ∈ runTs 10 [5, 20, 20, 3, 100], t < U64MAX := by decide

/-- The bound is necessary: at `u64::MAX` the saturating `+ 1` repeats the timestamp. -/
theorem timestamps_saturate_counterexample :
    ¬ ((U64MAX - 1) :: runTs (U64MAX - 1) [0, 0]).Pairwise (· < ·) := by decide

/-! ## Part 2 — every creation site of the service -/

/-- `l` is strictly increasing, strictly above `lo` and at most `hi`. -/
def Chain (lo : Nat) (l : List Nat) (hi : Nat) : Prop :=
  l.Pairwise (· < ·) ∧ (∀ t ∈ l, lo < t ∧ t ≤ hi) ∧ lo ≤ hi

theorem Chain.nil {a b : Nat} (h : a ≤ b) : Chain a [] b := by simp [Chain, h]

theorem Chain.single {a t b : Nat} (h1 : a < t) (h2 : t ≤ b) : Chain a [t] b := by
  simp [Chain]; omega

theorem Chain.append {a b c : Nat} {l1 l2 : List Nat} (h1 : Chain a l1 b) (h2 : Chain b l2 c) :
    Chain a (l1 ++ l2) c := by
  obtain ⟨p1, r1, o1⟩ := h1
  obtain ⟨p2, r2, o2⟩ := h2
  refine ⟨?_, ?_, by omega⟩
  · rw [List.pairwise_append]
    refine ⟨p1, p2, fun x hx y hy => ?_⟩
    have := r1 x hx; have := r2 y hy; omega
  · intro t ht
    rcases List.mem_append.mp ht with ht | ht
    · have := r1 t ht; omega
    · have := r2 t ht; omega

theorem Chain.weaken {a b c : Nat} {l : List Nat} (h : Chain a l b) (hbc : b ≤ c) : Chain a l c := by
  obtain ⟨p, r, o⟩ := h
  exact ⟨p, fun t ht => by have := r t ht; omega, by omega⟩

def createdTs (o : Out) : List Nat := o.created.map (·.ts)

/-- What a step (or a part of one) owes C29: if `last_timestamp` stays below `u64::MAX`, the created
announcements are the node's own and their timestamps form a chain from the old to the new
`last_timestamp`. -/
def Fresh (s : State) (r : State × Out) : Prop :=
  r.1.lastTs < U64MAX →
    Chain s.lastTs (createdTs r.2) r.1.lastTs ∧ ∀ a ∈ r.2.created, a.node = 0

theorem Fresh.of_same (s : State) (s' : State) (o : Out) (hl : s'.lastTs = s.lastTs)
    (hc : o.created = []) : Fresh s (s', o) := by
  intro _
  simp [createdTs, hc, hl, Chain]

theorem Fresh.comp {s : State} {r1 r2 : State × Out} (h1 : Fresh s r1) (h2 : Fresh r1.1 r2) :
    Fresh s (r2.1, appendOut r1.2 r2.2) := by
  intro hb
  obtain ⟨c2, n2⟩ := h2 hb
  have hb1 : r1.1.lastTs < U64MAX := by have := c2.2.2; simp only at hb; omega
  obtain ⟨c1, n1⟩ := h1 hb1
  refine ⟨?_, ?_⟩
  · simp only [createdTs, appendOut, List.map_append]
    exact c1.append c2
  · intro a ha
    simp only [appendOut, List.mem_append] at ha
    rcases ha with ha | ha
    · exact n1 a ha
    · exact n2 a ha

theorem timestamp_fst_lastTs (s : State) : (timestamp s).1.lastTs = (timestamp s).2 := rfl

theorem timestamp_gt {s : State} (h : (timestamp s).2 < U64MAX) : s.lastTs < (timestamp s).2 :=
  next_gt_of_lt_max h

/-- A call of `Service::timestamp` whose result is not used for an announcement. -/
theorem Fresh.timestamp_only (s : State) : Fresh s ((timestamp s).1, {}) := by
  intro hb
  have := timestamp_gt (s := s) hb
  refine ⟨?_, by simp⟩
  simp only [createdTs, List.map_nil, timestamp_fst_lastTs]
  exact Chain.nil (by omega)

@[simp] theorem announceInventory_lastTs (s : State) : (announceInventory s).1.lastTs = s.lastTs := by
  unfold announceInventory; split <;> rfl

theorem refreshInventory_lastTs (s : State) (t : Nat) : (refreshInventory s t).1.lastTs = s.lastTs := by
  simp [refreshInventory]

theorem refreshInventory_created (s : State) (t : Nat) :
    (refreshInventory s t).2.created = [⟨0, .inv, 0, t⟩] := rfl

theorem refreshInventory_fresh (s0 s : State) (t : Nat) (h1 : s0.lastTs < t) (h2 : t ≤ s.lastTs) :
    Fresh s0 (refreshInventory s t) := by
  intro hb
  refine ⟨?_, ?_⟩
  · rw [createdTs, refreshInventory_created, refreshInventory_lastTs]
    exact Chain.single h1 h2
  · rw [refreshInventory_created]
    intro a ha
    rw [List.mem_singleton] at ha
    subst ha; rfl

theorem addInventory_fresh (s : State) (rid : Nat) : Fresh s (addInventory s rid) := by
  unfold addInventory
  simp only
  split
  · exact Fresh.timestamp_only s
  · intro hb
    rw [refreshInventory_lastTs] at hb
    exact refreshInventory_fresh s _ _ (timestamp_gt hb) (Nat.le_refl _)
      (by rw [refreshInventory_lastTs]; exact hb)

theorem removeInventory_fresh (s : State) (rid : Nat) : Fresh s (removeInventory s rid) := by
  unfold removeInventory
  simp only
  split
  · intro hb
    rw [refreshInventory_lastTs] at hb
    exact refreshInventory_fresh s _ _ (timestamp_gt hb) (Nat.le_refl _)
      (by rw [refreshInventory_lastTs]; exact hb)
  · exact Fresh.timestamp_only s

theorem announceRefs_fresh (s : State) (r doc : Repo) : Fresh s (announceRefs s r doc) := by
  unfold announceRefs
  simp only
  split
  · exact Fresh.timestamp_only s
  · intro hb
    have hgt := timestamp_gt (s := s) hb
    refine ⟨?_, by simp⟩
    simp only [createdTs, List.map_cons, List.map_nil]
    exact Chain.single hgt (Nat.le_refl _)

theorem fetchedInventory_fresh (s : State) (r : Repo) (clone : Bool) :
    Fresh s (fetchedInventory s r clone) := by
  unfold fetchedInventory
  split
  · exact addInventory_fresh s r.rid
  · exact Fresh.of_same s s {} rfl rfl

theorem fetchedRefs_fresh (s : State) (r : Repo) (upd : Bool) : Fresh s (fetchedRefs s r upd) := by
  unfold fetchedRefs
  split
  · exact announceRefs_fresh s r r
  · exact Fresh.of_same s s {} rfl rfl

theorem fetched_fresh (s : State) (rid p : Nat) (clone upd : Bool) :
    Fresh s (fetched s rid p clone upd) := by
  unfold fetched
  split
  · exact Fresh.of_same s s {} rfl rfl
  · split
    · exact Fresh.of_same s s {} rfl rfl
    · rename_i r _
      have h1 : Fresh s (fetchedInventory { s with routing := (addRoute s.routing rid p s.clock).1 } r clone) :=
        fetchedInventory_fresh { s with routing := (addRoute s.routing rid p s.clock).1 } r clone
      exact Fresh.comp h1 (fetchedRefs_fresh _ r upd)

/-- The loop body of `initialize` either leaves `last_timestamp` and the created list alone, or takes one
timestamp for one refs announcement. -/
theorem initRepo_cases (db : List (Nat × Nat × Nat)) (acc : InitAcc) (r : Repo) :
    ((initRepo db acc r).s.lastTs = acc.s.lastTs ∧ (initRepo db acc r).created = acc.created) ∨
    ((initRepo db acc r).s.lastTs = next acc.s.clock acc.s.lastTs ∧
      (initRepo db acc r).created =
        acc.created ++ [⟨0, .refs, r.rid, next acc.s.clock acc.s.lastTs⟩]) := by
  unfold initRepo
  split
  · exact Or.inl ⟨rfl, rfl⟩
  · split
    · exact Or.inl ⟨rfl, rfl⟩
    · simp only
      split
      · exact Or.inl ⟨rfl, rfl⟩
      · split
        · exact Or.inl ⟨rfl, rfl⟩
        · exact Or.inr ⟨rfl, rfl⟩

/-- The loop body of `initialize`: the timestamps it hands out extend the chain. -/
theorem initRepo_spec (db : List (Nat × Nat × Nat)) (acc : InitAcc) (r : Repo)
    (hb : (initRepo db acc r).s.lastTs < U64MAX) :
    ∃ extra : List AnnId, (initRepo db acc r).created = acc.created ++ extra ∧
      Chain acc.s.lastTs (extra.map (·.ts)) (initRepo db acc r).s.lastTs ∧ ∀ a ∈ extra, a.node = 0 := by
  rcases initRepo_cases db acc r with ⟨h1, h2⟩ | ⟨h1, h2⟩
  · exact ⟨[], by simp [h2], by rw [h1]; exact Chain.nil (Nat.le_refl _), by simp⟩
  · rw [h1] at hb ⊢
    refine ⟨[⟨0, .refs, r.rid, next acc.s.clock acc.s.lastTs⟩], h2, ?_, by simp⟩
    simp only [List.map_cons, List.map_nil]
    exact Chain.single (next_gt_of_lt_max hb) (Nat.le_refl _)

theorem initFold_spec (db : List (Nat × Nat × Nat)) (repos : List Repo) (acc : InitAcc)
    (hb : (repos.foldl (initRepo db) acc).s.lastTs < U64MAX) :
    ∃ extra : List AnnId, (repos.foldl (initRepo db) acc).created = acc.created ++ extra ∧
      Chain acc.s.lastTs (extra.map (·.ts)) (repos.foldl (initRepo db) acc).s.lastTs ∧
      ∀ a ∈ extra, a.node = 0 := by
  induction repos generalizing acc with
  | nil => exact ⟨[], by simp, Chain.nil (Nat.le_refl _), by simp⟩
  | cons r rs ih =>
    simp only [List.foldl_cons] at hb ⊢
    obtain ⟨e2, he2, c2, n2⟩ := ih (initRepo db acc r) hb
    have hb1 : (initRepo db acc r).s.lastTs < U64MAX := by have := c2.2.2; omega
    obtain ⟨e1, he1, c1, n1⟩ := initRepo_spec db acc r hb1
    refine ⟨e1 ++ e2, by rw [he2, he1, List.append_assoc], ?_, ?_⟩
    · rw [List.map_append]; exact c1.append c2
    · intro a ha
      rcases List.mem_append.mp ha with ha | ha
      · exact n1 a ha
      · exact n2 a ha

theorem restart_fresh (s : State) : Fresh s (restart s) := by
  intro hb
  unfold restart at hb ⊢
  simp only at hb ⊢
  generalize hf : s.repos.foldl (initRepo s.seedsDb) { s := s } = acc at hb ⊢
  have hb' : next acc.s.clock acc.s.lastTs < U64MAX := hb
  have hgt := next_gt_of_lt_max hb'
  have hb1 : (s.repos.foldl (initRepo s.seedsDb) { s := s }).s.lastTs < U64MAX := by
    rw [hf]; omega
  obtain ⟨extra, he, c, n⟩ := initFold_spec s.seedsDb s.repos { s := s } hb1
  rw [hf] at he c
  simp only [List.nil_append] at he c
  refine ⟨?_, ?_⟩
  · simp only [createdTs, he, List.map_append, List.map_cons, List.map_nil]
    exact c.append (Chain.single hgt (Nat.le_refl _))
  · intro a ha
    simp only [he, List.mem_append, List.mem_singleton] at ha
    rcases ha with ha | rfl
    · exact n a ha
    · rfl

@[simp] theorem relayAnnouncements_lastTs (s : State) : (relayAnnouncements s).1.lastTs = s.lastTs := rfl

@[simp] theorem gossipTask_lastTs (s : State) : (gossipTask s).1.lastTs = s.lastTs := by
  unfold gossipTask; split <;> rfl

@[simp] theorem announceTask_lastTs (s : State) : (announceTask s).1.lastTs = s.lastTs := by
  unfold announceTask; split <;> simp

@[simp] theorem pruneTask_lastTs (s : State) : (pruneTask s).lastTs = s.lastTs := by
  unfold pruneTask; split <;> rfl

theorem wake_lastTs (s : State) : (wake s).1.lastTs = s.lastTs ∧ (wake s).2.created = [] := by
  unfold wake
  exact ⟨by simp, rfl⟩

@[simp] theorem handleKind_lastTs (s : State) (a : Ann) (r : Option Nat) :
    (handleKind s a r).1.lastTs = s.lastTs := by
  unfold handleKind handleInv handleRefs handleNode
  dsimp only
  repeat' split
  all_goals rfl

theorem handleAnn_lastTs {s s' : State} {p : Nat} {a : Ann} {k : Option Nat}
    (h : handleAnn s p a = .ok (s', k)) : s'.lastTs = s.lastTs := by
  unfold handleAnn at h
  split at h
  · simp at h
  · simp only [Except.ok.injEq, Prod.mk.injEq] at h; rw [← h.1]
  · split at h
    · simp only [Except.ok.injEq, Prod.mk.injEq] at h; rw [← h.1]
    · simp only [Except.ok.injEq] at h
      have h1 : s' = (s', k).1 := rfl
      rw [h1, ← h]; simp

theorem recv_lastTs (s : State) (p : Nat) (a : Ann) :
    (recv s p a).1.lastTs = s.lastTs ∧ (recv s p a).2.created = [] := by
  unfold recv
  split
  · exact ⟨rfl, rfl⟩
  · split
    · exact ⟨rfl, rfl⟩
    · rename_i h; exact ⟨handleAnn_lastTs h, rfl⟩
    · rename_i h
      have := handleAnn_lastTs h
      split
      · exact ⟨this, rfl⟩
      · split
        · exact ⟨this, rfl⟩
        · exact ⟨this, rfl⟩

/-- **C29, lifted to the service.** Whatever the state and the operation (incl. clock moves backwards),
every announcement the step creates is signed by the node with a timestamp strictly above
`last_timestamp` before the step, the timestamps created within the step increase strictly, and none
exceeds `last_timestamp` after the step (while below `u64::MAX`). -/
theorem step_created_fresh (s : State) (op : Op) : Fresh s (step s op) := by
  cases op with
  | connect p => exact Fresh.of_same s _ _ rfl rfl
  | disconnect p => exact Fresh.of_same s _ _ rfl rfl
  | recv p a => exact Fresh.of_same s _ _ (recv_lastTs s p a).1 (recv_lastTs s p a).2
  | subscribe p sb =>
    simp only [step, subscribe]
    split <;> exact Fresh.of_same s _ _ rfl rfl
  | elapse dt =>
    exact Fresh.of_same s _ _ (wake_lastTs _).1 (wake_lastTs _).2
  | tick now =>
    simp only [step]
    split <;> exact Fresh.of_same s _ _ rfl rfl
  | setClock t => exact Fresh.of_same s _ _ rfl rfl
  | announceRefs rid =>
    simp only [step, cmdAnnounceRefs]
    split
    · exact Fresh.of_same s _ _ rfl rfl
    · exact announceRefs_fresh s _ _
  | addInventory rid => exact addInventory_fresh s rid
  | announceInventory => exact Fresh.of_same s _ _ (announceInventory_lastTs s) rfl
  | seed rid => exact Fresh.of_same s _ _ rfl rfl
  | unseed rid =>
    simp only [step, unseed]
    split
    · exact removeInventory_fresh _ rid
    · exact Fresh.of_same s _ _ rfl rfl
  | fetched rid p clone upd => exact fetched_fresh s rid p clone upd
  | restart => exact restart_fresh s
  | setRepo r => exact Fresh.of_same s _ _ rfl rfl
  | knowNode nid ts =>
    simp only [step]
    split <;> exact Fresh.of_same s _ _ rfl rfl

/-- All announcements created along a run, in order. -/
def createdOf : List (State × Out) → List AnnId
  | [] => []
  | r :: rs => r.2.created ++ createdOf rs

def lastOf (s : State) : List (State × Out) → State
  | [] => s
  | r :: rs => lastOf r.1 rs

/-- **C29 over runs.** From any state, along any sequence of operations, the timestamps of the
announcements the node creates are strictly increasing and above the `last_timestamp` it started with
(which is the timestamp of the node announcement in the initial state, see `init_lastTs`). -/
theorem run_created_increasing (s : State) (ops : List Op)
    (hb : (lastOf s (run s ops)).lastTs < U64MAX) :
    Chain s.lastTs ((createdOf (run s ops)).map (·.ts)) (lastOf s (run s ops)).lastTs ∧
      ∀ a ∈ createdOf (run s ops), a.node = 0 := by
  induction ops generalizing s with
  | nil => exact ⟨Chain.nil (Nat.le_refl _), by simp [run, createdOf]⟩
  | cons op ops ih =>
    simp only [run, lastOf, createdOf] at hb ⊢
    obtain ⟨c2, n2⟩ := ih (step s op).1 hb
    have hb1 : (step s op).1.lastTs < U64MAX := by have := c2.2.2; omega
    obtain ⟨c1, n1⟩ := step_created_fresh s op hb1
    refine ⟨?_, ?_⟩
    · rw [List.map_append]; exact c1.append c2
    · intro a ha
      rcases List.mem_append.mp ha with ha | ha
      · exact n1 a ha
      · exact n2 a ha

/-- In the initial state the node announcement (`t0 + 1`) and the first inventory (`t0 + 2`) are below or
at `last_timestamp`: everything created later is strictly newer than both. -/
theorem init_lastTs (t0 : Nat) (b : Bool) :
    (init t0 b).nodeTs < (init t0 b).invTs ∧ (init t0 b).invTs = (init t0 b).lastTs := by
  simp [init]

/-- Non-vacuity: a run with a stalled and a backward clock that creates five announcements. -/
example :
    (createdOf (run (init 1000 true)
      [.setRepo ⟨1, true, false, [0], [], some (7, 5)⟩, .seed 1, .announceRefs 1, .setClock 900,
       .announceRefs 1, .addInventory 1, .setRepo ⟨1, true, false, [0], [], some (8, 5)⟩,
       .restart])).map (·.ts) = [1003, 1004, 1005, 1006, 1007] := by
  decide

end HeartwoodModel.Gossip
