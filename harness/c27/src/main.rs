//! C27 harness (stub: not implemented yet).
fn main() {
    eprintln!("C27: harness not implemented");
    std::process::exit(3);
}
