import HeartwoodModel.Model.Quorum
import HeartwoodModel.Driver.Util
/-! Driver entry for C03.

Case: `<mode> <parents> <salt> <ord> <le> <rel> <tips> <threshold>`
* `mode` — `v` (votes set with `modify_vote`) or `f` (refs on disk read by `Canonical::reference`); the
  model is the same for both.
* `parents` — per commit `r` (root) or `i+j…` (indices of earlier commits); `salt` — a number mixed into
  the commit messages (varies the oid order). Both are only used by the harness to rebuild the graph.
* `ord` — rank of each commit in the order of the real oids (a permutation of `0..n-1`).
* `le`, `rel` — `n` rows of `n` bits: `le[i][j]` = commit `i` is `j` or an ancestor of `j`,
  `rel[i][j]` = `git_merge_base(i, j)` succeeds; computed by the real libgit2.
* `tips` — per delegate a commit index or `x` (no tip).
Output: `ok:<commit index>` | `none` | `diverging` | `git`. -/
namespace HeartwoodModel.Driver.C03
open HeartwoodModel.Quorum HeartwoodModel.Driver.Util

def parseParents (s : String) : Option Nat :=
  let rows := splitOn s ','
  let rec go : List String → Nat → Option Nat
    | [], i => some i
    | r :: rs, i =>
      if r == "r" then go rs (i + 1)
      else
        match (splitOn r '+').mapM nat? with
        | some ps => if !ps.isEmpty && ps.all (· < i) then go rs (i + 1) else none
        | none => none
  go rows 0

def parseMatrix (s : String) (n : Nat) : Option (List (List Bool)) := do
  let rows := splitOn s ','
  if rows.length != n then none
  let m ← rows.mapM (fun r => r.toList.mapM (fun c => if c == '1' then some true else if c == '0' then some false else none))
  if m.all (·.length == n) then some m else none

def look (m : List (List Bool)) (i j : Nat) : Bool :=
  match m[i]? with
  | some row => match row[j]? with
    | some b => b
    | none => false
  | none => false

def isPerm (xs : List Nat) : Bool :=
  (List.range xs.length).all (fun i => xs.contains i)

def indexOf? (xs : List Nat) (x : Nat) : Option Nat :=
  let rec go : List Nat → Nat → Option Nat
    | [], _ => none
    | y :: ys, i => if y = x then some i else go ys (i + 1)
  go xs 0

def parseTips (s : String) (n : Nat) : Option (List (Option Nat)) :=
  (splitOn s ',').mapM (fun t =>
    if t == "x" then some none
    else match nat? t with
      | some c => if c < n then some (some c) else none
      | none => none)

def run (args : List String) : String :=
  match args with
  | [mode, parents, salt, ord, le, rel, tips, thr] =>
    if mode != "v" && mode != "f" then "bad-op" else
    match parseParents parents, nat? salt, nats? ord, nat? thr with
    | some n, some _, some ord, some t =>
      if n == 0 || ord.length != n || !isPerm ord then "bad-op" else
      match parseMatrix le n, parseMatrix rel n, parseTips tips n with
      | some leM, some relM, some tips =>
        -- model oids are the ranks; `idx r` = commit index of rank `r`
        let idx (r : Nat) : Nat := (indexOf? ord r).getD n
        let leR (a b : Nat) : Bool := look leM (idx a) (idx b)
        let relR (a b : Nat) : Bool := look relM (idx a) (idx b)
        let rec build : List (Option Nat) → Nat → List (Nat × Nat) → List (Nat × Nat)
          | [], _, acc => acc
          | none :: rest, d, acc => build rest (d + 1) acc
          | some c :: rest, d, acc => build rest (d + 1) (setTip d (ord.getD c n) acc)
        let tipsM := build tips 1 []
        match quorum leR relR tipsM t with
        | .ok r =>
          match indexOf? ord r with
          | some i => s!"ok:{i}"
          | none => "bad-op"
        | .error .noCandidates => "none"
        | .error .diverging => "diverging"
        | .error .git => "git"
      | _, _, _ => "bad-op"
    | _, _, _, _ => "bad-op"
  | _ => "bad-op"

end HeartwoodModel.Driver.C03
