import HeartwoodModel.Model.Pktline
/-!
# Model of the responder side of a fetch: `Worker::_process`, `FetchRequest::Responder` branch,
and `Worker::is_authorized` (`radicle-node/src/worker.rs`) — C12

Order of the Rust:

1. `pktline::git_request(&mut stream_r)` — error ⇒ `FetchResult::Responder { rid: None, Err }`;
2. `is_authorized(remote, header.repo)`:
   `policies.seed_policy(&rid)?.policy` (the stored policy of the repository, or the node's default one);
   `policy.is_block()` ⇒ `Unauthorized`; `storage.repository(rid)?`; `repo.identity_doc()?`;
   `!doc.is_visible_to(remote)` ⇒ `Unauthorized`;
3. only then `upload_pack::upload_pack(…, stream_r, stream_w, …)`, the only code that writes to the stream.

`Doc::is_visible_to` (`radicle/src/identity/doc.rs`): public, or on the allow list, or a delegate.

Parameters (opaque, supplied per case / quantified in the theorems): `ridOf` (see `Pktline`), the policy
store lookup, the storage lookup (the document read through `refs/rad/id`, and the canonical one), and
`upload`, the bytes `git upload-pack` writes for a request.

Import-free apart from `Model/Pktline`.
-/
namespace HeartwoodModel.Serve
open HeartwoodModel.Pktline

/-- `SeedingPolicy`: `Allow { scope }` (the scope plays no role on this path) or `Block`. -/
inductive Policy where
  | allow
  | block
  deriving Repr, DecidableEq

/-- `SeedingPolicy::is_block` is defined as `!is_allow()`. -/
def Policy.isBlock : Policy → Bool
  | .allow => false
  | .block => true

/-- `Visibility` -/
inductive Visibility (Nid : Type) where
  | pub
  | priv (allow : List Nid)
  deriving Repr

structure Doc (Nid : Type) where
  visibility : Visibility Nid
  delegates : List Nid
  deriving Repr

variable {Nid Rid : Type} [DecidableEq Nid]

/-- `Doc::is_visible_to` -/
def Doc.isVisibleTo (d : Doc Nid) (n : Nid) : Bool :=
  match d.visibility with
  | .pub => true
  | .priv allow => allow.contains n || d.delegates.contains n

/-- Why a parsed request was not served. -/
inductive Refusal where
  /-- `seed_policy` failed (SQLite) -/
  | policyError
  /-- `policy.is_block()` -/
  | blocked
  /-- `storage.repository(rid)` / `identity_doc()` failed (repository not in storage, …) -/
  | storageError
  /-- `!doc.is_visible_to(remote)` -/
  | invisible
  deriving Repr, DecidableEq

inductive Outcome (Rid : Type) where
  /-- `FetchResult::Responder { rid: None, result: Err(_) }` -/
  | parseError (k : ErrKind)
  /-- `FetchResult::Responder { rid: Some(rid), result: Err(_) }` from `is_authorized` -/
  | refused (rid : Rid) (why : Refusal)
  /-- `upload_pack` ran -/
  | served (rid : Rid)
  | panic (s : Site)
  deriving Repr, DecidableEq

structure Env (Nid Rid : Type) where
  /-- `RepoId::from_canonical` -/
  ridOf : Bytes → Option Rid
  /-- `policies.seed_policy(rid)`: `none` = store error; the default policy is already folded in -/
  policyOf : Rid → Option Policy
  /-- `storage.repository(rid)?.identity_doc()?`: the document the WORKER reads, i.e. the one at the cached
  canonical identity head `refs/rad/id`; `none` = error -/
  docOf : Rid → Option (Doc Nid)
  /-- the CURRENT identity document of the repository: the one at the canonical head computed from the
  identity COB in storage (`Identity::load`), whatever `refs/rad/id` says -/
  docCanonical : Rid → Option (Doc Nid)
  /-- everything `upload_pack` writes to the stream for this request -/
  upload : GitRequest Rid → Bytes

/-- The cached head is fresh: `refs/rad/id` points at the canonical identity head. The code establishes this
with `repo.set_identity_head()` after every successful fetch (`worker/fetch.rs`, `Handle::fetch`) and after
every local identity update; the worker itself never recomputes it. It is an explicit input of the model:
`is_authorized` decides on `docOf`, the property speaks about `docCanonical`. -/
def Env.HeadFresh (env : Env Nid Rid) : Prop := ∀ rid, env.docOf rid = env.docCanonical rid

/-- `Worker::is_authorized` -/
def isAuthorized (env : Env Nid Rid) (remote : Nid) (rid : Rid) : Except Refusal Unit :=
  match env.policyOf rid with
  | none => .error .policyError
  | some policy =>
    if policy.isBlock then .error .blocked else
    match env.docOf rid with
    | none => .error .storageError
    | some doc => if !doc.isVisibleTo remote then .error .invisible else .ok ()

/-- `Worker::_process`, responder branch: the result and the bytes written to the stream. -/
def respond (env : Env Nid Rid) (remote : Nid) (stream : Bytes) : Outcome Rid × Bytes :=
  match gitRequest env.ridOf stream with
  | .err k => (.parseError k, [])
  | .panic s => (.panic s, [])
  | .ok header =>
    match isAuthorized env remote header.repo with
    | .error why => (.refused header.repo why, [])
    | .ok () => (.served header.repo, env.upload header)

end HeartwoodModel.Serve
