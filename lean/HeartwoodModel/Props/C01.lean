import HeartwoodModel.Lemmas.Fetch
/-!
# C01 — Replicated refs always match their owner's signed refs

Property theorems about `Model/Fetch.lean` (`fetch env cfg L A = (outcome, post)`; `L` = the fetcher's refdb
before, `A` = the serving peer's advertisement, `env` = content of the sigrefs commits / git ancestry).

Hypotheses (all satisfied by the worlds the harness extracts; see the `example`s at the end):
* `EnvWf env`   — `rad/id`, `rad/sigrefs` are distinct names under `refs/rad`; a sigrefs blob lists a name once;
* `AncWf env`   — the objects `repository::update` asks about are present (the transport delivered what was
                  wanted) and two different object ids never compare `Equal` (no annotated tags).
There is NO hypothesis on the advertisement `A`: the serving side may list references in any order and any
number of times (`special_order_regression`, `duplicate_listing_regression`: the two defects this exposed
were repaired in /repo, 98aa288 and its follow-up).

Full-strength statement of the first sentence (`MatchesExactly` for every changed namespace) is FALSE of the
current code: `fetch_changed_ns_matches_sigrefs_counterexample` (known finding `stale-unsigned-rad-ref`:
"'rad/' refs are never subject to pruning"). What holds for every input is
`fetch_changed_ns_matches_up_to_stale_rad`; `fetch_changed_ns_matches_sigrefs_partial` is the full conclusion
under the hypothesis that excludes exactly that class.
-/
set_option linter.unusedSimpArgs false
set_option linter.unusedVariables false
namespace HeartwoodModel.Fetch

/-- First sentence of C01 for one namespace, at full strength: the namespace has a `rad/sigrefs` whose blob
carries a valid signature by the namespace key and names this repository's identity (if it names one), and
apart from `rad/sigrefs` the namespace contains exactly the references the blob lists, each pointing at the
listed object. -/
def MatchesExactly (env : Env) (db : Refdb) (k : Key) : Prop :=
  ∃ tip b, db.get (k, env.nSig) = some tip ∧ env.blob k tip = some b ∧
    b.sigOk = true ∧ b.idRoot ≠ IdRoot.other ∧
    ∀ n, n ≠ env.nSig → db.get (k, n) = b.lookup n

theorem Blob.valid_iff (b : Blob) : b.valid = true ↔ b.sigOk = true ∧ b.idRoot ≠ IdRoot.other := by
  unfold Blob.valid
  cases b.sigOk <;> cases b.idRoot <;> simp

/-- **C01, first sentence, for every input and every outcome** (success, failure, error with partial
application): every namespace is either exactly as before the fetch, or it matches its signed refs up to
stored `refs/rad/*` references that the new signed refs no longer list. -/
theorem fetch_changed_ns_matches_up_to_stale_rad (env : Env) (hw : EnvWf env) (hanc : AncWf env)
    (cfg : Config) (L A : Refdb) (k : Key) :
    NsEq (fetch env cfg L A).2 L k ∨ Matches env L (fetch env cfg L A).2 k := by
  rcases fetch_cases env cfg L A with ⟨h, _⟩ | ⟨anchor, stage, sr, l, _, hs, hsr, hl, _, hpost, _⟩
  · left; rw [h]; intro n; rfl
  · rw [hpost]
    obtain ⟨hsorted, hfacts⟩ := loop_remotes_spec hsr hl
    exact apply_final env hw hanc l.remotes hsorted hfacts L (fun _ _ _ => rfl)
      (fun _ => Or.inl (fun _ => rfl)) k

/-- **C01, first sentence, partial**: under the hypothesis that every stored `refs/rad/*` reference of the
namespace (other than `rad/sigrefs`) is listed in the new signed refs, a namespace changed by the fetch
matches its signed refs exactly. -/
theorem fetch_changed_ns_matches_sigrefs_partial (env : Env) (hw : EnvWf env) (hanc : AncWf env)
    (cfg : Config) (L A : Refdb) (k : Key)
    (hchanged : ¬ NsEq (fetch env cfg L A).2 L k)
    (hrad : ∀ tip b, (fetch env cfg L A).2.get (k, env.nSig) = some tip → env.blob k tip = some b →
      ∀ n, env.isRad n = true → n ≠ env.nSig → (L.get (k, n)).isSome → (b.lookup n).isSome) :
    MatchesExactly env (fetch env cfg L A).2 k := by
  rcases fetch_changed_ns_matches_up_to_stale_rad env hw hanc cfg L A k with h | h
  · exact absurd h hchanged
  · obtain ⟨tip, b, h1, h2, h3, h4⟩ := h
    obtain ⟨hs, hr⟩ := (Blob.valid_iff b).mp h3
    refine ⟨tip, b, h1, h2, hs, hr, ?_⟩
    intro n hn
    rcases h4 n hn with h | ⟨hrn, hl, hkeep⟩
    · exact h
    · rw [hl]
      cases hL : L.get (k, n) with
      | none => rw [hkeep, hL]
      | some o =>
        have := hrad tip b h1 h2 n hrn hn (by rw [hL]; rfl)
        rw [hl] at this; cases this

/-- The remote `k` went through every check of this fetch. -/
def Validated (env : Env) (cfg : Config) (L A : Refdb) (k : Key) : Prop :=
  ∃ anchor stage tip b,
    anchorOf cfg = some anchor ∧
    specialStage env cfg (blockedOf cfg) (delegatesOf cfg anchor) (thresholdOf cfg anchor) A = .ok stage ∧
    cachedLoad env L stage.sp k = .ok (some (tip, b)) ∧
    verdictOf env L stage.sp (blockedOf cfg) (delegatesOf cfg anchor) k tip b = .validated

/-- **C01, second sentence**: a namespace that did not pass every check is left exactly as it was — for
every outcome, including the errors that abort `repository::update` half-way. -/
theorem fetch_failed_ns_unchanged (env : Env) (cfg : Config) (L A : Refdb) (k : Key)
    (hk : ¬ Validated env cfg L A k) : NsEq (fetch env cfg L A).2 L k := by
  rcases fetch_cases env cfg L A with ⟨h, _⟩ | ⟨anchor, stage, sr, l, ha, hs, hsr, hl, _, hpost, _⟩
  · rw [h]; intro n; rfl
  · rw [hpost]
    obtain ⟨_, hfacts⟩ := loop_remotes_spec hsr hl
    intro n
    apply final_frame
    intro e he heq
    obtain ⟨hload, hv⟩ := hfacts e he
    subst heq
    exact hk ⟨anchor, stage, e.2.1, e.2.2, ha, hs, hload, hv⟩

/-- What "passed every check" means, in terms of the advertised data: the remote is not blocked; a
`rad/sigrefs` tip was offered for it (advertised, or announced through `refs_at`); the commit reads as a blob
with a valid signature by the remote's key that names this repository (if any); the blob does not list
`rad/sigrefs` itself; an advertised `rad/id` of the remote is listed in the blob; and the offered tip is the
stored one or ahead of it (not behind, not diverged). -/
theorem validated_means (env : Env) (hw : EnvWf env) (cfg : Config) (L A : Refdb) (k : Key)
    (h : Validated env cfg L A k) :
    ∃ anchor stage tip b,
      specialStage env cfg (blockedOf cfg) (delegatesOf cfg anchor) (thresholdOf cfg anchor) A = .ok stage ∧
      (blockedOf cfg).contains k = false ∧
      stage.sp.get (k, env.nSig) = some tip ∧
      env.blob k tip = some b ∧ b.sigOk = true ∧ b.idRoot ≠ IdRoot.other ∧
      b.lookup env.nSig = none ∧
      (∀ x, stage.sp.get (k, env.nId) = some x → (b.lookup env.nId).isSome) ∧
      (L.get (k, env.nSig) = none ∨ ∃ cur, L.get (k, env.nSig) = some cur ∧
        (cur = tip ∨ env.anc cur tip = some .equal ∨ env.anc cur tip = some .ahead)) := by
  obtain ⟨anchor, stage, tip, b, _, hs, hload, hv⟩ := h
  obtain ⟨hblob, hvalid, hc, hsig, hid⟩ := validated_facts hw hload hv
  obtain ⟨hb, hpre, _⟩ := verdict_validated hv
  obtain ⟨hs1, hs2⟩ := (Blob.valid_iff b).mp hvalid
  refine ⟨anchor, stage, tip, b, hs, hb, hsig, hblob, hs1, hs2, lookup_sig_none hc, ?_, ?_⟩
  · intro x hx
    cases hlk : b.lookup env.nId with
    | none => exact absurd hlk (hid x hx)
    | some _ => rfl
  · rcases hpre with h | ⟨cur, h, ha⟩
    · exact Or.inl h
    · right
      refine ⟨cur, h, ?_⟩
      by_cases hct : cur = tip
      · exact Or.inl hct
      · right; rw [ancestry_ne env hct] at ha; exact ha

/-- **The modelled fetch never panics**: every path of `FetchState::run` that the model covers ends in
`Success`, `Failed` or `Err`. (The last panic site on that path, the `expect` on the canonical `rad/id` in
`CanonicalId::prepare_updates`, was repaired in /repo: 53845ef. The harness reports any panic of the real
code as the oracle violation `fetch-panic`.) -/
theorem fetch_no_panic (env : Env) (cfg : Config) (L A : Refdb) : (fetch env cfg L A).1 ≠ .panic := by
  unfold fetch
  split
  · intro h; cases h
  · split
    · intro h; cases h
    · simp only
      split
      · intro h; cases h
      · split
        · intro h; cases h
        · split
          · intro h; cases h
          · split
            · split <;> (intro h; cases h)
            · intro h; cases h

/-- A serving peer that does not advertise the canonical `refs/rad/id`: error, nothing applied. -/
example (env : Env) (cfg : Config) (L A : Refdb) (h : cfg.advDoc = none) :
    fetch env cfg L A = (.error, L) := by
  unfold fetch; rw [h]

/-! ## The full-strength first sentence is false of the current code (known finding) -/

namespace Witness

/-- names: 0 = `refs/rad/id`, 1 = `refs/rad/sigrefs`, 2 = `refs/heads/master`. -/
def b20 : Blob := { refs := [(0, 10), (2, 30)], sigOk := true, idRoot := .absent }
/-- The owner re-signed without `rad/id`. -/
def b21 : Blob := { refs := [(2, 31)], sigOk := true, idRoot := .absent }
/-- As `b21`, but still listing `rad/id`. -/
def b22 : Blob := { refs := [(0, 10), (2, 31)], sigOk := true, idRoot := .absent }

def env : Env :=
  { nId := 0, nSig := 1, isRad := fun n => decide (n ≤ 1),
    blob := fun k t =>
      if k = 0 ∧ t = 20 then some b20 else if k = 0 ∧ t = 21 then some b21
      else if k = 0 ∧ t = 22 then some b22 else none,
    anc := fun a b =>
      if (a = 20 ∧ (b = 21 ∨ b = 22)) ∨ (a = 21 ∧ b = 22) ∨ (a = 30 ∧ b = 31) then some .ahead
      else if (a = 22 ∧ b = 21) then some .behind else some .diverged }

def doc : Doc := { delegates := [0], threshold := 1 }
def cfg : Config :=
  { localDoc := some doc, advDoc := some doc, localKey := 5, isClone := false, scope := none,
    blocked := [], refsAt := none }
/-- The fetcher stores namespace 0 with `rad/id`, `rad/sigrefs` (commit 20) and `master`. -/
def L : Refdb := [((0, 0), 10), ((0, 1), 20), ((0, 2), 30)]
/-- The server advertises the new `rad/sigrefs` (commit 21) only. -/
def A : Refdb := [((0, 1), 21)]
/-- The server lists `rad/sigrefs` (commit 22) BEFORE a diverged `rad/id`. -/
def Arev : Refdb := [((0, 1), 22), ((0, 0), 11)]
/-- The fetcher already stores commit 22 of namespace 0. -/
def L22 : Refdb := [((0, 0), 10), ((0, 1), 21), ((0, 2), 31)]
/-- The server lists `rad/sigrefs` of namespace 0 twice: first the newer commit 22, then the stored 21. -/
def Adup : Refdb := [((0, 1), 22), ((0, 1), 21)]

theorem envWf : EnvWf env := by
  refine ⟨by decide, by decide, by decide, ?_⟩
  intro k t b h
  simp only [env] at h
  split at h
  · injection h with h; subst h; decide
  · split at h
    · injection h with h; subst h; decide
    · split at h
      · injection h with h; subst h; decide
      · cases h

theorem ancWf : AncWf env := by
  intro a b _
  simp only [env]
  split
  · exact ⟨_, rfl, by decide⟩
  · split
    · exact ⟨_, rfl, by decide⟩
    · exact ⟨_, rfl, by decide⟩

end Witness

open Witness in
/-- **Counterexample to the full-strength first sentence** (known finding `stale-unsigned-rad-ref`): the
owner of namespace 0 honestly re-signs without its `refs/rad/id`; the fetch succeeds, moves `rad/sigrefs` and
`master`, and keeps the stale, now unsigned `refs/rad/id`. All hypotheses of the theorems above hold. -/
theorem fetch_changed_ns_matches_sigrefs_counterexample :
    EnvWf env ∧ AncWf env ∧
    ¬ NsEq (fetch env cfg L A).2 L 0 ∧ ¬ MatchesExactly env (fetch env cfg L A).2 0 := by
  have h1 : (fetch env cfg L A).2.get (0, 1) = some 21 := by decide
  have h0 : (fetch env cfg L A).2.get (0, 0) = some 10 := by decide
  refine ⟨envWf, ancWf, ?_, ?_⟩
  · intro h
    have := h 1
    rw [h1] at this
    revert this; decide
  · rintro ⟨tip, b, ht, hb, _, _, hall⟩
    have ht' : (fetch env cfg L A).2.get (0, 1) = some tip := ht
    rw [h1] at ht'; injection ht' with ht'; subst ht'
    have hb21 : b = b21 := by
      have : env.blob 0 21 = some b21 := rfl
      rw [this] at hb; injection hb with hb; exact hb.symm
    subst hb21
    have := hall 0 (by decide)
    rw [h0] at this
    revert this; decide

open Witness in
/-- **Regression for the repaired defect 98aa288** (found by a failed proof: the theorems above used to need
"a remote's `rad/id` is listed before its `rad/sigrefs`"): the server lists delegate 0's `rad/sigrefs` BEFORE
a diverged `rad/id`. `repository::update` aborts on the `rad/id` update (`Policy::Abort`) — and since that
update now comes first, nothing of the namespace has been applied: the outcome is an error and storage is
unchanged. (Before the repair, `rad/sigrefs` had already moved to 22 while `master` stayed at 30.) -/
theorem special_order_regression : fetch env cfg L Arev = (.error, L) := by rfl

open Witness in
/-- **Regression for the follow-up repair** (the other half of the dropped hypothesis: "every reference is
listed once"): the server lists `rad/sigrefs` of namespace 0 twice, newer commit first. The last listing — the
stored commit 21 — is the one that is recorded, verified, validated AND queued: the fetch succeeds and the
namespace is unchanged. (Before the repair both updates were queued: `rad/sigrefs` moved to 22 while the data
refs followed 21.) -/
theorem duplicate_listing_regression : fetch env cfg L22 Adup = (.success [0], L22) := by rfl

/-! ## Non-vacuity -/

open Witness in
/-- The hypotheses of the theorems are satisfiable by a world in which a namespace really changes and
matches its signed refs exactly (the owner keeps signing `rad/id`: blob 22). -/
example : EnvWf env ∧ AncWf env ∧
    ¬ NsEq (fetch env cfg L [((0, 1), 22)]).2 L 0 ∧
    (fetch env cfg L [((0, 1), 22)]).2 = [((0, 2), 31), ((0, 1), 22), ((0, 0), 10)] ∧
    Validated env cfg L [((0, 1), 22)] 0 := by
  refine ⟨envWf, ancWf, ?_, by decide, ?_⟩
  · intro h
    have := h 1
    revert this; decide
  · exact ⟨doc, { sp := [((0, 1), 22)], loadKeys := [0, 0] }, 22, b22, rfl, rfl, rfl, by decide⟩

open Witness in
/-- A namespace that fails a check (here: the offered tip 20 is *behind* the stored one) is not validated, and
the hypothesis of `fetch_failed_ns_unchanged` is satisfiable. -/
example : ¬ Validated env cfg [((0, 1), 21), ((0, 2), 31)] [((0, 1), 20)] 0 := by
  rintro ⟨anchor, stage, tip, b, ha, hs, hload, hv⟩
  have ha' : anchor = doc := by
    have : anchorOf cfg = some doc := rfl
    rw [this] at ha; injection ha with ha; exact ha.symm
  subst ha'
  have hs' : stage = { sp := [((0, 1), 20)], loadKeys := [0, 0] } := by
    have : specialStage env cfg (blockedOf cfg) (delegatesOf cfg doc) (thresholdOf cfg doc) [((0, 1), 20)] =
        .ok { sp := [((0, 1), 20)], loadKeys := [0, 0] } := rfl
    rw [this] at hs; injection hs with hs; exact hs.symm
  subst hs'
  have hl : cachedLoad env [((0, 1), 21), ((0, 2), 31)] [((0, 1), 20)] 0 = .ok (some (20, b20)) := rfl
  rw [hl] at hload
  injection hload with hload; injection hload with hload; injection hload with h1 h2
  subst h1; subst h2
  revert hv; decide

end HeartwoodModel.Fetch
