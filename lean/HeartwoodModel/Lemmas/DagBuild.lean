import HeartwoodModel.Lemmas.DagPrune
/-!
# Building graphs: `node`, `dependency`, edge lists, `merge`

* `dependency` and `node` (fresh key) keep the representation sorted and keep `tips`/`roots`
  consistent with the edge sets (`TRC`), whatever their arguments.
* `EdgesAdded`: what folding `dependency` over a list of edges does.
* `mergeLoop_post`: the work list of `merge`.
-/
set_option linter.unusedSimpArgs false
set_option linter.unusedVariables false
namespace HeartwoodModel.Dag
variable {V : Type}

/-- `tips` / `roots` are exactly the nodes without dependents / dependencies. -/
structure Dag.TRC (g : Dag V) : Prop where
  tips_iff : ∀ k, k ∈ g.tips ↔ g.contains k = true ∧ g.dependentsOf k = []
  roots_iff : ∀ k, k ∈ g.roots ↔ g.contains k = true ∧ g.depsOf k = []

theorem Dag.Wf.trc {g : Dag V} (h : g.Wf) : g.TRC := ⟨h.tips_iff, h.roots_iff⟩

theorem ins_ne_nil (a : K) (l : List K) : ins a l ≠ [] := by
  intro h
  have : a ∈ ins a l := mem_ins.mpr (.inl rfl)
  rw [h] at this; simp at this

/-! ### `node` -/

theorem node_get (g : Dag V) (k : K) (v : V) (x : K) :
    (g.node k v).get x = if x = k then some { value := v, deps := [], dependents := [] } else g.get x := by
  simp [Dag.node, Dag.get, mget_mins]

theorem node_sorted {g : Dag V} (h : g.Sorted) (k : K) (v : V) : (g.node k v).Sorted := by
  refine ⟨sortedM_mins h.graph, sorted_ins h.tips, sorted_ins h.roots, ?_⟩
  intro x n hx
  rw [node_get] at hx
  by_cases hxk : x = k
  · simp [hxk] at hx; subst hx; simp [SortedK]
  · simp [hxk] at hx; exact h.nodes x n hx

theorem node_trc {g : Dag V} (h : g.TRC) {k : K} (v : V) (hk : g.get k = none) : (g.node k v).TRC := by
  have hdependents : ∀ x, (g.node k v).dependentsOf x = g.dependentsOf x := by
    intro x
    simp only [Dag.dependentsOf, node_get]
    by_cases hxk : x = k
    · subst hxk; simp [hk]
    · simp [hxk]
  have hdeps : ∀ x, (g.node k v).depsOf x = g.depsOf x := by
    intro x
    simp only [Dag.depsOf, node_get]
    by_cases hxk : x = k
    · subst hxk; simp [hk]
    · simp [hxk]
  have hcont : ∀ x, (g.node k v).contains x = true ↔ x = k ∨ g.contains x = true := by
    intro x
    simp only [Dag.contains, node_get]
    by_cases hxk : x = k <;> simp [hxk]
  constructor
  · intro x
    rw [hdependents, hcont]
    simp only [Dag.node, mem_ins, h.tips_iff]
    constructor
    · rintro (rfl | ⟨h1, h2⟩)
      · exact ⟨.inl rfl, Dag.dependentsOf_of_none hk⟩
      · exact ⟨.inr h1, h2⟩
    · rintro ⟨rfl | h1, h2⟩
      · exact .inl rfl
      · exact .inr ⟨h1, h2⟩
  · intro x
    rw [hdeps, hcont]
    simp only [Dag.node, mem_ins, h.roots_iff]
    constructor
    · rintro (rfl | ⟨h1, h2⟩)
      · exact ⟨.inl rfl, Dag.depsOf_of_none hk⟩
      · exact ⟨.inr h1, h2⟩
    · rintro ⟨rfl | h1, h2⟩
      · exact .inl rfl
      · exact .inr ⟨h1, h2⟩

/-! ### `dependency` -/

/-- The effect of `dependency(a, b)` on the node stored at `x`. -/
def Node.upd (a b x : K) (n : Node V) : Node V :=
  { value := n.value
    deps := if x = a then ins b n.deps else n.deps
    dependents := if x = b then ins a n.dependents else n.dependents }

theorem dependency_get (g : Dag V) (a b x : K) :
    (g.dependency a b).get x = (g.get x).map (Node.upd a b x) := by
  unfold Dag.dependency
  cases ha : g.get a with
  | none =>
    simp only
    cases hb : g.get b with
    | none =>
      simp only
      cases hx : g.get x with
      | none => rfl
      | some n =>
        have h1 : x ≠ a := fun e => by rw [e, ha] at hx; simp at hx
        have h2 : x ≠ b := fun e => by rw [e, hb] at hx; simp at hx
        simp [Node.upd, h1, h2]
    | some nb =>
      simp only [Dag.get, mget_mins]
      by_cases hxb : x = b
      · subst hxb
        have h1 : x ≠ a := fun e => by rw [e] at hb; simp [Dag.get] at ha hb; rw [ha] at hb; simp at hb
        simp [Dag.get] at hb
        simp [hb, Node.upd, h1]
      · simp only [hxb, if_false]
        cases hx : mget x g.graph with
        | none => rfl
        | some n =>
          have h1 : x ≠ a := fun e => by subst e; simp [Dag.get] at ha; rw [ha] at hx; simp at hx
          simp [Node.upd, h1, hxb]
  | some na =>
    simp only
    have hg1 : ∀ y, Dag.get { g with graph := mins a { na with deps := ins b na.deps } g.graph, roots := del a g.roots } y = if y = a then some { na with deps := ins b na.deps } else g.get y := by
      intro y; simp [Dag.get, mget_mins]
    rw [hg1 b]
    by_cases hba : b = a
    · subst hba
      simp only [if_true]
      simp only [Dag.get, mget_mins]
      by_cases hxb : x = b
      · subst hxb
        simp [Dag.get] at ha
        simp [ha, Node.upd]
      · simp only [hxb, if_false]
        cases hx : mget x g.graph with
        | none => rfl
        | some n => simp [Node.upd, hxb]
    · simp only [hba, if_false]
      cases hb : g.get b with
      | none =>
        simp only
        rw [hg1 x]
        by_cases hxa : x = a
        · subst hxa
          have : x ≠ b := fun e => hba e.symm
          simp [ha, Node.upd, this]
        · simp only [hxa, if_false]
          cases hx : g.get x with
          | none => rfl
          | some n =>
            have h2 : x ≠ b := fun e => by rw [e, hb] at hx; simp at hx
            simp [Node.upd, hxa, h2]
      | some nb =>
        simp only [Dag.get, mget_mins]
        by_cases hxb : x = b
        · subst hxb
          simp [Dag.get] at hb
          simp [hb, Node.upd, hba]
        · simp only [hxb, if_false]
          by_cases hxa : x = a
          · subst hxa
            simp [Dag.get] at ha
            simp [ha, Node.upd, hxb]
          · simp only [hxa, if_false]
            cases hx : mget x g.graph with
            | none => rfl
            | some n => simp [Node.upd, hxa, hxb]

theorem dependency_tips (g : Dag V) (a b x : K) :
    x ∈ (g.dependency a b).tips ↔ x ∈ g.tips ∧ ¬ (x = b ∧ g.contains b = true) := by
  unfold Dag.dependency
  cases ha : g.get a with
  | none =>
    simp only
    cases hb : g.get b with
    | none => simp [Dag.contains, hb]
    | some nb => simp [Dag.contains, hb, mem_del]
  | some na =>
    simp only
    have hg1 : Dag.get { g with graph := mins a { na with deps := ins b na.deps } g.graph, roots := del a g.roots } b = if b = a then some { na with deps := ins b na.deps } else g.get b := by
      simp [Dag.get, mget_mins]
    rw [hg1]
    by_cases hba : b = a
    · subst hba
      simp [Dag.contains, ha, mem_del]
    · simp only [hba, if_false]
      cases hb : g.get b with
      | none => simp [Dag.contains, hb]
      | some nb => simp [Dag.contains, hb, mem_del]

theorem dependency_roots (g : Dag V) (a b x : K) :
    x ∈ (g.dependency a b).roots ↔ x ∈ g.roots ∧ ¬ (x = a ∧ g.contains a = true) := by
  unfold Dag.dependency
  cases ha : g.get a with
  | none =>
    simp only
    cases hb : g.get b with
    | none => simp [Dag.contains, ha]
    | some nb => simp [Dag.contains, ha]
  | some na =>
    simp only
    have hg1 : Dag.get { g with graph := mins a { na with deps := ins b na.deps } g.graph, roots := del a g.roots } b = if b = a then some { na with deps := ins b na.deps } else g.get b := by
      simp [Dag.get, mget_mins]
    rw [hg1]
    by_cases hba : b = a
    · subst hba
      simp [Dag.contains, ha, mem_del]
    · simp only [hba, if_false]
      cases hb : g.get b with
      | none => simp [Dag.contains, ha, mem_del]
      | some nb => simp [Dag.contains, ha, mem_del]

theorem dependency_sorted_lists {g : Dag V} (h : g.Sorted) (a b : K) :
    SortedM (g.dependency a b).graph ∧ SortedK (g.dependency a b).tips ∧ SortedK (g.dependency a b).roots := by
  unfold Dag.dependency
  cases ha : g.get a with
  | none =>
    simp only
    cases hb : g.get b with
    | none => exact ⟨h.graph, h.tips, h.roots⟩
    | some nb => exact ⟨sortedM_mins h.graph, sorted_del h.tips, h.roots⟩
  | some na =>
    simp only
    split
    · exact ⟨sortedM_mins (sortedM_mins h.graph), sorted_del h.tips, sorted_del h.roots⟩
    · exact ⟨sortedM_mins h.graph, h.tips, sorted_del h.roots⟩

theorem dependency_sorted {g : Dag V} (h : g.Sorted) (a b : K) : (g.dependency a b).Sorted := by
  obtain ⟨h1, h2, h3⟩ := dependency_sorted_lists h a b
  refine ⟨h1, h2, h3, ?_⟩
  intro x n hx
  rw [dependency_get] at hx
  cases hgx : g.get x with
  | none => simp [hgx] at hx
  | some n0 =>
    simp [hgx] at hx
    subst hx
    have := h.nodes x n0 hgx
    simp only [Node.upd]
    constructor
    · split
      · exact sorted_ins this.1
      · exact this.1
    · split
      · exact sorted_ins this.2
      · exact this.2

theorem dependency_contains (g : Dag V) (a b x : K) :
    (g.dependency a b).contains x = g.contains x := by
  simp only [Dag.contains, dependency_get]
  cases g.get x <;> rfl

theorem dependency_depsOf (g : Dag V) (a b x y : K) :
    y ∈ (g.dependency a b).depsOf x ↔ y ∈ g.depsOf x ∨ (g.contains x = true ∧ x = a ∧ y = b) := by
  simp only [Dag.depsOf, dependency_get, Dag.contains]
  cases g.get x with
  | none => simp
  | some n =>
    simp only [Option.map_some, Node.upd, Option.isSome_some, true_and]
    by_cases hxa : x = a
    · simp [hxa, mem_ins, or_comm]
    · simp [hxa]

theorem dependency_dependentsOf (g : Dag V) (a b x y : K) :
    y ∈ (g.dependency a b).dependentsOf x ↔
      y ∈ g.dependentsOf x ∨ (g.contains x = true ∧ x = b ∧ y = a) := by
  simp only [Dag.dependentsOf, dependency_get, Dag.contains]
  cases g.get x with
  | none => simp
  | some n =>
    simp only [Option.map_some, Node.upd, Option.isSome_some, true_and]
    by_cases hxb : x = b
    · simp [hxb, mem_ins, or_comm]
    · simp [hxb]

theorem dependency_value (g : Dag V) (a b x : K) :
    ((g.dependency a b).get x).map (·.value) = (g.get x).map (·.value) := by
  rw [dependency_get]
  cases g.get x <;> simp [Node.upd]

theorem dependency_trc {g : Dag V} (h : g.TRC) (a b : K) : (g.dependency a b).TRC := by
  constructor
  · intro x
    rw [dependency_tips, dependency_contains, h.tips_iff]
    constructor
    · rintro ⟨⟨h1, h2⟩, h3⟩
      refine ⟨h1, ?_⟩
      apply List.eq_nil_iff_forall_not_mem.mpr
      intro y hy
      rcases (dependency_dependentsOf g a b x y).mp hy with h4 | ⟨h4, h5, h6⟩
      · rw [h2] at h4; simp at h4
      · exact h3 ⟨h5, h5 ▸ h4⟩
    · rintro ⟨h1, h2⟩
      have h3 : ∀ y, y ∉ (g.dependency a b).dependentsOf x := by
        intro y; rw [h2]; simp
      refine ⟨⟨h1, ?_⟩, ?_⟩
      · apply List.eq_nil_iff_forall_not_mem.mpr
        intro y hy
        exact h3 y ((dependency_dependentsOf g a b x y).mpr (.inl hy))
      · rintro ⟨rfl, h4⟩
        exact h3 a ((dependency_dependentsOf g a x x a).mpr (.inr ⟨h4, rfl, rfl⟩))
  · intro x
    rw [dependency_roots, dependency_contains, h.roots_iff]
    constructor
    · rintro ⟨⟨h1, h2⟩, h3⟩
      refine ⟨h1, ?_⟩
      apply List.eq_nil_iff_forall_not_mem.mpr
      intro y hy
      rcases (dependency_depsOf g a b x y).mp hy with h4 | ⟨h4, h5, h6⟩
      · rw [h2] at h4; simp at h4
      · exact h3 ⟨h5, h5 ▸ h4⟩
    · rintro ⟨h1, h2⟩
      have h3 : ∀ y, y ∉ (g.dependency a b).depsOf x := by
        intro y; rw [h2]; simp
      refine ⟨⟨h1, ?_⟩, ?_⟩
      · apply List.eq_nil_iff_forall_not_mem.mpr
        intro y hy
        exact h3 y ((dependency_depsOf g a b x y).mpr (.inl hy))
      · rintro ⟨rfl, h4⟩
        exact h3 b ((dependency_depsOf g x b x b).mpr (.inr ⟨h4, rfl, rfl⟩))

/-! ### edge lists -/

/-- `for (a, b) in es { g.dependency(a, b) }` -/
def Dag.addEdges (g : Dag V) (es : List (K × K)) : Dag V :=
  es.foldl (fun g e => g.dependency e.1 e.2) g

structure EdgesAdded (g : Dag V) (es : List (K × K)) (r : Dag V) : Prop where
  contains : ∀ x, r.contains x = g.contains x
  value : ∀ x, (r.get x).map (·.value) = (g.get x).map (·.value)
  deps : ∀ x y, y ∈ r.depsOf x ↔ y ∈ g.depsOf x ∨ (g.contains x = true ∧ (x, y) ∈ es)
  dependents : ∀ x y, y ∈ r.dependentsOf x ↔ y ∈ g.dependentsOf x ∨ (g.contains x = true ∧ (y, x) ∈ es)
  sorted : g.Sorted → r.Sorted
  trc : g.TRC → r.TRC

theorem addEdges_spec : ∀ (es : List (K × K)) (g : Dag V), EdgesAdded g es (g.addEdges es) := by
  intro es
  induction es with
  | nil =>
    intro g
    exact ⟨fun _ => rfl, fun _ => rfl, by simp [Dag.addEdges], by simp [Dag.addEdges], id, id⟩
  | cons e es ih =>
    intro g
    obtain ⟨a, b⟩ := e
    have h := ih (g.dependency a b)
    have heq : g.addEdges ((a, b) :: es) = (g.dependency a b).addEdges es := rfl
    rw [heq]
    refine ⟨?_, ?_, ?_, ?_, ?_, ?_⟩
    · intro x; rw [h.contains, dependency_contains]
    · intro x; rw [h.value, dependency_value]
    · intro x y
      rw [h.deps, dependency_depsOf, dependency_contains]
      simp only [List.mem_cons, Prod.mk.injEq]
      constructor
      · rintro ((h1 | ⟨h1, h2, h3⟩) | ⟨h1, h2⟩)
        · exact .inl h1
        · exact .inr ⟨h1, .inl ⟨h2, h3⟩⟩
        · exact .inr ⟨h1, .inr h2⟩
      · rintro (h1 | ⟨h1, (⟨h2, h3⟩ | h2)⟩)
        · exact .inl (.inl h1)
        · exact .inl (.inr ⟨h1, h2, h3⟩)
        · exact .inr ⟨h1, h2⟩
    · intro x y
      rw [h.dependents, dependency_dependentsOf, dependency_contains]
      simp only [List.mem_cons, Prod.mk.injEq]
      constructor
      · rintro ((h1 | ⟨h1, h2, h3⟩) | ⟨h1, h2⟩)
        · exact .inl h1
        · exact .inr ⟨h1, .inl ⟨h3, h2⟩⟩
        · exact .inr ⟨h1, .inr h2⟩
      · rintro (h1 | ⟨h1, (⟨h2, h3⟩ | h2)⟩)
        · exact .inl (.inl h1)
        · exact .inl (.inr ⟨h1, h3, h2⟩)
        · exact .inr ⟨h1, h2⟩
    · intro hs; exact h.sorted (dependency_sorted hs a b)
    · intro ht; exact h.trc (dependency_trc ht a b)

/-- Adding an edge between two existing nodes of a well-formed graph keeps it well-formed. -/
theorem dependency_wf {g : Dag V} (h : g.Wf) {a b : K} (ha : g.contains a = true)
    (hb : g.contains b = true) : (g.dependency a b).Wf := by
  have hs := dependency_sorted h.toSorted a b
  have ht := dependency_trc h.trc a b
  refine { toSorted := hs, sym := ?_, tips_iff := ht.tips_iff, roots_iff := ht.roots_iff }
  intro u v
  rw [dependency_dependentsOf, dependency_depsOf, h.sym u v]
  constructor
  · rintro (h1 | ⟨_, rfl, rfl⟩)
    · exact .inl h1
    · exact .inr ⟨ha, rfl, rfl⟩
  · rintro (h1 | ⟨_, rfl, rfl⟩)
    · exact .inl h1
    · exact .inr ⟨hb, rfl, rfl⟩

/-- Adding a fresh node to a well-formed graph keeps it well-formed. -/
theorem node_wf {g : Dag V} (h : g.Wf) {k : K} (v : V) (hk : g.contains k = false) : (g.node k v).Wf := by
  have hk' : g.get k = none := Dag.not_contains_iff.mp hk
  have hs := node_sorted h.toSorted k v
  have ht := node_trc h.trc v hk'
  refine { toSorted := hs, sym := ?_, tips_iff := ht.tips_iff, roots_iff := ht.roots_iff }
  intro u v'
  have hd : ∀ x, (g.node k v).dependentsOf x = g.dependentsOf x := by
    intro x
    simp only [Dag.dependentsOf, node_get]
    by_cases hxk : x = k
    · subst hxk; simp [hk']
    · simp [hxk]
  have hp : ∀ x, (g.node k v).depsOf x = g.depsOf x := by
    intro x
    simp only [Dag.depsOf, node_get]
    by_cases hxk : x = k
    · subst hxk; simp [hk']
    · simp [hxk]
  rw [hd, hp]
  exact h.sym u v'

theorem empty_wf : (Dag.empty : Dag V).Wf := by
  refine { graph := by simp [Dag.empty, SortedM], tips := by simp [Dag.empty, SortedK],
           roots := by simp [Dag.empty, SortedK], nodes := ?_, sym := ?_, tips_iff := ?_, roots_iff := ?_ }
  · intro k n h; simp [Dag.empty, Dag.get, mget] at h
  · intro u v; simp [Dag.empty, Dag.dependentsOf, Dag.depsOf, Dag.get, mget]
  · intro k; simp [Dag.empty, Dag.contains, Dag.get, mget]
  · intro k; simp [Dag.empty, Dag.contains, Dag.get, mget]

end HeartwoodModel.Dag
