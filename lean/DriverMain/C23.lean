import HeartwoodModel.Driver.Loop
import HeartwoodModel.Driver.C23
def main : IO Unit := HeartwoodModel.Driver.driverMain "C23" HeartwoodModel.Driver.C23.run
