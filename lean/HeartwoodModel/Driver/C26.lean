import HeartwoodModel.Model.Term
import HeartwoodModel.Driver.Util
/-! Driver entry for C26.

String token: `-` (empty) or clusters joined by `,`; a cluster is `<width>` followed by one
`:<w|n><hex>` per scalar value (`w` = `char::is_whitespace`), e.g. `ab　…` = `1:n61,1:n62,2:we38080,1:ne280a6`.

* `str <s> <width> <delim>` — `str::truncate` → `ok:<hex of the result>` | `panic` | `inside`
* `line <items> <width> <delim>` — `Line::truncate`; `<items>` is `~` (no label) or string tokens joined
  by `/` → `ok:<hex>/<hex>…` (`~` when no label is left) | `panic` | `inside` | `fuel`
* `seq <op>;<op>;…` — a history on ONE `Line` value (see `SeqOp`) → `w=<n>` per width query, `<labels>@<width>`
  after each truncation and at the end, joined by `;`
* `str2|lab2 <s> <w1> <d1> <w2> <d2>` — `truncate`, then `truncate` of the result → `ok:<hex>;ok:<hex>`
-/
namespace HeartwoodModel.Driver.C26
open HeartwoodModel.Term HeartwoodModel.Driver.Util

def chr? (t : String) : Option Chr :=
  match t.toList with
  | 'w' :: h => (hexBytes? (String.ofList h)).bind fun b => if b.isEmpty then none else some ⟨b, true⟩
  | 'n' :: h => (hexBytes? (String.ofList h)).bind fun b => if b.isEmpty then none else some ⟨b, false⟩
  | _ => none

def grapheme? (t : String) : Option Grapheme :=
  match splitOn t ':' with
  | w :: cs@(_ :: _) => do
    let w ← nat? w
    let cs ← cs.mapM chr?
    some ⟨cs, w⟩
  | _ => none

def str? (t : String) : Option Str :=
  if t == "-" then some [] else (splitOn t ',').mapM grapheme?

def line? (t : String) : Option Line :=
  if t == "~" then some [] else (splitOn t '/').mapM str?

def showLine (l : Line) : String :=
  if l.isEmpty then "~" else joinWith "/" (l.map fun i => toHex (bytesOf i))

/-- Operations of a `seq` case, joined by `;`: `n<s>` `Line::new`, `i<s>` `.item`, `u<s>` `push`,
`e<s>/<s>…` `.extend`, `s` `.space()`, `p<w>` `pad`, `t<w>|<delim>` `truncate`, `w` `width()` query. -/
inductive SeqOp where
  | op (o : LineOp)
  | ops (os : List LineOp)
  | query

def seqOp? (t : String) : Option SeqOp :=
  match t.toList with
  | ['w'] => some .query
  | ['s'] => some (.op .space)
  | 'n' :: r => (str? (String.ofList r)).map fun s => .op (.push s)
  | 'i' :: r => (str? (String.ofList r)).map fun s => .op (.push s)
  | 'u' :: r => (str? (String.ofList r)).map fun s => .op (.push s)
  | 'e' :: r => ((splitOn (String.ofList r) '/').mapM str?).map fun ss => .ops (ss.map .push)
  | 'p' :: r => (nat? (String.ofList r)).map fun w => .op (.pad w)
  | 't' :: r =>
    match splitOn (String.ofList r) '|' with
    | [w, d] => do let w ← nat? w; let d ← str? d; some (.op (.truncate w d))
    | _ => none
  | _ => none

def snapshot (l : Line) : String := s!"{showLine l}@{lwidth l}"

/-- Runs the history; prints `w=<n>` for each query, a snapshot after each truncation and at the end. -/
def runSeq : Line → List SeqOp → List String → List String
  | l, [], acc => (snapshot l :: acc).reverse
  | l, .query :: rest, acc => runSeq l rest (s!"w={lwidth l}" :: acc)
  | l, .ops os :: rest, acc =>
    match lineRun l os with
    | some (.ok l') => runSeq l' rest acc
    | _ => ("bad-op" :: acc).reverse
  | l, .op o :: rest, acc =>
    match lineApply l o with
    | none => ("fuel" :: acc).reverse
    | some (.panic _) => ("panic" :: acc).reverse
    | some .cutInsideGrapheme => ("inside" :: acc).reverse
    | some (.ok l') =>
      match o with
      | .truncate _ _ => runSeq l' rest (snapshot l' :: acc)
      | _ => runSeq l' rest acc

def showStr : Res Str → String
  | .ok out => "ok:" ++ toHex (bytesOf out)
  | .panic _ => "panic"
  | .cutInsideGrapheme => "inside"

def run (args : List String) : String :=
  match args with
  | ["str", s, w, d] =>
    match str? s, nat? w, str? d with
    | some s, some w, some d =>
      match truncate s w d with
      | .ok out => "ok:" ++ toHex (bytesOf out)
      | .panic _ => "panic"
      | .cutInsideGrapheme => "inside"
    | _, _, _ => "bad-op"
  | ["line", l, w, d] =>
    match line? l, nat? w, str? d with
    | some l, some w, some d =>
      match lineTruncate (l.length + 2) l w d with
      | none => "fuel"
      | some (.ok out) => "ok:" ++ showLine out
      | some (.panic _) => "panic"
      | some .cutInsideGrapheme => "inside"
    | _, _, _ => "bad-op"
  | ["seq", ops] =>
    match (splitOn ops ';').mapM seqOp? with
    | some ops => joinWith ";" (runSeq [] ops [])
    | none => "bad-op"
  | [op, s, w1, d1, w2, d2] =>
    if op == "str2" || op == "lab2" then
      match str? s, nat? w1, str? d1, nat? w2, str? d2 with
      | some s, some w1, some d1, some w2, some d2 =>
        match truncate s w1 d1 with
        | .ok o1 => showStr (.ok o1) ++ ";" ++ showStr (truncate o1 w2 d2)
        | r => showStr r
      | _, _, _, _, _ => "bad-op"
    else "bad-op"
  | _ => "bad-op"

end HeartwoodModel.Driver.C26
