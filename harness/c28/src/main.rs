//! C28 — storage cleanup. Builds a real storage repository per case and runs the real `Storage::clean`.
//!
//! Case input: `<local> <delegates> <idstate> <namespaces>` (see `lean/HeartwoodModel/Driver/C28.lean`).
//! The repository is created with `Repository::init` (identity document with the given delegates,
//! threshold 1, signed by the first delegate); `refs/rad/id` is set; then the namespaces are laid out with
//! git2 exactly as described: `<p>v…` = `refs/namespaces/<node id of p>/refs/heads/master` (+ `rad/sigrefs`
//! written by the real `sign_refs` for `s`, a reference to a non-sigrefs commit for `c`, none for `m`);
//! `<p>j…` = a stray `refs/namespaces/<node id of p>junk/…`. `idstate = bad` points `refs/rad/id` at a
//! commit without an identity document. All references are snapshotted before and after.
//! Output: `err` | `removed:<remotes>` | `cleaned:<deleted>;kept:<intact namespaces>[;partial:<…>]`.

use std::collections::{BTreeMap, BTreeSet};

use radicle::crypto::test::signer::MockSigner;
use radicle::crypto::Signer as _;
use radicle::git;
use radicle::identity::doc::RawDoc;
use radicle::identity::{Did, Project, Visibility};
use radicle::node::device::Device;
use radicle::node::{Alias, NodeId};
use radicle::storage::git::{Repository, Storage};
use radicle::storage::{ReadRepository, SignRepository, WriteRepository, WriteStorage};
use verif_common::*;

const N_PEERS: usize = 8;

fn signer(i: usize) -> Device<MockSigner> {
    let mut seed = [0x28u8; 32];
    seed[0] = i as u8;
    Device::from(MockSigner::from_seed(seed))
}

#[derive(Clone, Copy, PartialEq, Eq, Debug)]
enum Sig {
    Missing,
    Valid,
    Corrupt,
}

struct Ns {
    peer: usize,
    valid: bool,
    sig: Sig,
}

fn parse_ns(s: &str) -> Option<Ns> {
    if s.len() < 3 {
        return None;
    }
    let (p, rest) = s.split_at(s.len() - 2);
    let peer: usize = p.parse().ok().filter(|p| *p < N_PEERS)?;
    let mut cs = rest.chars();
    let valid = match cs.next()? {
        'v' => true,
        'j' => false,
        _ => return None,
    };
    let sig = match cs.next()? {
        'm' => Sig::Missing,
        's' => Sig::Valid,
        'c' => Sig::Corrupt,
        _ => return None,
    };
    Some(Ns { peer, valid, sig })
}

type Snapshot = BTreeMap<String, BTreeMap<String, String>>; // namespace name -> refname -> target

fn snapshot(raw: &git::raw::Repository) -> Snapshot {
    let mut m: Snapshot = BTreeMap::new();
    for r in raw.references().unwrap() {
        let r = r.unwrap();
        let name = r.name().unwrap().to_string();
        if let Some(rest) = name.strip_prefix("refs/namespaces/") {
            let (ns, sub) = rest.split_once('/').unwrap_or((rest, ""));
            let target = match r.symbolic_target() {
                Some(t) => format!("sym:{t}"),
                None => r.target().map(|o| o.to_string()).unwrap_or_default(),
            };
            m.entry(ns.to_string()).or_default().insert(sub.to_string(), target);
        }
    }
    m
}

fn bad() -> Outcome {
    Outcome::new("bad-case").trivial().tag("bad-case")
}

fn run_case(input: &str) -> Outcome {
    let f: Vec<&str> = input.split(' ').collect();
    if f.len() != 4 {
        return bad();
    }
    let Some(me) = f[0].parse::<usize>().ok().filter(|p| *p < N_PEERS) else { return bad() };
    let Some(dels) = f[1].split(',').map(|x| x.parse::<usize>().ok().filter(|p| *p < N_PEERS)).collect::<Option<Vec<usize>>>() else {
        return bad();
    };
    if dels.is_empty() || !(f[2] == "ok" || f[2] == "bad") {
        return bad();
    }
    let nss: Vec<Ns> = if f[3] == "-" {
        vec![]
    } else {
        match f[3].split(',').map(parse_ns).collect::<Option<Vec<Ns>>>() {
            Some(v) => v,
            None => return bad(),
        }
    };
    {
        let mut seen = BTreeSet::new();
        if !nss.iter().all(|n| seen.insert((n.peer, n.valid))) {
            return bad();
        }
    }
    let signers: Vec<Device<MockSigner>> = (0..N_PEERS).map(signer).collect();
    let pk = |i: usize| -> NodeId { *signers[i].public_key() };
    let ns_name = |n: &Ns| if n.valid { pk(n.peer).to_string() } else { format!("{}junk", pk(n.peer)) };

    // --- build the real storage ------------------------------------------------------------------
    let tmp = tempfile::tempdir().unwrap();
    let storage = Storage::open(tmp.path().join("storage"), git::UserInfo { alias: Alias::new("verif"), key: pk(me) }).unwrap();
    let project = Project::new("acme".try_into().unwrap(), "verif".to_string(), git::RefString::try_from("master").unwrap()).unwrap();
    let doc = RawDoc::new(project, dels.iter().map(|d| Did::from(pk(*d))).collect(), 1, Visibility::Public)
        .verified()
        .unwrap();
    let d0 = dels[0];
    let (repo, identity) = Repository::init(&doc, &storage, &signers[d0]).unwrap();
    let rid = repo.id;
    repo.set_remote_identity_root_to(&pk(d0), identity).unwrap();
    repo.set_identity_head_to(identity).unwrap();
    let raw = &repo.backend;
    // a commit that is neither an identity nor a sigrefs commit
    let sig = git::raw::Signature::new("verif", "verif@example.com", &git::raw::Time::new(1514817556, 0)).unwrap();
    let tree = raw.find_tree(raw.treebuilder(None).unwrap().write().unwrap()).unwrap();
    let x = raw.commit(None, &sig, &sig, "x", &tree, &[]).unwrap();
    drop(tree);
    // lay out the namespaces
    for n in &nss {
        let name = ns_name(n);
        raw.reference(&format!("refs/namespaces/{name}/refs/heads/master"), x, true, "verif").unwrap();
        if n.valid && n.sig == Sig::Valid {
            repo.sign_refs(&signers[n.peer]).unwrap();
        }
    }
    // second pass: remove / corrupt sigrefs (d0 got real ones from nothing so far; init does not sign)
    for n in &nss {
        let name = ns_name(n);
        let sref = format!("refs/namespaces/{name}/refs/rad/sigrefs");
        match (n.valid, n.sig) {
            (true, Sig::Valid) => {}
            (_, Sig::Missing) => {
                if let Ok(mut r) = raw.find_reference(&sref) {
                    r.delete().unwrap();
                }
            }
            (false, _) | (true, Sig::Corrupt) => {
                raw.reference(&sref, x, true, "verif").unwrap();
            }
        }
    }
    // the first delegate's namespace was created by `init`; remove it if the case does not list it
    if !nss.iter().any(|n| n.valid && n.peer == d0) {
        let names: Vec<String> = raw
            .references_glob(&format!("refs/namespaces/{}/*", pk(d0)))
            .unwrap()
            .filter_map(|r| r.ok().and_then(|r| r.name().map(|s| s.to_string())))
            .collect();
        // symbolic refs first (rad/id -> cobs/…)
        for pass in 0..2 {
            for name in &names {
                if let Ok(mut r) = raw.find_reference(name) {
                    let symbolic = r.symbolic_target().is_some();
                    if (pass == 0) == symbolic {
                        r.delete().unwrap();
                    }
                }
            }
        }
    }
    if f[2] == "bad" {
        raw.reference("refs/rad/id", x, true, "verif").unwrap();
    }
    let before = snapshot(raw);
    let repo_path = repo.path().to_path_buf();
    drop(repo);

    // --- run the real code ---------------------------------------------------------------------
    let res = catch(|| storage.clean(rid));
    let res = match res {
        Ok(r) => r,
        Err(m) => return Outcome::new("panic").tag("panic").violation("clean-panic", m),
    };
    let exists = repo_path.exists();
    let after: Snapshot = if exists { snapshot(&git::raw::Repository::open_bare(&repo_path).unwrap()) } else { BTreeMap::new() };

    // --- canonical output ------------------------------------------------------------------------
    let peer_of = |id: &NodeId| (0..N_PEERS).find(|i| pk(*i) == *id);
    let label = |name: &str| -> String {
        for i in 0..N_PEERS {
            if name == pk(i).to_string() {
                return format!("{i}v");
            }
            if name == format!("{}junk", pk(i)) {
                return format!("{i}j");
            }
        }
        format!("?{name}")
    };
    let mut kept: Vec<String> = vec![];
    let mut partial: Vec<String> = vec![];
    let mut gone: Vec<String> = vec![];
    for (name, refs) in &before {
        match after.get(name) {
            Some(r) if r == refs => kept.push(label(name)),
            Some(_) => partial.push(label(name)),
            None => gone.push(name.clone()),
        }
    }
    let sort_labels = |v: &mut Vec<String>| {
        v.sort_by_key(|l| {
            let (p, k) = l.split_at(l.len() - 1);
            (p.parse::<usize>().unwrap_or(999), k == "j")
        })
    };
    sort_labels(&mut kept);
    sort_labels(&mut partial);
    let show_ids = |ids: &[NodeId]| {
        let mut v: Vec<u64> = ids.iter().map(|i| peer_of(i).map(|p| p as u64).unwrap_or(999)).collect();
        v.sort();
        nats(&v)
    };
    let join = |v: &[String]| if v.is_empty() { "-".to_string() } else { v.join(",") };
    let changed = !(gone.is_empty() && partial.is_empty());
    let output = match &res {
        Err(_) => {
            if exists && !changed {
                "err".to_string()
            } else {
                "err-but-modified".to_string()
            }
        }
        Ok(ids) if !exists => format!("removed:{}", show_ids(ids)),
        Ok(ids) => {
            let mut s = format!("cleaned:{};kept:{}", show_ids(ids), join(&kept));
            if !partial.is_empty() {
                s.push_str(&format!(";partial:{}", join(&partial)));
            }
            s
        }
    };
    let mut o = Outcome::new(output.clone());

    // --- oracle: the property statement on what the real code did ------------------------------------
    let protected: BTreeSet<String> = std::iter::once(me).chain(dels.iter().copied()).map(|p| pk(p).to_string()).collect();
    let local_has_sigrefs = before.get(&pk(me).to_string()).map(|r| r.contains_key("refs/rad/sigrefs")).unwrap_or(false);
    if !exists {
        if local_has_sigrefs {
            o = o.violation("repo-removed-with-local-sigrefs", "the whole repository was removed although the local node has rad/sigrefs in it");
        }
    } else {
        let returned: BTreeSet<String> = res.as_ref().map(|ids| ids.iter().map(|i| i.to_string()).collect()).unwrap_or_default();
        for (name, refs) in &before {
            let intact = after.get(name) == Some(refs);
            if intact {
                continue;
            }
            if *name == pk(me).to_string() {
                o = o.violation("local-namespace-deleted", format!("references of the local node's namespace were removed ({})", label(name)));
            } else if protected.contains(name) {
                o = o.violation("delegate-namespace-deleted", format!("references of a delegate's namespace were removed ({})", label(name)));
            } else if !returned.contains(name) {
                o = o.violation("unlisted-namespace-removed", format!("namespace {} lost references but is not among the returned remotes", label(name)));
            }
        }
        // repeated cleaning (theorem `clean_idempotent`): a second `clean` of what the first one left
        // deletes nothing, reports nothing and keeps the local node's and the delegates' namespaces
        if res.is_ok() {
            match catch(|| storage.clean(rid)) {
                Err(m) => o = o.violation("second-clean-panic", m),
                Ok(Err(e)) => o = o.violation("second-clean-error", format!("clean succeeded, cleaning again fails: {e}")),
                Ok(Ok(ids2)) => {
                    let after2: Snapshot = if repo_path.exists() {
                        snapshot(&git::raw::Repository::open_bare(&repo_path).unwrap())
                    } else {
                        BTreeMap::new()
                    };
                    if after2 != after || !ids2.is_empty() {
                        o = o.violation(
                            "second-clean-not-idempotent",
                            format!("cleaning again removed more (reported {}; namespaces {} -> {})", show_ids(&ids2), after.len(), after2.len()),
                        );
                    }
                    o = o.tag("second-clean");
                }
            }
        }
        if let Ok(ids) = &res {
            for id in ids {
                if protected.contains(&id.to_string()) {
                    o = o.violation("returned-local-or-delegate", format!("clean reports the local node or a delegate as deleted: {}", show_ids(&[*id])));
                }
            }
        }
    }
    // --- distribution --------------------------------------------------------------------------
    o = o.tag(format!("out-{}", output.split(':').next().unwrap()));
    let local_ns = nss.iter().find(|n| n.valid && n.peer == me);
    o = o.tag(match local_ns.map(|n| n.sig) {
        None => "local-ns-absent",
        Some(Sig::Missing) => "local-sigrefs-missing",
        Some(Sig::Valid) => "local-sigrefs-valid",
        Some(Sig::Corrupt) => "local-sigrefs-corrupt",
    });
    if dels.contains(&me) {
        o = o.tag("local-is-delegate");
    }
    if nss.iter().any(|n| !n.valid) {
        o = o.tag("stray-namespace");
    }
    if nss.iter().any(|n| n.valid && n.peer != me && !dels.contains(&n.peer) && n.sig == Sig::Missing) {
        o = o.tag("other-without-sigrefs");
    }
    if nss.iter().any(|n| n.valid && n.peer != me && dels.contains(&n.peer)) {
        o = o.tag("delegate-namespace-present");
    }
    if f[2] == "bad" {
        o = o.tag("identity-unloadable");
    }
    o.nontrivial = nss.iter().any(|n| n.valid && n.peer != me && !dels.contains(&n.peer));
    o
}

fn gen_case(rng: &mut Rng) -> String {
    let n_peers = rng.range(3, N_PEERS as u64);
    let me = rng.below(n_peers);
    let nd = rng.range(1, 3);
    let mut dels: Vec<u64> = vec![];
    while (dels.len() as u64) < nd {
        let d = if rng.chance(1, 4) { me } else { rng.below(n_peers) };
        if !dels.contains(&d) {
            dels.push(d);
        }
    }
    let mut nss: Vec<String> = vec![];
    for p in 0..n_peers {
        let is_me = p == me;
        let include = if is_me { rng.chance(9, 10) } else { rng.chance(3, 4) };
        if include {
            let sig = if is_me {
                match rng.below(10) {
                    0..=5 => 's',
                    6..=8 => 'm',
                    _ => 'c',
                }
            } else {
                match rng.below(10) {
                    0..=6 => 's',
                    7..=8 => 'm',
                    _ => 'c',
                }
            };
            nss.push(format!("{p}v{sig}"));
        }
        if rng.chance(1, 6) {
            nss.push(format!("{p}j{}", if rng.chance(1, 4) { 's' } else { 'm' }));
        }
    }
    let idstate = if rng.chance(1, 15) { "bad" } else { "ok" };
    format!("{me} {} {idstate} {}", nats(&dels), if nss.is_empty() { "-".into() } else { nss.join(",") })
}

fn main() {
    let mut ctx = Ctx::from_args("C28");
    if !ctx.run_fixed(run_case) {
        let mut rng = ctx.rng();
        for _ in 0..ctx.size(150, 1_000) {
            let input = gen_case(&mut rng);
            let o = run_case(&input);
            ctx.record(&input, o);
        }
    }
    ctx.finish(
        "random real storage repositories: local node inside/outside the delegate set (1-3 delegates), namespaces of local, delegates and \
         other peers with rad/sigrefs signed by the real sign_refs / missing / unloadable, stray `<id>junk` directories, occasionally an \
         unloadable identity; non-trivial = at least one namespace of a peer that is neither local nor delegate; distinct by input text",
        false,
    );
}
