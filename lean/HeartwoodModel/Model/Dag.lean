/-!
# Model of `crates/radicle-dag/src/lib.rs` (C23; used by C05, C06 through `Model/ChangeGraph.lean`)

`Dag<K, V>` is `BTreeMap<K, Node<K, V>>` plus two `BTreeSet<K>` (`tips`, `roots`); every `Node` holds two
`BTreeSet<K>` (`dependencies`, `dependents`). Keys are modelled as `Nat` (the harness maps the keys of a
case to naturals *preserving their order*, which is all the code uses of `K: Ord + Copy`).

* `BTreeSet<K>` ↦ strictly ascending `List K` (`ins`, `del`); `BTreeMap<K, _>` ↦ association list with
  strictly ascending keys (`mget`, `mins`, `mdel`). Rust's `==` on these types is extensional, which on
  the canonical (sorted) representation is structural equality; iteration order is ascending key order
  and is modelled as the list order.
* `visited: BTreeSet<K>` scratch sets are plain lists (only membership is used).
* Recursion that is not structural (`visit`, `visit_by`, `remove`, the `VecDeque` work lists of
  `descendants_of`, `ancestors_of`, `merge`) takes fuel and returns `Option`; `none` = fuel exhausted.
  In these functions *every* recursive call receives the same `fuel`, so fuel bounds the depth of the
  call tree, not the number of steps.
* `sort_by` (stable) is modelled by stable insertion sort `isort`; for a comparator that is a total
  preorder every stable sort returns the same list.
-/
namespace HeartwoodModel.Dag

abbrev K := Nat

/-! ### `BTreeSet<K>` -/

/-- `BTreeSet::insert` on a strictly ascending list. -/
def ins (a : K) : List K → List K
  | [] => [a]
  | b :: l => if a < b then a :: b :: l else if a = b then b :: l else b :: ins a l

/-- `BTreeSet::remove`. -/
def del (a : K) (l : List K) : List K := l.filter (fun x => x != a)

/-! ### `BTreeMap<K, α>` -/

/-- `BTreeMap::get`. -/
def mget {α : Type} (k : K) : List (K × α) → Option α
  | [] => none
  | (k', v) :: l => if k = k' then some v else mget k l

/-- `BTreeMap::insert` (replaces an existing binding). -/
def mins {α : Type} (k : K) (v : α) : List (K × α) → List (K × α)
  | [] => [(k, v)]
  | (k', v') :: l =>
    if k < k' then (k, v) :: (k', v') :: l
    else if k = k' then (k, v) :: l
    else (k', v') :: mins k v l

/-- `BTreeMap::remove`. -/
def mdel {α : Type} (k : K) (m : List (K × α)) : List (K × α) := m.filter (fun p => p.1 != k)

/-! ### stable sort -/

/-- Insert `a` before the first element `b` with `le a b`. -/
def insertBy {α : Type} (le : α → α → Bool) (a : α) : List α → List α
  | [] => [a]
  | b :: l => if le a b then a :: b :: l else b :: insertBy le a l

/-- Stable insertion sort (`slice::sort_by` with `le a b := cmp a b != Greater`). -/
def isort {α : Type} (le : α → α → Bool) : List α → List α
  | [] => []
  | a :: l => insertBy le a (isort le l)

/-! ### `Node`, `Dag` -/

structure Node (V : Type) where
  value : V
  /-- `dependencies`: nodes depended on. -/
  deps : List K
  /-- nodes depending on this node. -/
  dependents : List K
  deriving Repr

structure Dag (V : Type) where
  graph : List (K × Node V)
  tips : List K
  roots : List K
  deriving Repr

variable {V : Type}

/-- `Dag::new` -/
def Dag.empty : Dag V := { graph := [], tips := [], roots := [] }

/-- `Dag::get` -/
def Dag.get (g : Dag V) (k : K) : Option (Node V) := mget k g.graph

/-- `Dag::contains` -/
def Dag.contains (g : Dag V) (k : K) : Bool := (g.get k).isSome

/-- keys of the map, ascending -/
def Dag.keys (g : Dag V) : List K := g.graph.map (·.1)

/-- `Dag::len` -/
def Dag.len (g : Dag V) : Nat := g.graph.length

/-- `Dag::node`: (re)insert a node with empty edge sets; it becomes a tip and a root. -/
def Dag.node (g : Dag V) (k : K) (v : V) : Dag V :=
  { graph := mins k { value := v, deps := [], dependents := [] } g.graph
    tips := ins k g.tips
    roots := ins k g.roots }

/-- `Dag::root` -/
def Dag.root (k : K) (v : V) : Dag V := Dag.empty.node k v

/-- `Dag::dependency(from, to)`: `a` depends on `b`. Each half is applied only if its node exists. -/
def Dag.dependency (g : Dag V) (a b : K) : Dag V :=
  let g1 : Dag V :=
    match g.get a with
    | some n => { g with graph := mins a { n with deps := ins b n.deps } g.graph, roots := del a g.roots }
    | none => g
  match g1.get b with
  | some n => { g1 with graph := mins b { n with dependents := ins a n.dependents } g1.graph, tips := del b g1.tips }
  | none => g1

/-- `Dag::has_dependency` -/
def Dag.hasDependency (g : Dag V) (a b : K) : Bool :=
  match g.get a with
  | some n => n.deps.contains b
  | none => false

/-- `Dag::roots()`: the `roots` set filtered by presence in the map. -/
def Dag.rootsOf (g : Dag V) : List K := g.roots.filter g.contains

/-- `Dag::tips()`: the `tips` set filtered by presence in the map. -/
def Dag.tipsOf (g : Dag V) : List K := g.tips.filter g.contains

/-- dependents of a key (`[]` when the key is not a node: the Rust `if let Some(node)` skips the loop). -/
def Dag.dependentsOf (g : Dag V) (k : K) : List K :=
  match g.get k with
  | some n => n.dependents
  | none => []

/-- dependencies of a key (`[]` when the key is not a node). -/
def Dag.depsOf (g : Dag V) (k : K) : List K :=
  match g.get k with
  | some n => n.deps
  | none => []

/-- Fuel the driver gives to every traversal that starts from `n` keys: one unit per start key and
per edge end, plus one per node, plus one (`Props/C23.lean`, `*_fuel_sufficient`). -/
def Dag.fuelFor (g : Dag V) (n : Nat) : Nat :=
  n + (g.keys.map fun k => (g.depsOf k).length + (g.dependentsOf k).length + 1).sum + 1

/-- Fuel the driver gives to `fold` / `prune_by` / `evaluate` started from `n` roots (they also run
the work-list searches of `descendants_of` / `ancestors_of` and `remove`). -/
def Dag.fuel2 (g : Dag V) (n : Nat) : Nat := g.fuelFor n + g.fuelFor 0

/-! ### `visit` / `visit_by` -/

/-- `for k in keys { self.visit(k, visited, order) }` with `visit` inlined, generic in the list of
keys to recurse into (`next k`, already in iteration order). State is `(visited, order)`;
`order.push_front` is `k :: order`. -/
def dfs (next : K → List K) : Nat → List K → List K × List K → Option (List K × List K)
  | 0, _, _ => none
  | _ + 1, [], st => some st
  | fuel + 1, k :: ks, (vis, ord) =>
    if k ∈ vis then dfs next fuel ks (vis, ord)
    else
      match dfs next fuel (next k) (k :: vis, ord) with
      | none => none
      | some (vis', ord') => dfs next fuel ks (vis', k :: ord')

/-- `visit` recurses into `node.dependents.iter().rev()`. -/
def Dag.visitNext (g : Dag V) (k : K) : List K := (g.dependentsOf k).reverse

/-- `visit_by` recurses into the dependents that are nodes, sorted by `ordering`, reversed. -/
def Dag.visitByNext (g : Dag V) (le : K × V → K × V → Bool) (k : K) : List K :=
  ((isort le ((g.dependentsOf k).filterMap fun d => (g.get d).map fun n => (d, n.value))).reverse).map (·.1)

/-- `Dag::sorted_by(compare)`; `le a b := compare(a, b) != Greater`. The keys are sorted with the
*reversed* comparator (`le' a b := compare(a,b).reverse() != Greater`, i.e. `compare(a,b) != Less`). -/
def Dag.sortedBy (g : Dag V) (cmp : K → K → Ordering) (fuel : Nat) : Option (List K) :=
  let keys := isort (fun a b => cmp a b != .lt) g.keys
  (dfs g.visitNext fuel keys ([], [])).map (·.2)

/-- `Dag::sorted` -/
def Dag.sorted (g : Dag V) (fuel : Nat) : Option (List K) := g.sortedBy compare fuel

/-! ### `descendants_of`, `ancestors_of`, `siblings_of` -/

/-- The `VecDeque` work list of `descendants_of` / `ancestors_of`: `nbrs k = none` when `k` is not a
node. Returns the nodes in the order they were pushed. -/
def bfs (nbrs : K → Option (List K)) : Nat → List K → List K → List K → Option (List K)
  | 0, _, _, _ => none
  | _ + 1, [], _, acc => some acc.reverse
  | fuel + 1, k :: q, vis, acc =>
    match nbrs k with
    | none => bfs nbrs fuel q vis acc
    | some ns =>
      if k ∈ vis then bfs nbrs fuel q vis acc
      else bfs nbrs fuel (q ++ ns) (k :: vis) (k :: acc)

def Dag.descendantsOf (g : Dag V) (fuel : Nat) (n : Node V) : Option (List K) :=
  bfs (fun k => (g.get k).map (·.dependents)) fuel n.dependents [] []

def Dag.ancestorsOf (g : Dag V) (fuel : Nat) (n : Node V) : Option (List K) :=
  bfs (fun k => (g.get k).map (·.deps)) fuel n.deps [] []

/-- `siblings_of(node)` followed by the `filter_map(|k| self.graph.get(k))` of `prune_by`: the nodes
that are neither ancestors nor descendants of `key`, nor `key` itself, in ascending key order. -/
def Dag.siblingsOf (g : Dag V) (fuel : Nat) (key : K) (n : Node V) : Option (List (K × Node V)) :=
  match g.ancestorsOf fuel n, g.descendantsOf fuel n with
  | some anc, some desc =>
    some (g.graph.filter fun p => !anc.contains p.1 && !desc.contains p.1 && p.1 != key)
  | _, _ => none

/-! ### `remove` -/

/-- One iteration of the first loop of `remove`: `key` is dropped from the dependents of `k`; `k`
becomes a tip when that leaves it without dependents. -/
def Dag.detachDep (key : K) (g : Dag V) (k : K) : Dag V :=
  match g.get k with
  | some n =>
    let ds := del key n.dependents
    { g with
      graph := mins k { n with dependents := ds } g.graph
      tips := if ds.isEmpty then ins k g.tips else g.tips }
  | none => g

/-- `remove` up to (excluding) the recursive calls. -/
def Dag.detach (g : Dag V) (key : K) (n : Node V) : Dag V :=
  n.deps.foldl (Dag.detachDep key)
    { graph := mdel key g.graph, tips := del key g.tips, roots := del key g.roots }

/-- `for k in ks { self.remove(k) }` with `remove` inlined. -/
def Dag.removeL : Nat → Dag V → List K → Option (Dag V)
  | 0, _, _ => none
  | _ + 1, g, [] => some g
  | fuel + 1, g, k :: ks =>
    match g.get k with
    | none => Dag.removeL fuel g ks
    | some n =>
      match Dag.removeL fuel (g.detach k n) n.dependents with
      | none => none
      | some g' => Dag.removeL fuel g' ks

/-- `Dag::remove` -/
def Dag.remove (g : Dag V) (fuel : Nat) (k : K) : Option (Dag V) := Dag.removeL fuel g [k]

/-! ### `fold` -/

inductive FoldOut (A : Type) where
  /-- `assert!(roots sorted ascending)` failed -/
  | panic
  | fuel
  | ok (a : A)
  deriving Repr

def strictAsc : List K → Bool
  | a :: b :: l => decide (a < b) && strictAsc (b :: l)
  | _ => true

/-- The second loop of `fold`. `f acc k node = (acc', continue?)`. -/
def Dag.foldLoop {A : Type} (g : Dag V) (fuel : Nat) (f : A → K → Node V → A × Bool) :
    List K → List K → A → Option A
  | [], _, acc => some acc
  | k :: ks, skip, acc =>
    if k ∈ skip then g.foldLoop fuel f ks skip acc
    else
      match g.get k with
      | none => g.foldLoop fuel f ks skip acc
      | some n =>
        let r := f acc k n
        if r.2 then g.foldLoop fuel f ks skip r.1
        else
          match g.descendantsOf fuel n with
          | none => none
          | some ds => g.foldLoop fuel f ks (ds ++ skip) r.1

/-- `Dag::fold(roots, acc, filter)`. -/
def Dag.fold {A : Type} (g : Dag V) (fuel : Nat) (roots : List K) (acc : A)
    (f : A → K → Node V → A × Bool) : FoldOut A :=
  if !strictAsc roots then .panic
  else
    match dfs g.visitNext fuel roots.reverse ([], []) with
    | none => .fuel
    | some (_, order) =>
      match g.foldLoop fuel f order [] acc with
      | none => .fuel
      | some a => .ok a

/-! ### `prune_by` -/

/-- The second loop of `prune_by`. `filter s k node siblings = (s', continue?)` (`FnMut` closure with
captured state `s`). -/
def Dag.pruneLoop {S : Type} (fuel : Nat)
    (filter : S → K → Node V → List (K × Node V) → S × Bool) :
    Dag V → S → List K → Option (Dag V × S)
  | g, s, [] => some (g, s)
  | g, s, k :: ks =>
    match g.get k with
    | none => Dag.pruneLoop fuel filter g s ks
    | some n =>
      match g.siblingsOf fuel k n with
      | none => none
      | some sibs =>
        let r := filter s k n sibs
        if r.2 then Dag.pruneLoop fuel filter g r.1 ks
        else
          match g.remove fuel k with
          | none => none
          | some g' => Dag.pruneLoop fuel filter g' r.1 ks

/-- `Dag::prune_by(roots, filter, ordering)`; `le x y := ordering(x, y) != Greater`. -/
def Dag.pruneBy {S : Type} (g : Dag V) (fuel : Nat) (roots : List K)
    (filter : S → K → Node V → List (K × Node V) → S × Bool)
    (le : K × V → K × V → Bool) (s : S) : Option (Dag V × S) :=
  match dfs (g.visitByNext le) fuel roots ([], []) with
  | none => none
  | some (_, order) => Dag.pruneLoop fuel filter g s order

/-- `Dag::prune(roots, filter)` = `prune_by` with the key order. -/
def Dag.prune {S : Type} (g : Dag V) (fuel : Nat) (roots : List K)
    (filter : S → K → Node V → List (K × Node V) → S × Bool) (s : S) : Option (Dag V × S) :=
  g.pruneBy fuel roots filter (fun x y => decide (x.1 ≤ y.1)) s

/-! ### `merge` -/

/-- Body of the `if let Some(node) = other.graph.remove(&next)` of `merge`. -/
def Dag.mergeStep (self : Dag V) (k : K) (n : Node V) : Dag V :=
  let s1 := if self.contains k then self else self.node k n.value
  let s2 := n.dependents.foldl (fun s d => s.dependency d k) s1
  n.deps.foldl (fun s d => s.dependency k d) s2

/-- The `while let Some(next) = queue.pop_front()` loop of `merge`. `other.graph.remove(&next)` is
modelled as a lookup in the unmodified `other`: a key is removed only after it entered `visited`, and
a visited key is skipped before the lookup, so a removed binding is never looked up again. -/
def Dag.mergeLoop (other : Dag V) : Nat → List K → List K → Dag V → Option (Dag V)
  | 0, _, _, _ => none
  | _ + 1, [], _, self => some self
  | fuel + 1, k :: q, vis, self =>
    if k ∈ vis then Dag.mergeLoop other fuel q vis self
    else
      match other.get k with
      | some n => Dag.mergeLoop other fuel (q ++ n.dependents) (k :: vis) (self.mergeStep k n)
      | none => Dag.mergeLoop other fuel q (k :: vis) self

/-- `Dag::merge(other)`: the queue is seeded with every key of `other.roots`. -/
def Dag.merge (self other : Dag V) (fuel : Nat) : Option (Dag V) :=
  Dag.mergeLoop other fuel other.roots [] self

end HeartwoodModel.Dag
