/-! Driver entry for property C24 (stub: not implemented yet). -/
namespace HeartwoodModel.Driver.C24

def run (_args : List String) : String := "unimplemented"

end HeartwoodModel.Driver.C24
