import HeartwoodModel.Model.Sync
/-!
# Helper lemmas for C25 (sync state machines): finite sets as duplicate-free lists, counting.
-/
set_option linter.unusedSimpArgs false
set_option linter.unusedVariables false
namespace HeartwoodModel.Sync

/-! ### sets -/

theorem mem_sins (x y : Nat) (s : List Nat) : y ∈ sins x s ↔ y = x ∨ y ∈ s := by
  unfold sins
  by_cases h : s.contains x = true
  · simp only [h, if_true]
    constructor
    · exact Or.inr
    · rintro (rfl | h')
      · simpa using h
      · exact h'
  · simp only [h, Bool.false_eq_true, if_false, List.mem_append, List.mem_singleton]
    constructor
    · rintro (h' | h') <;> simp [h']
    · rintro (h' | h') <;> simp [h']

theorem nodup_sins (x : Nat) (s : List Nat) (h : s.Nodup) : (sins x s).Nodup := by
  unfold sins
  by_cases hm : x ∈ s
  · simp [hm, h]
  · simp only [List.contains_iff_mem, hm, if_false]
    rw [List.nodup_append]
    refine ⟨h, by simp, ?_⟩
    intro a ha b hb
    simp only [List.mem_singleton] at hb
    subst hb
    intro e
    subst e
    exact hm ha

theorem length_sins (x : Nat) (s : List Nat) :
    (sins x s).length = if x ∈ s then s.length else s.length + 1 := by
  unfold sins
  by_cases hc : s.contains x = true
  · have : x ∈ s := by simpa using hc
    simp [hc, this]
  · have : x ∉ s := by simpa using hc
    simp [hc, this]

theorem mem_srm (x y : Nat) (s : List Nat) : y ∈ srm x s ↔ y ∈ s ∧ y ≠ x := by
  simp [srm]

theorem nodup_srm (x : Nat) (s : List Nat) (h : s.Nodup) : (srm x s).Nodup :=
  List.Nodup.sublist List.filter_sublist h

theorem mem_sunion (s t : List Nat) (y : Nat) : y ∈ sunion s t ↔ y ∈ s ∨ y ∈ t := by
  unfold sunion
  induction t generalizing s with
  | nil => simp
  | cons x t ih =>
    simp only [List.foldl_cons, ih, mem_sins, List.mem_cons]
    constructor
    · rintro ((h | h) | h) <;> simp [h]
    · rintro (h | h | h) <;> simp [h]

theorem nodup_sunion (s t : List Nat) (h : s.Nodup) : (sunion s t).Nodup := by
  unfold sunion
  induction t generalizing s with
  | nil => simpa using h
  | cons x t ih => exact ih _ (nodup_sins x s h)

theorem mem_sdiff (s t : List Nat) (y : Nat) : y ∈ sdiff s t ↔ y ∈ s ∧ y ∉ t := by
  simp [sdiff]

/-! ### counting: "every preferred node is in `S`" as a comparison of counts -/

/-- Pigeonhole: if the members of `S` that are in `P` are at least as many as `P`, then `P ⊆ S`. -/
theorem subset_of_count_ge (P S : List Nat) (hP : P.Nodup) (hS : S.Nodup)
    (h : P.length ≤ (S.filter (P.contains ·)).length) : ∀ p ∈ P, p ∈ S := by
  intro p hp
  apply Classical.byContradiction
  intro hnot
  have hsub : (S.filter (P.contains ·)) ⊆ P.erase p := by
    intro x hx
    simp only [List.mem_filter, List.contains_iff_mem] at hx
    have hne : x ≠ p := fun e => hnot (e ▸ hx.1)
    exact (List.mem_erase_of_ne hne).mpr hx.2
  have hnd : (S.filter (P.contains ·)).Nodup := List.Nodup.sublist List.filter_sublist hS
  have hle := List.Nodup.length_le_of_subset hnd hsub
  have hlen : (P.erase p).length = P.length - 1 := by rw [List.length_erase]; simp [hp]
  have hpos : 1 ≤ P.length := List.length_pos_of_mem hp
  omega

theorem count_ge_of_subset (P S : List Nat) (hP : P.Nodup) (h : ∀ p ∈ P, p ∈ S) :
    P.length ≤ (S.filter (P.contains ·)).length := by
  apply List.Nodup.length_le_of_subset hP
  intro x hx
  simp only [List.mem_filter, List.contains_iff_mem]
  exact ⟨h x hx, hx⟩

theorem count_ge_iff_subset (P S : List Nat) (hP : P.Nodup) (hS : S.Nodup) :
    P.length ≤ (S.filter (P.contains ·)).length ↔ ∀ p ∈ P, p ∈ S :=
  ⟨subset_of_count_ge P S hP hS, count_ge_of_subset P S hP⟩

/-! ### `FetchResults` -/

theorem getResult_append (rs : List (Nat × Bool)) (m : Nat) (r : Bool) (n : Nat) :
    getResult (rs ++ [(m, r)]) n =
      match getResult rs n with
      | some x => some x
      | none => if m = n then some r else none := by
  induction rs with
  | nil => simp [getResult]
  | cons p rest ih =>
    obtain ⟨k, v⟩ := p
    simp only [List.cons_append, getResult]
    by_cases hk : k = n
    · simp [hk]
    · simp [hk, ih]

theorem succNodes_append (rs : List (Nat × Bool)) (m : Nat) (r : Bool) :
    succNodes (rs ++ [(m, r)]) = succNodes rs ++ (if r then [m] else []) := by
  cases r <;> simp [succNodes, List.filter_append]

theorem getResult_of_mem_succNodes (rs : List (Nat × Bool)) (n : Nat) (h : n ∈ succNodes rs) :
    getResult rs n ≠ none := by
  induction rs with
  | nil => simp [succNodes] at h
  | cons p rest ih =>
    obtain ⟨k, v⟩ := p
    simp only [getResult]
    by_cases hk : k = n
    · simp [hk]
    · simp only [hk, if_false]
      apply ih
      simp only [succNodes, List.mem_map, List.mem_filter, List.mem_cons] at h ⊢
      obtain ⟨⟨a, b⟩, ⟨hm | hm, hb⟩, rfl⟩ := h
      · simp only [Prod.mk.injEq] at hm
        exact absurd hm.1.symm hk
      · exact ⟨(a, b), ⟨hm, hb⟩, rfl⟩

theorem mem_succNodes_of_getResult (rs : List (Nat × Bool)) (n : Nat)
    (h : getResult rs n = some true) : n ∈ succNodes rs := by
  induction rs with
  | nil => simp [getResult] at h
  | cons p rest ih =>
    obtain ⟨k, v⟩ := p
    simp only [getResult] at h
    by_cases hk : k = n
    · simp only [hk, if_true, Option.some.injEq] at h
      subst h; subst hk
      simp [succNodes]
    · simp only [hk, if_false] at h
      have := ih h
      simp only [succNodes, List.mem_map, List.mem_filter, List.mem_cons] at this ⊢
      obtain ⟨q, ⟨hm, hb⟩, hq⟩ := this
      exact ⟨q, ⟨Or.inr hm, hb⟩, hq⟩

/-! ### invariants, traces (moved here from the property file: definitions used in the statements of
the C25 theorems, and the step lemmas) -/

/-- The configuration sets are sets (`BTreeSet`). -/
structure AnnCfg.WF (c : AnnCfg) : Prop where
  pref : c.preferred.Nodup
  synced : c.synced.Nodup
  unsynced : c.unsynced.Nodup

/-- State invariant of the announcer. -/
structure Ann.Inv (a : Ann) : Prop where
  synced_nodup : a.synced.Nodup
  pref_nodup : a.preferred.Nodup
  me_synced : a.me ∉ a.synced
  me_pref : a.me ∉ a.preferred
  me_toSync : a.me ∉ a.toSync

theorem ann_pref_reached_iff (a : Ann) (h : a.Inv) :
    (a.preferred.isEmpty || decide (a.preferred.length ≤ a.prefCount)) = true ↔
      ∀ p ∈ a.preferred, p ∈ a.synced := by
  simp only [Bool.or_eq_true, List.isEmpty_iff, decide_eq_true_eq]
  constructor
  · rintro (h0 | h1)
    · intro p hp; rw [h0] at hp; simp at hp
    · exact subset_of_count_ge _ _ h.pref_nodup h.synced_nodup h1
  · intro hsub
    exact Or.inr (count_ge_of_subset _ _ h.pref_nodup hsub)

/-- `Announcer::new`: a constructed announcer satisfies the invariant, has the local node removed from
every set, and has not reached its target yet (otherwise `AlreadySynced` is returned). -/
theorem ann_new_spec (c : AnnCfg) (hc : c.WF) (a : Ann) (h : Ann.new c = .ok a) :
    a.Inv ∧ a.reached = none ∧ a.me = c.me ∧ a.preferred = srm c.me c.preferred ∧
    a.synced = srm c.me c.synced := by
  unfold Ann.new at h
  simp only [] at h
  split at h
  · simp at h
  · split at h
    · simp at h
    · split at h
      · simp at h
      · split at h
        · rename_i hr
          simp only [Except.ok.injEq] at h
          subst h
          refine ⟨⟨nodup_srm _ _ hc.synced, nodup_srm _ _ hc.pref, ?_, ?_, ?_⟩, hr, rfl, rfl, rfl⟩
          · simp [mem_srm]
          · simp [mem_srm]
          · simp only [mem_sunion, mem_srm, mem_sdiff]
            rintro (h' | h')
            · exact h'.2 rfl
            · exact h'.1.2 rfl
        · simp at h
        · simp at h

theorem ann_syncedWith_fields (a : Ann) (n : Nat) :
    (a.syncedWith n).1.me = a.me ∧ (a.syncedWith n).1.preferred = a.preferred ∧
    (a.syncedWith n).1.repl = a.repl ∧
    (a.syncedWith n).1.synced = (if n = a.me then a.synced else sins n a.synced) ∧
    (a.syncedWith n).1.toSync = (if n = a.me then a.toSync else srm n a.toSync) := by
  unfold Ann.syncedWith
  by_cases hn : n = a.me
  · simp [hn]
  · simp only [hn, if_false]
    split <;> simp

theorem ann_syncedWith_inv (a : Ann) (h : a.Inv) (n : Nat) : (a.syncedWith n).1.Inv := by
  obtain ⟨f1, f2, f3, f4, f5⟩ := ann_syncedWith_fields a n
  by_cases hn : n = a.me
  · simp only [hn, if_true] at f4 f5
    refine ⟨?_, ?_, ?_, ?_, ?_⟩
    · rw [hn, f4]; exact h.synced_nodup
    · rw [f2]; exact h.pref_nodup
    · rw [f1, hn, f4]; exact h.me_synced
    · rw [f1, f2]; exact h.me_pref
    · rw [f1, hn, f5]; exact h.me_toSync
  · simp only [hn, if_false] at f4 f5
    refine ⟨?_, ?_, ?_, ?_, ?_⟩
    · rw [f4]; exact nodup_sins _ _ h.synced_nodup
    · rw [f2]; exact h.pref_nodup
    · rw [f1, f4, mem_sins]
      rintro (h' | h')
      · exact hn h'.symm
      · exact h.me_synced h'
    · rw [f1, f2]; exact h.me_pref
    · rw [f1, f5, mem_srm]
      exact fun h' => h.me_toSync h'.1

/-- Feed a sequence of `synced_with` notifications (whatever the caller does with the answers). -/
def Ann.run (a : Ann) (ns : List Nat) : Ann := ns.foldl (fun a n => (a.syncedWith n).1) a

theorem ann_run_spec (a : Ann) (h : a.Inv) (ns : List Nat) :
    (a.run ns).Inv ∧ (a.run ns).me = a.me ∧ (a.run ns).preferred = a.preferred ∧
    (a.run ns).repl = a.repl ∧
    (∀ x, x ∈ (a.run ns).synced ↔ x ∈ a.synced ∨ (x ∈ ns ∧ x ≠ a.me)) := by
  induction ns generalizing a with
  | nil => simp [Ann.run, h]
  | cons n ns ih =>
    obtain ⟨f1, f2, f3, f4, _⟩ := ann_syncedWith_fields a n
    obtain ⟨i1, i2, i3, i4, i5⟩ := ih (a.syncedWith n).1 (ann_syncedWith_inv a h n)
    have hrun : a.run (n :: ns) = ((a.syncedWith n).1).run ns := by simp [Ann.run]
    rw [hrun]
    refine ⟨i1, i2.trans f1, i3.trans f2, i4.trans f3, ?_⟩
    intro x
    rw [i5 x, f4, f1]
    by_cases hn : n = a.me
    · simp only [hn, if_true, List.mem_cons]
      constructor
      · rintro (h' | ⟨h', h''⟩)
        · exact Or.inl h'
        · exact Or.inr ⟨Or.inr h', h''⟩
      · rintro (h' | ⟨h' | h', h''⟩)
        · exact Or.inl h'
        · exact absurd h' h''
        · exact Or.inr ⟨h', h''⟩
    · simp only [hn, if_false, mem_sins, List.mem_cons]
      constructor
      · rintro ((h' | h') | ⟨h', h''⟩)
        · exact Or.inr ⟨Or.inl h', by rw [h']; exact hn⟩
        · exact Or.inl h'
        · exact Or.inr ⟨Or.inr h', h''⟩
      · rintro (h' | ⟨h' | h', h''⟩)
        · exact Or.inl (Or.inr h')
        · exact Or.inl (Or.inl h')
        · exact Or.inr ⟨h', h''⟩

/-- State invariant of the fetcher: the successful entries of the result vector belong to pairwise
distinct nodes, none of them the local node, and each is the *first* entry of its node (so that
`FetchResults::get` sees it). This is what the guard in `fetch_complete` maintains. -/
structure Fet.Inv (f : Fet) : Prop where
  succ_nodup : (succNodes f.results).Nodup
  me_succ : f.me ∉ succNodes f.results
  seeds_nodup : f.seeds.Nodup
  first : ∀ n ∈ succNodes f.results, getResult f.results n = some true

theorem fet_new_spec (c : FetCfg) (hs : c.seeds.Nodup) (f : Fet) (h : Fet.new c = .ok f) :
    f.Inv ∧ f.me = c.me ∧ f.seeds = c.seeds ∧ f.results = [] ∧ f.candidates = c.candidates := by
  unfold Fet.new at h
  split at h
  · simp at h
  · simp only [] at h
    split at h
    · simp at h
    · simp only [Except.ok.injEq] at h
      subst h
      exact ⟨⟨by simp [succNodes], by simp [succNodes], hs, by simp [succNodes]⟩, rfl, rfl, rfl, rfl⟩

/-- Pushing a result for a node that has none yet and is not the local node keeps the invariant. -/
theorem fet_push_inv (f : Fet) (h : f.Inv) (n : Nat) (r : Bool)
    (hg : r = true → getResult f.results n = none ∧ n ≠ f.me) :
    Fet.Inv { f with results := f.results ++ [(n, r)] } := by
  cases r with
  | false =>
    refine ⟨?_, ?_, h.seeds_nodup, ?_⟩
    · simp only [succNodes_append]; simpa using h.succ_nodup
    · simp only [succNodes_append]; simpa using h.me_succ
    · intro k hk
      simp only [succNodes_append, Bool.false_eq_true, if_false, List.append_nil] at hk
      simp only [getResult_append, h.first k hk]
  | true =>
    obtain ⟨hg1, hg2⟩ := hg rfl
    have hnot : n ∉ succNodes f.results := fun hm => getResult_of_mem_succNodes _ _ hm hg1
    refine ⟨?_, ?_, h.seeds_nodup, ?_⟩
    · simp only [succNodes_append, if_true]
      rw [List.nodup_append]
      refine ⟨h.succ_nodup, by simp, ?_⟩
      intro a ha b hb
      simp only [List.mem_singleton] at hb
      subst hb
      intro e; subst e
      exact hnot ha
    · simp only [succNodes_append, if_true, List.mem_append, List.mem_singleton, not_or]
      exact ⟨h.me_succ, fun e => hg2 e.symm⟩
    · intro k hk
      simp only [succNodes_append, if_true, List.mem_append, List.mem_singleton] at hk
      rcases hk with hk | hk
      · simp only [getResult_append, h.first k hk]
      · subst hk
        simp only [getResult_append, hg1, if_true]

theorem includeNode_iff (f : Fet) (n : Nat) :
    f.includeNode n = true ↔ getResult f.results n = none ∧ n ≠ f.me := by
  unfold Fet.includeNode
  simp only [Bool.and_eq_true, Option.isNone_iff_eq_none, bne_iff_ne, ne_eq]
  constructor
  · rintro ⟨h1, h2⟩; exact ⟨h1, fun e => h2 e.symm⟩
  · rintro ⟨h1, h2⟩; exact ⟨h1, fun e => h2 e.symm⟩

/-- The operations a caller can perform on a `Fetcher`. -/
inductive FetOp where
  | nextNode
  | ready (n : Nat)
  | nextFetch
  | failed (n : Nat)
  | complete (n : Nat) (ok : Bool)
  deriving Repr, DecidableEq

def Fet.step (f : Fet) : FetOp → Fet
  | .nextNode => f.nextNode.1
  | .ready n => f.readyToFetch n
  | .nextFetch => f.nextFetch.1
  | .failed n => f.fetchFailed n
  | .complete n ok => (f.fetchComplete n ok).1

def Fet.run (f : Fet) (ops : List FetOp) : Fet := ops.foldl Fet.step f

theorem fet_fetchComplete_fields (f : Fet) (n : Nat) (ok : Bool) :
    (f.fetchComplete n ok).1 =
      (if f.includeNode n then { f with results := f.results ++ [(n, ok)] } else f) := by
  unfold Fet.fetchComplete
  simp only []
  split <;> rfl

theorem fet_nextNode_fields (f : Fet) :
    f.nextNode.1.me = f.me ∧ f.nextNode.1.seeds = f.seeds ∧ f.nextNode.1.repl = f.repl ∧
    f.nextNode.1.results = f.results := by
  unfold Fet.nextNode
  cases popCandidate f f.candidates
  exact ⟨rfl, rfl, rfl, rfl⟩

theorem fet_nextFetch_fields (f : Fet) :
    f.nextFetch.1.me = f.me ∧ f.nextFetch.1.seeds = f.seeds ∧ f.nextFetch.1.repl = f.repl ∧
    f.nextFetch.1.results = f.results := by
  unfold Fet.nextFetch
  cases f.fetchFrom <;> exact ⟨rfl, rfl, rfl, rfl⟩

theorem inv_congr (f g : Fet) (h : f.Inv) (h1 : g.me = f.me) (h2 : g.seeds = f.seeds)
    (h3 : g.results = f.results) : g.Inv :=
  ⟨by rw [h3]; exact h.succ_nodup, by rw [h1, h3]; exact h.me_succ, by rw [h2]; exact h.seeds_nodup,
   by rw [h3]; exact h.first⟩

theorem fet_step_inv (f : Fet) (h : f.Inv) (op : FetOp) : (f.step op).Inv := by
  cases op with
  | nextNode =>
    obtain ⟨a, b, _, d⟩ := fet_nextNode_fields f
    exact inv_congr f _ h a b d
  | ready n => exact inv_congr f _ h rfl rfl rfl
  | nextFetch =>
    obtain ⟨a, b, _, d⟩ := fet_nextFetch_fields f
    exact inv_congr f _ h a b d
  | failed n => exact fet_push_inv f h n false (by simp)
  | complete n ok =>
    simp only [Fet.step, fet_fetchComplete_fields]
    by_cases hi : f.includeNode n = true
    · simp only [hi, if_true]
      exact fet_push_inv f h n ok (fun _ => (includeNode_iff f n).mp hi)
    · simp only [hi, Bool.false_eq_true, if_false]
      exact h

theorem fet_step_fields (f : Fet) (op : FetOp) :
    (f.step op).me = f.me ∧ (f.step op).seeds = f.seeds ∧ (f.step op).repl = f.repl := by
  cases op with
  | nextNode => obtain ⟨a, b, c, _⟩ := fet_nextNode_fields f; exact ⟨a, b, c⟩
  | ready n => exact ⟨rfl, rfl, rfl⟩
  | nextFetch => obtain ⟨a, b, c, _⟩ := fet_nextFetch_fields f; exact ⟨a, b, c⟩
  | failed n => exact ⟨rfl, rfl, rfl⟩
  | complete n ok =>
    simp only [Fet.step, fet_fetchComplete_fields]
    split <;> exact ⟨rfl, rfl, rfl⟩

/-- The first result reported for node `n` (by `fetch_failed` or `fetch_complete`) in a trace. -/
def firstReport : List FetOp → Nat → Option Bool
  | [], _ => none
  | .failed m :: rest, n => if m = n then some false else firstReport rest n
  | .complete m ok :: rest, n => if m = n then some ok else firstReport rest n
  | _ :: rest, n => firstReport rest n

/-- The result recorded for a node other than the local node is the first one reported for it. -/
theorem fet_run_getResult (f : Fet) (ops : List FetOp) (n : Nat) (hn : n ≠ f.me) :
    getResult (f.run ops).results n =
      match getResult f.results n with
      | some r => some r
      | none => firstReport ops n := by
  induction ops generalizing f with
  | nil => simp only [Fet.run, List.foldl_nil, firstReport]; cases getResult f.results n <;> rfl
  | cons op ops ih =>
    have hrun : f.run (op :: ops) = (f.step op).run ops := by simp [Fet.run]
    have hme := (fet_step_fields f op).1
    rw [hrun, ih (f.step op) (by rw [hme]; exact hn)]
    cases op with
    | nextNode => simp only [Fet.step, (fet_nextNode_fields f).2.2.2, firstReport]
    | ready m => simp only [Fet.step, Fet.readyToFetch, firstReport]
    | nextFetch => simp only [Fet.step, (fet_nextFetch_fields f).2.2.2, firstReport]
    | failed m =>
      simp only [Fet.step, Fet.fetchFailed, getResult_append, firstReport]
      cases hg : getResult f.results n with
      | some r => rfl
      | none => by_cases hm : m = n <;> simp [hm]
    | complete m ok =>
      simp only [Fet.step, fet_fetchComplete_fields, firstReport]
      by_cases hi : f.includeNode m = true
      · simp only [hi, if_true, getResult_append]
        cases hg : getResult f.results n with
        | some r => rfl
        | none => by_cases hm : m = n <;> simp [hm]
      · simp only [hi, Bool.false_eq_true, if_false]
        cases hg : getResult f.results n with
        | some r => rfl
        | none =>
          by_cases hm : m = n
          · subst hm
            exact absurd ((includeNode_iff f m).mpr ⟨hg, hn⟩) hi
          · simp [hm]

theorem fet_run_spec (f : Fet) (h : f.Inv) (ops : List FetOp) :
    (f.run ops).Inv ∧ (f.run ops).me = f.me ∧ (f.run ops).seeds = f.seeds ∧
    (f.run ops).repl = f.repl := by
  induction ops generalizing f with
  | nil => exact ⟨h, rfl, rfl, rfl⟩
  | cons op ops ih =>
    have hrun : f.run (op :: ops) = (f.step op).run ops := by simp [Fet.run]
    obtain ⟨a, b, c⟩ := fet_step_fields f op
    obtain ⟨i1, i2, i3, i4⟩ := ih (f.step op) (fet_step_inv f h op)
    rw [hrun]
    exact ⟨i1, i2.trans a, i3.trans b, i4.trans c⟩

end HeartwoodModel.Sync
