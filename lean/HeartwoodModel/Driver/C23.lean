import HeartwoodModel.Model.Dag
import HeartwoodModel.Driver.Util
/-! Driver entry for C23. Case: `<script> <query> <arg>…`.

`script` = comma list of `n<k>:<v>` (node), `d<a>:<b>` (dependency a→b), `x<k>` (remove), `-` = empty.
Queries: `dump` · `orders <k>` · `sorted <ranks>` · `fold <roots> <brk>` · `prune <roots> <brk> <mode>` ·
`remove <k>` · `merge <script2>`; `ranks` = comma list `k:r` (default rank 0), `-` = none.
Dump: `k:v:deps:dependents;…|tips|roots` (lists joined by `+`, `_` = empty). -/
namespace HeartwoodModel.Driver.C23
open HeartwoodModel.Dag HeartwoodModel.Driver.Util

abbrev G := Dag Nat

def pair? (s : String) : Option (Nat × Nat) :=
  match splitOn s ':' with
  | [a, b] => do let a ← nat? a; let b ← nat? b; some (a, b)
  | _ => none

/-- `none` = malformed, `some none` = fuel. -/
def applyOp (g : G) (op : String) : Option (Option G) :=
  match op.toList with
  | 'n' :: rest => (pair? (String.ofList rest)).map fun (k, v) => some (g.node k v)
  | 'd' :: rest => (pair? (String.ofList rest)).map fun (a, b) => some (g.dependency a b)
  | 'x' :: rest => (nat? (String.ofList rest)).map fun k => g.remove (g.fuelFor 1) k
  | _ => none

def build (script : String) : Option (Option G) :=
  let ops := if script == "-" then [] else splitOn script ','
  ops.foldl (fun acc op =>
    match acc with
    | some (some g) => applyOp g op
    | other => other) (some (some Dag.empty))

def showList (xs : List Nat) : String := if xs.isEmpty then "_" else joinWith "+" (xs.map toString)

def dump (g : G) : String :=
  let nodes := g.graph.map fun (k, n) => s!"{k}:{n.value}:{showList n.deps}:{showList n.dependents}"
  s!"{joinWith ";" nodes}|{showList g.tipsOf}|{showList g.rootsOf}"

def ranks? (s : String) : Option (List (Nat × Nat)) :=
  if s == "-" then some [] else (splitOn s ',').mapM pair?

def rankOf (t : List (Nat × Nat)) (k : Nat) : Nat :=
  match t.find? (·.1 == k) with
  | some p => p.2
  | none => 0

def leMode (mode : Nat) (x y : Nat × Nat) : Bool :=
  match mode with
  | 0 => decide (x.1 ≤ y.1)
  | 1 => decide (x.2 ≤ y.2)
  | 2 => decide (x.2 < y.2) || (x.2 == y.2 && decide (x.1 ≤ y.1))
  | _ => decide (y.1 ≤ x.1)

def query (g : G) : List String → String
  | ["dump"] => "ok " ++ dump g
  -- the harness rebuilds the graph with the `dependency` calls in up to `k` orders; the result is one graph
  | ["orders", k] => if (nat? k).isSome then "ok " ++ dump g else "bad-op"
  | ["sorted", rk] =>
    match ranks? rk with
    | some t =>
      match g.sortedBy (fun a b => compare (rankOf t a) (rankOf t b)) (g.fuelFor g.len) with
      | some ord => "ok " ++ showList ord
      | none => "fuel"
    | none => "bad-op"
  | ["fold", roots, brk] =>
    match nats? roots, nats? brk with
    | some roots, some brk =>
      match g.fold (g.fuel2 roots.length) roots ([] : List Nat)
          (fun acc k _ => (k :: acc, !brk.contains k)) with
      | .ok acc => "ok " ++ showList acc.reverse
      | .panic => "panic"
      | .fuel => "fuel"
    | _, _ => "bad-op"
  | ["prune", roots, brk, mode] =>
    match nats? roots, nats? brk, nat? mode with
    | some roots, some brk, some mode =>
      match g.pruneBy (g.fuel2 roots.length) roots
          (fun (acc : List String) k _ sibs =>
            (s!"{k}[{showList (sibs.map (·.1))}]" :: acc, !brk.contains k))
          (leMode mode) [] with
      | some (g', acc) => "ok " ++ joinWith "," acc.reverse ++ "#" ++ dump g'
      | none => "fuel"
    | _, _, _ => "bad-op"
  | ["remove", k] =>
    match nat? k with
    | some k =>
      match g.remove (g.fuelFor 1) k with
      | some g' => "ok " ++ dump g'
      | none => "fuel"
    | none => "bad-op"
  | ["merge", script2] =>
    match build script2 with
    | some (some other) =>
      match g.merge other (other.fuelFor other.roots.length) with
      | some g' => "ok " ++ dump g'
      | none => "fuel"
    | some none => "fuel"
    | none => "bad-op"
  | _ => "bad-op"

def run (args : List String) : String :=
  match args with
  | script :: q =>
    match build script with
    | some (some g) => query g q
    | some none => "fuel"
    | none => "bad-op"
  | _ => "bad-op"

end HeartwoodModel.Driver.C23
