import HeartwoodModel.Model.Json
import HeartwoodModel.Model.JsonWire
import HeartwoodModel.Driver.Util
/-! Driver entry for C18.

Case: `<nfc table> <tree>` — nfc table `hex>hex,…` or `-`: the graph of NFC on the string fragments of the
case that are not already normalised (every other fragment is a fixed point); tree: the JSON value in the
wire syntax of `Model/JsonWire.lean`, members in the order in which they are handed to the serialiser.

Output: `direct=<hex|err> value=<hex|err>`: the canonical encoding of the value as given (a `Serialize`
type that emits exactly these members, duplicates included), and of the `serde_json::Value` the same
members build (`Json.norm`: IndexMap semantics). -/
namespace HeartwoodModel.Driver.C18
open HeartwoodModel.Json HeartwoodModel.JsonWire HeartwoodModel.Driver.Util

def parseNfcTable (s : String) : Option (List (Bytes × Bytes)) :=
  if s == "-" then some [] else
  (splitOn s ',').mapM fun e =>
    match splitOn e '>' with
    | [a, b] => do let a ← hexBytes? a; let b ← hexBytes? b; some (a, b)
    | _ => none

def nfcOf (tbl : List (Bytes × Bytes)) (s : Bytes) : Bytes :=
  match tbl.find? (fun e => e.1 == s) with
  | some e => e.2
  | none => s

def showEnc : Option Bytes → String
  | some b => toHex b
  | none => "err"

def run (args : List String) : String :=
  match args with
  | [nt, tree] =>
    match parseNfcTable nt, parseTree [] tree with
    | some ntbl, .ok j _ =>
      let nfc := nfcOf ntbl
      s!"direct={showEnc (encode nfc j)} value={showEnc (encode nfc (norm j))}"
    | _, .fuel => "fuel"
    | _, _ => "bad-op"
  | _ => "bad-op"

end HeartwoodModel.Driver.C18
