//! C23 harness (stub: not implemented yet).
fn main() {
    eprintln!("C23: harness not implemented");
    std::process::exit(3);
}
