import HeartwoodModel.Driver.Loop
import HeartwoodModel.Driver.C19
def main : IO Unit := HeartwoodModel.Driver.driverMain "C19" HeartwoodModel.Driver.C19.run
