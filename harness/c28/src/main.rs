//! C28 harness (stub: not implemented yet).
fn main() {
    eprintln!("C28: harness not implemented");
    std::process::exit(3);
}
