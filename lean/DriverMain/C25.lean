import HeartwoodModel.Driver.Loop
import HeartwoodModel.Driver.C25
def main : IO Unit := HeartwoodModel.Driver.driverMain "C25" HeartwoodModel.Driver.C25.run
