import HeartwoodModel.Model.Crdt
/-!
# Helper lemmas for C22 (`Model/Crdt.lean`)

Order facts, the functional view of `GMap` (`get_insert`, `get_merge`, extensionality), the three cases of
`LWWReg` merge, and fold lemmas used by the `lww_*` theorems.
-/
set_option linter.unusedSimpArgs false
set_option linter.unusedVariables false
set_option linter.unusedSectionVars false
namespace HeartwoodModel.Crdt

/-! ## strict linear orders -/

/-- A strict linear order given as a `Bool` relation. -/
structure StrictLinear {α : Type} (r : α → α → Bool) : Prop where
  irrefl : ∀ a, r a a = false
  trans : ∀ {a b c}, r a b = true → r b c = true → r a c = true
  total : ∀ a b, r a b = true ∨ a = b ∨ r b a = true

theorem StrictLinear.asymm {r : α → α → Bool} (h : StrictLinear r) {a b : α} (hab : r a b = true) :
    r b a = false := by
  cases hba : r b a with
  | false => rfl
  | true =>
    have := h.trans hab hba
    rw [h.irrefl] at this
    cases this

/-- `¬ a < b → ¬ b < c → ¬ a < c` (transitivity of `≥`). -/
theorem StrictLinear.not_lt_trans {r : α → α → Bool} (h : StrictLinear r) {a b c : α}
    (hab : r a b = false) (hbc : r b c = false) : r a c = false := by
  cases hac : r a c with
  | false => rfl
  | true =>
    rcases h.total a b with h1 | h1 | h1
    · rw [h1] at hab; cases hab
    · subst h1; rw [hac] at hbc; cases hbc
    · have := h.trans h1 hac
      rw [this] at hbc; cases hbc

theorem strictLinear_lt (α : Type) [Ordered α] [LawfulOrdered α] :
    StrictLinear (fun a b : α => Ordered.lt a b) :=
  ⟨LawfulOrdered.irrefl, LawfulOrdered.trans, LawfulOrdered.total⟩

theorem strictLinear_gt (α : Type) [Ordered α] [LawfulOrdered α] :
    StrictLinear (fun a b : α => Ordered.lt b a) :=
  ⟨LawfulOrdered.irrefl, fun h1 h2 => LawfulOrdered.trans h2 h1, fun a b => by
    rcases LawfulOrdered.total a b with h | h | h
    · exact Or.inr (Or.inr h)
    · exact Or.inr (Or.inl h)
    · exact Or.inl h⟩

theorem lt_asymm [Ordered α] [LawfulOrdered α] {a b : α} (h : Ordered.lt a b = true) :
    Ordered.lt b a = false := (strictLinear_lt α).asymm h

theorem lt_ne [Ordered α] [LawfulOrdered α] {a b : α} (h : Ordered.lt a b = true) : a ≠ b := by
  intro e; subst e; rw [LawfulOrdered.irrefl] at h; cases h

/-- `pick r x y`: the `r`-greater of the two (`y` when `r x y`). `Max::merge` is `pick (<)`,
`Min::merge` is `pick (>)`. -/
def pick (r : α → α → Bool) (x y : α) : α := if r x y then y else x

theorem pick_idem (r : α → α → Bool) (x : α) : pick r x x = x := by
  unfold pick; split <;> rfl

theorem pick_comm {r : α → α → Bool} (h : StrictLinear r) (x y : α) : pick r x y = pick r y x := by
  unfold pick
  rcases h.total x y with hxy | hxy | hxy
  · simp [hxy, h.asymm hxy]
  · subst hxy; rfl
  · simp [hxy, h.asymm hxy]

theorem pick_assoc {r : α → α → Bool} (h : StrictLinear r) (x y z : α) :
    pick r (pick r x y) z = pick r x (pick r y z) := by
  unfold pick
  cases hxy : r x y <;> cases hyz : r y z <;> simp [hxy, hyz]
  · -- ¬ x<y, ¬ y<z : x ≥ y ≥ z
    have := h.not_lt_trans hxy hyz
    simp [this]
  · -- x<y, y<z
    have := h.trans hxy hyz
    simp [this]

/-! ## `Option` -/

section Opt
variable {α : Type} [Semilattice α]

@[simp] theorem opt_merge_none_left (x : Option α) : merge none x = x := by cases x <;> rfl
@[simp] theorem opt_merge_none_right (x : Option α) : merge x none = x := by cases x <;> rfl
@[simp] theorem opt_merge_some_some (a b : α) : merge (some a) (some b) = some (merge a b) := rfl

theorem opt_assoc [LawfulSemilattice α] (a b c : Option α) :
    merge (merge a b) c = merge a (merge b c) := by
  cases a <;> cases b <;> cases c <;> simp [LawfulSemilattice.assoc]

theorem opt_comm [LawfulSemilattice α] (a b : Option α) : merge a b = merge b a := by
  cases a <;> cases b <;> simp [LawfulSemilattice.comm]

theorem opt_idem [LawfulSemilattice α] (a : Option α) : merge a a = a := by
  cases a <;> simp [LawfulSemilattice.idem]

/-- Folding writes into an accumulator equals merging the accumulator with the fold from `none`. -/
theorem opt_foldl_merge [LawfulSemilattice α] {β : Type} (g : β → Option α) (l : List β) (x : Option α) :
    l.foldl (fun a w => merge a (g w)) x = merge x (l.foldl (fun a w => merge a (g w)) none) := by
  induction l generalizing x with
  | nil => simp
  | cons w t ih =>
    simp only [List.foldl_cons]
    rw [ih (merge x (g w)), ih (merge none (g w)), opt_merge_none_left, opt_assoc]

theorem opt_foldl_isSome_of_acc {β : Type} (g : β → Option α) (l : List β) (x : Option α)
    (hx : x.isSome = true) : (l.foldl (fun a w => merge a (g w)) x).isSome = true := by
  induction l generalizing x with
  | nil => simpa using hx
  | cons w t ih =>
    simp only [List.foldl_cons]
    apply ih
    cases x with
    | none => cases hx
    | some a => cases g w <;> rfl

theorem opt_foldl_isSome_of_mem {β : Type} (g : β → Option α) (l : List β) (x : Option α)
    (w : β) (hw : w ∈ l) (hg : (g w).isSome = true) :
    (l.foldl (fun a w => merge a (g w)) x).isSome = true := by
  induction l generalizing x with
  | nil => cases hw
  | cons w' t ih =>
    simp only [List.foldl_cons]
    rcases List.mem_cons.mp hw with rfl | hw
    · apply opt_foldl_isSome_of_acc
      cases hgw : g w with
      | none => rw [hgw] at hg; cases hg
      | some b => cases x <;> rfl
    · exact ih _ hw

end Opt

/-! ## `LWWReg` -/

section Reg
variable {T C : Type} [DecidableEq C] [Ordered C] [LawfulOrdered C] [Semilattice T]

theorem MaxV.ext' {a b : MaxV C} (h : a.val = b.val) : a = b := by
  cases a; cases b; simp only at h; subst h; rfl

theorem reg_merge_of_eq {r o : LWWReg T C} (h : r.clock = o.clock) :
    merge r o = { clock := r.clock, value := merge r.value o.value } := by
  show r.set o.value o.clock.val = _
  unfold LWWReg.set
  simp [h]

theorem reg_merge_of_lt {r o : LWWReg T C} (h : Ordered.lt r.clock.val o.clock.val = true) :
    merge r o = o := by
  show r.set o.value o.clock.val = _
  unfold LWWReg.set
  have hne : ¬ (o.clock = r.clock) := by
    intro e; rw [e, LawfulOrdered.irrefl] at h; cases h
  have hlt : Ordered.lt r.clock (⟨o.clock.val⟩ : MaxV C) = true := h
  have hm : (merge r.clock (⟨o.clock.val⟩ : MaxV C)) = o.clock := by
    show (if Ordered.lt r.clock.val o.clock.val then (⟨o.clock.val⟩ : MaxV C) else r.clock) = o.clock
    rw [h]; rfl
  simp only [hne, hlt, hm, if_false, if_true]

theorem reg_merge_of_gt {r o : LWWReg T C} (h : Ordered.lt o.clock.val r.clock.val = true) :
    merge r o = r := by
  show r.set o.value o.clock.val = _
  unfold LWWReg.set
  have hne : ¬ (o.clock = r.clock) := by
    intro e; rw [e, LawfulOrdered.irrefl] at h; cases h
  have hlt : Ordered.lt r.clock (⟨o.clock.val⟩ : MaxV C) = false := by
    show Ordered.lt r.clock.val o.clock.val = false
    exact lt_asymm h
  simp [hne, hlt]

/-- The three cases of a register merge. -/
theorem reg_cases (r o : LWWReg T C) :
    (Ordered.lt r.clock.val o.clock.val = true ∧ merge r o = o) ∨
    (r.clock = o.clock ∧ merge r o = { clock := r.clock, value := merge r.value o.value }) ∨
    (Ordered.lt o.clock.val r.clock.val = true ∧ merge r o = r) := by
  rcases LawfulOrdered.total r.clock.val o.clock.val with h | h | h
  · exact Or.inl ⟨h, reg_merge_of_lt h⟩
  · exact Or.inr (Or.inl ⟨MaxV.ext' h, reg_merge_of_eq (MaxV.ext' h)⟩)
  · exact Or.inr (Or.inr ⟨h, reg_merge_of_gt h⟩)

theorem reg_idem [LawfulSemilattice T] (a : LWWReg T C) : merge a a = a := by
  rw [reg_merge_of_eq rfl, LawfulSemilattice.idem]

theorem reg_comm [LawfulSemilattice T] (a b : LWWReg T C) : merge a b = merge b a := by
  rcases LawfulOrdered.total a.clock.val b.clock.val with h | h | h
  · rw [reg_merge_of_lt h, reg_merge_of_gt h]
  · have h' := MaxV.ext' h
    rw [reg_merge_of_eq h', reg_merge_of_eq h'.symm, LawfulSemilattice.comm a.value, h']
  · rw [reg_merge_of_gt h, reg_merge_of_lt h]

theorem reg_assoc [LawfulSemilattice T] (a b c : LWWReg T C) :
    merge (merge a b) c = merge a (merge b c) := by
  rcases LawfulOrdered.total a.clock.val b.clock.val with hab | hab | hab <;>
  rcases LawfulOrdered.total b.clock.val c.clock.val with hbc | hbc | hbc
  · -- a < b < c
    have hac := LawfulOrdered.trans hab hbc
    rw [reg_merge_of_lt hab, reg_merge_of_lt hbc, reg_merge_of_lt hac]
  · -- a < b = c
    have hbc' := MaxV.ext' hbc
    rw [reg_merge_of_lt hab, reg_merge_of_eq hbc']
    exact (reg_merge_of_lt (r := a) (o := { clock := b.clock, value := merge b.value c.value }) hab).symm
  · -- a < b, c < b
    rw [reg_merge_of_lt hab, reg_merge_of_gt hbc, reg_merge_of_lt hab]
  · -- a = b < c
    have hab' := MaxV.ext' hab
    have hac : Ordered.lt a.clock.val c.clock.val = true := by rw [hab]; exact hbc
    rw [reg_merge_of_eq hab', reg_merge_of_lt hbc, reg_merge_of_lt hac]
    exact reg_merge_of_lt (r := { clock := a.clock, value := merge a.value b.value }) (o := c) hac
  · -- a = b = c
    have hab' := MaxV.ext' hab
    have hbc' := MaxV.ext' hbc
    rw [reg_merge_of_eq hab', reg_merge_of_eq hbc']
    rw [reg_merge_of_eq (r := { clock := a.clock, value := merge a.value b.value }) (o := c) (hab'.trans hbc')]
    rw [reg_merge_of_eq (r := a) (o := { clock := b.clock, value := merge b.value c.value }) hab']
    simp [LawfulSemilattice.assoc]
  · -- a = b, c < b
    have hab' := MaxV.ext' hab
    have hca : Ordered.lt c.clock.val a.clock.val = true := by rw [hab]; exact hbc
    rw [reg_merge_of_eq hab', reg_merge_of_gt hbc, reg_merge_of_eq hab']
    exact reg_merge_of_gt (r := { clock := a.clock, value := merge a.value b.value }) (o := c) hca
  · -- b < a, b < c
    rw [reg_merge_of_gt hab, reg_merge_of_lt hbc]
  · -- b < a, b = c
    have hbc' := MaxV.ext' hbc
    have hca : Ordered.lt c.clock.val a.clock.val = true := by rw [← hbc]; exact hab
    rw [reg_merge_of_gt hab, reg_merge_of_eq hbc', reg_merge_of_gt hca]
    exact (reg_merge_of_gt (r := a) (o := { clock := b.clock, value := merge b.value c.value }) hab).symm
  · -- c < b < a
    have hca := LawfulOrdered.trans hbc hab
    rw [reg_merge_of_gt hab, reg_merge_of_gt hbc, reg_merge_of_gt hca, reg_merge_of_gt hab]

end Reg

/-! ## `GMap`: the functional view -/

section GMap
variable {K V : Type} [Ordered K] [LawfulOrdered K] [DecidableEq K] [Semilattice V]

theorem lookup_none_of_all_lt (k : K) (l : List (K × V))
    (h : ∀ p ∈ l, Ordered.lt k p.1 = true) : lookup k l = none := by
  induction l with
  | nil => rfl
  | cons hd tl ih =>
    obtain ⟨k', v'⟩ := hd
    have hk : Ordered.lt k k' = true := h (k', v') (by simp)
    have hne : k ≠ k' := lt_ne hk
    simp only [lookup, hne, if_false]
    exact ih (fun p hp => h p (by simp [hp]))

theorem sorted_tail {k : K} {v : V} {l : List (K × V)} (h : Sorted ((k, v) :: l)) : Sorted l := by
  unfold Sorted at *; exact (List.pairwise_cons.mp h).2

theorem sorted_head {k : K} {v : V} {l : List (K × V)} (h : Sorted ((k, v) :: l)) :
    ∀ p ∈ l, Ordered.lt k p.1 = true := by
  unfold Sorted at *; exact (List.pairwise_cons.mp h).1

theorem lookup_tail_none {k : K} {v : V} {l : List (K × V)} (h : Sorted ((k, v) :: l)) :
    lookup k l = none := lookup_none_of_all_lt k l (sorted_head h)

theorem lookup_insertEntries_self (k : K) (v : V) (l : List (K × V)) (hs : Sorted l) :
    lookup k (insertEntries k v l) = merge (lookup k l) (some v) := by
  induction l with
  | nil => simp [insertEntries, lookup]
  | cons hd tl ih =>
    obtain ⟨k', v'⟩ := hd
    unfold insertEntries
    split
    · rename_i he
      subst he
      simp [lookup]
    · rename_i hne
      split
      · rename_i hlt
        have : lookup k ((k', v') :: tl) = none := by
          apply lookup_none_of_all_lt
          intro p hp
          rcases List.mem_cons.mp hp with rfl | hp
          · exact hlt
          · exact LawfulOrdered.trans hlt (sorted_head hs p hp)
        rw [this]
        simp [lookup]
      · simp only [lookup, hne, if_false]
        exact ih (sorted_tail hs)

theorem lookup_insertEntries_other (k k' : K) (v : V) (l : List (K × V)) (hne : k' ≠ k) :
    lookup k' (insertEntries k v l) = lookup k' l := by
  induction l with
  | nil => simp [insertEntries, lookup, hne]
  | cons hd tl ih =>
    obtain ⟨k2, v2⟩ := hd
    unfold insertEntries
    split
    · rename_i he
      subst he
      simp [lookup, hne]
    · split
      · simp [lookup, hne]
      · by_cases h2 : k' = k2
        · simp [lookup, h2]
        · simp [lookup, h2, ih]

theorem GMap.get_insert (m : GMap K V) (k k' : K) (v : V) :
    (m.insert k v).get k' = if k' = k then merge (m.get k) (some v) else m.get k' := by
  unfold GMap.get GMap.insert
  by_cases h : k' = k
  · subst h
    simp only [if_true]
    exact lookup_insertEntries_self k' v m.entries m.sorted
  · simp only [h, if_false]
    exact lookup_insertEntries_other k k' v m.entries h

theorem GMap.get_empty (k : K) : (GMap.empty : GMap K V).get k = none := rfl

theorem foldl_insert_get (l : List (K × V)) (hl : Sorted l) (a : GMap K V) (k : K) :
    (l.foldl (fun m kv => m.insert kv.1 kv.2) a).get k = merge (a.get k) (lookup k l) := by
  induction l generalizing a with
  | nil => simp [lookup]
  | cons hd tl ih =>
    obtain ⟨k', v'⟩ := hd
    simp only [List.foldl_cons]
    rw [ih (sorted_tail hl), GMap.get_insert]
    by_cases h : k = k'
    · subst h
      simp only [if_true, lookup]
      rw [lookup_tail_none hl]
      simp
    · simp [h, lookup]

/-- The functional view of `GMap::merge`: pointwise `Option` merge. -/
theorem GMap.get_merge (a b : GMap K V) (k : K) : (merge a b).get k = merge (a.get k) (b.get k) :=
  foldl_insert_get b.entries b.sorted a k

theorem entries_ext (l1 l2 : List (K × V)) (h1 : Sorted l1) (h2 : Sorted l2)
    (h : ∀ k, lookup k l1 = lookup k l2) : l1 = l2 := by
  induction l1 generalizing l2 with
  | nil =>
    cases l2 with
    | nil => rfl
    | cons hd tl =>
      obtain ⟨k, v⟩ := hd
      have := h k
      simp [lookup] at this
  | cons hd1 t1 ih =>
    obtain ⟨k1, v1⟩ := hd1
    cases l2 with
    | nil =>
      have := h k1
      simp [lookup] at this
    | cons hd2 t2 =>
      obtain ⟨k2, v2⟩ := hd2
      have hk : k1 = k2 := by
        rcases LawfulOrdered.total k1 k2 with hlt | he | hgt
        · have hn : lookup k1 ((k2, v2) :: t2) = none := by
            apply lookup_none_of_all_lt
            intro p hp
            rcases List.mem_cons.mp hp with rfl | hp
            · exact hlt
            · exact LawfulOrdered.trans hlt (sorted_head h2 p hp)
          have := h k1
          rw [hn] at this
          simp [lookup] at this
        · exact he
        · have hn : lookup k2 ((k1, v1) :: t1) = none := by
            apply lookup_none_of_all_lt
            intro p hp
            rcases List.mem_cons.mp hp with rfl | hp
            · exact hgt
            · exact LawfulOrdered.trans hgt (sorted_head h1 p hp)
          have := h k2
          rw [hn] at this
          simp [lookup] at this
      subst hk
      have hv : v1 = v2 := by
        have := h k1
        simpa [lookup] using this
      subst hv
      have ht : t1 = t2 := by
        apply ih t2 (sorted_tail h1) (sorted_tail h2)
        intro k
        by_cases hk : k = k1
        · subst hk
          rw [lookup_tail_none h1, lookup_tail_none h2]
        · have := h k
          simpa [lookup, hk] using this
      rw [ht]

/-- Extensionality: two `GMap`s with the same `get` are equal (Rust's `==` on `BTreeMap`). -/
theorem GMap.ext {a b : GMap K V} (h : ∀ k, a.get k = b.get k) : a = b :=
  GMap.eq_of_entries (entries_ext a.entries b.entries a.sorted b.sorted h)

theorem GMap.insert_eq_merge_singleton (m : GMap K V) (k : K) (v : V) :
    m.insert k v = merge m ((GMap.empty : GMap K V).insert k v) := rfl

theorem GMap.insert_comm [LawfulSemilattice V] (m : GMap K V) (k1 k2 : K) (v1 v2 : V) :
    (m.insert k1 v1).insert k2 v2 = (m.insert k2 v2).insert k1 v1 := by
  apply GMap.ext
  intro k
  simp only [GMap.get_insert]
  by_cases h1 : k = k1 <;> by_cases h2 : k = k2
  · subst h1; subst h2
    simp only [if_true]
    rw [opt_assoc, opt_assoc, opt_comm (some v1)]
  · subst h1
    have : ¬ k2 = k := fun e => h2 e.symm
    simp [h2, this]
  · subst h2
    have : ¬ k1 = k := fun e => h1 e.symm
    simp [h1, this]
  · simp [h1, h2]

theorem GMap.insert_insert [LawfulSemilattice V] (m : GMap K V) (k : K) (v1 v2 : V) :
    (m.insert k v1).insert k v2 = m.insert k (merge v1 v2) := by
  apply GMap.ext
  intro k'
  simp only [GMap.get_insert]
  by_cases h : k' = k
  · subst h
    simp only [if_true]
    rw [opt_assoc]; rfl
  · simp [h]

end GMap

end HeartwoodModel.Crdt
