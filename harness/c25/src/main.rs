//! C25 harness (stub: not implemented yet).
fn main() {
    eprintln!("C25: harness not implemented");
    std::process::exit(3);
}
