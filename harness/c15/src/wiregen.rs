//! Shared by the C14 and C15 harnesses (`#[path]`-included by c14): gossip messages built from the repo's
//! own types, deterministically from the harness PRNG, with the boundary sizes the proofs case-split on;
//! and the graph of the opaque onion-address validity function on the candidates of a byte string.
#![allow(dead_code)]

use std::net;
use std::str::FromStr;

use cyphernet::addr::{tor, HostName, NetAddr};
use cyphernet::EcPk as _;
use radicle::crypto::{KeyPair, PublicKey, Seed, Signature};
use radicle::git::Oid;
use radicle::identity::RepoId;
use radicle::node::{Address, Alias, Features, Timestamp, UserAgent};
use radicle::storage::refs::RefsAt;
use radicle_node::bounded::BoundedVec;
use radicle_node::service::filter::{BloomFilter, Filter};
use radicle_node::service::message::{
    Announcement, AnnouncementMessage, Info, InventoryAnnouncement, Message, NodeAnnouncement, Ping,
    RefsAnnouncement, Subscribe, ZeroBytes, ADDRESS_LIMIT, INVENTORY_LIMIT, REF_REMOTE_LIMIT,
};
use radicle_node::wire;
use verif_common::Rng;

pub fn arr<const N: usize>(rng: &mut Rng) -> [u8; N] {
    let mut a = [0u8; N];
    for x in a.iter_mut() {
        *x = rng.next() as u8;
    }
    a
}

pub fn pk(rng: &mut Rng) -> PublicKey {
    PublicKey::from(arr::<32>(rng))
}

pub fn sig(rng: &mut Rng) -> Signature {
    Signature::from(arr::<64>(rng))
}

pub fn oid(rng: &mut Rng) -> Oid {
    let b = match rng.below(8) {
        0 => [0u8; 20],
        1 => [0xffu8; 20],
        _ => arr::<20>(rng),
    };
    Oid::try_from(&b[..]).expect("20 bytes")
}

pub fn ts(rng: &mut Rng) -> Timestamp {
    let v = match rng.below(6) {
        0 => 0,
        1 => 1,
        2 => i64::MAX as u64,
        3 => i64::MAX as u64 - 1,
        _ => rng.next() >> 1,
    };
    Timestamp::try_from(v).expect("at most i64::MAX")
}

pub fn alias(rng: &mut Rng) -> Alias {
    let s: String = match rng.below(8) {
        0 => "a".into(),
        1 => "@".repeat(32),
        2 => "alice".into(),
        3 => "ünïcødé-€".into(),
        4 => "\u{10348}\u{ffff}\u{7ff}x".into(),
        5 => match rng.below(5) {
            0 => "ALICE".into(),
            1 => "Alice.Radicle".into(),
            2 => "\u{feff}alice\u{200b}".into(),     // BOM / zero-width space: not White_Space, kept as is
            3 => "e\u{301}".into(),                  // not NFC
            _ => "\u{e9}".into(),                    // NFC of the former
        },
        _ => {
            let n = rng.range(1, 32);
            (0..n).map(|_| (0x21 + rng.below(0x5e) as u8) as char).collect()
        }
    };
    Alias::from_str(&s).expect("valid alias")
}

pub fn agent(rng: &mut Rng) -> UserAgent {
    let s: String = match rng.below(9) {
        0 => "/radicle/".into(),
        1 => "/radicle:1.0.0/heartwood:0.9/".into(),
        2 => format!("/{}/", "a".repeat(62)),
        3 => "/rad/icle/".into(),
        4 => "/é//x:y:z/".into(),
        5 => "/r/".into(),
        6 => match rng.below(4) {
            0 => "/ Radicle /".into(),              // spaces and case a decoder might trim / fold
            1 => "/RADICLE:1.0.0/".into(),
            2 => "/radicle:1.0.0 /".into(),
            _ => "/radicle/ /".into(),
        },
        _ => {
            let n = rng.range(1, 20);
            let name: String = (0..n).map(|_| (b'a' + rng.below(26) as u8) as char).collect();
            format!("/{name}:{}.{}/", rng.below(10), rng.below(100))
        }
    };
    UserAgent::from_str(&s).expect("valid user agent")
}

/// A valid raw (35-byte) Tor v3 address.
pub fn onion(rng: &mut Rng) -> tor::OnionAddrV3 {
    let kp = KeyPair::from_seed(Seed::new(arr::<32>(rng)));
    let pk = PublicKey::from(kp.pk);
    tor::OnionAddrV3::from(cyphernet::ed25519::PublicKey::from_pk_compressed(**pk).expect("valid point"))
}

/// Structured IPv6 addresses: every range a decoder might be tempted to "normalise" (IPv4-mapped,
/// IPv4-compatible, NAT64, 6to4, unspecified, loopback, link-local, unique-local, multicast, documentation).
pub fn ipv6(rng: &mut Rng) -> net::Ipv6Addr {
    let v4 = ipv4(rng).octets();
    let mut o = arr::<16>(rng);
    match rng.below(16) {
        0 => {
            // IPv4-mapped ::ffff:a.b.c.d
            o = [0; 16];
            o[10] = 0xff;
            o[11] = 0xff;
            o[12..].copy_from_slice(&v4);
        }
        1 => {
            // IPv4-compatible ::a.b.c.d
            o = [0; 16];
            o[12..].copy_from_slice(&v4);
        }
        2 => o = [0; 16],                                             // ::
        3 => { o = [0; 16]; o[15] = 1; }                              // ::1
        4 => {
            // NAT64 64:ff9b::/96
            o = [0; 16];
            o[1] = 0x64; o[2] = 0xff; o[3] = 0x9b;
            o[12..].copy_from_slice(&v4);
        }
        5 => { o[0] = 0x20; o[1] = 0x02; o[2..6].copy_from_slice(&v4); } // 6to4 2002::/16
        6 => { o[0] = 0xfe; o[1] = 0x80; for x in &mut o[2..8] { *x = 0; } } // link-local fe80::/64
        7 => { o[0] = 0xfc | (rng.below(2) as u8); }                  // unique-local fc00::/7
        8 => { o[0] = 0xff; o[1] = rng.below(16) as u8; }             // multicast ff00::/8
        9 => { o[0] = 0x20; o[1] = 0x01; o[2] = 0x0d; o[3] = 0xb8; }  // documentation 2001:db8::/32
        10 => o = [0xff; 16],
        11 => {
            // ::ffff:0:a.b.c.d (IPv4-translated) and near misses of the mapped prefix
            o = [0; 16];
            o[8] = 0xff; o[9] = 0xff;
            o[12..].copy_from_slice(&v4);
        }
        12 => {
            o = [0; 16];
            o[10] = 0xff; o[11] = 0xfe;
            o[12..].copy_from_slice(&v4);
        }
        _ => {}
    }
    net::Ipv6Addr::from(o)
}

/// IPv4 addresses including the special ranges.
pub fn ipv4(rng: &mut Rng) -> net::Ipv4Addr {
    let r = rng.next() as u32;
    let [_, b, c, d] = r.to_be_bytes();
    match rng.below(12) {
        0 => net::Ipv4Addr::new(0, 0, 0, 0),
        1 => net::Ipv4Addr::new(255, 255, 255, 255),
        2 => net::Ipv4Addr::new(127, b, c, d),
        3 => net::Ipv4Addr::new(127, 0, 0, 1),
        4 => net::Ipv4Addr::new(10, b, c, d),
        5 => net::Ipv4Addr::new(169, 254, c, d),
        6 => net::Ipv4Addr::new(192, 168, c, d),
        7 => net::Ipv4Addr::new(192, 0, 2, d),
        8 => net::Ipv4Addr::new(224, b, c, d),
        _ => net::Ipv4Addr::from(r),
    }
}

/// DNS names a decoder might want to normalise: upper case, trailing dot, punycode, raw IDN, the 255-byte
/// limit, empty, names that look like IP or onion addresses.
pub fn dns(rng: &mut Rng) -> String {
    match rng.below(14) {
        0 => String::new(),
        1 => "x".repeat(255),
        2 => format!("{}.", "y".repeat(254)),
        3 => "ü.example".into(),
        4 => "xn--mnchen-3ya.example".into(),
        5 => "Seed.Radicle.XYZ".into(),
        6 => "seed.radicle.xyz.".into(),
        7 => "SEED.RADICLE.XYZ.".into(),
        8 => "127.0.0.1".into(),
        9 => "::ffff:192.0.2.1".into(),
        10 => "xmrhfasfg5suueegrnc4gsgyi2tyclcy5oz7f5drnrodmdtob6t2ioyd.onion".into(),
        11 => " seed.radicle.xyz ".into(),
        12 => "seed.radicle.xyz".into(),
        _ => format!("h{}.example.com", rng.below(1000)),
    }
}

pub fn port(rng: &mut Rng) -> u16 {
    match rng.below(6) {
        0 => 0,
        1 => 65535,
        2 => 8776,
        3 => 1,
        _ => rng.next() as u16,
    }
}

pub fn address(rng: &mut Rng) -> Address {
    let host = match rng.below(8) {
        0 | 1 => HostName::Ip(net::IpAddr::V4(ipv4(rng))),
        2 | 3 | 4 => HostName::Ip(net::IpAddr::V6(ipv6(rng))),
        5 | 6 => HostName::Dns(dns(rng)),
        _ => HostName::Tor(onion(rng)),
    };
    Address::from(NetAddr { host, port: port(rng) })
}

pub fn filter(rng: &mut Rng) -> Filter {
    let size = *rng.pick(&[1024usize, 4096, 16384]);
    let bytes = match rng.below(3) {
        0 => vec![0u8; size],
        1 => vec![0xffu8; size],
        _ => rng.bytes(size),
    };
    Filter::from(BloomFilter::from(bytes))
}

fn ann(node: PublicKey, signature: Signature, message: AnnouncementMessage) -> Message {
    Message::Announcement(Announcement { node, signature, message })
}

/// Size of a bounded vector: the limits and their neighbours, mostly small.
fn vec_len(rng: &mut Rng, limit: usize, big: bool) -> usize {
    match rng.below(10) {
        0 => 0,
        1 => 1,
        2 if big => limit,
        3 if big => limit - 1,
        _ => rng.range(0, 12.min(limit as u64)) as usize,
    }
}

/// Message kinds: 0 subscribe, 1 node, 2 inventory, 3 refs, 4 info, 5 ping, 6 pong.
pub fn message_of_kind(rng: &mut Rng, kind: u64, big: bool) -> Message {
    let (node, signature) = (pk(rng), sig(rng));
    match kind {
        0 => Message::Subscribe(Subscribe { filter: filter(rng), since: ts(rng), until: ts(rng) }),
        1 => {
            let n = vec_len(rng, ADDRESS_LIMIT, true);
            let addrs: Vec<Address> = (0..n).map(|_| address(rng)).collect();
            let nonce = if rng.chance(1, 4) { u64::MAX } else { rng.next() };
            let msg = AnnouncementMessage::Node(NodeAnnouncement {
                version: rng.next() as u8,
                features: Features::from(rng.next()),
                timestamp: ts(rng),
                alias: alias(rng),
                addresses: BoundedVec::try_from(addrs).expect("within limit"),
                nonce,
                agent: agent(rng),
            });
            ann(node, signature, msg)
        }
        2 => {
            let n = vec_len(rng, INVENTORY_LIMIT, big);
            let inv: Vec<RepoId> = (0..n).map(|_| RepoId::from(oid(rng))).collect();
            let msg = AnnouncementMessage::Inventory(InventoryAnnouncement {
                inventory: BoundedVec::try_from(inv).expect("within limit"),
                timestamp: ts(rng),
            });
            ann(node, signature, msg)
        }
        3 => {
            let n = vec_len(rng, REF_REMOTE_LIMIT, big);
            let refs: Vec<RefsAt> = (0..n).map(|_| RefsAt { remote: pk(rng), at: oid(rng) }).collect();
            let msg = AnnouncementMessage::Refs(RefsAnnouncement {
                rid: RepoId::from(oid(rng)),
                refs: BoundedVec::try_from(refs).expect("within limit"),
                timestamp: ts(rng),
            });
            ann(node, signature, msg)
        }
        4 => Message::Info(Info::RefsAlreadySynced { rid: RepoId::from(oid(rng)), at: oid(rng) }),
        5 => {
            let zeroes = match rng.below(8) {
                0 => 0,
                1 if big => Ping::MAX_PING_ZEROES,
                2 if big => Ping::MAX_PING_ZEROES - 1,
                _ => rng.below(40) as u16,
            };
            Message::Ping(Ping { ponglen: rng.next() as u16, zeroes: ZeroBytes::new(zeroes) })
        }
        _ => {
            let zeroes = match rng.below(8) {
                0 => 0,
                1 if big => Ping::MAX_PONG_ZEROES,
                _ => rng.below(40) as u16,
            };
            Message::Pong { zeroes: ZeroBytes::new(zeroes) }
        }
    }
}

pub fn message(rng: &mut Rng, big: bool) -> Message {
    let kind = rng.below(7);
    message_of_kind(rng, kind, big)
}

pub fn kind_name(m: &Message) -> &'static str {
    match m {
        Message::Subscribe(_) => "subscribe",
        Message::Announcement(Announcement { message, .. }) => match message {
            AnnouncementMessage::Node(_) => "node-ann",
            AnnouncementMessage::Inventory(_) => "inventory-ann",
            AnnouncementMessage::Refs(_) => "refs-ann",
        },
        Message::Info(_) => "info",
        Message::Ping(_) => "ping",
        Message::Pong { .. } => "pong",
    }
}

/// The graph of the opaque function `OnionAddrV3::from_raw_bytes` on the points the decoder can reach in
/// `bytes`: an onion address is always read right after an address-type byte `4`, so every 35-byte window
/// following a `4` is a candidate; the valid ones are returned (everything else is invalid). Computed by
/// the REAL code (`wire::deserialize::<Address>`).
pub fn onion_set(bytes: &[u8]) -> Vec<Vec<u8>> {
    let mut out: Vec<Vec<u8>> = vec![];
    if bytes.len() < 36 {
        return out;
    }
    for i in 0..bytes.len() - 35 {
        // from_raw_bytes first checks that the last byte is the version 3
        if bytes[i] == 4 && bytes[i + 35] == 3 {
            let mut enc = bytes[i..i + 36].to_vec();
            enc.extend_from_slice(&[0, 0]);
            if wire::deserialize::<Address>(&enc).is_ok() {
                let raw = bytes[i + 1..i + 36].to_vec();
                if !out.contains(&raw) {
                    out.push(raw);
                }
            }
        }
    }
    out
}

pub fn onion_token(bytes: &[u8]) -> String {
    let set = onion_set(bytes);
    if set.is_empty() {
        "-".into()
    } else {
        set.iter().map(|r| verif_common::hex(r)).collect::<Vec<_>>().join(",")
    }
}

/// djb2, 32 bit (same as the Lean driver's `hash`).
pub fn hash(b: &[u8]) -> u32 {
    b.iter().fold(5381u32, |h, x| h.wrapping_mul(33).wrapping_add(*x as u32))
}

/// Short byte strings in hex, long ones as `#<len>.<hash>` (same as the Lean driver's `short`).
pub fn short(b: &[u8]) -> String {
    if b.len() <= 24 {
        verif_common::hex(b)
    } else {
        format!("#{}.{}", b.len(), hash(b))
    }
}
