//! C26 — terminal truncation. Runs the REAL `<str as Cell>::truncate` and `Line::truncate` of
//! radicle-term on Unicode strings, under a watchdog.
//!
//! A string travels as the list of its extended grapheme clusters *as measured by the real crates*:
//! token `-` (empty) or clusters joined by `,`; a cluster is `<width>` followed by one `:<w|n><hex>`
//! per scalar value (`w` = `char::is_whitespace`). `run_case` rebuilds the string from the bytes and
//! re-measures it with unicode-segmentation / unicode-display-width / `Cell::width`; a token that does
//! not match what the real crates say is a `bad-case`.
//!
//!   str <s> <width> <delim>        -> ok:<hex of result> | panic
//!   line <items> <width> <delim>   -> ok:<hex>/<hex>… (`~` = no label left) | panic | timeout
//!                                     (<items> = `~` or string tokens joined by `/`)
//!
//! Oracle: no panic, termination (watchdog), real `Cell::width` of the result <= width. The additivity
//! hypothesis of the theorems (width of result = sum of the widths of the clusters it was assembled
//! from) is checked on every case and counted (`additive` / `width-not-additive`).

use std::sync::atomic::{AtomicU32, Ordering};
use std::time::Duration;

use radicle_term::cell::Cell;
use radicle_term::Line;
use unicode_segmentation::UnicodeSegmentation as _;
use verif_common::*;

static TIMEOUTS: AtomicU32 = AtomicU32::new(0);

type Job = (Vec<String>, usize, String);
type Reply = Result<(usize, Vec<String>), String>;

/// Watchdog: `Line::truncate` runs on a worker thread; the main thread waits at most 5 s for the answer.
struct Worker {
    jobs: std::sync::mpsc::Sender<Job>,
    results: std::sync::mpsc::Receiver<Reply>,
}

impl Worker {
    fn spawn() -> Worker {
        let (jobs, job_rx) = std::sync::mpsc::channel::<Job>();
        let (res_tx, results) = std::sync::mpsc::channel::<Reply>();
        std::thread::spawn(move || {
            while let Ok((items, width, delim)) = job_rx.recv() {
                let r = catch(|| {
                    let mut line = Line::default();
                    for i in &items {
                        line = line.item(i.as_str());
                    }
                    Line::truncate(&mut line, width, &delim);
                    let w = Line::width(&line);
                    let out: Vec<String> = line.into_iter().map(|l| l.content().to_owned()).collect();
                    (w, out)
                });
                if res_tx.send(r).is_err() {
                    break;
                }
            }
        });
        Worker { jobs, results }
    }
}

thread_local! {
    static WORKER: std::cell::RefCell<Option<Worker>> = const { std::cell::RefCell::new(None) };
}

/// One measured cluster.
#[derive(Clone)]
struct G {
    bytes: Vec<u8>,
    width: usize,
}

/// Token form of a string, from the real crates. `None` if a cluster does not re-measure as itself
/// (`Cell::width(g) != unicode_display_width::width(g)`): the model has one width per cluster.
fn tokenize(s: &str) -> Option<String> {
    if s.is_empty() {
        return Some("-".into());
    }
    let mut out = vec![];
    for g in s.graphemes(true) {
        let w = unicode_display_width::width(g) as usize;
        if Cell::width(g) != w {
            return None;
        }
        let mut t = w.to_string();
        for c in g.chars() {
            let mut buf = [0u8; 4];
            t.push(':');
            t.push(if c.is_whitespace() { 'w' } else { 'n' });
            t.push_str(&hex(c.encode_utf8(&mut buf).as_bytes()));
        }
        out.push(t);
    }
    Some(out.join(","))
}

/// Parse a string token, rebuild the string, and check the token against the real measurements.
fn parse_str(tok: &str) -> Option<(String, Vec<G>)> {
    if tok == "-" {
        return Some((String::new(), vec![]));
    }
    let mut bytes = vec![];
    for g in tok.split(',') {
        let mut parts = g.split(':');
        let _w: usize = parts.next()?.parse().ok()?;
        let mut n = 0;
        for c in parts {
            let b = unhex(c.get(1..)?)?;
            if b.is_empty() {
                return None;
            }
            bytes.extend(b);
            n += 1;
        }
        if n == 0 {
            return None;
        }
    }
    let s = String::from_utf8(bytes).ok()?;
    if tokenize(&s)? != tok {
        return None;
    }
    let gs = s
        .graphemes(true)
        .map(|g| G { bytes: g.as_bytes().to_vec(), width: unicode_display_width::width(g) as usize })
        .collect();
    Some((s, gs))
}

/// Is the real width of `out` the sum of the widths of the clusters it was assembled from
/// (a prefix of `s`'s clusters, possibly followed by `delim`)? `None`: `out` has no such shape.
fn additive(out: &str, s: &str, gs: &[G], delim: &str, dw: usize) -> Option<bool> {
    let real = Cell::width(out);
    if out == s {
        return Some(real == gs.iter().map(|g| g.width).sum::<usize>());
    }
    let mut shaped = false;
    let mut prefix: Vec<u8> = vec![];
    let mut sum = 0;
    for j in 0..=gs.len() {
        if out.as_bytes() == prefix.as_slice() {
            shaped = true;
            if real == sum {
                return Some(true);
            }
        }
        if out.len() == prefix.len() + delim.len() && out.as_bytes().starts_with(&prefix) && out.ends_with(delim) {
            shaped = true;
            if real == sum + dw {
                return Some(true);
            }
        }
        if j < gs.len() {
            prefix.extend(&gs[j].bytes);
            sum += gs[j].width;
        }
    }
    if shaped { Some(false) } else { None }
}

fn run_case(input: &str) -> Outcome {
    let toks: Vec<&str> = input.split(' ').collect();
    let bad = || Outcome::new("bad-case").trivial();
    match toks.as_slice() {
        ["str", s, w, d] => {
            let (Some((s, gs)), Ok(width), Some((delim, dgs))) = (parse_str(s), w.parse::<usize>(), parse_str(d)) else {
                return bad();
            };
            let total: usize = gs.iter().map(|g| g.width).sum();
            let dw: usize = dgs.iter().map(|g| g.width).sum();
            if Cell::width(s.as_str()) != total || Cell::width(delim.as_str()) != dw {
                return bad();
            }
            match catch(|| s.as_str().truncate(width, &delim)) {
                Err(msg) => Outcome::new("panic")
                    .tag("str-panic")
                    .violation("truncate-panic", format!("{s:?}.truncate({width}, {delim:?}) panicked: {msg}")),
                Ok(out) => {
                    let mut o = Outcome::new(format!("ok:{}", hex(out.as_bytes())));
                    let real = Cell::width(out.as_str());
                    if real > width {
                        o = o.violation(
                            "truncate-over-width",
                            format!("{s:?}.truncate({width}, {delim:?}) = {out:?} has width {real}"),
                        );
                    }
                    o = o.tag(if width >= total {
                        "str-unchanged"
                    } else if width < dw {
                        "str-delim-does-not-fit"
                    } else if out.len() < s.len() && !delim.is_empty() && out.ends_with(delim.as_str()) {
                        "str-cut-with-delim"
                    } else {
                        "str-cut-no-delim"
                    });
                    if delim.is_empty() {
                        o = o.tag("empty-delim");
                    }
                    if width == total || width + 1 == total || width == dw || width + 1 == dw {
                        o = o.tag("str-width-at-boundary");
                    }
                    o = match additive(&out, &s, &gs, &delim, dw) {
                        Some(true) => o.tag("additive"),
                        Some(false) => o.tag("width-not-additive"),
                        None => o.tag("shape-unexpected"),
                    };
                    o.nontrivial = width < total;
                    o
                }
            }
        }
        ["line", l, w, d] => {
            let (Ok(width), Some((delim, _))) = (w.parse::<usize>(), parse_str(d)) else { return bad() };
            let mut items = vec![];
            if *l != "~" {
                for t in l.split('/') {
                    let Some((s, _)) = parse_str(t) else { return bad() };
                    // `Label::new` strips these; the model does not know about that.
                    if s.contains('\n') || s.contains('\r') {
                        return bad();
                    }
                    items.push(s);
                }
            }
            if TIMEOUTS.load(Ordering::SeqCst) >= 3 {
                // Three runaway threads are spinning already: do not start more.
                return Outcome::new("not-run").tag("line-not-run").trivial();
            }
            let total: usize = items.iter().map(|i| Cell::width(i.as_str())).sum();
            let reply = WORKER.with(|w| {
                let mut w = w.borrow_mut();
                if w.is_none() {
                    *w = Some(Worker::spawn());
                }
                let worker = w.as_ref().unwrap();
                worker.jobs.send((items.clone(), width, delim.clone())).expect("worker alive");
                let r = worker.results.recv_timeout(Duration::from_secs(5));
                if r.is_err() {
                    // The worker is stuck in `Line::truncate`: abandon it (it keeps spinning) and start afresh.
                    *w = None;
                }
                r
            });
            match reply {
                Err(_) => {
                    TIMEOUTS.fetch_add(1, Ordering::SeqCst);
                    Outcome::new("timeout").tag("line-timeout").violation(
                        "line-truncate-nontermination",
                        format!("Line{items:?}.truncate({width}, {delim:?}) did not finish within 5 s"),
                    )
                }
                Ok(Err(msg)) => Outcome::new("panic").tag("line-panic").violation(
                    "line-truncate-panic",
                    format!("Line{items:?}.truncate({width}, {delim:?}) panicked: {msg}"),
                ),
                Ok(Ok((w, out))) => {
                    let shown = if out.is_empty() {
                        "~".to_string()
                    } else {
                        out.iter().map(|i| hex(i.as_bytes())).collect::<Vec<_>>().join("/")
                    };
                    let mut o = Outcome::new(format!("ok:{shown}"));
                    if w > width {
                        o = o.violation(
                            "line-over-width",
                            format!("Line{items:?}.truncate({width}, {delim:?}) = {out:?} has width {w}"),
                        );
                    }
                    o = o.tag(if total <= width {
                        "line-unchanged"
                    } else if out.len() < items.len() {
                        "line-popped-and-cut"
                    } else {
                        "line-cut-last"
                    });
                    o.nontrivial = total > width;
                    o
                }
            }
        }
        _ => bad(),
    }
}

// ---------------------------------------------------------------------------------------------
// generators

const ALPHABET: &[&str] = &[
    "a", "b", "Z", " ", " ", "\t", "\u{3000}", "\u{a0}", "\u{2003}", "\u{85}", "\u{1680}", "界", "語", "🍍", "🪵",
    "\u{301}", "\u{308}", "\u{200b}", "\u{200d}", "\u{fe0f}", "é", "e\u{301}", "👨\u{200d}👩\u{200d}👧", "❤\u{fe0f}", "🇫", "🇷",
    "🇫🇷", "ᄒ", "ᅡ", "ᆫ", "한", "\u{0}", "\u{7f}", "\u{ad}", "ﷺ", "ｱ", "…", ".", "-",
];

const DELIMS: &[&str] = &["", "", "…", "…", "..", "界", " ", "\u{3000}", "\u{301}", "a\u{301}", "\u{200b}", "🍍", "->", "\u{308}…"];

fn random_char(rng: &mut Rng) -> char {
    loop {
        let c = match rng.below(6) {
            0 => rng.below(0x80),
            1 => rng.range(0x80, 0x7ff),
            2 => rng.range(0x300, 0x36f),     // combining marks
            3 => rng.range(0x2000, 0x206f),   // general punctuation: spaces, zero-width, bidi
            4 => rng.range(0x3000, 0x9fff),   // CJK
            _ => rng.range(0x1f000, 0x1faff), // pictographs
        };
        if let Some(c) = char::from_u32(c as u32) {
            return c;
        }
    }
}

fn random_string(rng: &mut Rng, max: u64, for_line: bool) -> String {
    let n = rng.below(max + 1);
    let mut s = String::new();
    let ws_tail = rng.chance(1, 4);
    for i in 0..n {
        if ws_tail && i + 2 >= n {
            let t: &str = *rng.pick(&[" ", "\u{3000}", "\t", "\u{a0}", "\u{2003}"]);
            s.push_str(t);
        } else if rng.chance(1, 8) {
            s.push(random_char(rng));
        } else {
            let t: &str = *rng.pick(ALPHABET);
            s.push_str(t);
        }
    }
    if for_line {
        s.retain(|c| c != '\n' && c != '\r');
    } else if rng.chance(1, 30) {
        let t: &str = *rng.pick(&["\n", "\r\n", "\r"]);
        s.push_str(t);
    }
    s
}

fn pick_width(rng: &mut Rng, total: usize, dw: usize) -> usize {
    match rng.below(10) {
        0 => 0,
        1 => total,
        2 => total.saturating_sub(1),
        3 => dw,
        4 => dw.saturating_sub(1),
        5 => dw + 1,
        6 => total + 1,
        _ => rng.below(total as u64 + 2) as usize,
    }
}

fn gen_str(rng: &mut Rng) -> Option<String> {
    let s = random_string(rng, 10, false);
    let delim = rng.pick(DELIMS).to_string();
    let w = pick_width(rng, Cell::width(s.as_str()), Cell::width(delim.as_str()));
    Some(format!("str {} {} {}", tokenize(&s)?, w, tokenize(&delim)?))
}

fn gen_line(rng: &mut Rng) -> Option<String> {
    let n = rng.below(5);
    let items: Vec<String> = (0..n).map(|_| random_string(rng, 5, true)).collect();
    let delim = rng.pick(DELIMS).to_string();
    let total: usize = items.iter().map(|i| Cell::width(i.as_str())).sum();
    let w = pick_width(rng, total, Cell::width(delim.as_str()));
    let toks: Option<Vec<String>> = items.iter().map(|i| tokenize(i)).collect();
    let toks = toks?;
    let l = if toks.is_empty() { "~".to_string() } else { toks.join("/") };
    Some(format!("line {} {} {}", l, w, tokenize(&delim)?))
}

/// All strings of length `0..=max` over a small alphabet.
fn strings(alphabet: &[char], max: usize) -> Vec<String> {
    let mut all = vec![String::new()];
    let mut last = vec![String::new()];
    for _ in 0..max {
        let mut next = Vec::new();
        for s in &last {
            for c in alphabet {
                let mut s = s.clone();
                s.push(*c);
                next.push(s);
            }
        }
        all.extend(next.iter().cloned());
        last = next;
    }
    all
}

fn main() {
    let mut ctx = Ctx::from_args("C26");
    if !ctx.run_fixed(run_case) {
        let mut rng = ctx.rng();
        // Exhaustive part: every string up to a length over {a, ' ', U+3000, 界, U+0301}, widths 0..6,
        // delimiters {"", "…", "..", "界"}; two-label lines of shorter strings.
        let alphabet = ['a', ' ', '\u{3000}', '界', '\u{301}'];
        let delims = ["", "…", "..", "界"];
        let mut skipped = 0u64;
        for s in strings(&alphabet, ctx.size(3, 5) as usize) {
            for width in 0..6 {
                for delim in delims {
                    match (tokenize(&s), tokenize(delim)) {
                        (Some(st), Some(dt)) => {
                            let input = format!("str {st} {width} {dt}");
                            let o = run_case(&input);
                            ctx.count("enumerated-str");
                            ctx.record(&input, o);
                        }
                        _ => skipped += 1,
                    }
                }
            }
        }
        let items = strings(&alphabet, ctx.size(2, 3) as usize);
        for a in items.iter().step_by(ctx.size(2, 3) as usize) {
            for b in items.iter() {
                for width in 0..6 {
                    for delim in ["", "…", "界"] {
                        match (tokenize(a), tokenize(b), tokenize(delim)) {
                            (Some(at), Some(bt), Some(dt)) => {
                                let input = format!("line {at}/{bt} {width} {dt}");
                                let o = run_case(&input);
                                ctx.count("enumerated-line");
                                ctx.record(&input, o);
                            }
                            _ => skipped += 1,
                        }
                    }
                }
            }
        }
        for _ in 0..ctx.size(12_000, 400_000) {
            let input = if rng.chance(3, 10) { gen_line(&mut rng) } else { gen_str(&mut rng) };
            match input {
                Some(input) => {
                    let o = run_case(&input);
                    ctx.record(&input, o);
                }
                None => skipped += 1,
            }
        }
        ctx.note("cases skipped because a cluster does not re-measure as itself", skipped);
    }
    ctx.finish(
        "exhaustive: every string of length <= 3 (thorough 5) over {a, space, U+3000, 界, U+0301} x widths 0..5 x \
         delimiters {\"\", …, .., 界}, and two-label lines of shorter strings; random: strings of 0-10 pieces from an \
         alphabet of ASCII, single/multi-byte whitespace, wide, zero-width, combining, ZWJ sequences, regional indicators, \
         conjoining jamo, controls and random scalar values (often with a whitespace tail), 14 delimiters incl. empty, \
         whitespace, wide and combining-initial ones, widths at 0, total, total-1, delimiter width +-1 and uniform; lines \
         of 0-4 such labels. Non-trivial = the text is wider than the requested width (something must be cut); distinct \
         by input text",
        false,
    );
}
