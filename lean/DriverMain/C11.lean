import HeartwoodModel.Driver.Loop
import HeartwoodModel.Driver.C11
def main : IO Unit := HeartwoodModel.Driver.driverMain "C11" HeartwoodModel.Driver.C11.run
