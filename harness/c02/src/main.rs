//! C02 harness (stub: not implemented yet).
fn main() {
    eprintln!("C02: harness not implemented");
    std::process::exit(3);
}
