//! Shared by the C12 and C13 harnesses: run the REAL `pktline::git_request` (hook
//! `radicle_node::worker::verif::git_request`) on a byte stream and print the canonical result.
//!
//! Case text: `h <stream hex> <chunk> <graph>`; `graph` = graph of the real `RepoId::from_canonical` on the
//! candidate points of the stream (`<point hex>:<oid hex | x>`, comma separated, `-` = none). The graph in
//! the text is re-validated against the real function on every run (a replay file cannot lie about it).

use std::io;
use std::str::FromStr as _;

use radicle::identity::RepoId;
use radicle_node::worker::verif::git_request;
use verif_common::*;

/// `io::Read` that hands out at most `chunk` bytes per call and then reports end-of-stream.
pub struct ChunkReader<'a> {
    pub data: &'a [u8],
    pub pos: usize,
    pub chunk: usize,
}

impl io::Read for ChunkReader<'_> {
    fn read(&mut self, buf: &mut [u8]) -> io::Result<usize> {
        let n = buf.len().min(self.chunk.max(1)).min(self.data.len() - self.pos);
        buf[..n].copy_from_slice(&self.data[self.pos..self.pos + n]);
        self.pos += n;
        Ok(n)
    }
}

const PREFIX: &[u8] = b"git-upload-pack /";

/// Points on which the parser could call `RepoId::from_canonical` for this stream (a superset is fine).
/// Deliberately lenient and independent of the parser under test: what follows `git-upload-pack /` up
/// to the first NUL or the end of the stream / of the declared packet, with and without `rad:`.
pub fn candidate_points(stream: &[u8]) -> Vec<Vec<u8>> {
    let mut out: Vec<Vec<u8>> = vec![];
    let start = 4 + PREFIX.len();
    if stream.len() < start {
        return out;
    }
    let mut ends = vec![stream.len()];
    if let Ok(h) = std::str::from_utf8(&stream[..4]) {
        if let Ok(l) = usize::from_str_radix(h, 16) {
            if l >= start && l <= stream.len() {
                ends.push(l);
            }
        }
    }
    for end in ends {
        let seg = &stream[start..end];
        let seg = match seg.iter().position(|b| *b == 0) {
            Some(i) => &seg[..i],
            None => seg,
        };
        for p in [seg, seg.strip_prefix(b"rad:").unwrap_or(seg)] {
            if !out.iter().any(|q| q == p) {
                out.push(p.to_vec());
            }
        }
    }
    out
}

/// Value of the real `RepoId::from_canonical` on a point: `Some(oid bytes)`, `None` = rejected
/// (or not UTF-8: then the parser cannot get there).
pub fn from_canonical(point: &[u8]) -> Result<Option<Vec<u8>>, String> {
    let Ok(s) = std::str::from_utf8(point) else { return Ok(None) };
    let s = s.to_owned();
    catch(move || RepoId::from_canonical(&s).ok().map(|r| r.as_bytes().to_vec()))
}

pub fn graph_text(stream: &[u8]) -> String {
    let pts = candidate_points(stream);
    if pts.is_empty() {
        return "-".into();
    }
    pts.iter()
        .map(|p| {
            let v = match from_canonical(p) {
                Ok(Some(oid)) => hex(&oid),
                _ => "x".into(),
            };
            format!("{}:{}", hex(p), v)
        })
        .collect::<Vec<_>>()
        .join(",")
}

/// `\0`, `\xNN`, `\\` escapes to bytes.
pub fn unescape(t: &str) -> Vec<u8> {
    let b = t.as_bytes();
    let mut out = vec![];
    let mut i = 0;
    while i < b.len() {
        if b[i] == b'\\' && i + 1 < b.len() {
            match b[i + 1] {
                b'0' => {
                    out.push(0);
                    i += 2;
                }
                b'x' if i + 3 < b.len() => {
                    out.push(u8::from_str_radix(std::str::from_utf8(&b[i + 2..i + 4]).unwrap_or("00"), 16).unwrap_or(0));
                    i += 4;
                }
                c => {
                    out.push(c);
                    i += 2;
                }
            }
        } else {
            out.push(b[i]);
            i += 1;
        }
    }
    out
}

pub fn header_case(stream: &[u8], chunk: usize) -> String {
    format!("h {} {} {}", hex(stream), chunk, graph_text(stream))
}

fn opt_hex(o: Option<&[u8]>) -> String {
    match o {
        None => "~".into(),
        Some(b) => hex(b),
    }
}

/// Run one `h` case (tokens after the `h`).
pub fn run_header(toks: &[&str]) -> Outcome {
    let bad = || Outcome::new("bad-case").trivial();
    if toks.len() != 3 {
        return bad();
    }
    let (Some(stream), Ok(chunk)) = (unhex(toks[0]), toks[1].parse::<usize>()) else { return bad() };
    // Re-validate the graph of the text against the real function.
    if toks[2] != "-" {
        for e in toks[2].split(',') {
            let Some((p, v)) = e.split_once(':') else { return bad() };
            let Some(p) = unhex(p) else { return bad() };
            let real = match from_canonical(&p) {
                Ok(Some(oid)) => hex(&oid),
                Ok(None) => "x".to_string(),
                Err(msg) => {
                    return Outcome::new("panic").violation("rid-decode-panic", format!("RepoId::from_canonical panicked: {msg}"))
                }
            };
            if real != v {
                return bad();
            }
        }
    }
    let mut reader = ChunkReader { data: &stream, pos: 0, chunk };
    let res = catch(|| git_request(&mut reader));
    match res {
        Err(msg) => Outcome::new("panic")
            .tag("h:panic")
            .violation("git-request-panic", format!("git_request panicked on a {}-byte stream: {msg}", stream.len())),
        Ok(Err(e)) => {
            if e.kind() == io::ErrorKind::UnexpectedEof {
                Outcome::new("err:eof").tag("h:err-eof")
            } else {
                Outcome::new("err:invalid").tag("h:err-invalid")
            }
        }
        Ok(Ok(req)) => {
            let (host, port) = match &req.host {
                None => ("~".to_string(), "~".to_string()),
                Some((h, p)) => (
                    hex(h.as_bytes()),
                    p.map(|p| p.to_string()).unwrap_or_else(|| "~".into()),
                ),
            };
            let extra = if req.extra.is_empty() {
                "-".to_string()
            } else {
                req.extra
                    .iter()
                    .map(|(k, v)| format!("{}={}", hex(k.as_bytes()), opt_hex(v.as_deref().map(|s| s.as_bytes()))))
                    .collect::<Vec<_>>()
                    .join(";")
            };
            let mut o = Outcome::new(format!(
                "ok rid={} path={} host={} port={} extra={}",
                hex(req.repo.as_bytes()),
                hex(req.path.as_bytes()),
                host,
                port,
                extra
            ))
            .tag("h:ok");
            if req.host.is_some() {
                o = o.tag("h:ok-host");
            }
            if req.host.as_ref().map(|h| h.1.is_some()).unwrap_or(false) {
                o = o.tag("h:ok-port");
            }
            if !req.extra.is_empty() {
                o = o.tag("h:ok-extra");
            }
            // Oracle (rid encoding): the id in the result is the id the path spells, whatever the encoding.
            let p = req.path.strip_prefix('/').unwrap_or(&req.path);
            match RepoId::from_str(p) {
                Ok(r) if r == req.repo => {}
                _ => o = o.violation("rid-mismatch", format!("request for path {:?} resolved to {}", req.path, req.repo)),
            }
            o
        }
    }
}

// ---- generators ---------------------------------------------------------------------------------

pub const BASES: &[char] = &[
    '\0', '0', '7', '9', 'f', 'F', 'b', 'B', 'c', 'C', 'v', 'V', 't', 'T', 'h', 'k', 'K', 'Z', 'z', 'm', 'M', 'u', 'U',
];

fn encode(base: char, bytes: &[u8]) -> String {
    multibase::encode(multibase::Base::from_code(base).expect("known base"), bytes)
}

pub fn pkt(payload: &[u8]) -> Vec<u8> {
    let mut v = format!("{:04x}", payload.len() + 4).into_bytes();
    v.extend_from_slice(payload);
    v
}

/// A repository id in one of the encodings `multibase` knows; when `dirty`, possibly a broken one.
pub fn gen_rid(rng: &mut Rng, dirty: bool) -> Vec<u8> {
    let n = if dirty && rng.chance(1, 5) { *rng.pick(&[19usize, 21, 0, 1, 32]) } else { 20 };
    let oid = if rng.chance(1, 6) { vec![0u8; n] } else { rng.bytes(n) };
    let base = match rng.below(10) {
        0..=3 => 'z',
        4 if dirty => *rng.pick(&['r', 'a', 'x', '1', 'é', ' ']), // unknown base code
        _ => *rng.pick(BASES),
    };
    let mut s = match base {
        'r' | 'a' | 'x' | '1' | 'é' | ' ' => format!("{base}{}", encode('z', &oid).split_off(1)),
        '\0' => {
            // identity base: the "encoding" is the raw bytes; use printable ones
            let raw: Vec<u8> = oid.iter().map(|b| b'a' + b % 26).collect();
            format!("\0{}", String::from_utf8(raw).unwrap())
        }
        b => encode(b, &oid),
    };
    if dirty {
        match rng.below(8) {
            0 => {
                // corrupt one character
                if !s.is_empty() {
                    let i = rng.below(s.len() as u64) as usize;
                    if s.is_char_boundary(i) && s.is_char_boundary(i + 1) {
                        s.replace_range(i..i + 1, *rng.pick(&["0", "l", "I", "O", "=", "!", "é"]));
                    }
                }
            }
            1 => s.push_str(*rng.pick(&["=", "==", " ", ".git", "\n"])),
            _ => {}
        }
    }
    let pre = match rng.below(8) {
        0..=3 => "rad:",
        4 if dirty => *rng.pick(&["rad:rad:", "RAD:", "rad", "rad: ", ":"]),
        _ => "",
    };
    format!("{pre}{s}").into_bytes()
}

pub fn gen_payload(rng: &mut Rng, dirty: bool) -> Vec<u8> {
    let mut p: Vec<u8> = vec![];
    p.extend_from_slice(if dirty && rng.chance(1, 6) {
        *rng.pick(&[b"git-receive-pack ".as_slice(), b"git-upload-pack".as_slice(), b"".as_slice(), b"Git-upload-pack ".as_slice()])
    } else {
        b"git-upload-pack ".as_slice()
    });
    if !(dirty && rng.chance(1, 15)) {
        p.push(b'/');
    }
    p.extend(gen_rid(rng, dirty));
    let n_parts = rng.below(4);
    if n_parts > 0 || rng.bool() {
        p.push(0);
    }
    if n_parts > 0 {
        // host part
        let host: String = match rng.below(10) {
            0 => "".into(),
            1 if dirty => "hots=seed".into(),
            2 => "host=".into(),
            3 => "host=séed.example".into(),
            _ => "host=seed.radicle.xyz".into(),
        };
        p.extend(host.as_bytes());
        if host.starts_with("host=") && rng.bool() {
            let port = if dirty && rng.bool() {
                *rng.pick(&[":65536", ":", ":x", ":-1", ":99999999999999999999999", ":8:0", ": 80", ":80 "])
            } else {
                *rng.pick(&[":0", ":80", ":8776", ":65535", ":+80", ":080", ":0000000080", ":+0"])
            };
            p.extend(port.as_bytes());
        }
        if n_parts > 1 || rng.bool() {
            p.push(0);
        }
    }
    for i in 1..n_parts {
        if i == 1 && rng.chance(3, 4) {
            p.push(0); // the empty part git puts before the extra parameters
        }
        let kv = *rng.pick(&["version=2", "version=1", "version", "=", "=v", "k=", "a=b=c", "object-format=sha1", "é=ü", "", "x"]);
        p.extend(kv.as_bytes());
        if i + 1 < n_parts || rng.chance(3, 4) {
            p.push(0);
        }
    }
    if dirty && rng.chance(1, 8) {
        // a non-UTF-8 byte somewhere
        let i = rng.below(p.len() as u64 + 1) as usize;
        p.insert(i.min(p.len()), *rng.pick(&[0x80u8, 0xff, 0xc0, 0xc1, 0xed, 0xf5]));
    }
    if dirty && rng.chance(1, 8) {
        // surrogate / overlong / out-of-range sequences
        let bad: &[u8] = *rng.pick(&[
            b"\xed\xa0\x80".as_slice(), b"\xe0\x80\x80".as_slice(), b"\xf0\x80\x80\x80".as_slice(), b"\xf4\x90\x80\x80".as_slice(),
            b"\xc2".as_slice(), b"\xe1\x80".as_slice(),
        ]);
        p.extend(bad);
    }
    if rng.chance(1, 10) {
        let mb = *rng.pick(&["\u{7ff}", "\u{800}", "\u{d7ff}", "\u{e000}", "\u{ffff}", "\u{10000}", "\u{10ffff}", "\u{80}"]);
        p.extend(mb.as_bytes());
    }
    p
}

/// One header case (text form). Half of the cases are built only from well-formed choices.
pub fn gen_header_case(rng: &mut Rng) -> String {
    let dirty = rng.bool();
    let payload = gen_payload(rng, dirty);
    let mut stream = pkt(&payload);
    match rng.below(if dirty { 10 } else { 24 }) {
        0 => stream[..4].make_ascii_uppercase(),
        1 => {
            let l = payload.len() + 4;
            if l < 0x1000 {
                stream[..4].copy_from_slice(format!("+{l:03x}").as_bytes());
            }
        }
        2 => {
            // more data follows the packet
            let k = rng.below(20) as usize;
            stream.extend(rng.bytes(k));
        }
        3 => {
            // pad the payload up to the maximum packet size or (dirty) one beyond it
            let target = if dirty { *rng.pick(&[1023usize, 1024, 1025, 1030]) } else { *rng.pick(&[1000usize, 1023, 1024]) };
            let mut pl = payload.clone();
            if pl.last() != Some(&0) {
                pl.push(0);
            }
            while pl.len() + 4 < target {
                pl.push(if rng.chance(1, 9) { 0 } else { b'a' + (rng.below(26) as u8) });
            }
            stream = format!("{:04x}", pl.len() + 4).into_bytes();
            stream.extend(pl);
        }
        4 if dirty => {
            // declared length off by a little
            let l = (payload.len() + 4) as i64 + *rng.pick(&[-5i64, -1, 1, 2, 7]);
            let l = l.clamp(0, 0xffff);
            stream[..4].copy_from_slice(format!("{l:04x}").as_bytes());
        }
        5 if dirty => {
            let h = *rng.pick(&["0000", "0003", "0004", "0400", "0401", "ffff", "-001", "00 4", "0x10", "é4", "\0\0\0\0", "+", "++10", "+00g", "+004", "+003"]);
            let mut b = h.as_bytes().to_vec();
            b.resize(4, b'0');
            stream[..4].copy_from_slice(&b[..4]);
        }
        6 if dirty => {
            // truncated stream
            let k = rng.below(stream.len() as u64) as usize;
            stream.truncate(k);
        }
        7 if dirty => {
            // mutate one byte
            let i = rng.below(stream.len() as u64) as usize;
            stream[i] = rng.next() as u8;
        }
        _ => {}
    }
    let chunk = *rng.pick(&[1usize, 2, 3, 4, 5, 7, 64, 1024, 4096]);
    header_case(&stream, chunk)
}
