//! C24 harness (stub: not implemented yet).
fn main() {
    eprintln!("C24: harness not implemented");
    std::process::exit(3);
}
