import HeartwoodModel.Lemmas.DagRemove
/-!
# Traversal orders of `sorted_by` / `prune_by` and the pruning loop

* `order_topo`: the list built by `dfs` lists every reachable key once and respects reachability.
* `pruneLoop_post`: the second loop of `prune_by`, instrumented with the trace of filter calls.
-/
set_option linter.unusedSimpArgs false
set_option linter.unusedVariables false
namespace HeartwoodModel.Dag
variable {V : Type}

/-! ### more about `Before` -/

theorem Before.of_cons_ne {l : List K} {a u v : K} (h : Before (a :: l) u v) (hne : u ≠ a) :
    Before l u v := by
  obtain ⟨l1, l2, heq, hv⟩ := h
  cases l1 with
  | nil => simp at heq; exact absurd heq.1.symm hne
  | cons b l1 =>
    simp at heq
    exact ⟨l1, l2, heq.2, hv⟩

theorem Before.drop_prefix {p l : List K} {u v : K} (h : Before (p ++ l) u v) (hu : u ∉ p) :
    Before l u v := by
  induction p with
  | nil => simpa using h
  | cons a p ih =>
    have hne : u ≠ a := fun e => hu (by simp [e])
    exact ih (Before.of_cons_ne h hne) (fun hm => hu (List.mem_cons_of_mem _ hm))

theorem Before.trans {l : List K} {u v w : K} (hn : l.Nodup) (h1 : Before l u v) (h2 : Before l v w) :
    Before l u w := by
  obtain ⟨l1, l2, rfl, hv⟩ := h1
  refine ⟨l1, l2, rfl, ?_⟩
  have hnot : v ∉ l1 ++ [u] := by
    intro hm
    rcases List.mem_append.mp hm with hm | hm
    · have := (List.nodup_append.mp hn).2.2 v hm v (List.mem_cons_of_mem _ hv)
      exact this rfl
    · simp at hm
      subst hm
      exact (List.nodup_cons.mp (List.nodup_append.mp hn).2.1).1 hv
  have h3 : Before ((l1 ++ [u]) ++ l2) v w := by simpa using h2
  exact (Before.drop_prefix h3 hnot).mem_right

theorem Before.of_sublist {l' l : List K} (hs : List.Sublist l' l) (hn : l.Nodup) {u v : K}
    (h : Before l u v) (hu : u ∈ l') (hv : v ∈ l') : Before l' u v := by
  induction hs with
  | slnil => simp at hu
  | @cons l1 l2 a hs ih =>
    have hn' := List.nodup_cons.mp hn
    have hne : u ≠ a := fun e => hn'.1 (e ▸ hs.subset hu)
    exact ih hn'.2 (Before.of_cons_ne h hne) hu hv
  | @cons_cons l1 l2 a hs ih =>
    have hn' := List.nodup_cons.mp hn
    by_cases hua : u = a
    · subst hua
      have hne := Before.ne_of_nodup hn h
      rcases List.mem_cons.mp hv with e | hv'
      · exact absurd e.symm hne
      · exact Before.head hv'
    · have h' := Before.of_cons_ne h hua
      have hu' : u ∈ l1 := by
        rcases List.mem_cons.mp hu with e | e
        · exact absurd e hua
        · exact e
      have hv' : v ∈ l1 := by
        rcases List.mem_cons.mp hv with e | e
        · subst e; exact absurd h'.mem_right hn'.1
        · exact e
      exact (ih hn'.2 h' hu' hv').cons a

/-- `l` lists each of its keys once and respects reachability along `next`. -/
structure Topo (next : K → List K) (l : List K) : Prop where
  nodup : l.Nodup
  order : ∀ u v, u ∈ l → v ∈ l → Reach next u v → Before l u v

theorem Topo.tail {next : K → List K} {a : K} {l : List K} (h : Topo next (a :: l)) : Topo next l := by
  have hn := List.nodup_cons.mp h.nodup
  refine ⟨hn.2, ?_⟩
  intro u v hu hv hr
  have := h.order u v (List.mem_cons_of_mem _ hu) (List.mem_cons_of_mem _ hv) hr
  exact Before.of_cons_ne this (fun e => hn.1 (e ▸ hu))

theorem Topo.head_not_reached {next : K → List K} {a : K} {l : List K} (h : Topo next (a :: l))
    {b : K} (hb : b ∈ l) : ¬ Reach next b a := by
  intro hr
  have hn := List.nodup_cons.mp h.nodup
  have := h.order b a (List.mem_cons_of_mem _ hb) (by simp) hr
  have h2 := Before.of_cons_ne this (fun e => hn.1 (e ▸ hb))
  exact hn.1 h2.mem_right

/-- The order computed by a complete `dfs` run from scratch. -/
theorem order_topo {next : K → List K} (hac : Acyclic next) {fuel : Nat} {ks vis ord : List K}
    (h : dfs next fuel ks ([], []) = some (vis, ord)) :
    Topo next ord ∧ (∀ x, x ∈ ord ↔ ∃ k ∈ ks, x = k ∨ Reach next k x) := by
  have hp := dfs_post hac fuel ks [] [] vis ord ⟨by simp, by simp, by simp⟩ (by simp) h
  have hs := dfs_sound fuel ks [] [] vis ord h
  have hclosed : ∀ u v, u ∈ ord → Reach next u v → Before ord u v := by
    intro u v hu hr
    induction hr with
    | step e => exact hp.inv.closed _ hu _ e
    | trans e _ ih =>
      have h1 := hp.inv.closed _ hu _ e
      exact Before.trans hp.inv.nodup h1 (ih h1.mem_right)
  refine ⟨⟨hp.inv.nodup, fun u v hu _ hr => hclosed u v hu hr⟩, ?_⟩
  intro x
  constructor
  · intro hx
    rcases hs.2.1 x hx with h1 | h1
    · simp at h1
    · exact h1
  · rintro ⟨k, hk, rfl | hr⟩
    · exact hp.done _ hk
    · exact (hclosed k x (hp.done _ hk) hr).mem_right

/-! ### successor functions of `visit` and `visit_by` -/

theorem mem_visitNext {g : Dag V} {u v : K} : v ∈ g.visitNext u ↔ v ∈ g.dependentsOf u := by
  simp [Dag.visitNext]

theorem mem_visitByNext {g : Dag V} {le : K × V → K × V → Bool} {u v : K} :
    v ∈ g.visitByNext le u ↔ v ∈ g.dependentsOf u ∧ g.contains v = true := by
  simp only [Dag.visitByNext, List.mem_map, List.mem_reverse, mem_isort, List.mem_filterMap,
    Option.map_eq_some_iff, Dag.contains_iff]
  constructor
  · rintro ⟨p, ⟨d, hd, n, hn, rfl⟩, rfl⟩
    exact ⟨hd, n, hn⟩
  · rintro ⟨hd, n, hn⟩
    exact ⟨(v, n.value), ⟨v, hd, n, hn, rfl⟩, rfl⟩

theorem reach_visitNext_iff {g : Dag V} {u v : K} : Reach g.visitNext u v ↔ g.Desc u v :=
  ⟨Reach.mono (fun _ _ h => mem_visitNext.mp h), Reach.mono (fun _ _ h => mem_visitNext.mpr h)⟩

theorem reach_visitByNext_iff {g : Dag V} (hwf : g.Wf) {le : K × V → K × V → Bool} {u v : K} :
    Reach (g.visitByNext le) u v ↔ g.Desc u v := by
  constructor
  · exact Reach.mono (fun _ _ h => (mem_visitByNext.mp h).1)
  · apply Reach.mono
    intro a b h
    exact mem_visitByNext.mpr ⟨h, Dag.contains_of_mem_depsOf ((hwf.sym a b).mp h)⟩

theorem acyclic_visitNext {g : Dag V} (hac : Acyclic g.dependentsOf) : Acyclic g.visitNext :=
  fun u h => hac u (reach_visitNext_iff.mp h)

theorem acyclic_visitByNext {g : Dag V} (hac : Acyclic g.dependentsOf) (le : K × V → K × V → Bool) :
    Acyclic (g.visitByNext le) :=
  fun u h => hac u (Reach.mono (fun _ _ h => (mem_visitByNext.mp h).1) h)

/-- In a well-formed graph everything reachable from a node is a node. -/
theorem Dag.Wf.desc_contains {g : Dag V} (hwf : g.Wf) {u v : K} (h : g.Desc u v) :
    g.contains u = true ∧ g.contains v = true := by
  induction h with
  | step e => exact ⟨Dag.contains_of_mem_dependentsOf e, Dag.contains_of_mem_depsOf ((hwf.sym _ _).mp e)⟩
  | trans e _ ih => exact ⟨Dag.contains_of_mem_dependentsOf e, ih.2⟩

/-! ### the pruning loop, instrumented -/

/-- Instrument a `prune_by` filter with the trace of its calls `(key, continue?)`. -/
def traced {S : Type} (filter : S → K → Node V → List (K × Node V) → S × Bool)
    (st : S × List (K × Bool)) (k : K) (n : Node V) (sibs : List (K × Node V)) :
    (S × List (K × Bool)) × Bool :=
  let r := filter st.1 k n sibs
  ((r.1, st.2 ++ [(k, r.2)]), r.2)

/-- keys on which the filter was called -/
def calledOf (tr : List (K × Bool)) : List K := tr.map (·.1)
/-- keys on which the filter returned `Break` -/
def brokenOf (tr : List (K × Bool)) : List K := (tr.filter fun p => !p.2).map (·.1)

@[simp] theorem calledOf_nil : calledOf [] = [] := rfl
@[simp] theorem brokenOf_nil : brokenOf [] = [] := rfl
@[simp] theorem calledOf_cons (p : K × Bool) (t : List (K × Bool)) : calledOf (p :: t) = p.1 :: calledOf t := rfl
theorem brokenOf_cons (p : K × Bool) (t : List (K × Bool)) :
    brokenOf (p :: t) = if p.2 then brokenOf t else p.1 :: brokenOf t := by
  cases p with | mk k b => cases b <;> simp [brokenOf, List.filter_cons]

theorem brokenOf_sub_calledOf {tr : List (K × Bool)} {x : K} (h : x ∈ brokenOf tr) : x ∈ calledOf tr := by
  simp only [brokenOf, calledOf, List.mem_map, List.mem_filter] at h ⊢
  obtain ⟨p, ⟨hp, _⟩, rfl⟩ := h
  exact ⟨p, hp, rfl⟩

structure PrunePost (g0 : Dag V) (R ks : List K) (g' : Dag V) (ext : List (K × Bool)) (R' : List K) :
    Prop where
  rel : Rel g0 R' g'
  closed : ∀ x, x ∈ R' → ∀ y ∈ g0.dependentsOf x, y ∈ R'
  mono : ∀ x, x ∈ R → x ∈ R'
  sub : List.Sublist (calledOf ext) ks
  sound : ∀ x, x ∈ R' → x ∈ R ∨ ∃ b ∈ brokenOf ext, x = b ∨ g0.Desc b x
  broken : ∀ b, b ∈ brokenOf ext → b ∈ R'
  called : ∀ x, x ∈ calledOf ext ↔
    x ∈ ks ∧ g0.contains x = true ∧ x ∉ R ∧ ¬ ∃ b ∈ brokenOf ext, g0.Desc b x

theorem pruneLoop_post {S : Type} {g0 : Dag V} (hwf : g0.Wf) (hac : Acyclic g0.dependentsOf)
    (fuel : Nat) (filter : S → K → Node V → List (K × Node V) → S × Bool) :
    ∀ (ks : List K) (g : Dag V) (s : S) (tr : List (K × Bool)) (R : List K) (g' : Dag V) (s' : S)
      (tr' : List (K × Bool)),
      Topo g0.dependentsOf ks → Rel g0 R g → (∀ x, x ∈ R → ∀ y ∈ g0.dependentsOf x, y ∈ R) →
      Dag.pruneLoop fuel (traced filter) g (s, tr) ks = some (g', (s', tr')) →
      ∃ ext R', tr' = tr ++ ext ∧ PrunePost g0 R ks g' ext R' := by
  intro ks
  induction ks with
  | nil =>
    intro g s tr R g' s' tr' _ hrel hcl h
    simp [Dag.pruneLoop] at h
    obtain ⟨rfl, rfl, rfl⟩ := h
    exact ⟨[], R, by simp, hrel, hcl, fun _ hx => hx, by simp, fun _ hx => .inl hx, by simp, by simp⟩
  | cons k ks ih =>
    intro g s tr R g' s' tr' htopo hrel hcl h
    have hn := List.nodup_cons.mp htopo.nodup
    rw [Dag.pruneLoop] at h
    cases hk : g.get k with
    | none =>
      simp only [hk] at h
      obtain ⟨ext, R', he, hp⟩ := ih _ _ _ _ _ _ _ htopo.tail hrel hcl h
      refine ⟨ext, R', he, hp.rel, hp.closed, hp.mono, hp.sub.cons k, hp.sound, hp.broken, ?_⟩
      intro x
      rw [hp.called x]
      constructor
      · rintro ⟨h1, h2⟩
        exact ⟨List.mem_cons_of_mem _ h1, h2⟩
      · rintro ⟨h1, h2, h3, h4⟩
        rcases List.mem_cons.mp h1 with rfl | h1
        · rcases hrel.get_none hk with h5 | h5
          · exact absurd h5 h3
          · rw [Dag.contains_iff] at h2
            obtain ⟨n, hn'⟩ := h2
            rw [hn'] at h5; simp at h5
        · exact ⟨h1, h2, h3, h4⟩
    | some n =>
      simp only [hk] at h
      obtain ⟨hkR, n0, hn0, hnn⟩ := hrel.get_some hk
      have hkc : g0.contains k = true := Dag.contains_iff.mpr ⟨n0, hn0⟩
      cases hsib : g.siblingsOf fuel k n with
      | none => simp [hsib] at h
      | some sibs =>
        simp only [hsib] at h
        by_cases hc : (filter s k n sibs).2 = true
        · -- Continue
          simp only [traced, hc, if_true] at h
          obtain ⟨ext, R', he, hp⟩ := ih _ _ _ _ _ _ _ htopo.tail hrel hcl h
          refine ⟨(k, true) :: ext, R', by simp [he], hp.rel, hp.closed, hp.mono, ?_, ?_, ?_, ?_⟩
          · simpa using hp.sub.cons_cons k
          · simpa [brokenOf_cons] using hp.sound
          · simpa [brokenOf_cons] using hp.broken
          · intro x
            simp only [calledOf_cons, List.mem_cons, brokenOf_cons, if_true]
            constructor
            · rintro (rfl | hx)
              · refine ⟨.inl rfl, hkc, hkR, ?_⟩
                rintro ⟨b, hb, hd⟩
                have hbk : b ∈ ks := hp.sub.subset (brokenOf_sub_calledOf hb)
                exact htopo.head_not_reached hbk hd
              · obtain ⟨h1, h2⟩ := (hp.called x).mp hx
                exact ⟨.inr h1, h2⟩
            · rintro ⟨h1, h2, h3, h4⟩
              rcases h1 with rfl | h1
              · exact .inl rfl
              · exact .inr ((hp.called x).mpr ⟨h1, h2, h3, h4⟩)
        · -- Break
          have hc' : (filter s k n sibs).2 = false := by simpa using hc
          simp only [traced, hc', Bool.false_eq_true, if_false] at h
          cases hrm : g.remove fuel k with
          | none => simp [hrm] at h
          | some g1 =>
            simp only [hrm] at h
            obtain ⟨R1, hp1⟩ := removeL_post hwf fuel g R [k] g1 hrel hrm
            have hcl1 : ∀ x, x ∈ R1 → ∀ y ∈ g0.dependentsOf x, y ∈ R1 := by
              intro x hx
              rcases hp1.closed x hx with h1 | h1
              · exact fun y hy => hp1.mono y (hcl x h1 y hy)
              · exact h1
            have hkR1 : k ∈ R1 := hp1.done k (by simp) hkc
            obtain ⟨ext, R', he, hp⟩ := ih _ _ _ _ _ _ _ htopo.tail hp1.rel hcl1 h
            refine ⟨(k, false) :: ext, R', by simp [he], hp.rel, hp.closed,
              fun x hx => hp.mono x (hp1.mono x hx), ?_, ?_, ?_, ?_⟩
            · simpa using hp.sub.cons_cons k
            · intro x hx
              simp only [brokenOf_cons, Bool.false_eq_true, if_false, List.mem_cons]
              rcases hp.sound x hx with h1 | ⟨b, hb, h1⟩
              · rcases hp1.sound x h1 with h2 | ⟨_, d, hd, h2⟩
                · exact .inl h2
                · simp at hd; subst hd
                  exact .inr ⟨d, .inl rfl, h2⟩
              · exact .inr ⟨b, .inr hb, h1⟩
            · intro b hb
              simp only [brokenOf_cons, Bool.false_eq_true, if_false, List.mem_cons] at hb
              rcases hb with rfl | hb
              · exact hp.mono _ hkR1
              · exact hp.broken b hb
            · intro x
              simp only [calledOf_cons, List.mem_cons, brokenOf_cons, Bool.false_eq_true, if_false]
              constructor
              · rintro (rfl | hx)
                · refine ⟨.inl rfl, hkc, hkR, ?_⟩
                  rintro ⟨b, hb, hd⟩
                  rcases hb with rfl | hb
                  · exact hac _ hd
                  · have hbk : b ∈ ks := hp.sub.subset (brokenOf_sub_calledOf hb)
                    exact htopo.head_not_reached hbk hd
                · obtain ⟨h1, h2, h3, h4⟩ := (hp.called x).mp hx
                  refine ⟨.inr h1, h2, fun hxR => h3 (hp1.mono x hxR), ?_⟩
                  rintro ⟨b, hb, hd⟩
                  rcases hb with rfl | hb
                  · exact h3 (closed_desc hcl1 hkR1 hd)
                  · exact h4 ⟨b, hb, hd⟩
              · rintro ⟨h1, h2, h3, h4⟩
                rcases h1 with rfl | h1
                · exact .inl rfl
                · refine .inr ((hp.called x).mpr ⟨h1, h2, ?_, fun ⟨b, hb, hd⟩ => h4 ⟨b, .inr hb, hd⟩⟩)
                  intro hxR1
                  rcases hp1.sound x hxR1 with h5 | ⟨_, d, hd, h5⟩
                  · exact h3 h5
                  · simp at hd; subst hd
                    rcases h5 with rfl | h5
                    · exact hn.1 h1
                    · exact h4 ⟨d, .inl rfl, h5⟩

end HeartwoodModel.Dag
