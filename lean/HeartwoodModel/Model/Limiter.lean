/-!
# Model of `radicle-node/src/service/limiter.rs` (C17)

Exact arithmetic. The refill rate held by the code is an `f64`; every finite `f64` is a dyadic
rational `num / den`. Tokens are counted in units of `1/den`, so

* `tokens as f64`  ↦ `tokens / den`
* `elapsed.as_secs() as f64 * rate` ↦ `secs * num` units
* `tokens >= 1.0` ↦ `den ≤ tokens`

`LocalTime` is milliseconds (`Nat`); `duration_since` panics when the clock went backwards:
that is the `none` outcome.
-/
namespace HeartwoodModel.Limiter

structure Bucket where
  num : Nat
  den : Nat
  cap : Nat
  /-- tokens remaining, in units of `1/den` -/
  tokens : Nat
  /-- time of last refill, milliseconds -/
  refilledAt : Nat
  deriving Repr, DecidableEq

/-- `TokenBucket::new` -/
def Bucket.new (cap num den now : Nat) : Bucket :=
  { num, den, cap, tokens := cap * den, refilledAt := now }

/-- `TokenBucket::take` (with `refill` inlined). `none` = panic in `duration_since`. Returns whether
a token was taken. -/
def Bucket.take (b : Bucket) (now : Nat) : Option (Bucket × Bool) :=
  if now < b.refilledAt then none
  else
    let secs := (now - b.refilledAt) / 1000
    let t := min (b.tokens + secs * b.num) (b.cap * b.den)
    if b.den ≤ t then some ({ b with tokens := t - b.den, refilledAt := now }, true)
    else some ({ b with tokens := t, refilledAt := now }, false)

/-- A timeline of `take`s on one bucket. -/
def Bucket.run (b : Bucket) : List Nat → Option (Bucket × List Bool)
  | [] => some (b, [])
  | t :: ts =>
    match b.take t with
    | none => none
    | some (b', a) =>
      match b'.run ts with
      | none => none
      | some (b'', as) => some (b'', a :: as)

/-- Number of admitted requests. -/
def admitted (outs : List Bool) : Nat := outs.countP (· = true)

/-! ## `RateLimiter` -/

/-- Hosts and node ids are abstract naturals. Buckets: association list (the `HashMap`). -/
structure Limiter where
  buckets : List (Nat × Bucket)
  bypass : List Nat

def lookup (h : Nat) : List (Nat × Bucket) → Option Bucket
  | [] => none
  | (k, b) :: rest => if k = h then some b else lookup h rest

def insert (h : Nat) (b : Bucket) : List (Nat × Bucket) → List (Nat × Bucket)
  | [] => [(h, b)]
  | (k, b') :: rest => if k = h then (k, b) :: rest else (k, b') :: insert h b rest

/-- One call of `RateLimiter::limit`. -/
structure Req where
  host : Nat
  /-- `HostName::Ip(_)` -/
  isIp : Bool
  /-- `address::is_routable(ip)` as computed by the real code (opaque parameter) -/
  routable : Bool
  nid : Option Nat
  cap : Nat
  num : Nat
  den : Nat
  now : Nat

/-- `self.bypass.contains(nid)` for an optional node id. -/
def Limiter.bypassed (l : Limiter) (nid : Option Nat) : Bool :=
  match nid with
  | some n => l.bypass.contains n
  | none => false

/-- A request is *metered* when it reaches the token bucket. -/
def Limiter.metered (l : Limiter) (r : Req) : Bool :=
  !l.bypassed r.nid && !(r.isIp && !r.routable)

/-- The bucket `entry(addr).or_insert_with(..)` yields for request `r`. -/
def Limiter.cur (l : Limiter) (r : Req) : Bucket :=
  (lookup r.host l.buckets).getD (Bucket.new r.cap r.num r.den r.now)

/-- `RateLimiter::limit`: `some (l', true)` = the request is rate-limited (refused). `none` = panic. -/
def Limiter.limit (l : Limiter) (r : Req) : Option (Limiter × Bool) :=
  if l.bypassed r.nid then some (l, false)
  else if r.isIp && !r.routable then some (l, false)
  else
    match (l.cur r).take r.now with
    | none => none
    | some (b', took) => some ({ l with buckets := insert r.host b' l.buckets }, !took)

def Limiter.run (l : Limiter) : List Req → Option (Limiter × List Bool)
  | [] => some (l, [])
  | r :: rs =>
    match l.limit r with
    | none => none
    | some (l', a) =>
      match l'.run rs with
      | none => none
      | some (l'', as) => some (l'', a :: as)

end HeartwoodModel.Limiter
