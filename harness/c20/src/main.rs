//! C20 — signed refs: canonical text round-trip, and what `SignedRefs::load_at` accepts.
//!
//! Cases (the same tokens the Lean driver reads, see `lean/HeartwoodModel/Driver/C20.lean`):
//!
//! * `rt <pairs>` — `pairs` = comma list `<namehex>:<oid40>` or `-`. Every name that is a valid
//!   `RefString` is inserted into a `BTreeMap` → `Refs`; `Refs::canonical` → `Refs::from_canonical`.
//!   Output `v=<validity bits|-> c=<blob> p=<refs|err>`.
//! * `parse <blobhex>` — `Refs::from_canonical` on an arbitrary blob. Output `ok <refs>` | `err`.
//! * `load <key32hex> <sighex|none> <blobhex|none> <sg> <local40> <ig>` — a commit with the given `refs`
//!   and `signature` blobs is written into a real storage repository and loaded with the real
//!   `SignedRefsAt::load_at(commit, key, &repo)`. `sg` (graph of the Ed25519 predicate for this key and
//!   signature, `<msghex>:<0|1>,…`) and `ig` (graph of `identity_doc_at`, `<oid40>:<rid40|none>,…`) are the
//!   opaque functions' values on the points the model needs; they are *checked* here against the real
//!   functions (a wrong graph is a `bad-case`). Output `ok <refs>` | `err`.
//!
//! `<refs>` = `n;name:oid,…` up to 6 entries, `n;#<len>:<fnv1a-64 of canonical text>` beyond; `<blob>` = hex
//! up to 200 bytes, `#<len>:<fnv>` beyond.
//!
//! The repository is rebuilt deterministically at start-up (fixed keys, fixed commit times), so the
//! identity commits have the same object ids in every run and replay files stay valid.

use std::collections::BTreeMap;

use radicle::crypto::test::signer::MockSigner;
use radicle::crypto::{PublicKey, Signature};
use radicle::git::raw as git2;
use radicle::git::{Oid, RefString};
use radicle::identity::{Did, Doc, Project, RepoId, Visibility};
use radicle::node::Alias;
use radicle::storage::git::{Repository, UserInfo};
use radicle::storage::refs::{self, Refs, SignedRefsAt, IDENTITY_ROOT};
use radicle::storage::ReadRepository;
use verif_common::*;

// ---------------------------------------------------------------------------------------------
// world

struct World {
    _tmp: tempfile::TempDir,
    repo: Repository,
    local: RepoId,
    /// own identity root, other repo's identity root, commit without identity, commit with a garbage
    /// identity blob, an object id that is not in the repository
    roots: [Oid; 5],
    signers: Vec<MockSigner>,
}

fn signer(k: u8) -> MockSigner {
    let mut seed = [0xc2u8; 32];
    seed[0] = k;
    MockSigner::from_seed(seed)
}

fn pk(s: &MockSigner) -> PublicKey {
    use radicle::crypto::Signer as _;
    *s.public_key()
}

fn sign(s: &MockSigner, msg: &[u8]) -> Vec<u8> {
    let sig: Signature = radicle::crypto::signature::Signer::<Signature>::try_sign(s, msg).expect("sign");
    let bytes: &[u8] = sig.as_ref();
    bytes.to_vec()
}

fn fixed_sig() -> git2::Signature<'static> {
    git2::Signature::new("verif", "verif@example.com", &git2::Time::new(1_700_000_000, 0)).expect("sig")
}

fn commit_tree(raw: &git2::Repository, entries: &[(&str, &[u8])], nested: Option<(&str, &str, &[u8])>) -> Oid {
    let mut tb = raw.treebuilder(None).expect("treebuilder");
    for (name, content) in entries {
        let b = raw.blob(content).expect("blob");
        tb.insert(name, b, 0o100_644).expect("insert");
    }
    if let Some((dir, name, content)) = nested {
        let mut sub = raw.treebuilder(None).expect("treebuilder");
        let b = raw.blob(content).expect("blob");
        sub.insert(name, b, 0o100_644).expect("insert");
        let sub = sub.write().expect("write");
        tb.insert(dir, sub, 0o040_000).expect("insert");
    }
    let tree = raw.find_tree(tb.write().expect("write")).expect("tree");
    let sig = fixed_sig();
    raw.commit(None, &sig, &sig, "verif\n", &tree, &[]).expect("commit").into()
}

fn world() -> World {
    let tmp = tempfile::tempdir().expect("tempdir");
    let signers: Vec<MockSigner> = (0..4).map(signer).collect();
    let doc = |name: &str| {
        Doc::initial(
            Project::new(name.try_into().expect("name"), "verif".to_string(), RefString::try_from("master").expect("branch")).expect("project"),
            Did::from(pk(&signers[0])),
            Visibility::Public,
        )
    };
    let (oid1, bytes1) = doc("paris").encode().expect("encode");
    let (_oid2, bytes2) = doc("london").encode().expect("encode");
    let local = RepoId::from(oid1);
    let info = UserInfo { alias: Alias::new("verif"), key: pk(&signers[0]) };
    let repo = Repository::create(tmp.path().join(local.canonical()), local, &info).expect("create repo");
    let raw = &repo.backend;
    let own = commit_tree(raw, &[], Some(("embeds", "radicle.json", &bytes1)));
    let other = commit_tree(raw, &[], Some(("embeds", "radicle.json", &bytes2)));
    let plain = commit_tree(raw, &[("README", b"no identity here")], None);
    let garbage = commit_tree(raw, &[], Some(("embeds", "radicle.json", b"{ not an identity document")));
    let missing: Oid = "1234567890abcdef1234567890abcdef12345678".parse().expect("oid");
    World { _tmp: tmp, repo, local, roots: [own, other, plain, garbage, missing], signers }
}

impl World {
    fn identity_at(&self, oid: Oid) -> Option<RepoId> {
        self.repo.identity_doc_at(oid).ok().map(|d| RepoId::from(d.blob))
    }
}

// ---------------------------------------------------------------------------------------------
// canonical printing (mirrors the driver)

fn fnv(bs: &[u8]) -> u64 {
    let mut h: u64 = 0xcbf29ce484222325;
    for b in bs {
        h = (h ^ (*b as u64)).wrapping_mul(0x100000001b3);
    }
    h
}

fn show_blob(bs: &[u8]) -> String {
    if bs.len() <= 200 { hex(bs) } else { format!("#{}:{}", bs.len(), fnv(bs)) }
}

fn show_refs(r: &Refs) -> String {
    if r.len() <= 6 {
        let items: Vec<String> = r.iter().map(|(n, o)| format!("{}:{}", hex_in(n.as_bytes()), o)).collect();
        format!("{};{}", r.len(), items.join(","))
    } else {
        let c = r.canonical();
        format!("{};#{}:{}", r.len(), c.len(), fnv(&c))
    }
}

/// hex inside lists: the empty byte string is the empty string
fn hex_in(bs: &[u8]) -> String {
    if bs.is_empty() { String::new() } else { hex(bs) }
}

fn unhex_in(s: &str) -> Option<Vec<u8>> {
    if s.is_empty() { Some(vec![]) } else if s == "-" { None } else { unhex(s) }
}

fn oid40(s: &str) -> Option<Oid> {
    if s.len() != 40 || !s.bytes().all(|b| b.is_ascii_hexdigit()) {
        return None;
    }
    s.parse().ok()
}

fn ref_string(name: &[u8]) -> Option<RefString> {
    std::str::from_utf8(name).ok().and_then(|s| RefString::try_from(s).ok())
}

// ---------------------------------------------------------------------------------------------
// running

fn canon_err_class(e: &refs::canonical::Error) -> &'static str {
    use refs::canonical::Error as E;
    match e {
        E::InvalidRef(_) => "ref",
        E::InvalidFormat => "format",
        E::Io(_) => "utf8",
        E::Git(_) => "oid",
    }
}

fn run_rt(pairs: &str) -> Outcome {
    let mut ps: Vec<(Vec<u8>, Oid)> = vec![];
    if pairs != "-" {
        for p in pairs.split(',') {
            let Some((n, o)) = p.split_once(':') else { return Outcome::new("bad-case").trivial() };
            let (Some(n), Some(o)) = (unhex_in(n), oid40(o)) else { return Outcome::new("bad-case").trivial() };
            ps.push((n, o));
        }
    }
    let mut map: BTreeMap<RefString, Oid> = BTreeMap::new();
    let mut bits = String::new();
    let (mut any_invalid, mut any_zero, mut dup) = (false, false, false);
    for (n, o) in &ps {
        match ref_string(n) {
            Some(r) => {
                bits.push('1');
                any_zero |= o.is_zero();
                dup |= map.insert(r, *o).is_some();
            }
            None => {
                bits.push('0');
                any_invalid = true;
            }
        }
    }
    if bits.is_empty() {
        bits.push('-');
    }
    let refs = Refs::from(map);
    let res = catch(|| {
        let c = refs.canonical();
        let p = Refs::from_canonical(&c);
        (c, p)
    });
    let mut o = match res {
        Err(m) => Outcome::new("panic").violation("panic", format!("canonical/from_canonical panicked: {m}")),
        Ok((c, p)) => {
            let shown = match &p {
                Ok(r) => show_refs(r),
                Err(_) => "err".to_string(),
            };
            let mut o = Outcome::new(format!("v={} c={} p={}", bits, show_blob(&c), shown));
            // Oracle: the property statement. Valid names, non-zero oids ⇒ parses back to the same set.
            if !any_zero {
                match &p {
                    Ok(r) if *r == refs => {}
                    Ok(_) => o = o.violation("roundtrip-differs", "from_canonical(canonical(refs)) != refs"),
                    Err(e) => o = o.violation("roundtrip-differs", format!("from_canonical(canonical(refs)) failed: {e}")),
                }
            }
            o
        }
    };
    o.nontrivial = !refs.is_empty();
    o = o.tag("rt");
    if refs.len() > 100 {
        o = o.tag("rt-large");
    }
    if refs.is_empty() {
        o = o.tag("rt-empty");
    }
    if any_invalid {
        o = o.tag("rt-has-invalid-name");
    }
    if any_zero {
        o = o.tag("rt-has-zero-oid");
    }
    if dup {
        o = o.tag("rt-duplicate-name");
    }
    o
}

/// Oracle shared by `parse` and `load`: whatever is accepted re-canonicalises to something that parses
/// back to exactly itself.
fn reparse_violation(r: &Refs) -> Option<String> {
    match Refs::from_canonical(&r.canonical()) {
        Ok(r2) if r2 == *r => None,
        Ok(_) => Some("canonical text of the accepted refs parses to different refs".into()),
        Err(e) => Some(format!("canonical text of the accepted refs does not parse: {e}")),
    }
}

fn run_parse(blob: &str) -> Outcome {
    let Some(blob) = unhex(blob) else { return Outcome::new("bad-case").trivial() };
    match catch(|| Refs::from_canonical(&blob)) {
        Err(m) => Outcome::new("panic").violation("panic", format!("from_canonical panicked: {m}")),
        Ok(Ok(r)) => {
            let mut o = Outcome::new(format!("ok {}", show_refs(&r))).tag("parse-ok");
            if r.canonical() == blob {
                o = o.tag("parse-already-canonical");
            } else {
                o = o.tag("parse-lenient-accept");
            }
            if let Some(m) = reparse_violation(&r) {
                o = o.violation("accepted-not-canonical", m);
            }
            o
        }
        Ok(Err(e)) => Outcome::new("err").tag(format!("parse-err-{}", canon_err_class(&e))),
    }
}

fn load_err_class(e: &refs::Error) -> String {
    use refs::Error as E;
    match e {
        E::InvalidSignature(_) => "signature".into(),
        E::Canonical(c) => format!("canonical-{}", canon_err_class(c)),
        E::MissingIdentity(_) => "missing-identity".into(),
        E::MismatchedIdentity { .. } => "mismatched-identity".into(),
        E::Git(_) | E::GitExt(_) => "git".into(),
        _ => "other".into(),
    }
}

fn run_load(w: &World, t: &[&str]) -> Outcome {
    let bad = || Outcome::new("bad-case").trivial();
    let [key, sig, blob, sg, local, ig] = t else { return bad() };
    let Some(key) = unhex(key) else { return bad() };
    let Ok(key) = <[u8; 32]>::try_from(key.as_slice()) else { return bad() };
    let key = PublicKey::from(key);
    let opt = |s: &str| -> Option<Option<Vec<u8>>> { if s == "none" { Some(None) } else { unhex(s).map(Some) } };
    let (Some(sig), Some(blob)) = (opt(sig), opt(blob)) else { return bad() };
    if oid40(local) != Some(*w.local) {
        return bad();
    }
    let real_sig: Option<Signature> = sig.as_deref().and_then(|s| Signature::try_from(s).ok());
    let sig_ok = |msg: &[u8]| -> bool { real_sig.as_ref().map(|s| key.verify(msg, s).is_ok()).unwrap_or(false) };
    // the graphs in the case text must be the real functions' graphs
    if *sg != "-" {
        for e in sg.split(',') {
            let Some((m, b)) = e.split_once(':') else { return bad() };
            let Some(m) = unhex_in(m) else { return bad() };
            if sig_ok(&m) != (b == "1") || (b != "0" && b != "1") {
                return bad();
            }
        }
    }
    if *ig != "-" {
        for e in ig.split(',') {
            let Some((o, r)) = e.split_once(':') else { return bad() };
            let Some(o) = oid40(o) else { return bad() };
            let real = w.identity_at(o);
            let claimed = if r == "none" { None } else { let Some(r) = oid40(r) else { return bad() }; Some(RepoId::from(r)) };
            if real != claimed {
                return bad();
            }
        }
    }
    let mut entries: Vec<(&str, &[u8])> = vec![];
    if let Some(b) = &blob {
        entries.push((refs::REFS_BLOB_PATH, b));
    }
    if let Some(s) = &sig {
        entries.push((refs::SIGNATURE_BLOB_PATH, s));
    }
    let commit = commit_tree(&w.repo.backend, &entries, None);
    // distribution: is this the interesting "raw blob signed, but the blob is not canonical" input?
    let parsed = blob.as_deref().and_then(|b| Refs::from_canonical(b).ok());
    let lenient = matches!((&parsed, &blob), (Some(p), Some(b)) if p.canonical() != *b);
    let raw_signed = lenient && blob.as_deref().map(|b| sig_ok(b)).unwrap_or(false);
    let o = match catch(|| SignedRefsAt::load_at(commit, key, &w.repo)) {
        Err(m) => Outcome::new("panic").violation("panic", format!("load_at panicked: {m}")),
        Ok(Err(e)) => Outcome::new("err").tag(format!("load-err-{}", load_err_class(&e))),
        Ok(Ok(sra)) => {
            let accepted: &Refs = &sra.sigrefs.refs;
            let mut o = Outcome::new(format!("ok {}", show_refs(accepted))).tag("load-ok");
            // Oracle: "verification succeeds only when the signature is by the claimed key over the
            // canonical text of exactly the refs that are then accepted".
            if sra.sigrefs.id != key || sra.at != commit {
                o = o.violation("accepted-wrong-key", "verified refs carry another key or commit than the one loaded");
            }
            if !sig_ok(&accepted.canonical()) {
                o = o.violation(
                    "accepted-without-valid-signature",
                    "the signature does not verify for the claimed key over the canonical text of the accepted refs",
                );
            }
            match blob.as_deref().map(Refs::from_canonical) {
                Some(Ok(parsed)) if parsed == *accepted => {}
                _ => o = o.violation("accepted-differs-from-blob", "the accepted refs are not the refs of the blob"),
            }
            if let Some(m) = reparse_violation(accepted) {
                o = o.violation("accepted-not-canonical", m);
            }
            match accepted.get(&IDENTITY_ROOT) {
                Some(root) => {
                    o = o.tag("load-ok-root-signed");
                    if w.identity_at(root) != Some(w.local) {
                        o = o.violation(
                            "identity-root-unbound",
                            format!("signed {} = {root} does not resolve to the local repository id", *IDENTITY_ROOT),
                        );
                    }
                }
                None => o = o.tag("load-ok-no-root"),
            }
            o
        }
    };
    let o = if lenient { o.tag("load-noncanonical-blob") } else { o };
    if raw_signed { o.tag("load-noncanonical-blob-signed-raw") } else { o }
}

fn run_case(w: &World, input: &str) -> Outcome {
    let t: Vec<&str> = input.split(' ').collect();
    match t.as_slice() {
        ["rt", ps] => run_rt(ps),
        ["parse", b] => run_parse(b),
        ["load", rest @ ..] => run_load(w, rest),
        _ => Outcome::new("bad-case").trivial(),
    }
}

// ---------------------------------------------------------------------------------------------
// generation

const GOOD: &[&str] = &[
    "refs", "heads", "tags", "rad", "root", "sigrefs", "id", "main", "master", "cobs", "xyz.radicle.patch", "a", "z", "A", "0",
    "v1.0", "lock", "a.lock.b", "x.locked", "lockx", "a.b", "a-b", "a_b", "-", "x@", "@x", "a@b", "{", "}", "a{@}b", "é", "日本",
    "\u{10348}", "feature", "x.y.z", "HEAD", "@@", "a@", "lo.ck", "a}{b", "%", "!", "\"", "#", "(", "|", "\u{80}", "\u{7ff}",
    // valid for git and RefString, but Unicode White_Space / separators / format characters: a parser that
    // splits or trims on Unicode whitespace breaks the round trip exactly on these
    "a\u{3000}b", "x\u{2003}", "\u{a0}y", "n\u{85}l", "o\u{1680}g", "t\u{2009}n", "l\u{2028}s", "p\u{2029}s", "n\u{202f}b", "m\u{205f}m",
    "z\u{200b}w", "b\u{feff}m", "r\u{200f}l", "s\u{ad}h", "c\u{301}", "\u{fffd}", "\u{e000}",
];
const BAD: &[&str] = &[
    "x.lock", ".lock", ".hidden", "end.", "a..b", "..", ".", "a@{b", "@{", "{@", "{a@", "a b", " ", "a\tb", "a~b", "a^", "a:b", "a?", "a*",
    "*", "[a", "a\\b", "\u{7f}", "\u{1}", "a\rb", "a\nb", "x\r", "\0", "é.lock", "日.", ".日", "{x@",
];

fn gen_name(rng: &mut Rng) -> Vec<u8> {
    match rng.below(40) {
        0 => return b"@".to_vec(),
        1 => return b".".to_vec(),
        2 => return vec![],
        3 => return b"refs/rad/root".to_vec(),
        4 => return b"refs/rad/sigrefs".to_vec(),
        5 => {
            // invalid UTF-8
            let mut n = b"refs/heads/".to_vec();
            n.extend_from_slice(*rng.pick(&[&[0xffu8][..], &[0xc3], &[0xe0, 0x80, 0x80], &[0xed, 0xa0, 0x80], &[0xf4, 0x90, 0x80, 0x80], &[0x80], &[0xc0, 0xaf]]));
            if rng.bool() {
                n.push(b'x');
            }
            return n;
        }
        6 => {
            // long component
            let mut n = b"refs/heads/".to_vec();
            n.extend(std::iter::repeat(b'a' + rng.below(3) as u8).take(rng.range(200, 300) as usize));
            return n;
        }
        _ => {}
    }
    let ncomp = rng.range(1, 5);
    let bad_at = if rng.chance(1, 8) { Some(rng.below(ncomp)) } else { None };
    let mut parts: Vec<String> = vec![];
    for i in 0..ncomp {
        if Some(i) == bad_at {
            parts.push(rng.pick(BAD).to_string());
        } else if i == 0 && rng.chance(1, 2) {
            parts.push("refs".into());
        } else if rng.chance(1, 6) {
            // random printable component (may or may not be valid)
            let len = rng.range(1, 6);
            parts.push((0..len).map(|_| (0x21 + rng.below(0x5e) as u8) as char).filter(|c| *c != '/').collect());
        } else {
            parts.push(rng.pick(GOOD).to_string());
        }
    }
    let mut s = parts.join("/");
    match rng.below(40) {
        0 => s.push('/'),
        1 => s.insert(0, '/'),
        2 => s = s.replacen('/', "//", 1),
        _ => {}
    }
    s.into_bytes()
}

fn gen_oid(rng: &mut Rng) -> String {
    match rng.below(30) {
        0 => "0".repeat(40),
        1 => format!("{}1", "0".repeat(39)),
        2 => format!("1{}", "0".repeat(39)),
        3 => "f".repeat(40),
        _ => rng.bytes(20).iter().map(|b| format!("{b:02x}")).collect(),
    }
}

fn gen_pairs(rng: &mut Rng, n: u64) -> Vec<(Vec<u8>, String)> {
    let mut v: Vec<(Vec<u8>, String)> = vec![];
    for i in 0..n {
        let name = if n > 20 {
            // large sets: mostly distinct valid names with shared prefixes (exercises the key order)
            if rng.chance(1, 50) { gen_name(rng) } else { format!("refs/{}/{}{}", rng.pick(&["heads", "tags", "heads/a", "heads/a-", "heads/a."]).trim_end_matches('.'), rng.pick(GOOD), i).into_bytes() }
        } else if !v.is_empty() && rng.chance(1, 10) {
            v[rng.below(v.len() as u64) as usize].0.clone() // duplicate name
        } else {
            gen_name(rng)
        };
        v.push((name, gen_oid(rng)));
    }
    v
}

fn pairs_text(ps: &[(Vec<u8>, String)]) -> String {
    if ps.is_empty() {
        return "-".into();
    }
    ps.iter().map(|(n, o)| format!("{}:{}", hex_in(n), o)).collect::<Vec<_>>().join(",")
}

/// A refs blob: lines `oid name\n` from pairs, then (optionally) transformations the parser tolerates and
/// mutations that break it.
fn gen_blob(rng: &mut Rng, ps: &[(Vec<u8>, String)], canonical_only: bool) -> Vec<u8> {
    // start from the sorted, deduplicated text (what `canonical` would print for valid names)
    let mut m: BTreeMap<Vec<u8>, String> = BTreeMap::new();
    for (n, o) in ps {
        m.insert(n.clone(), o.clone());
    }
    let mut lines: Vec<Vec<u8>> = m.iter().map(|(n, o)| [o.as_bytes(), b" ", n.as_slice()].concat()).collect();
    let mut crlf = false;
    let mut final_nl = true;
    if !canonical_only {
        for _ in 0..rng.below(3) {
            match rng.below(12) {
                0 => {
                    // shuffle
                    for i in (1..lines.len()).rev() {
                        lines.swap(i, rng.below(i as u64 + 1) as usize);
                    }
                }
                1 if !lines.is_empty() => {
                    // upper-case one oid
                    let i = rng.below(lines.len() as u64) as usize;
                    let l = &mut lines[i];
                    let k = l.iter().position(|b| *b == b' ').unwrap_or(0);
                    l[..k].make_ascii_uppercase();
                }
                2 => crlf = true,
                3 if !lines.is_empty() => {
                    // duplicate a line, possibly with another oid (last one wins)
                    let i = rng.below(lines.len() as u64) as usize;
                    let mut l = lines[i].clone();
                    if rng.bool() && l.len() > 40 {
                        l.splice(0..40, gen_oid(rng).into_bytes());
                    }
                    let at = rng.below(lines.len() as u64 + 1) as usize;
                    lines.insert(at, l);
                }
                4 => {
                    // zero-oid line
                    let at = rng.below(lines.len() as u64 + 1) as usize;
                    lines.insert(at, [&b"0000000000000000000000000000000000000000 "[..], &gen_name(rng)].concat());
                }
                5 => final_nl = false,
                6 if !lines.is_empty() => {
                    // short oid (libgit2 pads with zeros)
                    let i = rng.below(lines.len() as u64) as usize;
                    let cut = rng.range(1, 39) as usize;
                    if lines[i].len() > 40 {
                        lines[i].drain(cut..40);
                    }
                }
                7 if !lines.is_empty() => {
                    // 41 hex digits / non-hex digit / empty oid
                    let i = rng.below(lines.len() as u64) as usize;
                    match rng.below(3) {
                        0 => lines[i].insert(0, b'a'),
                        1 if !lines[i].is_empty() => lines[i][0] = b'g',
                        _ => {
                            let k = lines[i].iter().position(|b| *b == b' ').unwrap_or(0);
                            lines[i].drain(..k);
                        }
                    }
                }
                8 => {
                    let at = rng.below(lines.len() as u64 + 1) as usize;
                    lines.insert(at, match rng.below(4) { 0 => vec![], 1 => b"nospace".to_vec(), 2 => b" ".to_vec(), _ => b"\r".to_vec() });
                }
                9 if !lines.is_empty() => {
                    // two spaces / trailing space / tab instead of space
                    let i = rng.below(lines.len() as u64) as usize;
                    let k = lines[i].iter().position(|b| *b == b' ').unwrap_or(0);
                    match rng.below(3) {
                        0 => lines[i].insert(k, b' '),
                        1 => lines[i].push(b' '),
                        _ if !lines[i].is_empty() => lines[i][k] = b'\t',
                        _ => {}
                    }
                }
                10 if !lines.is_empty() => {
                    // a lone \r at the end of a line (stripped only together with \n)
                    let i = rng.below(lines.len() as u64) as usize;
                    lines[i].push(b'\r');
                }
                _ => {}
            }
        }
    }
    let mut blob = vec![];
    let n = lines.len();
    for (i, l) in lines.into_iter().enumerate() {
        blob.extend_from_slice(&l);
        if i + 1 < n || final_nl {
            if crlf {
                blob.push(b'\r');
            }
            blob.push(b'\n');
        }
    }
    blob
}

/// One single-point mutation of a byte string.
fn mutate_bytes(rng: &mut Rng, b: &mut Vec<u8>) {
    if b.is_empty() {
        b.push(rng.next() as u8);
        return;
    }
    let i = rng.below(b.len() as u64) as usize;
    match rng.below(8) {
        0 => {
            b.remove(i);
        }
        1 => b.insert(i, *rng.pick(&[b' ', b'\n', b'0', b'a', b'/', b'.', 0xc3])),
        2 => b[i] ^= 0x20, // case flip of letters / hex digits
        3 => b[i] = *rng.pick(&[b'\n', b' ', b'\r', 0, b'/', b'.', b'0', b'f']),
        _ => b[i] ^= 1 << rng.below(8),
    }
}

fn valid_pairs(ps: &[(Vec<u8>, String)]) -> Vec<(Vec<u8>, String)> {
    ps.iter().filter(|(n, _)| ref_string(n).is_some()).cloned().collect()
}

fn load_case(w: &World, key: &[u8; 32], sig: &Option<Vec<u8>>, blob: &Option<Vec<u8>>) -> String {
    let pkey = PublicKey::from(*key);
    let real_sig: Option<Signature> = sig.as_deref().and_then(|s| Signature::try_from(s).ok());
    let sig_ok = |msg: &[u8]| -> bool { real_sig.as_ref().map(|s| pkey.verify(msg, s).is_ok()).unwrap_or(false) };
    let mut msgs: Vec<Vec<u8>> = vec![];
    let mut oids: Vec<Oid> = w.roots.to_vec();
    if let Some(b) = blob {
        if let Ok(r) = Refs::from_canonical(b) {
            msgs.push(r.canonical());
            if let Some(root) = r.get(&IDENTITY_ROOT) {
                if !oids.contains(&root) {
                    oids.push(root);
                }
            }
        }
        if !msgs.contains(b) {
            msgs.push(b.clone());
        }
    }
    let sg = if msgs.is_empty() {
        "-".to_string()
    } else {
        msgs.iter().map(|m| format!("{}:{}", hex_in(m), sig_ok(m) as u8)).collect::<Vec<_>>().join(",")
    };
    let ig = oids
        .iter()
        .map(|o| format!("{}:{}", o, w.identity_at(*o).map(|r| (*r).to_string()).unwrap_or("none".into())))
        .collect::<Vec<_>>()
        .join(",");
    let o = |x: &Option<Vec<u8>>| x.as_ref().map(|b| hex(b)).unwrap_or("none".into());
    format!("load {} {} {} {} {} {}", hex(key), o(sig), o(blob), sg, *w.local, ig)
}

fn key_bytes(s: &MockSigner) -> [u8; 32] {
    let k = pk(s);
    let b: &[u8] = k.as_ref();
    b.try_into().expect("32 bytes")
}

/// A signed-refs case and (often) a single-point tampering of it.
fn gen_load(w: &World, rng: &mut Rng) -> Vec<String> {
    let s = &w.signers[rng.below(w.signers.len() as u64) as usize];
    let key = key_bytes(s);
    let n = rng.below(7);
    let mut ps = valid_pairs(&gen_pairs(rng, n));
    ps.retain(|(n, _)| n != b"refs/rad/root");
    // the signed identity root
    let root = match rng.below(20) {
        0..=9 => Some(0),
        10..=12 => Some(1),
        13 => Some(2),
        14 => Some(3),
        15 => Some(4),
        _ => None,
    };
    if let Some(i) = root {
        ps.push((b"refs/rad/root".to_vec(), w.roots[i].to_string()));
    }
    let canonical_only = rng.chance(3, 5);
    let blob = gen_blob(rng, &ps, canonical_only);
    // what is signed: the canonical text of what the blob parses to / the raw blob / something else
    let msg = match (rng.below(20), Refs::from_canonical(&blob)) {
        (0..=12, Ok(r)) => r.canonical(),
        (13..=17, _) | (0..=12, Err(_)) => blob.clone(),
        _ => b"something else".to_vec(),
    };
    let sig = sign(s, &msg);
    let mut out = vec![load_case(w, &key, &Some(sig.clone()), &Some(blob.clone()))];
    // single-point tampering
    for _ in 0..rng.below(3) {
        let (mut k2, mut s2, mut b2) = (key, Some(sig.clone()), Some(blob.clone()));
        match rng.below(14) {
            0..=5 => mutate_bytes(rng, b2.as_mut().unwrap()),
            6 => {
                // change one hex digit of one oid to another value
                let b = b2.as_mut().unwrap();
                if b.len() >= 40 {
                    let line_starts: Vec<usize> = std::iter::once(0).chain(b.iter().enumerate().filter(|(_, c)| **c == b'\n').map(|(i, _)| i + 1)).filter(|i| i + 40 <= b.len()).collect();
                    let at = line_starts[rng.below(line_starts.len() as u64) as usize] + rng.below(40) as usize;
                    b[at] = if b[at] == b'7' { b'8' } else { b'7' };
                }
            }
            7 | 8 => {
                let i = rng.below(64) as usize;
                s2.as_mut().unwrap()[i] ^= 1 << rng.below(8);
            }
            9 => {
                let i = rng.below(32) as usize;
                k2[i] ^= 1 << rng.below(8);
            }
            10 => k2 = key_bytes(&w.signers[rng.below(w.signers.len() as u64) as usize]),
            11 => match rng.below(3) {
                0 => s2 = None,
                1 => {
                    s2.as_mut().unwrap().pop();
                }
                _ => s2.as_mut().unwrap().push(0),
            },
            12 => b2 = None,
            _ => {
                // swap in another root
                let b = b2.as_mut().unwrap();
                if let Some(i) = root {
                    let from = w.roots[i].to_string();
                    let to = w.roots[(i + 1 + rng.below(4) as usize) % 5].to_string();
                    if let Some(pos) = b.windows(40).position(|x| x == from.as_bytes()) {
                        b[pos..pos + 40].copy_from_slice(to.as_bytes());
                    }
                }
            }
        }
        out.push(load_case(w, &k2, &s2, &b2));
    }
    out
}

fn gen_parse(rng: &mut Rng) -> String {
    let (any, n) = (rng.chance(1, 6), rng.below(8));
    let ps = if any { gen_pairs(rng, n) } else { valid_pairs(&gen_pairs(rng, n)) };
    let canonical_only = rng.chance(1, 4);
    let mut blob = gen_blob(rng, &ps, canonical_only);
    if rng.chance(1, 4) {
        mutate_bytes(rng, &mut blob);
    }
    if rng.chance(1, 60) {
        let n = rng.below(40) as usize;
        blob = rng.bytes(n);
    }
    format!("parse {}", hex(&blob))
}

fn gen_rt(rng: &mut Rng, large: bool) -> String {
    let n = if large { rng.range(101, 2000) } else if rng.chance(1, 12) { rng.range(13, 60) } else { rng.below(13) };
    format!("rt {}", pairs_text(&gen_pairs(rng, n)))
}

fn main() {
    let mut ctx = Ctx::from_args("C20");
    let w = world();
    if !ctx.run_fixed(|i| run_case(&w, i)) {
        let mut rng = ctx.rng();
        // generated root/world cases that must exist whatever the seed: every identity-root kind, signed well
        for i in 0..5 {
            let s = &w.signers[0];
            let blob = format!("{} refs/heads/main\n{} refs/rad/root\n", "a".repeat(40), w.roots[i]).into_bytes();
            let input = load_case(&w, &key_bytes(s), &Some(sign(s, &blob)), &Some(blob));
            let o = run_case(&w, &input);
            ctx.record(&input, o);
        }
        let n = ctx.size(2_000, 100_000);
        let n_large = ctx.size(4, 60);
        let mut done = 0;
        while done < n {
            let inputs: Vec<String> = match rng.below(10) {
                0..=2 => vec![gen_rt(&mut rng, false)],
                3..=5 => vec![gen_parse(&mut rng)],
                _ => gen_load(&w, &mut rng),
            };
            for input in inputs {
                let o = run_case(&w, &input);
                ctx.record(&input, o);
                done += 1;
            }
        }
        for _ in 0..n_large {
            let input = gen_rt(&mut rng, true);
            let o = run_case(&w, &input);
            ctx.record(&input, o);
        }
    }
    ctx.finish(
        "three streams: rt = ref sets of 0..60 (a few of 100..2000) names built from valid/invalid components near the \
         ref-format limits (.lock, dots, @{, cyclic {@, control/space, multi-byte, invalid UTF-8, long, duplicates, shared \
         prefixes) with random/zero/extreme oids; parse = canonical blobs under tolerated transformations (shuffle, upper-case, \
         CRLF, duplicate lines, zero oids, short oids, missing final newline) and breaking single-byte mutations; load = real \
         Ed25519-signed (canonical text / raw blob / other message) refs commits with every kind of identity root, each followed \
         by single-point tamperings of blob, oid, signature, key, root. non-trivial = rt with at least one valid ref, every \
         parse/load case; distinct by input text",
        false,
    );
}
