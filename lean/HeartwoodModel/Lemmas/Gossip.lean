import HeartwoodModel.Model.Gossip
/-!
Helper lemmas about the list-based tables of `Model/Gossip.lean` (routing table, gossip store payloads,
repository list), used by `Props/C11.lean` for the inventory invariant.
-/
set_option linter.unusedSimpArgs false
set_option linter.unusedVariables false
namespace HeartwoodModel.Gossip

/-! ## Repositories -/

/-- Ground truth: is repository `rid` private? (Unknown repository: not private.) -/
def isPrivate (s : State) (rid : Nat) : Bool :=
  match findRepo s rid with
  | some r => r.priv
  | none => false

theorem find_insertRepo_self (r : Repo) (l : List Repo) :
    (insertRepo r l).find? (fun x => x.rid == r.rid) = some r := by
  induction l with
  | nil => simp [insertRepo]
  | cons x xs ih =>
    simp only [insertRepo]
    split
    · simp
    · split
      · simp
      · rename_i h _
        simp only [List.find?_cons]
        have : (x.rid == r.rid) = false := by simpa using h
        rw [this]
        exact ih

theorem find_insertRepo_other (r : Repo) (l : List Repo) (k : Nat) (hk : k ≠ r.rid) :
    (insertRepo r l).find? (fun x => x.rid == k) = l.find? (fun x => x.rid == k) := by
  have hr : (r.rid == k) = false := by simpa using fun h => hk h.symm
  induction l with
  | nil => simp [insertRepo, hr]
  | cons x xs ih =>
    simp only [insertRepo]
    split
    · rename_i h
      have hx : (x.rid == k) = false := by rw [h]; exact hr
      simp [List.find?_cons, hr, hx]
    · split
      · simp [List.find?_cons, hr]
      · simp only [List.find?_cons]
        split
        · rfl
        · exact ih

/-! ## Routing table -/

theorem mem_localInventory {s : State} {x : Nat} :
    x ∈ localInventory s ↔ ∃ e ∈ s.routing, e.2.1 = 0 ∧ e.1 = x := by
  unfold localInventory
  constructor
  · intro h
    obtain ⟨e, he, rfl⟩ := List.mem_map.mp h
    obtain ⟨h1, h2⟩ := List.mem_filter.mp he
    exact ⟨e, h1, by simpa using h2, rfl⟩
  · rintro ⟨e, he, h0, rfl⟩
    exact List.mem_map.mpr ⟨e, List.mem_filter.mpr ⟨he, by simpa using h0⟩, rfl⟩

theorem addRoute_mem {rt : List (Nat × Nat × Nat)} {rid nid ts : Nat} {e : Nat × Nat × Nat}
    (h : e ∈ (addRoute rt rid nid ts).1) : e ∈ rt ∨ e = (rid, nid, ts) := by
  unfold addRoute at h
  split at h
  · split at h
    · simp only [List.mem_map] at h
      obtain ⟨x, hx, rfl⟩ := h
      split
      · exact Or.inr rfl
      · exact Or.inl hx
    · exact Or.inl h
  · simp only [List.mem_append, List.mem_singleton] at h
    exact h

theorem addRoutes_mem {rids : List Nat} {rt : List (Nat × Nat × Nat)} {nid ts : Nat}
    {e : Nat × Nat × Nat} (h : e ∈ (addRoutes rt rids nid ts).1) :
    e ∈ rt ∨ (e.1 ∈ rids ∧ e.2.1 = nid) := by
  unfold addRoutes at h
  suffices H : ∀ (rids : List Nat) (acc : List (Nat × Nat × Nat) × Bool),
      e ∈ (rids.foldl (fun acc rid => let r := addRoute acc.1 rid nid ts; (r.1, acc.2 || r.2)) acc).1 →
      e ∈ acc.1 ∨ (e.1 ∈ rids ∧ e.2.1 = nid) from H rids (rt, false) h
  intro rids
  induction rids with
  | nil => intro acc h; exact Or.inl h
  | cons r rs ih =>
    intro acc h
    simp only [List.foldl_cons] at h
    rcases ih _ h with h1 | ⟨h1, h2⟩
    · rcases addRoute_mem h1 with h3 | rfl
      · exact Or.inl h3
      · exact Or.inr ⟨by simp, rfl⟩
    · exact Or.inr ⟨List.mem_cons_of_mem _ h1, h2⟩

theorem syncRouting_mem {rt : List (Nat × Nat × Nat)} {inv : List Nat} {nid ts : Nat}
    {e : Nat × Nat × Nat} (h : e ∈ (syncRouting rt inv nid ts).1) : e ∈ rt ∨ e.2.1 = nid := by
  unfold syncRouting at h
  simp only [List.mem_filter] at h
  rcases addRoutes_mem h.1 with h1 | ⟨_, h2⟩
  · exact Or.inl h1
  · exact Or.inr h2

theorem removeRoute_mem {rt : List (Nat × Nat × Nat)} {rid nid : Nat} {e : Nat × Nat × Nat}
    (h : e ∈ (removeRoute rt rid nid).1) : e ∈ rt := by
  unfold removeRoute at h
  exact (List.mem_filter.mp h).1

/-! ## Own inventory announcements in the gossip store -/

/-- Repositories listed by the stored inventory announcements of the local node. -/
def ownInvPayload (rows : List Row) : List Nat :=
  (rows.filter (fun r => r.id.node == 0 && r.id.kind == .inv)).flatMap (·.inv)

theorem mem_ownInvPayload {rows : List Row} {x : Nat} :
    x ∈ ownInvPayload rows ↔ ∃ r ∈ rows, r.id.node = 0 ∧ r.id.kind = .inv ∧ x ∈ r.inv := by
  simp only [ownInvPayload, List.mem_flatMap, List.mem_filter, Bool.and_eq_true, beq_iff_eq]
  constructor
  · rintro ⟨r, ⟨hr, h1, h2⟩, hx⟩; exact ⟨r, hr, h1, h2, hx⟩
  · rintro ⟨r, hr, h1, h2, hx⟩; exact ⟨r, ⟨hr, h1, h2⟩, hx⟩

/-- A row of the table after `announced` is an old row or carries exactly the new announcement. -/
theorem announced_mem' {rows : List Row} {id : AnnId} {inv : List Nat} {r' : Row}
    (h : r' ∈ (announced rows id inv).1) : r' ∈ rows ∨ (r'.id = id ∧ r'.inv = inv) := by
  unfold announced at h
  split at h
  · split at h
    · simp only [List.mem_map] at h
      obtain ⟨x, hx, rfl⟩ := h
      split
      · exact Or.inr ⟨rfl, rfl⟩
      · exact Or.inl hx
    · exact Or.inl h
  · simp only [List.mem_append, List.mem_singleton] at h
    rcases h with h | rfl
    · exact Or.inl h
    · exact Or.inr ⟨rfl, rfl⟩

theorem announced_payload {rows : List Row} {id : AnnId} {inv : List Nat} {x : Nat}
    (h : x ∈ ownInvPayload (announced rows id inv).1) :
    x ∈ ownInvPayload rows ∨ (id.node = 0 ∧ id.kind = .inv ∧ x ∈ inv) := by
  rw [mem_ownInvPayload] at h
  obtain ⟨r, hr, h1, h2, hx⟩ := h
  rcases announced_mem' hr with h | ⟨hid, hinv⟩
  · exact Or.inl (mem_ownInvPayload.mpr ⟨r, h, h1, h2, hx⟩)
  · exact Or.inr ⟨hid ▸ h1, hid ▸ h2, hinv ▸ hx⟩

theorem payload_of_ids_inv {rows rows' : List Row}
    (h : ∀ r' ∈ rows', ∃ r ∈ rows, r.id = r'.id ∧ r.inv = r'.inv) {x : Nat}
    (hx : x ∈ ownInvPayload rows') : x ∈ ownInvPayload rows := by
  rw [mem_ownInvPayload] at hx ⊢
  obtain ⟨r', hr', h1, h2, h3⟩ := hx
  obtain ⟨r, hr, he, hi⟩ := h r' hr'
  exact ⟨r, hr, he ▸ h1, he ▸ h2, hi ▸ h3⟩

end HeartwoodModel.Gossip
