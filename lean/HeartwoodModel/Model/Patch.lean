import HeartwoodModel.Model.Thread
/-!
# Model of `crates/radicle/src/cob/patch.rs` (`Patch::authorization`, `op_action`, `action`, `op`, `from_root`)

Import-free (only `Model/Thread.lean`). One Lean arm per Rust `match` arm.

External facts are parameters carried by the actions / ops:
* `Op.doc` — the identity document `op.identity_doc(repo)` resolved to (`none` = no `resource`);
* `Action.merge … anc` — outcome of the default-branch ancestry check of the real repository for that
  merge (`no` = no such ref or not an ancestor, `yes`, `err` = `is_ancestor_of` failed).

Projection: `target` (single variant), bases/oids of revisions, timestamps, reactions, embeds, code
locations and `resolves` are dropped. The order of `State::Open.conflicts` is a hash-map order in the
real code; only its emptiness is ever inspected.
-/
namespace HeartwoodModel.Patch
open HeartwoodModel.Cob

abbrev Commit := Nat

inductive Anc
  | no | yes | err
  deriving DecidableEq, Repr

inductive Lifecycle
  | opened | draft | archived
  deriving DecidableEq, Repr

inductive PState
  | draft
  | opened (conflicts : List (Id × Commit))
  | archived
  | merged (revision : Id) (commit : Commit)
  deriving DecidableEq, Repr

structure Review where
  id : Id
  author : Actor
  summary : Option Nat
  /-- `some true` = accept, `some false` = reject. -/
  verdict : Option Bool
  labels : List Nat
  comments : Thread
  deriving DecidableEq, Repr

structure Revision where
  id : Id
  author : Actor
  /-- `(edit author, text)`, oldest first. -/
  description : List (Actor × Nat)
  discussion : Thread
  /-- keyed by reviewer. -/
  reviews : List (Actor × Review)
  deriving DecidableEq, Repr

structure Patch where
  title : Nat
  author : Actor
  state : PState
  labels : List Nat
  /-- one merge per actor: `(revision, commit)`. -/
  merges : List (Actor × (Id × Commit))
  /-- `none` = redacted. -/
  revisions : List (Id × Option Revision)
  assignees : List Actor
  timeline : List Id
  /-- review index: review id ↦ `(revision, reviewer)`; `none` = redacted. -/
  reviews : List (Id × Option (Id × Actor))
  deriving DecidableEq, Repr

inductive Action
  | edit (title : Nat)
  | label (labels : List Nat)
  | lifecycle (l : Lifecycle)
  | assign (assignees : List Actor)
  | merge (revision : Id) (commit : Commit) (anc : Anc)
  | review (revision : Id) (summary : Option Nat) (verdict : Option Bool) (labels : List Nat)
  | reviewEdit (review : Id) (summary : Option Nat) (verdict : Option Bool) (labels : List Nat)
  | reviewRedact (review : Id)
  | reviewComment (review : Id) (body : Nat) (replyTo : Option Id)
  | reviewCommentEdit (review comment : Id) (body : Nat)
  | reviewCommentRedact (review comment : Id)
  | reviewCommentReact (review comment : Id)
  | reviewCommentResolve (review comment : Id)
  | reviewCommentUnresolve (review comment : Id)
  | revision (description : Nat)
  | revisionEdit (revision : Id) (description : Nat)
  | revisionReact (revision : Id)
  | revisionRedact (revision : Id)
  | revisionComment (revision : Id) (body : Nat) (replyTo : Option Id)
  | revisionCommentEdit (revision comment : Id) (body : Nat)
  | revisionCommentRedact (revision comment : Id)
  | revisionCommentReact (revision comment : Id)
  deriving DecidableEq, Repr

structure Op where
  id : Id
  author : Actor
  doc : Option Doc
  actions : List Action
  deriving DecidableEq, Repr

/-! ### lookups (`mod lookup`) -/

/-- `lookup::revision`: `ok none` = redacted, `error missing` = causal error. -/
def lookupRevision (p : Patch) (r : Id) : Except Err (Option Revision) :=
  match get? r p.revisions with
  | some (some rev) => .ok (some rev)
  | some none => .ok none
  | none => .error .missing

/-- `lookup::review`. -/
def lookupReview (p : Patch) (rid : Id) : Except Err (Option (Revision × Review)) :=
  match get? rid p.reviews with
  | some (some (revId, reviewer)) =>
    match get? revId p.revisions with
    | some (some rev) =>
      match get? reviewer rev.reviews with
      | some rv => .ok (some (rev, rv))
      | none => .error .missing
    | some none => .ok none
    | none => .error .missing
  | some none => .ok none
  | none => .error .missing

/-- `lookup::revision_mut` followed by an in-place update (`ok p` unchanged if redacted). -/
def withRevision (p : Patch) (r : Id) (f : Revision → Except Err Revision) : Except Err Patch :=
  match get? r p.revisions with
  | some (some rev) =>
    match f rev with
    | .ok rev' => .ok { p with revisions := ins r (some rev') p.revisions }
    | .error e => .error e
  | some none => .ok p
  | none => .error .missing

/-- `lookup::review_mut` followed by an in-place update (`ok p` unchanged if redacted). -/
def withReview (p : Patch) (rid : Id) (f : Review → Except Err Review) : Except Err Patch :=
  match get? rid p.reviews with
  | some (some (revId, reviewer)) =>
    match get? revId p.revisions with
    | some (some rev) =>
      match get? reviewer rev.reviews with
      | some rv =>
        match f rv with
        | .ok rv' =>
          let rev' : Revision := { rev with reviews := ins reviewer rv' rev.reviews }
          .ok { p with revisions := ins revId (some rev') p.revisions }
        | .error e => .error e
      | none => .error .missing
    | some none => .ok p
    | none => .error .missing
  | some none => .ok p
  | none => .error .missing

/-- `Patch::root`: first entry of the timeline that is a live revision by the patch author
(`none` = the `expect` panics). -/
def Patch.root (p : Patch) : Option Id :=
  p.timeline.findSome? fun id =>
    match get? id p.revisions with
    | some (some rev) => if rev.author = p.author then some id else none
    | _ => none

/-! ### the merge tally -/

/-- Number of actors whose recorded merge is exactly `k`. -/
def countMerges (ms : List (Actor × (Id × Commit))) (k : Id × Commit) : Nat :=
  (ms.filter fun m => m.2 = k).length

/-- The distinct `(revision, commit)` pairs merged by at least `threshold` actors. -/
def quorumPairs (ms : List (Actor × (Id × Commit))) (threshold : Nat) : List (Id × Commit) :=
  ((ms.map (·.2)).eraseDups).filter fun k => decide (countMerges ms k ≥ threshold)

/-! ### `Patch::authorization` -/

def authorization (p : Patch) (a : Action) (actor : Actor) (doc : Doc) : Except Err Auth :=
  if doc.isDelegate actor then .ok .allow
  else
    let author := p.author
    match a with
    | .edit _ => .ok (Auth.ofBool (actor = author))
    | .lifecycle _ => .ok (Auth.ofBool (actor = author))
    | .label labels => .ok (if canon labels = p.labels then .allow else .deny)
    | .assign _ => .ok .deny
    | .merge _ _ _ => .ok .deny
    | .review _ _ _ _ => .ok .allow
    | .reviewRedact review | .reviewEdit review _ _ _ =>
      match lookupReview p review with
      | .error e => .error e
      | .ok (some (_, rv)) => .ok (Auth.ofBool (actor = rv.author))
      | .ok none => .ok .unknown
    | .reviewComment _ _ _ => .ok .allow
    | .reviewCommentEdit review comment _ | .reviewCommentRedact review comment =>
      match lookupReview p review with
      | .error e => .error e
      | .ok (some (_, rv)) =>
        match get? comment rv.comments.comments with
        | some (some c) => .ok (Auth.ofBool (actor = c.author))
        | _ => .ok .unknown
      | .ok none => .ok .unknown
    | .reviewCommentReact _ _ => .ok .allow
    | .reviewCommentResolve review comment | .reviewCommentUnresolve review comment =>
      match lookupReview p review with
      | .error e => .error e
      | .ok (some (rev, rv)) =>
        match get? comment rv.comments.comments with
        | some (some c) =>
          .ok (Auth.ofBool (actor = c.author || actor = rv.author || actor = rev.author))
        | _ => .ok .unknown
      | .ok none => .ok .unknown
    | .revision _ => .ok .allow
    | .revisionEdit revision _ | .revisionRedact revision =>
      match lookupRevision p revision with
      | .error e => .error e
      | .ok (some rev) => .ok (Auth.ofBool (actor = rev.author))
      | .ok none => .ok .unknown
    | .revisionReact _ => .ok .allow
    | .revisionComment _ _ _ => .ok .allow
    | .revisionCommentEdit revision comment _ | .revisionCommentRedact revision comment =>
      match lookupRevision p revision with
      | .error e => .error e
      | .ok (some rev) =>
        match get? comment rev.discussion.comments with
        | some (some c) => .ok (Auth.ofBool (actor = c.author))
        | _ => .ok .unknown
      | .ok none => .ok .unknown
    | .revisionCommentReact _ _ => .ok .allow

/-! ### `Patch::action` -/

def liftThread (rv : Review) (r : Except Err Thread) : Except Err Review :=
  match r with
  | .ok t => .ok { rv with comments := t }
  | .error e => .error e

def liftDiscussion (rev : Revision) (r : Except Err Thread) : Except Err Revision :=
  match r with
  | .ok t => .ok { rev with discussion := t }
  | .error e => .error e

def action (p : Patch) (a : Action) (entry : Id) (author : Actor) (doc : Doc) : Except Err Patch :=
  match a with
  | .edit title => .ok { p with title := title }
  | .lifecycle l =>
    let valid := p.state = .draft ∨ p.state = .archived ∨ p.state = .opened []
    if valid then
      match l with
      | .opened => .ok { p with state := .opened [] }
      | .draft => .ok { p with state := .draft }
      | .archived => .ok { p with state := .archived }
    else .ok p
  | .label labels => .ok { p with labels := canon labels }
  | .assign assignees => .ok { p with assignees := canon assignees }
  | .revisionEdit revision description =>
    match get? revision p.revisions with
    | some (some rev) =>
      let rev' : Revision := { rev with description := rev.description ++ [(author, description)] }
      .ok { p with revisions := ins revision (some rev') p.revisions }
    | some none => .ok p
    | none => .error .missing
  | .revision description =>
    let rev : Revision := { id := entry, author, description := [(author, description)],
                            discussion := Thread.empty, reviews := [] }
    .ok { p with revisions := ins entry (some rev) p.revisions }
  | .revisionReact revision =>
    match lookupRevision p revision with
    | .error e => .error e
    | .ok _ => .ok p
  | .revisionRedact revision =>
    match p.root with
    | none => .error .panic
    | some root =>
      if revision = root then .error .notAllowed
      else match get? revision p.revisions with
        | some _ =>
          if p.merges.any (fun m => m.2.1 = revision) then .ok p
          else .ok { p with revisions := ins revision none p.revisions }
        | none => .error .missing
  | .review revision summary verdict labels =>
    match get? revision p.revisions with
    | some (some rev) =>
      match get? author rev.reviews with
      | none =>
        let rv : Review := { id := entry, author, summary, verdict, labels, comments := Thread.empty }
        let rev' : Revision := { rev with reviews := ins author rv rev.reviews }
        .ok { p with revisions := ins revision (some rev') p.revisions,
                     reviews := ins entry (some (revision, author)) p.reviews }
      | some _ => .ok p
    | _ => .ok p
  | .reviewEdit review summary verdict labels =>
    if summary.isNone ∧ verdict.isNone then .error .emptyReview
    else withReview p review fun rv => .ok { rv with verdict, summary, labels }
  | .reviewCommentReact review comment =>
    withReview p review fun rv => liftThread rv (rv.comments.react entry comment)
  | .reviewCommentRedact review comment =>
    withReview p review fun rv => liftThread rv (rv.comments.redact entry comment)
  | .reviewCommentEdit review comment body =>
    withReview p review fun rv => liftThread rv (rv.comments.edit entry author comment body)
  | .reviewCommentResolve review comment =>
    withReview p review fun rv => liftThread rv (rv.comments.setResolved entry comment true)
  | .reviewCommentUnresolve review comment =>
    withReview p review fun rv => liftThread rv (rv.comments.setResolved entry comment false)
  | .reviewComment review body replyTo =>
    withReview p review fun rv => liftThread rv (rv.comments.comment entry author body replyTo)
  | .reviewRedact review =>
    match get? review p.reviews with
    | none => .error .missing
    | some none => .ok p
    | some (some (revId, reviewer)) =>
      match get? revId p.revisions with
      | none => .error .missing
      | some none => .ok p
      | some (some rev) =>
        let rev' : Revision := { rev with reviews := del reviewer rev.reviews }
        .ok { p with revisions := ins revId (some rev') p.revisions,
                     reviews := ins review none p.reviews }
  | .merge revision commit anc =>
    match lookupRevision p revision with
    | .error e => .error e
    | .ok none => .ok p
    | .ok (some _) =>
      match anc with
      | .no => .ok p
      | .err => .error .git
      | .yes =>
        let merges := ins author (revision, commit) p.merges
        match quorumPairs merges doc.threshold with
        | [] => .ok { p with merges := merges }
        | [(r, c)] => .ok { p with merges := merges, state := .merged r c }
        | many => .ok { p with merges := merges, state := .opened many }
  | .revisionComment revision body replyTo =>
    withRevision p revision fun rev =>
      liftDiscussion rev (rev.discussion.comment entry author body replyTo)
  | .revisionCommentEdit revision comment body =>
    withRevision p revision fun rev =>
      liftDiscussion rev (rev.discussion.edit entry author comment body)
  | .revisionCommentRedact revision comment =>
    withRevision p revision fun rev => liftDiscussion rev (rev.discussion.redact entry comment)
  | .revisionCommentReact revision comment =>
    withRevision p revision fun rev => liftDiscussion rev (rev.discussion.react entry comment)

/-- `Patch::op_action`: authorise, then apply / reject / ignore. -/
def opAction (p : Patch) (a : Action) (entry : Id) (author : Actor) (doc : Doc) : Except Err Patch :=
  match authorization p a author doc with
  | .error e => .error e
  | .ok .allow => action p a entry author doc
  | .ok .deny => .error .notAuthorized
  | .ok .unknown => .ok p

def applyActions (entry : Id) (author : Actor) (doc : Doc) : Patch → List Action → Except Err Patch
  | p, [] => .ok p
  | p, a :: as =>
    match opAction p a entry author doc with
    | .ok p' => applyActions entry author doc p' as
    | .error e => .error e

/-- `Patch::op` (atomic: the result is either a new state or an error and no state). -/
def op (p : Patch) (o : Op) : Except Err Patch :=
  match o.doc with
  | none => .error .missingIdentity
  | some doc => applyActions o.id o.author doc { p with timeline := p.timeline ++ [o.id] } o.actions

/-- `Patch::new`. -/
def Patch.new (title : Nat) (id : Id) (author : Actor) (description : Nat) : Patch :=
  { title, author, state := .opened [], labels := [], merges := [],
    revisions := [(id, some { id, author, description := [(author, description)], discussion := Thread.empty, reviews := [] })],
    assignees := [], timeline := [id], reviews := [] }

/-- The loop of `from_root` over the remaining actions (`Unknown` ⇒ `continue`). -/
def rootActions (entry : Id) (author : Actor) (doc : Doc) : Patch → List Action → Except Err Patch
  | p, [] => .ok p
  | p, a :: as =>
    match authorization p a author doc with
    | .error e => .error e
    | .ok .allow =>
      match action p a entry author doc with
      | .ok p' => rootActions entry author doc p' as
      | .error e => .error e
    | .ok .deny => .error .notAuthorized
    | .ok .unknown => rootActions entry author doc p as

/-- `Patch::from_root`. -/
def fromRoot (o : Op) : Except Err Patch :=
  match o.doc with
  | none => .error .missingIdentity
  | some doc =>
    match o.actions with
    | .revision description :: .edit title :: rest =>
      rootActions o.id o.author doc (Patch.new title o.id o.author description) rest
    | _ => .error .init

/-! ### evaluation of a linearised history -/

/-- `Evaluate::apply` as `S → Entry → Option S`, the shape the change-graph evaluator consumes. -/
def apply (p : Patch) (o : Op) : Option Patch :=
  match op p o with
  | .ok p' => some p'
  | .error _ => none

/-- One evaluator step: a rejected entry is pruned and leaves the state unchanged. -/
def step (p : Patch) (o : Op) : Patch :=
  match op p o with
  | .ok p' => p'
  | .error _ => p

/-- Evaluate entries in the given (already linearised) order. -/
def eval (p : Patch) (ops : List Op) : Patch := ops.foldl step p

/-- The entries that were applied (not pruned) when evaluating `ops` from `p`. -/
def applied : Patch → List Op → List Op
  | _, [] => []
  | p, o :: os =>
    match op p o with
    | .ok p' => o :: applied p' os
    | .error _ => applied p os

end HeartwoodModel.Patch
