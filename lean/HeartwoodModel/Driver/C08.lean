import HeartwoodModel.Model.Patch
import HeartwoodModel.Model.ChangeGraph
import HeartwoodModel.Driver.Util
/-!
Driver entry for C08 (also the patch half of C07, which imports this file).

Case: `patch <docs> <heads> g=<ranks>/<sigbits> <op0> <op1> …`
* `docs`  = `;`-separated `delegates/threshold` (delegates `,`-separated actor numbers);
* `heads` = per actor the commit index of its default branch or `x` (used by the harness only);
* `g=`    = the abstract change graph facts: for each op the rank of its commit oid among the oids of the
  case (`,`-separated; the evaluator's keys, ordered like the `Oid`s) and one `0/1` per op for
  `Entry::valid_signatures()`; both computed by the real code;
* `op`    = `author:doc:ts:tips:act|act|…` (`doc` index or `x` = no resource; `tips` = parent op indices or `-`);
  the id of an op is its position. Action syntax: see `parseAction`.
The MODEL computes the evaluation order, the rejected / pruned entries and the final state from this
DAG with the generic evaluator of `Model/ChangeGraph.lean` (`load` from the DAG tips, then `evaluate` with
`Patch.op` as `apply`); nothing of the real run is an input.
Output: `init-err` / `init-panic` / `fuel` / `missing-root` / `sig`, or
`o=<evaluation order>;r=<o|e|p per evaluated op>;t=…;au=…;st=…;lb=…;as=…;mg=…;rv=…;ri=…` (see `showPatch`).
-/
namespace HeartwoodModel.Driver.C08
open HeartwoodModel.Cob HeartwoodModel.Patch HeartwoodModel.Driver.Util
open HeartwoodModel.Dag HeartwoodModel.ChangeGraph

def optNat? (s : String) : Option (Option Nat) :=
  if s == "-" then some none else (nat? s).map some

def plusNats? (s : String) : Option (List Nat) :=
  if s == "-" || s.isEmpty then some [] else (splitOn s '+').mapM nat?

def verdict? (s : String) : Option (Option Bool) :=
  if s == "-" then some none else if s == "a" then some (some true) else if s == "r" then some (some false)
  else none

def parseAction (s : String) : Option Action :=
  match splitOn s ',' with
  | ["ed", t] => do some (.edit (← nat? t))
  | ["lb", ls] => do some (.label (← plusNats? ls))
  | ["lc", l] =>
    if l == "o" then some (.lifecycle .opened) else if l == "d" then some (.lifecycle .draft)
    else if l == "a" then some (.lifecycle .archived) else none
  | ["as", xs] => do some (.assign (← plusNats? xs))
  | ["mg", r, c, a] => do
    let anc ← (if a == "n" then some Anc.no else if a == "y" then some Anc.yes
               else if a == "e" then some Anc.err else none)
    some (.merge (← nat? r) (← nat? c) anc)
  | ["rv", r, sm, v, ls] => do some (.review (← nat? r) (← optNat? sm) (← verdict? v) (← plusNats? ls))
  | ["rve", r, sm, v, ls] => do some (.reviewEdit (← nat? r) (← optNat? sm) (← verdict? v) (← plusNats? ls))
  | ["rvr", r] => do some (.reviewRedact (← nat? r))
  | ["rc", r, b, rt] => do some (.reviewComment (← nat? r) (← nat? b) (← optNat? rt))
  | ["rce", r, c, b] => do some (.reviewCommentEdit (← nat? r) (← nat? c) (← nat? b))
  | ["rcr", r, c] => do some (.reviewCommentRedact (← nat? r) (← nat? c))
  | ["rca", r, c] => do some (.reviewCommentReact (← nat? r) (← nat? c))
  | ["rcs", r, c] => do some (.reviewCommentResolve (← nat? r) (← nat? c))
  | ["rcu", r, c] => do some (.reviewCommentUnresolve (← nat? r) (← nat? c))
  | ["rn", d] => do some (.revision (← nat? d))
  | ["rne", r, d] => do some (.revisionEdit (← nat? r) (← nat? d))
  | ["rna", r] => do some (.revisionReact (← nat? r))
  | ["rnr", r] => do some (.revisionRedact (← nat? r))
  | ["dc", r, b, rt] => do some (.revisionComment (← nat? r) (← nat? b) (← optNat? rt))
  | ["dce", r, c, b] => do some (.revisionCommentEdit (← nat? r) (← nat? c) (← nat? b))
  | ["dcr", r, c] => do some (.revisionCommentRedact (← nat? r) (← nat? c))
  | ["dca", r, c] => do some (.revisionCommentReact (← nat? r) (← nat? c))
  | _ => none

def parseDoc (s : String) : Option Doc :=
  match splitOn s '/' with
  | [ds, t] => do some { delegates := (← nats? ds), threshold := (← nat? t) }
  | _ => none

def parseDocs (s : String) : Option (List Doc) := (splitOn s ';').mapM parseDoc

def parseHeads (s : String) : Option Unit :=
  if (splitOn s ',').all (fun h => h == "x" || (nat? h).isSome) then some () else none

/-- An op together with its DAG parents (tips). -/
structure WireOp (A : Type) where
  author : Nat
  doc : Option Doc
  tips : List Nat
  actions : List A
  ts : Nat := 0

def parseWireOp {A : Type} (parseA : String → Option A) (docs : List Doc) (s : String) :
    Option (WireOp A) :=
  match splitOn s ':' with
  | [au, d, ts, tips, acts] => do
    let au ← nat? au
    let doc ← (if d == "x" then some none else do
      let i ← nat? d
      let doc ← docs[i]?
      some (some doc))
    let ts ← nat? ts
    let tips ← nats? tips
    let acts ← (splitOn acts '|').mapM parseA
    some { author := au, doc, tips, actions := acts, ts }
  | _ => none

/-- Consistency of the reported evaluation order with the pruning rule of `ChangeGraph::evaluate`:
an entry is evaluated after, and only if, all its parents were applied successfully; `results` are the
model's own verdicts. Every entry not in `order` must have a parent that is not applied. -/
def orderOk (tips : List (List Nat)) (order : List Nat) (okFlags : List Bool) : Bool :=
  let n := tips.length
  let rec go (ord : List Nat) (flags : List Bool) (appliedSet : List Nat) (seen : List Nat) :
      Option (List Nat × List Nat) :=
    match ord, flags with
    | [], _ => some (appliedSet, seen)
    | i :: rest, f :: fs =>
      if i = 0 || i ≥ n || seen.contains i then none
      else match tips[i]? with
        | none => none
        | some ps =>
          if ps.all (fun q => appliedSet.contains q) then
            go rest fs (if f then i :: appliedSet else appliedSet) (i :: seen)
          else none
    | _ :: _, [] => none
  match go order okFlags [0] [0] with
  | none => false
  | some (appliedSet, seen) =>
    (List.range n).all fun i =>
      seen.contains i ||
        match tips[i]? with
        | some ps => ps.isEmpty || ps.any (fun q => !appliedSet.contains q)
        | none => false

/-! ### the abstract change graph, evaluated by `Model/ChangeGraph.lean` -/

/-- An entry of the change graph: position in the case, timestamp, `valid_signatures()`, payload. -/
structure GOp (W : Type) where
  idx : Nat
  ts : Nat
  sig : Bool
  w : W

/-- `g=<ranks>/<sigbits>` -/
def parseG (s : String) (n : Nat) : Option (List Nat × List Bool) :=
  match splitOn s '=' with
  | ["g", r] =>
    match splitOn r '/' with
    | [ranks, bits] => do
      let rs ← nats? ranks
      let cs := bits.toList
      if rs.length == n && cs.length == n && cs.all (fun c => c == '0' || c == '1') then
        some (rs, cs.map (· == '1'))
      else none
    | _ => none
  | _ => none

def mkGOps {W : Type} (ws : List W) (tsOf : W → Nat) (sigs : List Bool) : List (GOp W) :=
  let rec go (i : Nat) : List W → List (GOp W)
    | [] => []
    | w :: rest => { idx := i, ts := tsOf w, sig := (sigs[i]?).getD false, w } :: go (i + 1) rest
  go 0 ws

/-- `change::Storage::load` on the keys of the case: key = oid rank. -/
def gStore {W : Type} (ranks : List Nat) (tipsOf : W → List Nat) (gops : List (GOp W)) : Store (GOp W) := fun k =>
  match gops.find? (fun o => ranks[o.idx]? == some k) with
  | some o => some ((tipsOf o.w).filterMap (fun t => ranks[t]?), o)
  | none => none

/-- The refs of the object: one per DAG tip (entries nobody builds on). -/
def gTips {W : Type} (ranks : List Nat) (tipsOf : W → List Nat) (gops : List (GOp W)) : List Nat :=
  (gops.filter fun o => gops.all fun o' => !(tipsOf o'.w).contains o.idx).filterMap fun o => ranks[o.idx]?

/-- `(index, concurrent entries present?, accepted?)` per `apply` call, in evaluation order. -/
abbrev Trace := List (Nat × Bool × Bool)

/-- `cob::get`: load the graph from the tips, evaluate it with `apply` (`none` = `Err`), recording the
calls of `apply`. -/
def evalGraph {W S : Type} (ranks : List Nat) (tipsOf : W → List Nat) (gops : List (GOp W))
    (init : GOp W → Option S) (apply : S → GOp W → Bool → Option S) :
    Option (Option (EvalOut (S × Trace) (GOp W))) :=
  let store := gStore ranks tipsOf gops
  let tips := gTips ranks tipsOf gops
  let applyM : S × Trace → K → GOp W → List (K × GOp W) → (S × Trace) × Bool := fun st _ e sibs =>
    let conc := !sibs.isEmpty
    match apply st.1 e conc with
    | some s' => ((s', st.2 ++ [(e.idx, conc, true)]), true)
    | none => ((st.1, st.2 ++ [(e.idx, conc, false)]), false)
  match ranks[0]? with
  | none => none
  | some rootKey =>
    match load store (loadFuel store ranks tips) tips with
    | none => none
    | some none => some none
    | some (some g) =>
      some (some (evaluate (·.sig) (·.ts) (fun e => (init e).map fun s => (s, [])) applyM
        (evalFuel g rootKey) g rootKey))

def showTrace (withConc : Bool) (tr : Trace) : String :=
  let o := tr.map fun (i, c, _) => if withConc then s!"{i}.{showBool c}" else toString i
  let r := tr.map fun (_, _, ok) => if ok then "o" else "e"
  s!"o={if o.isEmpty then "-" else joinWith "," o};r={if r.isEmpty then "-" else joinWith "" r}"

def showEval {W S : Type} (withConc : Bool) (showS : S → String) :
    Option (Option (EvalOut (S × Trace) (GOp W))) → String
  | none => "fuel"
  | some none => "none"
  | some (some .missingRoot) => "missing-root"
  | some (some .badRootSig) => "sig"
  | some (some .initErr) => "init-err"
  | some (some .fuel) => "fuel"
  | some (some (.ok st _)) => s!"{showTrace withConc st.2};{showS st.1}"

/-! ### printing -/

def dash (s : String) : String := if s.isEmpty then "-" else s

def showList (sep : String) (xs : List String) : String := dash (joinWith sep xs)

def insertBy {α : Type} (key : α → Nat) (x : α) : List α → List α
  | [] => [x]
  | y :: ys => if key x ≤ key y then x :: y :: ys else y :: insertBy key x ys

def sortBy {α : Type} (key : α → Nat) (xs : List α) : List α := xs.foldr (insertBy key) []

def showOptNat : Option Nat → String
  | none => "-"
  | some n => toString n

def showEdits (es : List (Nat × Nat)) : String :=
  showList "," (es.map fun e => s!"{e.1}.{e.2}")

def showThread (isep fsep : String) (t : Thread) : String :=
  showList isep ((sortBy (·.1) t.comments).map fun (id, c) =>
    match c with
    | none => s!"{id}{fsep}x"
    | some c =>
      s!"{id}{fsep}{c.author}{fsep}{showEdits c.edits}{fsep}{showOptNat c.replyTo}{fsep}{showBool c.resolved}")

def showVerdict : Option Bool → String
  | none => "-"
  | some true => "a"
  | some false => "r"

def showReview (reviewer : Nat) (rv : Review) : String :=
  s!"{reviewer}={rv.id}={rv.author}={showOptNat rv.summary}={showVerdict rv.verdict}=" ++
  s!"{showList "," (rv.labels.map toString)}={showThread "!" "^" rv.comments}"

def showRevision (id : Nat) : Option Revision → String
  | none => s!"{id}~x"
  | some r =>
    s!"{id}~{r.author}~{showEdits r.description}~{showThread "&" "=" r.discussion}~" ++
    showList "&" ((sortBy (·.1) r.reviews).map fun (a, rv) => showReview a rv)

def pairKey (p : Nat × Nat) : Nat := p.1 * 1000003 + p.2

def showState : PState → String
  | .draft => "draft"
  | .archived => "archived"
  | .opened [] => "open"
  | .opened cs => "open:" ++ joinWith "+" ((sortBy pairKey cs).map fun (r, c) => s!"{r}.{c}")
  | .merged r c => s!"merged:{r}.{c}"

def showPatch (p : Patch) : String :=
  s!"t={p.title};au={p.author};st={showState p.state};lb={showList "+" (p.labels.map toString)};" ++
  s!"as={showList "+" (p.assignees.map toString)};" ++
  s!"mg={showList "+" ((sortBy (·.1) p.merges).map fun (a, (r, c)) => s!"{a}.{r}.{c}")};" ++
  s!"rv={showList "+" ((sortBy (·.1) p.revisions).map fun (id, r) => showRevision id r)};" ++
  "ri=" ++ showList "+" ((sortBy (·.1) p.reviews).map fun (id, l) =>
    match l with
    | none => s!"{id}.x"
    | some (r, a) => s!"{id}.{r}.{a}")

def showRes {α : Type} : Except Err α → String
  | .ok _ => "o"
  | .error .panic => "p"
  | .error _ => "e"

def toOp (i : Nat) (w : WireOp Action) : Op :=
  { id := i, author := w.author, doc := w.doc, actions := w.actions }

/-- Evaluate in the given order, recording the verdict for each entry (a rejected entry leaves the
state unchanged: `Patch.step`). -/
def evalOrder (ops : List (WireOp Action)) : Patch → List Nat → List String → List Bool →
    Option (Patch × List String × List Bool)
  | p, [], rs, fs => some (p, rs.reverse, fs.reverse)
  | p, i :: rest, rs, fs =>
    match ops[i]? with
    | none => none
    | some w =>
      let r := op p (toOp i w)
      evalOrder ops (step p (toOp i w)) rest (showRes r :: rs) ((match r with | .ok _ => true | _ => false) :: fs)

def optOk {α : Type} : Except Err α → Option α
  | .ok a => some a
  | .error _ => none

def runPatch (args : List String) : String :=
  match args with
  | docs :: heads :: gtok :: ops =>
    match parseDocs docs, parseHeads heads with
    | some docs, some _ =>
      match ops.mapM (parseWireOp parseAction docs) with
      | some (root :: rest) =>
        let all := root :: rest
        match parseG gtok all.length with
        | none => "bad-op"
        | some (ranks, sigs) =>
          -- a panicking root (`expect` in `from_root`) cannot be told apart from an error by `evaluate`
          match fromRoot (toOp 0 root) with
          | .error .panic => "init-panic"
          | _ =>
            let gops := mkGOps all (·.ts) sigs
            showEval false showPatch
              (evalGraph ranks (·.tips) gops (fun e => optOk (fromRoot (toOp e.idx e.w)))
                (fun p e _ => optOk (op p (toOp e.idx e.w))))
      | _ => "bad-op"
    | _, _ => "bad-op"
  | _ => "bad-op"

def run (args : List String) : String :=
  match args with
  | "patch" :: rest => runPatch rest
  | _ => "bad-op"

end HeartwoodModel.Driver.C08
