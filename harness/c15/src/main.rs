//! C15 harness (stub: not implemented yet).
fn main() {
    eprintln!("C15: harness not implemented");
    std::process::exit(3);
}
