import HeartwoodModel.Driver.C01
import HeartwoodModel.Driver.C02
import HeartwoodModel.Driver.C03
import HeartwoodModel.Driver.C04
import HeartwoodModel.Driver.C05
import HeartwoodModel.Driver.C06
import HeartwoodModel.Driver.C07
import HeartwoodModel.Driver.C08
import HeartwoodModel.Driver.C09
import HeartwoodModel.Driver.C10
import HeartwoodModel.Driver.C11
import HeartwoodModel.Driver.C12
import HeartwoodModel.Driver.C13
import HeartwoodModel.Driver.C14
import HeartwoodModel.Driver.C15
import HeartwoodModel.Driver.C16
import HeartwoodModel.Driver.C17
import HeartwoodModel.Driver.C18
import HeartwoodModel.Driver.C19
import HeartwoodModel.Driver.C20
import HeartwoodModel.Driver.C21
import HeartwoodModel.Driver.C22
import HeartwoodModel.Driver.C23
import HeartwoodModel.Driver.C24
import HeartwoodModel.Driver.C25
import HeartwoodModel.Driver.C26
import HeartwoodModel.Driver.C27
import HeartwoodModel.Driver.C28
import HeartwoodModel.Driver.C29
import HeartwoodModel.Driver.C30

/-!
Line-protocol driver: reads case lines `<prop> <caseid> <token>…` from stdin and prints
`<prop> <caseid> => <model output>` for each. All model code is import-free so this links
as a native executable.
-/
open HeartwoodModel.Driver

def dispatch (prop : String) (args : List String) : String :=
  match prop with
  | "C01" => C01.run args
  | "C02" => C02.run args
  | "C03" => C03.run args
  | "C04" => C04.run args
  | "C05" => C05.run args
  | "C06" => C06.run args
  | "C07" => C07.run args
  | "C08" => C08.run args
  | "C09" => C09.run args
  | "C10" => C10.run args
  | "C11" => C11.run args
  | "C12" => C12.run args
  | "C13" => C13.run args
  | "C14" => C14.run args
  | "C15" => C15.run args
  | "C16" => C16.run args
  | "C17" => C17.run args
  | "C18" => C18.run args
  | "C19" => C19.run args
  | "C20" => C20.run args
  | "C21" => C21.run args
  | "C22" => C22.run args
  | "C23" => C23.run args
  | "C24" => C24.run args
  | "C25" => C25.run args
  | "C26" => C26.run args
  | "C27" => C27.run args
  | "C28" => C28.run args
  | "C29" => C29.run args
  | "C30" => C30.run args
  | _ => "bad-prop"

partial def loop (h : IO.FS.Stream) (out : IO.FS.Stream) : IO Unit := do
  let line ← h.getLine
  if line.isEmpty then return ()
  let l := line.trimAscii.toString
  if l.isEmpty || l.startsWith "#" then
    loop h out
  else
    match l.splitOn " " with
    | prop :: cid :: args =>
      out.putStrLn s!"{prop} {cid} => {dispatch prop args}"
      loop h out
    | _ =>
      out.putStrLn s!"? ? => bad-line"
      loop h out

def main : IO Unit := do
  let stdin ← IO.getStdin
  let stdout ← IO.getStdout
  loop stdin stdout
  stdout.flush
