import HeartwoodModel.Model.Refs
import HeartwoodModel.Driver.Util
/-!
Driver entry for C20 (signed refs). Cases:

* `rt <pairs>` — `pairs` = comma list of `<namehex>:<oid40>` (or `-`): build a `Refs` from the pairs whose
  name is a valid `RefString`, print the canonical text and what it parses back to.
  Output `v=<validity bits|-> c=<blob> p=<refs|err>`.
* `parse <blobhex>` — `Refs::from_canonical`. Output `ok <refs>` | `err`.
* `load <key32hex> <sighex|none> <blobhex|none> <sg> <local40> <ig>` — `SignedRefs::load_at`.
  `sg` = graph of the signature predicate for this `(key, sig)`: comma list `<msghex>:<0|1>` (or `-`);
  `ig` = graph of `identity_doc_at`: comma list `<oid40>:<rid40|none>` (or `-`).
  Output `ok <refs>` | `err` | `no-graph-point` (the model asked for a point the case does not carry).

`<refs>` = `n;name:oid,…` for up to 6 entries, `n;#<len>:<fnv1a-64 of the canonical text>` beyond;
`<blob>` = hex up to 200 bytes, `#<len>:<fnv1a-64>` beyond.
-/
namespace HeartwoodModel.Driver.C20
open HeartwoodModel.Driver.Util
open HeartwoodModel (Refs.Bytes Refs.Oid Refs.Refs)

def fnv (bs : List Nat) : Nat :=
  bs.foldl (fun h b => ((h ^^^ (b % 256)) * 0x100000001b3) % 0x10000000000000000) 0xcbf29ce484222325

def showBlob (bs : List Nat) : String :=
  if bs.length ≤ 200 then toHex bs else s!"#{bs.length}:{fnv bs}"

def showOid (o : List Nat) : String := String.ofList (o.map hexChar)

def showRefs (r : Refs.Refs) : String :=
  if r.length ≤ 6 then
    s!"{r.length};" ++ joinWith "," (r.map fun (n, o) => (if n.isEmpty then "" else toHex n) ++ ":" ++ showOid o)
  else
    let c := Refs.canonical r
    s!"{r.length};#{c.length}:{fnv c}"

/-- exactly 40 hex digits → nibbles -/
def oid? (s : String) : Option (List Nat) :=
  if s.length != 40 then none else s.toList.mapM hexDigit?

/-- hex with the empty string (not `-`) for the empty byte string (inside lists) -/
def hexIn? (s : String) : Option (List Nat) := if s.isEmpty then some [] else if s == "-" then none else hexBytes? s

def pair? (s : String) : Option (List Nat × List Nat) :=
  match splitOn s ':' with
  | [n, o] => do let n ← hexIn? n; let o ← oid? o; some (n, o)
  | _ => none

def list? {α} (f : String → Option α) (s : String) : Option (List α) :=
  if s == "-" then some [] else (splitOn s ',').mapM f

def optHex? (s : String) : Option (Option (List Nat)) :=
  if s == "none" then some none else (hexBytes? s).map some

def sgEntry? (s : String) : Option (List Nat × Bool) :=
  match splitOn s ':' with
  | [m, b] => do let m ← hexIn? m; let b ← bool? b; some (m, b)
  | _ => none

def igEntry? (s : String) : Option (List Nat × Option (List Nat)) :=
  match splitOn s ':' with
  | [o, r] => do
    let o ← oid? o
    let r ← (if r == "none" then some none else (oid? r).map some)
    some (o, r)
  | _ => none

def showParse : Except Refs.CanonError Refs.Refs → String
  | .ok r => "ok " ++ showRefs r
  | .error _ => "err"

def runRt (ps : List (List Nat × List Nat)) : String :=
  let valid := ps.map fun p => Refs.validRef p.1 && Refs.utf8Valid p.1
  let refs := Refs.ofList ((ps.zip valid).filterMap fun (p, v) => if v then some p else none)
  let c := Refs.canonical refs
  let p := match Refs.fromCanonical c with
    | .ok r => showRefs r
    | .error _ => "err"
  let bits := if valid.isEmpty then "-" else joinWith "" (valid.map showBool)
  s!"v={bits} c={showBlob c} p={p}"

def runLoad (key : List Nat) (sig blob : Option (List Nat)) (sg : List (List Nat × Bool))
    (localId : List Nat) (ig : List (List Nat × Option (List Nat))) : String :=
  -- which points of the opaque functions will the model ask for?
  let missing : Bool :=
    match sig, blob with
    | some sb, some rb =>
      if sb.length != 64 then false else
      match Refs.fromCanonical rb with
      | .ok refs =>
        let m := Refs.canonical refs
        match sg.find? (fun e => e.1 == m) with
        | none => true
        | some (_, false) => false
        | some (_, true) =>
          match Refs.lookup Refs.identityRoot refs with
          | none => false
          | some root => (ig.find? (fun e => e.1 == root)).isNone
      | .error _ => false
    | _, _ => false
  if missing then "no-graph-point" else
  let env : Refs.Env :=
    { sigVerify := fun k m s =>
        k == key && some s == sig && (match sg.find? (fun e => e.1 == m) with | some (_, b) => b | none => false)
      identityAt := fun o => match ig.find? (fun e => e.1 == o) with | some (_, r) => r | none => none
      localId := localId }
  match Refs.loadAt env key blob sig with
  | .ok sr => "ok " ++ showRefs sr.refs
  | .error _ => "err"

def run (args : List String) : String :=
  match args with
  | ["rt", ps] =>
    match list? pair? ps with
    | some ps => runRt ps
    | none => "bad-op"
  | ["parse", b] =>
    match hexBytes? b with
    | some b => showParse (Refs.fromCanonical b)
    | none => "bad-op"
  | ["load", key, sig, blob, sg, loc, ig] =>
    match hexBytes? key, optHex? sig, optHex? blob, list? sgEntry? sg, oid? loc, list? igEntry? ig with
    | some key, some sig, some blob, some sg, some loc, some ig =>
      if key.length != 32 then "bad-op" else runLoad key sig blob sg loc ig
    | _, _, _, _, _, _ => "bad-op"
  | _ => "bad-op"

end HeartwoodModel.Driver.C20
