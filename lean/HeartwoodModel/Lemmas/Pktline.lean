import HeartwoodModel.Model.Pktline
/-!
Helper lemmas about `Model/Pktline.lean` shared by `Props/C12.lean` and `Props/C13.lean`.
-/
namespace HeartwoodModel.Pktline

/-- Inside the range accepted by the repaired check, every slice of the 1024-byte buffer is in bounds. -/
theorem sliceOk_of_range {length : Nat} (h1 : HEADER_LEN ≤ length) (h2 : length ≤ BUF_LEN) :
    sliceOk BUF_LEN HEADER_LEN length = true ∧ sliceOk BUF_LEN 4 length = true ∧
    sliceOk BUF_LEN 0 length = true := by
  simp only [sliceOk, HEADER_LEN, BUF_LEN] at *
  simp [h1, h2]

/-- `read_pktline` reaches no slice-index panic, whatever the peer sends. -/
theorem readPktline_ne_panic (stream : Bytes) (s : Site) : readPktline stream ≠ .panic s := by
  unfold readPktline
  have h0 : sliceOk BUF_LEN 0 HEADER_LEN = true := by decide
  simp only [h0, Bool.not_true, Bool.false_eq_true, if_false]
  split
  · simp
  · split
    · simp
    · rename_i length _
      by_cases hr : (decide (HEADER_LEN ≤ length) && decide (length ≤ BUF_LEN)) = true
      · simp only [Bool.and_eq_true, decide_eq_true_eq] at hr
        obtain ⟨a, b, c⟩ := sliceOk_of_range hr.1 hr.2
        have a' : sliceOk BUF_LEN HEADER_LEN length = true := a
        simp only [hr.1, hr.2, decide_true, Bool.and_self, Bool.not_true, Bool.false_eq_true,
          if_false, a', b, c]
        split <;> simp
      · simp [hr]

/-- What `read_pktline` returns on success: the declared length was in `4..=1024`, the payload has
exactly `length - 4` bytes and is what followed the 4-byte header on the stream. -/
theorem readExact_some {k : Nat} {s a b : Bytes} (h : readExact k s = some (a, b)) :
    k ≤ s.length ∧ a = s.take k ∧ b = s.drop k := by
  unfold readExact at h
  by_cases hl : s.length < k
  · simp [hl] at h
  · simp only [hl, if_false, Option.some.injEq, Prod.mk.injEq] at h
    exact ⟨by omega, h.1.symm, h.2.symm⟩

theorem readPktline_ok {stream payload rest : Bytes} (h : readPktline stream = .ok (payload, rest)) :
    ∃ length, parseLen (stream.take 4) = some length ∧ 4 ≤ length ∧ length ≤ 1024 ∧
      payload = (stream.drop 4).take (length - 4) ∧ rest = (stream.drop 4).drop (length - 4) ∧
      length ≤ stream.length := by
  unfold readPktline at h
  have h0 : sliceOk BUF_LEN 0 HEADER_LEN = true := by decide
  simp only [h0, Bool.not_true, Bool.false_eq_true, if_false] at h
  split at h
  · simp at h
  · rename_i hdr s1 heq
    obtain ⟨hl, rfl, rfl⟩ := readExact_some heq
    split at h
    · simp at h
    · rename_i length hp
      by_cases hr : (decide (HEADER_LEN ≤ length) && decide (length ≤ BUF_LEN)) = true
      · simp only [Bool.and_eq_true, decide_eq_true_eq] at hr
        obtain ⟨a, b, c⟩ := sliceOk_of_range (length := length) hr.1 hr.2
        simp only [hr.1, hr.2, decide_true, Bool.and_self, Bool.not_true, Bool.false_eq_true,
          if_false, a, b, c] at h
        split at h
        · simp at h
        · rename_i body s2 heq2
          obtain ⟨hl2, rfl, rfl⟩ := readExact_some heq2
          simp only [Res.ok.injEq, Prod.mk.injEq] at h
          obtain ⟨rfl, rfl⟩ := h
          simp only [HEADER_LEN, BUF_LEN, List.length_drop] at *
          exact ⟨length, hp, hr.1, hr.2, rfl, rfl, by omega⟩
      · simp [hr] at h

variable {Rid : Type}

theorem gitRequest_ne_panic (ridOf : Bytes → Option Rid) (stream : Bytes) (s : Site) :
    gitRequest ridOf stream ≠ .panic s := by
  unfold gitRequest
  split
  · simp
  · rename_i s' h
    exact absurd h (readPktline_ne_panic stream s')
  · split <;> simp

end HeartwoodModel.Pktline
