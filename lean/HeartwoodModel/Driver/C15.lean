/-! Driver entry for property C15 (stub: not implemented yet). -/
namespace HeartwoodModel.Driver.C15

def run (_args : List String) : String := "unimplemented"

end HeartwoodModel.Driver.C15
