//! C26 — terminal truncation. Runs the REAL `<str as Cell>::truncate` and `Line::truncate` of
//! radicle-term on Unicode strings, under a watchdog.
//!
//! A string travels as the list of its extended grapheme clusters *as measured by the real crates*:
//! token `-` (empty) or clusters joined by `,`; a cluster is `<width>` followed by one `:<w|n><hex>`
//! per scalar value (`w` = `char::is_whitespace`). `run_case` rebuilds the string from the bytes and
//! re-measures it with unicode-segmentation / unicode-display-width / `Cell::width`; a token that does
//! not match what the real crates say is a `bad-case`.
//!
//!   str <s> <width> <delim>        -> ok:<hex of result> | panic
//!   line <items> <width> <delim>   -> ok:<hex>/<hex>… (`~` = no label left) | panic | timeout
//!                                     (<items> = `~` or string tokens joined by `/`)
//!   seq <op>;<op>;…                a history on ONE `Line` value: `n<s>` Line::new, `i<s>` .item, `u<s>` push,
//!                                  `e<s>/<s>…` .extend, `s` .space(), `p<w>` pad, `t<w>|<delim>` truncate, `w` width()
//!                                  -> `w=<n>` per query, `<labels>@<Line::width()>` after each truncation and at the
//!                                  end, joined by `;` (`timeout` / `panic` where the history stopped)
//!   str2|lab2 <s> <w1> <d1> <w2> <d2>   str / Label truncated, and the result truncated again -> ok:<hex>;ok:<hex>
//!
//! Oracle: no panic, termination (watchdog), real `Cell::width` of the result <= width; in histories also
//! `Line::width()` == sum of the measured widths of the labels after every operation, and a value that
//! fits is left alone by a later truncation to the same or a larger width. The additivity
//! hypothesis of the theorems (width of result = sum of the widths of the clusters it was assembled
//! from) is checked on every case and counted (`additive` / `width-not-additive`).

use std::sync::atomic::{AtomicU32, Ordering};
use std::time::Duration;

use radicle_term::cell::Cell;
use radicle_term::Line;
use unicode_segmentation::UnicodeSegmentation as _;
use verif_common::*;

static TIMEOUTS: AtomicU32 = AtomicU32::new(0);

type Job = (Vec<String>, usize, String);
type Reply = Result<(usize, Vec<String>), String>;

/// Watchdog: `Line::truncate` runs on a worker thread; the main thread waits at most 5 s for the answer.
struct Worker {
    jobs: std::sync::mpsc::Sender<Job>,
    results: std::sync::mpsc::Receiver<Reply>,
}

impl Worker {
    fn spawn() -> Worker {
        let (jobs, job_rx) = std::sync::mpsc::channel::<Job>();
        let (res_tx, results) = std::sync::mpsc::channel::<Reply>();
        std::thread::spawn(move || {
            while let Ok((items, width, delim)) = job_rx.recv() {
                let r = catch(|| {
                    let mut line = Line::default();
                    for i in &items {
                        line = line.item(i.as_str());
                    }
                    Line::truncate(&mut line, width, &delim);
                    let w = Line::width(&line);
                    let out: Vec<String> = line.into_iter().map(|l| l.content().to_owned()).collect();
                    (w, out)
                });
                if res_tx.send(r).is_err() {
                    break;
                }
            }
        });
        Worker { jobs, results }
    }
}

thread_local! {
    static WORKER: std::cell::RefCell<Option<Worker>> = const { std::cell::RefCell::new(None) };
    static SEQ_WORKER: std::cell::RefCell<Option<SeqWorker>> = const { std::cell::RefCell::new(None) };
}

/// One operation of a history on a single `Line` value.
#[derive(Clone, Debug)]
enum SeqOp {
    New(String),
    Item(String),
    Push(String),
    Extend(Vec<String>),
    Space,
    Pad(usize),
    Truncate(usize, String),
    Width,
}

/// What the worker reports while it runs a history.
enum SeqMsg {
    /// A piece of the canonical output (if any) and oracle failures found after an operation.
    Step(Option<String>, Vec<(String, String)>),
    Done,
    Panic(String),
}

/// Same watchdog, for histories: the worker reports after every operation, so that what happened before
/// a truncation that never returns is still known.
struct SeqWorker {
    jobs: std::sync::mpsc::Sender<Vec<SeqOp>>,
    results: std::sync::mpsc::Receiver<SeqMsg>,
}

fn contents(line: &Line) -> Vec<String> {
    line.clone().into_iter().map(|l| l.content().to_owned()).collect()
}

fn show_items(items: &[String]) -> String {
    if items.is_empty() {
        "~".to_string()
    } else {
        items.iter().map(|i| hex(i.as_bytes())).collect::<Vec<_>>().join("/")
    }
}

impl SeqWorker {
    fn spawn() -> SeqWorker {
        let (jobs, job_rx) = std::sync::mpsc::channel::<Vec<SeqOp>>();
        let (res_tx, results) = std::sync::mpsc::channel::<SeqMsg>();
        std::thread::spawn(move || {
            while let Ok(ops) = job_rx.recv() {
                let tx = res_tx.clone();
                let r = catch(move || {
                    let mut line = Line::default();
                    for op in ops.into_iter() {
                        let mut piece = None;
                        let mut fit = None;
                        match &op {
                            SeqOp::New(s) => line = Line::new(s.as_str()),
                            SeqOp::Item(s) => line = line.item(s.as_str()),
                            SeqOp::Push(s) => line.push(s.as_str()),
                            SeqOp::Extend(ss) => {
                                line = line.extend(ss.iter().map(|s| radicle_term::Label::new(s.as_str())))
                            }
                            SeqOp::Space => line = line.space(),
                            SeqOp::Pad(w) => Line::pad(&mut line, *w),
                            SeqOp::Truncate(w, d) => {
                                Line::truncate(&mut line, *w, d);
                                fit = Some(*w);
                            }
                            SeqOp::Width => piece = Some(format!("w={}", Line::width(&line))),
                        }
                        // Oracle: what `Line::width()` says is what the labels measure; a truncated line fits.
                        let items = contents(&line);
                        let reported = Line::width(&line);
                        let measured: usize = items.iter().map(|i| Cell::width(i.as_str())).sum();
                        let mut viol = vec![];
                        if reported != measured {
                            viol.push((
                                "line-width-mismatch".to_string(),
                                format!("after {op:?}: Line::width() = {reported} but the labels {items:?} measure {measured}"),
                            ));
                        }
                        if let Some(w) = fit {
                            if measured > w {
                                viol.push((
                                    "line-over-width".to_string(),
                                    format!("after {op:?}: labels {items:?} measure {measured}"),
                                ));
                            }
                            piece = Some(format!("{}@{}", show_items(&items), reported));
                        }
                        tx.send(SeqMsg::Step(piece, viol)).ok();
                    }
                    // final snapshot
                    let items = contents(&line);
                    tx.send(SeqMsg::Step(Some(format!("{}@{}", show_items(&items), Line::width(&line))), vec![])).ok();
                });
                let done = match r {
                    Ok(()) => SeqMsg::Done,
                    Err(msg) => SeqMsg::Panic(msg),
                };
                if res_tx.send(done).is_err() {
                    break;
                }
            }
        });
        SeqWorker { jobs, results }
    }
}

fn parse_seq_op(t: &str) -> Option<SeqOp> {
    let clean = |s: String| if s.contains('\n') || s.contains('\r') { None } else { Some(s) };
    let text = |t: &str| parse_str(t).and_then(|(s, _)| clean(s));
    match t.chars().next()? {
        'w' if t == "w" => Some(SeqOp::Width),
        's' if t == "s" => Some(SeqOp::Space),
        'n' => Some(SeqOp::New(text(&t[1..])?)),
        'i' => Some(SeqOp::Item(text(&t[1..])?)),
        'u' => Some(SeqOp::Push(text(&t[1..])?)),
        'e' => Some(SeqOp::Extend(t[1..].split('/').map(text).collect::<Option<Vec<_>>>()?)),
        'p' => Some(SeqOp::Pad(t[1..].parse().ok()?)),
        't' => {
            let (w, d) = t[1..].split_once('|')?;
            Some(SeqOp::Truncate(w.parse().ok()?, text(d)?))
        }
        _ => None,
    }
}

/// One measured cluster.
#[derive(Clone)]
struct G {
    bytes: Vec<u8>,
    width: usize,
}

/// Token form of a string, from the real crates. `None` if a cluster does not re-measure as itself
/// (`Cell::width(g) != unicode_display_width::width(g)`): the model has one width per cluster.
fn tokenize(s: &str) -> Option<String> {
    if s.is_empty() {
        return Some("-".into());
    }
    let mut out = vec![];
    for g in s.graphemes(true) {
        let w = unicode_display_width::width(g) as usize;
        if Cell::width(g) != w {
            return None;
        }
        let mut t = w.to_string();
        for c in g.chars() {
            let mut buf = [0u8; 4];
            t.push(':');
            t.push(if c.is_whitespace() { 'w' } else { 'n' });
            t.push_str(&hex(c.encode_utf8(&mut buf).as_bytes()));
        }
        out.push(t);
    }
    Some(out.join(","))
}

/// Parse a string token, rebuild the string, and check the token against the real measurements.
fn parse_str(tok: &str) -> Option<(String, Vec<G>)> {
    if tok == "-" {
        return Some((String::new(), vec![]));
    }
    let mut bytes = vec![];
    for g in tok.split(',') {
        let mut parts = g.split(':');
        let _w: usize = parts.next()?.parse().ok()?;
        let mut n = 0;
        for c in parts {
            let b = unhex(c.get(1..)?)?;
            if b.is_empty() {
                return None;
            }
            bytes.extend(b);
            n += 1;
        }
        if n == 0 {
            return None;
        }
    }
    let s = String::from_utf8(bytes).ok()?;
    if tokenize(&s)? != tok {
        return None;
    }
    let gs = s
        .graphemes(true)
        .map(|g| G { bytes: g.as_bytes().to_vec(), width: unicode_display_width::width(g) as usize })
        .collect();
    Some((s, gs))
}

/// Is the real width of `out` the sum of the widths of the clusters it was assembled from
/// (a prefix of `s`'s clusters, possibly followed by `delim`)? `None`: `out` has no such shape.
fn additive(out: &str, s: &str, gs: &[G], delim: &str, dw: usize) -> Option<bool> {
    let real = Cell::width(out);
    if out == s {
        return Some(real == gs.iter().map(|g| g.width).sum::<usize>());
    }
    let mut shaped = false;
    let mut prefix: Vec<u8> = vec![];
    let mut sum = 0;
    for j in 0..=gs.len() {
        if out.as_bytes() == prefix.as_slice() {
            shaped = true;
            if real == sum {
                return Some(true);
            }
        }
        if out.len() == prefix.len() + delim.len() && out.as_bytes().starts_with(&prefix) && out.ends_with(delim) {
            shaped = true;
            if real == sum + dw {
                return Some(true);
            }
        }
        if j < gs.len() {
            prefix.extend(&gs[j].bytes);
            sum += gs[j].width;
        }
    }
    if shaped { Some(false) } else { None }
}

fn run_case(input: &str) -> Outcome {
    let toks: Vec<&str> = input.split(' ').collect();
    let bad = || Outcome::new("bad-case").trivial();
    match toks.as_slice() {
        ["str", s, w, d] => {
            let (Some((s, gs)), Ok(width), Some((delim, dgs))) = (parse_str(s), w.parse::<usize>(), parse_str(d)) else {
                return bad();
            };
            let total: usize = gs.iter().map(|g| g.width).sum();
            let dw: usize = dgs.iter().map(|g| g.width).sum();
            if Cell::width(s.as_str()) != total || Cell::width(delim.as_str()) != dw {
                return bad();
            }
            match catch(|| s.as_str().truncate(width, &delim)) {
                Err(msg) => Outcome::new("panic")
                    .tag("str-panic")
                    .violation("truncate-panic", format!("{s:?}.truncate({width}, {delim:?}) panicked: {msg}")),
                Ok(out) => {
                    let mut o = Outcome::new(format!("ok:{}", hex(out.as_bytes())));
                    let real = Cell::width(out.as_str());
                    if real > width {
                        o = o.violation(
                            "truncate-over-width",
                            format!("{s:?}.truncate({width}, {delim:?}) = {out:?} has width {real}"),
                        );
                    }
                    o = o.tag(if width >= total {
                        "str-unchanged"
                    } else if width < dw {
                        "str-delim-does-not-fit"
                    } else if out.len() < s.len() && !delim.is_empty() && out.ends_with(delim.as_str()) {
                        "str-cut-with-delim"
                    } else {
                        "str-cut-no-delim"
                    });
                    if delim.is_empty() {
                        o = o.tag("empty-delim");
                    }
                    if width == total || width + 1 == total || width == dw || width + 1 == dw {
                        o = o.tag("str-width-at-boundary");
                    }
                    o = match additive(&out, &s, &gs, &delim, dw) {
                        Some(true) => o.tag("additive"),
                        Some(false) => o.tag("width-not-additive"),
                        None => o.tag("shape-unexpected"),
                    };
                    o.nontrivial = width < total;
                    o
                }
            }
        }
        ["line", l, w, d] => {
            let (Ok(width), Some((delim, _))) = (w.parse::<usize>(), parse_str(d)) else { return bad() };
            let mut items = vec![];
            if *l != "~" {
                for t in l.split('/') {
                    let Some((s, _)) = parse_str(t) else { return bad() };
                    // `Label::new` strips these; the model does not know about that.
                    if s.contains('\n') || s.contains('\r') {
                        return bad();
                    }
                    items.push(s);
                }
            }
            if TIMEOUTS.load(Ordering::SeqCst) >= 3 {
                // Three runaway threads are spinning already: do not start more.
                return Outcome::new("not-run").tag("line-not-run").trivial();
            }
            let total: usize = items.iter().map(|i| Cell::width(i.as_str())).sum();
            let reply = WORKER.with(|w| {
                let mut w = w.borrow_mut();
                if w.is_none() {
                    *w = Some(Worker::spawn());
                }
                let worker = w.as_ref().unwrap();
                worker.jobs.send((items.clone(), width, delim.clone())).expect("worker alive");
                let r = worker.results.recv_timeout(Duration::from_secs(5));
                if r.is_err() {
                    // The worker is stuck in `Line::truncate`: abandon it (it keeps spinning) and start afresh.
                    *w = None;
                }
                r
            });
            match reply {
                Err(_) => {
                    TIMEOUTS.fetch_add(1, Ordering::SeqCst);
                    Outcome::new("timeout").tag("line-timeout").violation(
                        "line-truncate-nontermination",
                        format!("Line{items:?}.truncate({width}, {delim:?}) did not finish within 5 s"),
                    )
                }
                Ok(Err(msg)) => Outcome::new("panic").tag("line-panic").violation(
                    "line-truncate-panic",
                    format!("Line{items:?}.truncate({width}, {delim:?}) panicked: {msg}"),
                ),
                Ok(Ok((w, out))) => {
                    let shown = if out.is_empty() {
                        "~".to_string()
                    } else {
                        out.iter().map(|i| hex(i.as_bytes())).collect::<Vec<_>>().join("/")
                    };
                    let mut o = Outcome::new(format!("ok:{shown}"));
                    if w > width {
                        o = o.violation(
                            "line-over-width",
                            format!("Line{items:?}.truncate({width}, {delim:?}) = {out:?} has width {w}"),
                        );
                    }
                    o = o.tag(if total <= width {
                        "line-unchanged"
                    } else if out.len() < items.len() {
                        "line-popped-and-cut"
                    } else {
                        "line-cut-last"
                    });
                    o.nontrivial = total > width;
                    o
                }
            }
        }
        ["seq", ops] => {
            let Some(ops) = ops.split(';').map(parse_seq_op).collect::<Option<Vec<SeqOp>>>() else { return bad() };
            // `Line::new` replaces the value: only meaningful as the first operation.
            if ops.iter().skip(1).any(|o| matches!(o, SeqOp::New(_))) {
                return bad();
            }
            // the model's pad label: spaces are one-byte, one-column, whitespace clusters of their own
            if tokenize("   ").as_deref() != Some("1:w20,1:w20,1:w20") {
                return bad();
            }
            if TIMEOUTS.load(Ordering::SeqCst) >= 3 {
                return Outcome::new("not-run").tag("seq-not-run").trivial();
            }
            let n_trunc = ops.iter().filter(|o| matches!(o, SeqOp::Truncate(..))).count();
            let mut pieces: Vec<String> = vec![];
            let mut viols: Vec<(String, String)> = vec![];
            let mut end = "timeout";
            SEQ_WORKER.with(|w| {
                let mut w = w.borrow_mut();
                if w.is_none() {
                    *w = Some(SeqWorker::spawn());
                }
                let worker = w.as_ref().unwrap();
                worker.jobs.send(ops.clone()).expect("worker alive");
                loop {
                    match worker.results.recv_timeout(Duration::from_secs(5)) {
                        Ok(SeqMsg::Step(p, v)) => {
                            pieces.extend(p);
                            viols.extend(v);
                        }
                        Ok(SeqMsg::Done) => {
                            end = "done";
                            break;
                        }
                        Ok(SeqMsg::Panic(msg)) => {
                            end = "panic";
                            viols.push(("line-truncate-panic".into(), format!("history {ops:?} panicked: {msg}")));
                            break;
                        }
                        Err(_) => break,
                    }
                }
                if end == "timeout" {
                    *w = None;
                }
            });
            if end == "timeout" {
                TIMEOUTS.fetch_add(1, Ordering::SeqCst);
                pieces.push("timeout".into());
                viols.push((
                    "line-truncate-nontermination".into(),
                    format!("history {ops:?} did not finish within 5 s (got as far as {pieces:?})"),
                ));
            } else if end == "panic" {
                pieces.push("panic".into());
            }
            let mut o = Outcome::new(pieces.join(";")).tag(format!("seq-{end}")).tag(format!("seq-truncations-{}", n_trunc.min(3)));
            // The once-only report of a width mismatch is enough.
            viols.dedup_by(|a, b| a.0 == b.0);
            o.violations = viols;
            if ops.iter().any(|x| matches!(x, SeqOp::Pad(_))) {
                o = o.tag("seq-with-pad");
            }
            o.nontrivial = n_trunc >= 2;
            o
        }
        [op @ ("str2" | "lab2"), s, w1, d1, w2, d2] => {
            let (Some((s, _)), Ok(w1), Some((d1, _)), Ok(w2), Some((d2, _))) =
                (parse_str(s), w1.parse::<usize>(), parse_str(d1), w2.parse::<usize>(), parse_str(d2))
            else {
                return bad();
            };
            let is_label = *op == "lab2";
            if is_label && (s.contains('\n') || s.contains('\r')) {
                return bad();
            }
            let cut = |t: &str, w: usize, d: &str| -> Result<String, String> {
                if is_label {
                    catch(|| radicle_term::Label::new(t).truncate(w, d).content().to_owned())
                } else {
                    catch(|| t.truncate(w, d))
                }
            };
            let mut o;
            match cut(&s, w1, &d1) {
                Err(msg) => {
                    o = Outcome::new("panic").violation("truncate-panic", format!("{s:?}.truncate({w1}, {d1:?}) panicked: {msg}"));
                }
                Ok(o1) => match cut(&o1, w2, &d2) {
                    Err(msg) => {
                        o = Outcome::new(format!("ok:{};panic", hex(o1.as_bytes())))
                            .violation("truncate-panic", format!("{o1:?}.truncate({w2}, {d2:?}) panicked: {msg}"));
                    }
                    Ok(o2) => {
                        o = Outcome::new(format!("ok:{};ok:{}", hex(o1.as_bytes()), hex(o2.as_bytes())));
                        for (out, w) in [(&o1, w1), (&o2, w2)] {
                            let real = Cell::width(out.as_str());
                            if real > w {
                                o = o.violation("truncate-over-width", format!("{out:?} has width {real} > {w}"));
                            }
                        }
                        if w2 >= w1 && o2 != o1 {
                            o = o.violation(
                                "truncate-not-idempotent",
                                format!("{o1:?} (fits {w1}) changed to {o2:?} when truncated to {w2}"),
                            );
                        }
                    }
                },
            }
            o.tag(format!("{op}-run"))
        }
        _ => bad(),
    }
}

// ---------------------------------------------------------------------------------------------
// generators

const ALPHABET: &[&str] = &[
    "a", "b", "Z", " ", " ", "\t", "\u{3000}", "\u{a0}", "\u{2003}", "\u{85}", "\u{1680}", "界", "語", "🍍", "🪵",
    "\u{301}", "\u{308}", "\u{200b}", "\u{200d}", "\u{fe0f}", "é", "e\u{301}", "👨\u{200d}👩\u{200d}👧", "❤\u{fe0f}", "🇫", "🇷",
    "🇫🇷", "ᄒ", "ᅡ", "ᆫ", "한", "\u{0}", "\u{7f}", "\u{ad}", "ﷺ", "ｱ", "…", ".", "-",
];

const DELIMS: &[&str] = &["", "", "…", "…", "..", "界", " ", "\u{3000}", "\u{301}", "a\u{301}", "\u{200b}", "🍍", "->", "\u{308}…"];

fn random_char(rng: &mut Rng) -> char {
    loop {
        let c = match rng.below(6) {
            0 => rng.below(0x80),
            1 => rng.range(0x80, 0x7ff),
            2 => rng.range(0x300, 0x36f),     // combining marks
            3 => rng.range(0x2000, 0x206f),   // general punctuation: spaces, zero-width, bidi
            4 => rng.range(0x3000, 0x9fff),   // CJK
            _ => rng.range(0x1f000, 0x1faff), // pictographs
        };
        if let Some(c) = char::from_u32(c as u32) {
            return c;
        }
    }
}

fn random_string(rng: &mut Rng, max: u64, for_line: bool) -> String {
    let n = rng.below(max + 1);
    let mut s = String::new();
    let ws_tail = rng.chance(1, 4);
    for i in 0..n {
        if ws_tail && i + 2 >= n {
            let t: &str = *rng.pick(&[" ", "\u{3000}", "\t", "\u{a0}", "\u{2003}"]);
            s.push_str(t);
        } else if rng.chance(1, 8) {
            s.push(random_char(rng));
        } else {
            let t: &str = *rng.pick(ALPHABET);
            s.push_str(t);
        }
    }
    if for_line {
        s.retain(|c| c != '\n' && c != '\r');
    } else if rng.chance(1, 30) {
        let t: &str = *rng.pick(&["\n", "\r\n", "\r"]);
        s.push_str(t);
    }
    s
}

fn pick_width(rng: &mut Rng, total: usize, dw: usize) -> usize {
    match rng.below(10) {
        0 => 0,
        1 => total,
        2 => total.saturating_sub(1),
        3 => dw,
        4 => dw.saturating_sub(1),
        5 => dw + 1,
        6 => total + 1,
        _ => rng.below(total as u64 + 2) as usize,
    }
}

fn gen_str(rng: &mut Rng) -> Option<String> {
    let s = random_string(rng, 10, false);
    let delim = rng.pick(DELIMS).to_string();
    let w = pick_width(rng, Cell::width(s.as_str()), Cell::width(delim.as_str()));
    Some(format!("str {} {} {}", tokenize(&s)?, w, tokenize(&delim)?))
}

fn gen_line(rng: &mut Rng) -> Option<String> {
    let n = rng.below(5);
    let items: Vec<String> = (0..n).map(|_| random_string(rng, 5, true)).collect();
    let delim = rng.pick(DELIMS).to_string();
    let total: usize = items.iter().map(|i| Cell::width(i.as_str())).sum();
    let w = pick_width(rng, total, Cell::width(delim.as_str()));
    let toks: Option<Vec<String>> = items.iter().map(|i| tokenize(i)).collect();
    let toks = toks?;
    let l = if toks.is_empty() { "~".to_string() } else { toks.join("/") };
    Some(format!("line {} {} {}", l, w, tokenize(&delim)?))
}

/// Delimiters that cannot merge with the cluster before them (no combining mark / pictograph first), so
/// that every intermediate value of a history is segmented as the model assumes.
const SAFE_DELIMS: &[&str] = &["", "", "…", "..", "...", "界", " ", "->"];

fn seq_string(rng: &mut Rng) -> String {
    match rng.below(6) {
        0 => "🍍🍍".into(),
        1 => "ab".into(),
        2 => format!("a{}", rng.pick(&[" ", "  ", "\u{3000}", " \u{3000} "])),
        _ => random_string(rng, 4, true).replace('\u{200d}', ""),
    }
}

fn gen_seq(rng: &mut Rng) -> Option<String> {
    let mut ops: Vec<String> = vec![];
    let mut total = 0usize;
    let n_build = rng.range(1, 4);
    for k in 0..n_build {
        let s = seq_string(rng);
        total += Cell::width(s.as_str());
        let t = tokenize(&s)?;
        if k == 0 && rng.chance(3, 4) {
            ops.push(format!("n{t}"));
        } else {
            match rng.below(5) {
                0 => ops.push(format!("u{t}")),
                1 => {
                    let s2 = seq_string(rng);
                    total += Cell::width(s2.as_str());
                    ops.push(format!("e{t}/{}", tokenize(&s2)?));
                }
                2 => {
                    total += 1;
                    ops.push(format!("i{t}"));
                    ops.push("s".into());
                }
                _ => ops.push(format!("i{t}")),
            }
        }
        if rng.chance(1, 8) {
            ops.push("w".into());
        }
    }
    if rng.chance(1, 3) {
        let w = total + rng.below(9) as usize;
        total = total.max(w);
        ops.push(format!("p{w}"));
    }
    let n_trunc = rng.range(1, 3);
    let mut w = total;
    for k in 0..n_trunc {
        let d: &str = *rng.pick(SAFE_DELIMS);
        // mostly decreasing widths, with small steps (the slack a cut can leave is 1-3 columns)
        w = match rng.below(8) {
            0 => rng.below(total as u64 + 3) as usize, // non-monotone
            1 => 0,
            2 => w,
            3 | 4 => w.saturating_sub(1 + rng.below(3) as usize),
            _ => rng.below(w as u64 + 1) as usize,
        };
        ops.push(format!("t{w}|{}", tokenize(d)?));
        if rng.chance(1, 2) {
            ops.push("w".into());
        }
        if k + 1 < n_trunc && rng.chance(1, 6) {
            let p = w + rng.below(6) as usize;
            ops.push(format!("p{p}"));
            w = p;
        }
    }
    Some(format!("seq {}", ops.join(";")))
}

fn gen_twice(rng: &mut Rng) -> Option<String> {
    let is_label = rng.bool();
    let s = if is_label { random_string(rng, 8, true) } else { random_string(rng, 8, false) }.replace('\u{200d}', "");
    let (d1, d2): (&str, &str) = (*rng.pick(SAFE_DELIMS), *rng.pick(SAFE_DELIMS));
    let total = Cell::width(s.as_str());
    let w1 = pick_width(rng, total, Cell::width(d1));
    let w2 = match rng.below(4) {
        0 => w1,
        1 => w1 + rng.below(3) as usize,
        _ => rng.below(w1 as u64 + 1) as usize,
    };
    Some(format!(
        "{} {} {} {} {} {}",
        if is_label { "lab2" } else { "str2" },
        tokenize(&s)?,
        w1,
        tokenize(d1)?,
        w2,
        tokenize(d2)?
    ))
}

/// All strings of length `0..=max` over a small alphabet.
fn strings(alphabet: &[char], max: usize) -> Vec<String> {
    let mut all = vec![String::new()];
    let mut last = vec![String::new()];
    for _ in 0..max {
        let mut next = Vec::new();
        for s in &last {
            for c in alphabet {
                let mut s = s.clone();
                s.push(*c);
                next.push(s);
            }
        }
        all.extend(next.iter().cloned());
        last = next;
    }
    all
}

fn main() {
    let mut ctx = Ctx::from_args("C26");
    if !ctx.run_fixed(run_case) {
        // The generated cases get their own budget of runaway threads, so that they are exercised even when
        // corpus cases have already timed out.
        TIMEOUTS.store(0, Ordering::SeqCst);
        let mut rng = ctx.rng();
        // Exhaustive part: every string up to a length over {a, ' ', U+3000, 界, U+0301}, widths 0..6,
        // delimiters {"", "…", "..", "界"}; two-label lines of shorter strings.
        let alphabet = ['a', ' ', '\u{3000}', '界', '\u{301}'];
        let delims = ["", "…", "..", "界"];
        let mut skipped = 0u64;
        for s in strings(&alphabet, ctx.size(3, 5) as usize) {
            for width in 0..6 {
                for delim in delims {
                    match (tokenize(&s), tokenize(delim)) {
                        (Some(st), Some(dt)) => {
                            let input = format!("str {st} {width} {dt}");
                            let o = run_case(&input);
                            ctx.count("enumerated-str");
                            ctx.record(&input, o);
                        }
                        _ => skipped += 1,
                    }
                }
            }
        }
        let items = strings(&alphabet, ctx.size(2, 3) as usize);
        for a in items.iter().step_by(ctx.size(2, 3) as usize) {
            for b in items.iter() {
                for width in 0..6 {
                    for delim in ["", "…", "界"] {
                        match (tokenize(a), tokenize(b), tokenize(delim)) {
                            (Some(at), Some(bt), Some(dt)) => {
                                let input = format!("line {at}/{bt} {width} {dt}");
                                let o = run_case(&input);
                                ctx.count("enumerated-line");
                                ctx.record(&input, o);
                            }
                            _ => skipped += 1,
                        }
                    }
                }
            }
        }
        // Histories on one value, exhaustively for small shapes: a label (or two), optionally padded,
        // truncated twice.
        let shapes = strings(&['a', ' ', '\u{3000}', '界'], 2);
        for a in shapes.iter() {
            for pad in [0usize, 3] {
                for w1 in 0..6usize {
                    for w2 in 0..=w1 {
                        for delim in ["", "…", "..."] {
                            let (Some(at), Some(dt)) = (tokenize(a), tokenize(delim)) else {
                                skipped += 1;
                                continue;
                            };
                            let padop = if pad > 0 { format!(";p{}", Cell::width(a.as_str()) + pad) } else { String::new() };
                            let input = format!("seq n{at}{padop};t{w1}|{dt};w;t{w2}|{dt};w");
                            let o = run_case(&input);
                            ctx.count("enumerated-seq");
                            ctx.record(&input, o);
                        }
                    }
                }
            }
        }
        for _ in 0..ctx.size(6_000, 150_000) {
            let input = if rng.chance(2, 3) { gen_seq(&mut rng) } else { gen_twice(&mut rng) };
            match input {
                Some(input) => {
                    let o = run_case(&input);
                    ctx.record(&input, o);
                }
                None => skipped += 1,
            }
        }
        for _ in 0..ctx.size(12_000, 400_000) {
            let input = if rng.chance(3, 10) { gen_line(&mut rng) } else { gen_str(&mut rng) };
            match input {
                Some(input) => {
                    let o = run_case(&input);
                    ctx.record(&input, o);
                }
                None => skipped += 1,
            }
        }
        ctx.note("cases skipped because a cluster does not re-measure as itself", skipped);
    }
    ctx.finish(
        "exhaustive: every string of length <= 3 (thorough 5) over {a, space, U+3000, 界, U+0301} x widths 0..5 x \
         delimiters {\"\", …, .., 界}, and two-label lines of shorter strings; random: strings of 0-10 pieces from an \
         alphabet of ASCII, single/multi-byte whitespace, wide, zero-width, combining, ZWJ sequences, regional indicators, \
         conjoining jamo, controls and random scalar values (often with a whitespace tail), 14 delimiters incl. empty, \
         whitespace, wide and combining-initial ones, widths at 0, total, total-1, delimiter width +-1 and uniform; lines \
         of 0-4 such labels. Histories on ONE value: a Line built by new/item/push/extend/space/pad, then 1-3 \
         truncations (mostly decreasing widths, steps of 1-3 columns, also non-monotone and re-padded in between) with \
         width() queries in between, exhaustively for 1-2 character labels x pad x w1 >= w2 x 3 delimiters; str/Label \
         truncated twice. Non-trivial = the text is wider than the requested width (something must be cut) / a history \
         with at least two truncations; distinct by input text",
        false,
    );
}
