import HeartwoodModel.Lemmas.Fetch
import HeartwoodModel.Model.FetchWorker
/-!
# C02 — Fetches respect the delegate threshold and never rewind delegate sigrefs

Property theorems about `Model/Fetch.lean` (`fetch env cfg L A = (outcome, post)`), the model shared with C01.

* `delegate_sigrefs_monotone` (from `sigrefs_monotone`, which holds for *every* namespace): a stored
  `rad/sigrefs` is, after any fetch and for every outcome, the same commit or one that git ancestry reports as
  `Ahead` of it — never behind, never diverged, never deleted.
* `below_threshold_fails_unchanged`: if fewer delegates than the threshold in force have valid signed refs
  (`delegateValid`: stored and not invalidated by this fetch, or validated by this fetch), the fetch does not
  succeed and storage is unchanged; `failed_unchanged`: `Failed` always means unchanged.
* `threshold_arith`: the threshold in force is the identity threshold, minus one iff the local node is a
  delegate; blocked delegates — and, on `pull`, the local node — are not among the delegates that count.
-/
set_option linter.unusedSimpArgs false
set_option linter.unusedVariables false
namespace HeartwoodModel.Fetch

/-- **A fetch never moves a `rad/sigrefs` reference backwards or sideways** — of any namespace, for every
input and every outcome (success, failure, error with partial application). -/
theorem sigrefs_monotone (env : Env) (hw : EnvWf env) (cfg : Config) (L A : Refdb) (k : Key) (c : Oid) (hc : L.get (k, env.nSig) = some c) :
    ∃ c', (fetch env cfg L A).2.get (k, env.nSig) = some c' ∧ (c' = c ∨ env.anc c c' = some .ahead) := by
  rcases fetch_cases env cfg L A with ⟨h, _⟩ | ⟨anchor, stage, sr, l, _, hs, hsr, hl, _, hpost, _⟩
  · exact ⟨c, by rw [h]; exact hc, Or.inl rfl⟩
  · rw [hpost]
    obtain ⟨hsorted, hfacts⟩ := loop_remotes_spec hsr hl
    exact sigrefs_monotone_aux env hw l.remotes hsorted hfacts k c hc

/-- **C02, first sentence**: for every delegate of the identity document that anchors the fetch (blocked or
not, local or not) with a stored signed-refs commit `c`, the commit stored after the fetch is `c` or a commit
`Ahead` of `c`. -/
theorem delegate_sigrefs_monotone (env : Env) (hw : EnvWf env) (cfg : Config) (L A : Refdb)
    (anchor : Doc) (_ha : anchorOf cfg = some anchor)
    (d : Key) (_hd : d ∈ anchor.delegates) (c : Oid) (hc : L.get (d, env.nSig) = some c) :
    ∃ c', (fetch env cfg L A).2.get (d, env.nSig) = some c' ∧ (c' = c ∨ env.anc c c' = some .ahead) :=
  sigrefs_monotone env hw cfg L A d c hc

/-- The result of the special-refs stage of the fetch (which references the serving side offered, and which
remotes' signed refs are loaded); empty if the stage itself fails. -/
def stageOf (env : Env) (cfg : Config) (anchor : Doc) (A : Refdb) : Stage :=
  match specialStage env cfg (blockedOf cfg) (delegatesOf cfg anchor) (thresholdOf cfg anchor) A with
  | .ok stage => stage
  | .error _ => { sp := [], loadKeys := [] }

/-- **C02, second sentence**: if fewer delegates than the threshold in force have valid signed refs — in the
reading fixed by `delegateValid`: stored and not invalidated by this fetch, or validated by this fetch; a
delegate whose offered data fails a check in this fetch does not count even if valid refs are stored for it —
the fetch does not report success and local storage is unchanged. -/
theorem below_threshold_fails_unchanged (env : Env) (cfg : Config) (L A : Refdb) (anchor : Doc)
    (ha : anchorOf cfg = some anchor) (hnd : anchor.delegates.Nodup)
    (hlt : (validDelegates env L (stageOf env cfg anchor A) (blockedOf cfg) (delegatesOf cfg anchor)).length
      < thresholdOf cfg anchor) :
    (fetch env cfg L A).2 = L ∧ ∀ rs, (fetch env cfg L A).1 ≠ .success rs := by
  rcases fetch_cases env cfg L A with h | ⟨anchor', stage, sr, l, ha', hs, hsr, hl, hge, _, _⟩
  · exact h
  · exfalso
    rw [ha] at ha'; injection ha' with ha'; subst ha'
    have hstage : stageOf env cfg anchor A = stage := by unfold stageOf; rw [hs]
    rw [hstage] at hlt
    obtain ⟨hload, hsorted⟩ := remoteRefsLoad_spec stage.loadKeys [] sr hsr (by simp) List.Pairwise.nil
    obtain ⟨hcomp, _, hkeys⟩ := remoteRefsLoad_complete stage.loadKeys [] sr hsr
    have hnd' : (delegatesOf cfg anchor).Nodup := hnd.filter _
    obtain ⟨hsub, hvnd⟩ := validateAll_valid_exact
      (fun x => delegateValid env L stage (blockedOf cfg) (delegatesOf cfg anchor) x = true) sr _ l hl hsorted
      (by
        intro e he hg
        have hin : stage.loadKeys.contains e.1 = true := by
          rcases hkeys e he with h | ⟨v, h⟩
          · simpa using h
          · simp at h
        have hld := hload e he
        simp only [delegateValid, hin, if_true, hld]
        cases hv : verdictOf env L stage.sp (blockedOf cfg) (delegatesOf cfg anchor) e.1 e.2.1 e.2.2 <;>
          simp_all [verdictGood])
      (by
        intro x hx
        simp only [storedDelegates, List.mem_filter] at hx
        refine ⟨fun _ => hx.2, fun hnot => ?_⟩
        simp only [delegateValid]
        split
        · rename_i hin
          rcases hcomp x (by simpa using hin) with hnone | ⟨v, hv⟩
          · have := cachedLoad_none_not_stored hnone
            rw [this] at hx; simp at hx
          · exact absurd ⟨(x, v), hv, rfl⟩ hnot
        · exact hx.2)
      (by
        intro x hx
        simp only [storedDelegates, List.mem_filter] at hx
        simpa using hx.1)
      (hnd'.filter _)
    have := length_le_of_subset_nodup hvnd (m := validDelegates env L stage (blockedOf cfg) (delegatesOf cfg anchor))
      (by
        intro x hx
        obtain ⟨hg, hd⟩ := hsub x hx
        unfold validDelegates
        rw [List.mem_filter]
        exact ⟨by simpa using hd, hg⟩)
    omega

/-- `FetchResult::Failed` leaves local storage unchanged. -/
theorem failed_unchanged (env : Env) (cfg : Config) (L A : Refdb)
    (h : (fetch env cfg L A).1 = .failed) : (fetch env cfg L A).2 = L := by
  rcases fetch_cases env cfg L A with ⟨h', _⟩ | ⟨_, _, _, _, _, _, _, _, _, _, hout⟩
  · exact h'
  · rcases hout with ho | ho <;> (rw [ho] at h; cases h)

/-- **Threshold arithmetic**: the threshold in force is the identity threshold minus one iff the local node
is a delegate of the anchoring document; the delegates that count are those of the document that are not
blocked; on `pull` the local node is never among them. -/
theorem threshold_arith (cfg : Config) (anchor : Doc) :
    (cfg.localKey ∈ anchor.delegates → thresholdOf cfg anchor = anchor.threshold - 1) ∧
    (cfg.localKey ∉ anchor.delegates → thresholdOf cfg anchor = anchor.threshold) ∧
    (∀ d, d ∈ delegatesOf cfg anchor ↔ d ∈ anchor.delegates ∧ d ∉ blockedOf cfg) ∧
    (∀ d, d ∈ cfg.blocked → d ∈ blockedOf cfg) ∧
    (cfg.isClone = false → cfg.localKey ∉ delegatesOf cfg anchor) := by
  refine ⟨?_, ?_, ?_, ?_, ?_⟩
  · intro h; simp [thresholdOf, h]
  · intro h; simp [thresholdOf, h]
  · intro d; simp [delegatesOf, List.mem_filter]
  · intro d hd; unfold blockedOf; split
    · exact hd
    · exact List.mem_cons_of_mem _ hd
  · intro hc hin
    simp only [delegatesOf, List.mem_filter, blockedOf, hc] at hin
    simp at hin

/-! ## One level up: `worker::fetch::Handle::fetch` (DESIGN §6 C02, observation ii) -/

section Worker
open HeartwoodModel.FetchWorker

/-- **C02 at the node level**: a fetch that does not succeed leaves the presence of the repository in the
node's storage as it was, for every outcome of `radicle_fetch` (a failed clone leaves nothing behind, a
failed pull keeps the repository). Together with `below_threshold_fails_unchanged` / `failed_unchanged` (the
references of an existing repository are untouched) this is "reports failure and leaves local storage
unchanged" one level above the anchored API. -/
theorem worker_unsuccessful_unchanged (existed : Bool) (o : Outcome)
    (h : (workerFetch existed o).success = false) : (workerFetch existed o).dirPresent = existed := by
  cases existed <;> cases o <;> simp_all [workerFetch, isSuccess]

/-- **Regression for the repaired defect c80785f** (oracle class `failed-clone-leaves-repository`, confirmed
through two real nodes before the repair): the old worker renamed the temporary clone into storage before
inspecting `FetchResult::Failed`, so a clone below the delegate threshold reported failure yet left a
repository directory behind (`Storage::contains` then returned an error for that rid). -/
theorem worker_failed_clone_regression :
    (workerFetchBefore_c80785f false .failed).success = false ∧
    (workerFetchBefore_c80785f false .failed).dirPresent = true ∧
    (workerFetch false .failed).dirPresent = false := by
  decide

/-- Old and current worker differ only in that case. -/
theorem worker_agrees_before_c80785f (existed : Bool) (o : Outcome) (hex : ¬ (existed = false ∧ o = .failed)) :
    workerFetch existed o = workerFetchBefore_c80785f existed o := by
  cases existed <;> cases o <;> simp_all [workerFetchBefore_c80785f, workerFetch, isSuccess]

end Worker

/-! ## Non-vacuity -/

namespace Witness2

/-- names: 0 = `refs/rad/id`, 1 = `refs/rad/sigrefs`, 2 = `refs/heads/master`; delegates 0 and 1, threshold 2;
each delegate's namespace: `rad/sigrefs` (commit 20 + 100·key) and `master`. -/
def blobOf (m : Oid) : Blob := { refs := [(2, m)], sigOk := true, idRoot := .absent }

def env : Env :=
  { nId := 0, nSig := 1, isRad := fun n => decide (n ≤ 1),
    blob := fun k t =>
      if k = 0 ∧ t = 20 then some (blobOf 30) else if k = 0 ∧ t = 21 then some (blobOf 31)
      else if k = 1 ∧ t = 120 then some (blobOf 130)
      else if k = 1 ∧ t = 121 then some { refs := [(2, 131)], sigOk := false, idRoot := .absent }
      else none,
    anc := fun a b => if (a = 20 ∧ b = 21) ∨ (a = 30 ∧ b = 31) then some .ahead
                      else if (a = 21 ∧ b = 20) then some .behind else some .diverged }

def doc : Doc := { delegates := [0, 1], threshold := 2 }
def cfg (clone : Bool) : Config :=
  { localDoc := if clone then none else some doc, advDoc := some doc, localKey := 5, isClone := clone,
    scope := none, blocked := [], refsAt := none }
def L : Refdb := [((0, 1), 21), ((0, 2), 31), ((1, 1), 120), ((1, 2), 130)]

theorem envWf : EnvWf env := by
  refine ⟨by decide, by decide, by decide, ?_⟩
  intro k t b h
  simp only [env] at h
  repeat' (split at h)
  all_goals first | (injection h with h; subst h; simp [blobOf]) | cases h

end Witness2

open Witness2 in
/-- Monotonicity is exercised: the server offers delegate 0's OLDER commit 20 (behind the stored 21): the
fetch succeeds, and `rad/sigrefs` of delegate 0 stays at 21. -/
example : EnvWf env ∧
    L.get (0, env.nSig) = some 21 ∧
    fetch env (cfg false) L [((0, 1), 20), ((1, 1), 120)] = (.success [1], L) := by
  refine ⟨envWf, by decide, rfl⟩

open Witness2 in
/-- The hypothesis of `below_threshold_fails_unchanged` is satisfiable: a clone (nothing stored) in which
delegate 1 is offered only with an invalid signature cannot reach the threshold 2. -/
example : anchorOf (cfg true) = some doc ∧ doc.delegates.Nodup ∧
    (validDelegates env [] (stageOf env (cfg true) doc [((0, 1), 20), ((1, 1), 121)]) (blockedOf (cfg true))
      (delegatesOf (cfg true) doc)).length < thresholdOf (cfg true) doc ∧
    (fetch env (cfg true) [] [((0, 1), 20), ((1, 1), 121)]).1 = .error := by
  refine ⟨rfl, by decide, by decide, rfl⟩

open Witness2 in
/-- … and with delegate 1 not offered at all the outcome is `Failed`. -/
example : (validDelegates env [] (stageOf env (cfg true) doc [((0, 0), 9), ((0, 1), 20)]) (blockedOf (cfg true))
      (delegatesOf (cfg true) doc)).length < thresholdOf (cfg true) doc ∧
    fetch env (cfg true) [] [((0, 0), 9), ((0, 1), 20)] = (.failed, []) := by
  refine ⟨by decide, rfl⟩

open Witness2 in
/-- The shape of the seeded change `C02-late-stored-delegates`: pull, delegates {0, 1}, threshold 2, both
stored; delegate 0 is offered ahead and valid, delegate 1 is stored but the server offers nothing for it
(`MissingRadSigRefs`; a bare `rad/id` of some remote 7 gets the advertisement past `ensure_threshold`): only ONE delegate is valid in this fetch, the hypothesis of
`below_threshold_fails_unchanged` holds, the fetch is `Failed` and storage is unchanged. -/
example : L.get (0, env.nSig) = some 21 ∧ L.get (1, env.nSig) = some 120 ∧
    validDelegates env [((0, 1), 20), ((0, 2), 30), ((1, 1), 120), ((1, 2), 130)]
      (stageOf env (cfg false) doc [((0, 1), 21), ((7, 0), 5)]) (blockedOf (cfg false)) (delegatesOf (cfg false) doc) = [0] ∧
    fetch env (cfg false) [((0, 1), 20), ((0, 2), 30), ((1, 1), 120), ((1, 2), 130)] [((0, 1), 21), ((7, 0), 5)] =
      (.failed, [((0, 1), 20), ((0, 2), 30), ((1, 1), 120), ((1, 2), 130)]) := by
  refine ⟨by decide, by decide, by decide, rfl⟩

end HeartwoodModel.Fetch
