/-!
# Base-58 (bitcoin alphabet) on byte lists — model of `base_x::{encode, decode}` as used by
`multibase::Base::Base58Btc` (C21)

`base-x` converts through a big integer: the value of the big-endian byte string is written in base 58
with the minimal number of digits; every *leading* zero byte becomes one leading `'1'` (digit 0), and
back. The model computes the same function with `Nat` arithmetic:

* `ofDigitsLE b ds` — value of a little-endian digit list;
* `toDigitsLE b fuel n` — minimal little-endian digits of `n` (`none` = fuel exhausted; the fuel used
  below is provably sufficient: `Props/C21.lean`, `b58encode_total` / `b58decode_total`).

Bytes and characters are `Nat`s (`< 256`; characters are ASCII codes).
-/
namespace HeartwoodModel.Base58

abbrev Bytes := List Nat

/-- Value of a little-endian digit list. -/
def ofDigitsLE (b : Nat) : List Nat → Nat
  | [] => 0
  | d :: ds => d + b * ofDigitsLE b ds

/-- Minimal little-endian digits of `n` in base `b` (empty for 0). -/
def toDigitsLE (b : Nat) : Nat → Nat → Option (List Nat)
  | _, 0 => some []
  | 0, _ + 1 => none
  | fuel + 1, n + 1 =>
    match toDigitsLE b fuel ((n + 1) / b) with
    | none => none
    | some ds => some ((n + 1) % b :: ds)

/-- The alphabet `123456789ABCDEFGHJKLMNPQRSTUVWXYZabcdefghijkmnopqrstuvwxyz` (no `0 I O l`). -/
def b58Char (d : Nat) : Nat :=
  if d < 9 then 0x31 + d            -- '1'..'9'
  else if d < 17 then 0x41 + (d - 9)   -- 'A'..'H'
  else if d < 22 then 0x4a + (d - 17)  -- 'J'..'N'
  else if d < 33 then 0x50 + (d - 22)  -- 'P'..'Z'
  else if d < 44 then 0x61 + (d - 33)  -- 'a'..'k'
  else 0x6d + (d - 44)                 -- 'm'..'z'

/-- `U8Decoder::carry`: index of a character in the alphabet. -/
def b58Digit? (c : Nat) : Option Nat :=
  if 0x31 ≤ c ∧ c ≤ 0x39 then some (c - 0x31)
  else if 0x41 ≤ c ∧ c ≤ 0x48 then some (c - 0x41 + 9)
  else if 0x4a ≤ c ∧ c ≤ 0x4e then some (c - 0x4a + 17)
  else if 0x50 ≤ c ∧ c ≤ 0x5a then some (c - 0x50 + 22)
  else if 0x61 ≤ c ∧ c ≤ 0x6b then some (c - 0x61 + 33)
  else if 0x6d ≤ c ∧ c ≤ 0x7a then some (c - 0x6d + 44)
  else none

def digits? : Bytes → Option (List Nat)
  | [] => some []
  | c :: cs =>
    match b58Digit? c, digits? cs with
    | some d, some ds => some (d :: ds)
    | _, _ => none

/-- Number of leading zeros. -/
def leadingZeros : List Nat → Nat
  | 0 :: xs => leadingZeros xs + 1
  | _ => 0

/-- The list without its leading zeros. -/
def dropZeros : List Nat → List Nat
  | 0 :: xs => dropZeros xs
  | xs => xs

/-- `base_x::encode(BASE58_BITCOIN, bytes)`; `none` = out of fuel (never: `b58encode_total`). -/
def b58encode (bs : Bytes) : Option Bytes :=
  let rest := dropZeros bs
  match toDigitsLE 58 (2 * rest.length) (ofDigitsLE 256 rest.reverse) with
  | none => none
  | some ds => some (List.replicate (leadingZeros bs) 0x31 ++ ds.reverse.map b58Char)

inductive DecodeResult
  | ok (bs : Bytes)
  | invalid          -- a character outside the alphabet (`DecodeError`)
  | fuel             -- never (`b58decode_total`)
  deriving Repr, DecidableEq

/-- `base_x::decode(BASE58_BITCOIN, s)` on the bytes of `s`. -/
def b58decode (s : Bytes) : DecodeResult :=
  match digits? s with
  | none => .invalid
  | some ds =>
    let rest := dropZeros ds
    match toDigitsLE 256 rest.length (ofDigitsLE 58 rest.reverse) with
    | none => .fuel
    | some bs => .ok (List.replicate (leadingZeros ds) 0 ++ bs.reverse)

end HeartwoodModel.Base58
