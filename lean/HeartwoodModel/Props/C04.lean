import HeartwoodModel.Model.Identity
import HeartwoodModel.Lemmas.Identity
/-!
# C04 — Identity revisions need a majority of valid delegate signatures

Theorems about `Model/Identity.lean` (the CURRENT `/repo`: `Identity::op` atomic, `RevisionAccept`
checks before it records). `V` is the Ed25519 verification predicate — a parameter, universally
quantified in every theorem. `MajoritySigned V d r` = a duplicate-free list of at least
`|delegates(d)|/2 + 1` delegates of `d`, each with a recorded `Accept` verdict on `r` whose signature
verifies (`V`) over `r`'s blob.

`Inv V s` (Lemmas/Identity.lean) is the invariant of evaluation; it holds after `from_root` and is
preserved by every applied op (below), so the per-action theorems apply to every reachable state.
-/
set_option linter.unusedVariables false
namespace HeartwoodModel.Identity
open HeartwoodModel.Cob

/-! ### single action -/

/-- **current_needs_majority** (per action, any invariant state, any action / author / `V`).
Whenever an action moves `current` from `r0` to `r1`: `r1` is a live revision whose parent is `r0`, and a
strict majority of the delegates of `r0`'s document have each recorded a valid signature over `r1`'s blob.
(`Fresh`: for a `Revision` action the op's id is a new id.) -/
theorem current_needs_majority {V : Key → Sig → Blob → Bool} {s s' : Identity} {a : Action} {entry : Id}
    {author : Key} (inv : Inv V s) (hf : (∃ t d p sg, a = .revision t d p sg) → Fresh s entry)
    (h : action V s a entry author = .ok s') (hne : s'.current ≠ s.current) :
    ∃ c r1, get? s.current s.revisions = some (some c) ∧ get? s'.current s'.revisions = some (some r1) ∧
      r1.parent = some s.current ∧ MajoritySigned V c.doc r1 := by
  rcases (action_step inv hf h).trans with h1 | h1
  · exact absurd h1 hne
  · exact h1

/-- **current_is_stable** (per action): an accepted revision — in particular the current one — is never
redacted, edited or otherwise modified, and `current` only ever moves to a revision whose parent is the
previous `current`. -/
theorem current_is_stable {V : Key → Sig → Blob → Bool} {s s' : Identity} {a : Action} {entry : Id}
    {author : Key} (inv : Inv V s) (hf : (∃ t d p sg, a = .revision t d p sg) → Fresh s entry)
    (h : action V s a entry author = .ok s') :
    (∀ id r, get? id s.revisions = some (some r) → r.state = .accepted → get? id s'.revisions = some (some r)) ∧
    (s'.current ≠ s.current → ∃ r1, get? s'.current s'.revisions = some (some r1) ∧ r1.parent = some s.current) := by
  have st := action_step inv hf h
  refine ⟨st.stable, fun hne => ?_⟩
  obtain ⟨c, r1, _, h2, h3, _⟩ := current_needs_majority inv hf h hne
  exact ⟨r1, h2, h3⟩

/-! ### whole operations -/

/-- **non_delegate_no_effect**: an op whose author is not a delegate of the current document leaves the
identity state unchanged (whether it is rejected, or — with concurrent entries — skipped action by
action). -/
theorem non_delegate_no_effect {V : Key → Sig → Blob → Bool} {s s' : Identity} {o : Op}
    (hnd : ∀ c, s.currentRev = some c → c.doc.isDelegate o.author = false) (h : op V s o = .ok s') :
    s' = s := by
  unfold Identity.op at h
  generalize o.actions = as at h
  induction as with
  | nil => simp only [applyActions] at h; cases h; rfl
  | cons a as ih =>
    simp only [applyActions] at h
    rcases action_non_delegate (V := V) (a := a) (entry := o.id) hnd with he | he
    · rw [he] at h
      simp only at h
      split at h
      · exact ih h
      · cases h
    · rw [he] at h
      cases h

theorem non_delegate_step {V : Key → Sig → Blob → Bool} {s : Identity} {o : Op}
    (hnd : ∀ c, s.currentRev = some c → c.doc.isDelegate o.author = false) : step V s o = s := by
  unfold Identity.step
  cases hop : op V s o with
  | error _ => rfl
  | ok s' => exact non_delegate_no_effect hnd hop

def Action.isRevision : Action → Bool
  | .revision _ _ _ _ => true
  | _ => false

/-- The op contains at most one `Revision` action (the real code only `debug_assert!`s that the op's id
is not yet a revision id; see `overwrite_counterexample`). -/
def SingleRevision (o : Op) : Prop := (o.actions.filter Action.isRevision).length ≤ 1

theorem adopt_heads {s s' : Identity} {cur : Revision} {id : Id} (h : adopt s cur id = .ok s') :
    s'.heads = s.heads := by
  rcases adopt_spec h with h1 | ⟨_, _, r0, _, h1⟩ <;> subst h1 <;> rfl

theorem adopt_rev_none {s s' : Identity} {cur : Revision} {id e : Id} (h : adopt s cur id = .ok s')
    (hne : e ≠ id) (hn : get? e s.revisions = none) : get? e s'.revisions = none := by
  rcases adopt_spec h with h1 | ⟨_, _, r0, _, h1⟩ <;> subst h1
  · exact hn
  · show get? e (adoptedRevisions s.revisions id r0) = none
    unfold adoptedRevisions
    rw [get?_map_snd, get?_ins_ne _ _ hne, hn]; rfl

/-- Freshness of an id `e` is kept by every action that is not a `Revision` action of the entry `e`
itself. -/
theorem Fresh.action {V : Key → Sig → Blob → Bool} {s s' : Identity} {a : Action} {e entry : Id} {author : Key}
    (hf : Fresh s e) (hnr : a.isRevision = false ∨ e ≠ entry) (h : action V s a entry author = .ok s') :
    Fresh s' e := by
  unfold Identity.action at h
  split at h
  · cases h
  · rename_i cur hcr
    split at h
    · cases h
    · cases a with
      | revision t d p sg =>
        have hne : e ≠ entry := by
          rcases hnr with h1 | h1
          · cases h1
          · exact h1
        simp only at h
        unfold actRevision at h
        repeat' split at h
        all_goals first | cases h | skip
        · have hh := adopt_heads h
          have hrv := adopt_rev_none h hne
            (by show get? e (ins entry _ s.revisions) = none; rw [get?_ins_ne _ _ hne]; exact hf.rev)
          refine ⟨hrv, fun k hk => ?_⟩
          rw [hh] at hk
          have hk' : get? k (ins author entry s.heads) = some e := hk
          rw [get?_ins] at hk'
          split at hk'
          · cases hk'; exact hne rfl
          · exact hf.head k hk'
        · refine ⟨by show get? e (ins entry _ s.revisions) = none; rw [get?_ins_ne _ _ hne]; exact hf.rev,
            fun k hk => ?_⟩
          have hk' : get? k (ins author entry s.heads) = some e := hk
          rw [get?_ins] at hk'
          split at hk'
          · cases hk'; exact hne rfl
          · exact hf.head k hk'
      | revisionAccept id sig =>
        simp only at h
        unfold actAccept at h
        split at h
        · cases h
        · cases h
        · rename_i r hr
          have hne : e ≠ id := by intro hh; subst hh; have := hf.rev; rw [hr] at this; cases this
          repeat' split at h
          all_goals first | cases h | skip
          have hh := adopt_heads h
          have hrv := adopt_rev_none h hne
            (by show get? e (ins id _ s.revisions) = none; rw [get?_ins_ne _ _ hne]; exact hf.rev)
          refine ⟨hrv, fun k hk => ?_⟩
          rw [hh] at hk
          have hk' : get? k (ins author id s.heads) = some e := hk
          rw [get?_ins] at hk'
          split at hk'
          · cases hk'; exact hne rfl
          · exact hf.head k hk'
      | revisionReject id =>
        simp only at h
        unfold actReject at h
        split at h
        · cases h
        · cases h
        · rename_i r hr
          have hne : e ≠ id := by intro hh; subst hh; have := hf.rev; rw [hr] at this; cases this
          repeat' split at h
          all_goals first | cases h | skip
          all_goals exact ⟨by show get? e (ins id _ s.revisions) = none; rw [get?_ins_ne _ _ hne]; exact hf.rev, hf.head⟩
      | revisionEdit id t =>
        simp only at h
        unfold actEdit at h
        split at h
        · cases h
        · split at h
          · cases h
          · cases h
          · rename_i r hr
            have hne : e ≠ id := by intro hh; subst hh; have := hf.rev; rw [hr] at this; cases this
            repeat' split at h
            all_goals first | cases h | skip
            all_goals exact ⟨by show get? e (ins id _ s.revisions) = none; rw [get?_ins_ne _ _ hne]; exact hf.rev, hf.head⟩
      | revisionRedact id =>
        simp only at h
        unfold actRedact at h
        split at h
        · cases h
        · split at h
          · cases h
          · cases h; exact hf
          · rename_i r hr
            have hne : e ≠ id := by intro hh; subst hh; have := hf.rev; rw [hr] at this; cases this
            repeat' split at h
            all_goals first | cases h | skip
            all_goals exact ⟨by show get? e (ins id _ s.revisions) = none; rw [get?_ins_ne _ _ hne]; exact hf.rev, hf.head⟩

/-- What the actions of one applied op guarantee, from an invariant state in which the op's id is fresh,
when the op contains at most one `Revision` action. -/
theorem applyActions_inv {V : Key → Sig → Blob → Bool} {entry : Id} {author : Key} {conc : Bool}
    (as : List Action) {s s' : Identity} (inv : Inv V s)
    (hf : (Fresh s entry ∧ (as.filter Action.isRevision).length ≤ 1) ∨ as.filter Action.isRevision = [])
    (h : applyActions V entry author conc s as = .ok s') :
    Inv V s' ∧ s'.root = s.root ∧
    (∀ id r, get? id s.revisions = some (some r) → r.state = .accepted → get? id s'.revisions = some (some r)) ∧
    (∀ e, e ≠ entry → Fresh s e → Fresh s' e) := by
  induction as generalizing s with
  | nil => simp only [applyActions] at h; cases h; exact ⟨inv, rfl, fun _ _ h _ => h, fun _ _ h => h⟩
  | cons a as ih =>
    -- freshness hypothesis for the rest, if the state does not change
    have hrest_same : (Fresh s entry ∧ (as.filter Action.isRevision).length ≤ 1) ∨
        as.filter Action.isRevision = [] := by
      rcases hf with ⟨h1, h2⟩ | h2
      · left
        refine ⟨h1, ?_⟩
        simp only [List.filter_cons] at h2
        split at h2
        · simp only [List.length_cons] at h2; omega
        · exact h2
      · right
        simp only [List.filter_cons] at h2
        split at h2
        · cases h2
        · exact h2
    simp only [applyActions] at h
    split at h
    · rename_i s1 h1
      have hfa : (∃ t d p sg, a = .revision t d p sg) → Fresh s entry := by
        rintro ⟨t, d, p, sg, rfl⟩
        rcases hf with ⟨h1, _⟩ | h2
        · exact h1
        · simp [List.filter_cons, Action.isRevision] at h2
      have st := action_step inv hfa h1
      have hrest : (Fresh s1 entry ∧ (as.filter Action.isRevision).length ≤ 1) ∨
          as.filter Action.isRevision = [] := by
        cases hrev : a.isRevision with
        | true =>
          right
          rcases hf with ⟨_, h2⟩ | h2
          · simp only [List.filter_cons, hrev, if_true, List.length_cons] at h2
            exact List.length_eq_zero_iff.mp (by omega)
          · simp [List.filter_cons, hrev] at h2
        | false =>
          rcases hrest_same with ⟨hfs, hl⟩ | hl
          · exact Or.inl ⟨hfs.action (Or.inl hrev) h1, hl⟩
          · exact Or.inr hl
      obtain ⟨i2, r2, s2, f2⟩ := ih st.inv hrest h
      refine ⟨i2, r2.trans st.root, fun id r hr hacc => s2 id r (st.stable id r hr hacc) hacc,
        fun e hne hfe => f2 e hne (hfe.action (Or.inr hne) h1)⟩
    · split at h
      · exact ih inv hrest_same h
      · cases h
    · exact ih inv hrest_same h
    · cases h

/-- An applied op preserves the invariant, never touches an accepted revision, and keeps every other
unused id fresh. -/
theorem op_inv {V : Key → Sig → Blob → Bool} {s s' : Identity} {o : Op} (inv : Inv V s)
    (hf : Fresh s o.id) (hs : SingleRevision o) (h : op V s o = .ok s') :
    Inv V s' ∧ s'.root = s.root ∧
    (∀ id r, get? id s.revisions = some (some r) → r.state = .accepted → get? id s'.revisions = some (some r)) ∧
    (∀ e, e ≠ o.id → Fresh s e → Fresh s' e) :=
  applyActions_inv o.actions inv (Or.inl ⟨hf, hs⟩) h


/-! ### histories -/

theorem foldl_ins_keys {ds : List Key} {v : Id} {m : List (Key × Id)} (hn : (m.map (·.1)).Nodup) :
    ((ds.foldl (fun m d => ins d v m) m).map (·.1)).Nodup := by
  induction ds generalizing m with
  | nil => exact hn
  | cons d ds ih => exact ih (keys_ins_nodup hn)

theorem foldl_ins_vals {ds : List Key} {v : Id} {m : List (Key × Id)} (hm : ∀ k x, get? k m = some x → x = v)
    (k : Key) (x : Id) (h : get? k (ds.foldl (fun m d => ins d v m) m) = some x) : x = v := by
  induction ds generalizing m with
  | nil => exact hm k x h
  | cons d ds ih =>
    refine ih (fun k' x' h' => ?_) h
    rw [get?_ins] at h'
    split at h'
    · cases h'; rfl
    · exact hm k' x' h'

/-- The state built by `from_root` satisfies the invariant, and every other id is fresh in it. -/
theorem fromRoot_inv {V : Key → Sig → Blob → Bool} {root : Op} {embedded : Option IdDoc} {repoId : Blob}
    {s0 : Identity} (h : fromRoot V root embedded repoId = .ok s0) :
    Inv V s0 ∧ s0.root = root.id ∧ ∀ e, e ≠ root.id → Fresh s0 e := by
  unfold Identity.fromRoot at h
  split at h
  · split at h
    · cases h
    · rename_i rootDoc
      repeat' split at h
      all_goals first | cases h | skip
      refine ⟨⟨⟨_, if_pos rfl, rfl⟩, foldl_ins_keys (by simp), ?_, ?_⟩, rfl, fun e hne => ⟨?_, ?_⟩⟩
      · intro id r c hr hact _
        simp only [get?] at hr
        split at hr
        · cases hr; cases hact
        · cases hr
      · intro id r hr hacc hroot
        simp only [get?] at hr
        split at hr
        · rename_i hh; exact absurd hh.symm hroot
        · cases hr
      · simp [get?, Ne.symm hne]
      · intro k hk
        have := foldl_ins_vals (v := root.id) (m := []) (fun k x h => by simp [get?] at h) k e hk
        exact hne this
  · cases h

theorem eval_cons (V : Key → Sig → Blob → Bool) (s : Identity) (o : Op) (os : List Op) :
    eval V s (o :: os) = eval V (step V s o) os := rfl

theorem step_cases (V : Key → Sig → Blob → Bool) (s : Identity) (o : Op) :
    ((∃ e, op V s o = .error e) ∧ step V s o = s) ∨ ∃ s1, op V s o = .ok s1 ∧ step V s o = s1 := by
  unfold Identity.step
  cases hop : op V s o with
  | error e => exact Or.inl ⟨⟨e, rfl⟩, rfl⟩
  | ok s1 => exact Or.inr ⟨s1, rfl, rfl⟩

/-- Evaluating entries with pairwise distinct, fresh ids, each with at most one `Revision` action,
preserves the invariant and never touches an accepted revision. -/
theorem eval_inv {V : Key → Sig → Blob → Bool} (ops : List Op) {s : Identity} (inv : Inv V s)
    (hf : ∀ o ∈ ops, Fresh s o.id) (hn : (ops.map (·.id)).Nodup) (hs : ∀ o ∈ ops, SingleRevision o) :
    Inv V (eval V s ops) ∧ (eval V s ops).root = s.root ∧
    (∀ id r, get? id s.revisions = some (some r) → r.state = .accepted →
      get? id (eval V s ops).revisions = some (some r)) := by
  induction ops generalizing s with
  | nil => exact ⟨inv, rfl, fun _ _ h _ => h⟩
  | cons o os ih =>
    simp only [List.map_cons, List.nodup_cons] at hn
    have hs' : ∀ o' ∈ os, SingleRevision o' := fun o' ho' => hs o' (List.mem_cons_of_mem _ ho')
    simp only [eval_cons]
    rcases step_cases V s o with ⟨_, hst⟩ | ⟨s1, hop, hst⟩
    · rw [hst]
      exact ih inv (fun o' ho' => hf o' (List.mem_cons_of_mem _ ho')) hn.2 hs'
    · rw [hst]
      obtain ⟨i1, r1, st1, f1⟩ := op_inv inv (hf o List.mem_cons_self) (hs o List.mem_cons_self) hop
      have hf1 : ∀ o' ∈ os, Fresh s1 o'.id := by
        intro o' ho'
        refine f1 o'.id ?_ (hf o' (List.mem_cons_of_mem _ ho'))
        intro heq
        exact hn.1 (heq ▸ List.mem_map.mpr ⟨o', ho', rfl⟩)
      obtain ⟨i2, r2, st2⟩ := ih i1 hf1 hn.2 hs'
      exact ⟨i2, r2.trans r1, fun id r hr hacc => st2 id r (st1 id r hr hacc) hacc⟩

/-- **accepted_has_majority** — the property over whole histories: for every `V`, every valid root op
and every list of further entries with pairwise distinct ids and at most one `Revision` action each (in
whatever order the evaluator linearised them, with whatever `concurrent` flags; rejected entries are
pruned), in the evaluated state
* the current revision exists and is accepted;
* every accepted revision other than the root — in particular the current one — has a live, accepted
  parent, and a strict majority of the delegates of the PARENT's document have each recorded a valid
  signature over its blob. -/
theorem accepted_has_majority {V : Key → Sig → Blob → Bool} {root : Op} {embedded : Option IdDoc}
    {repoId : Blob} {s0 : Identity} (h0 : fromRoot V root embedded repoId = .ok s0) (ops : List Op)
    (hids : (root.id :: ops.map (·.id)).Nodup) (hs : ∀ o ∈ ops, SingleRevision o) :
    let s := eval V s0 ops
    (∃ c, get? s.current s.revisions = some (some c) ∧ c.state = .accepted) ∧
    ∀ id r, get? id s.revisions = some (some r) → r.state = .accepted → id ≠ root.id →
      ∃ pid p, r.parent = some pid ∧ get? pid s.revisions = some (some p) ∧ p.state = .accepted ∧
        MajoritySigned V p.doc r := by
  intro s
  obtain ⟨inv0, hroot0, hfresh0⟩ := fromRoot_inv h0
  have hn := List.nodup_cons.mp hids
  have hf : ∀ o ∈ ops, Fresh s0 o.id := by
    intro o ho
    refine hfresh0 o.id ?_
    intro heq
    exact hn.1 (heq ▸ List.mem_map.mpr ⟨o, ho, rfl⟩)
  obtain ⟨inv, hr, _⟩ := eval_inv ops inv0 hf hn.2 hs
  refine ⟨inv.cur, fun id r h1 h2 h3 => inv.accepted id r h1 h2 ?_⟩
  show id ≠ (eval V s0 ops).root
  rw [hr, hroot0]; exact h3

/-- **accepted_is_forever** — once a revision is accepted (current), no later entry redacts, edits or
replaces it: it is found unchanged in every later evaluated state. -/
theorem accepted_is_forever {V : Key → Sig → Blob → Bool} {root : Op} {embedded : Option IdDoc}
    {repoId : Blob} {s0 : Identity} (h0 : fromRoot V root embedded repoId = .ok s0) (pre post : List Op)
    (hids : (root.id :: (pre ++ post).map (·.id)).Nodup) (hs : ∀ o ∈ pre ++ post, SingleRevision o)
    {id : Id} {r : Revision} (hr : get? id (eval V s0 pre).revisions = some (some r))
    (hacc : r.state = .accepted) : get? id (eval V s0 (pre ++ post)).revisions = some (some r) := by
  obtain ⟨inv0, hroot0, hfresh0⟩ := fromRoot_inv h0
  have hn := List.nodup_cons.mp hids
  have hn2 : (pre.map (·.id) ++ post.map (·.id)).Nodup := by simpa using hn.2
  have hf : ∀ o ∈ pre ++ post, Fresh s0 o.id := by
    intro o ho
    refine hfresh0 o.id ?_
    intro heq
    exact hn.1 (heq ▸ List.mem_map.mpr ⟨o, ho, rfl⟩)
  -- evaluate `pre`, keeping the ids of `post` fresh
  have key : ∀ (ops : List Op) (s : Identity), Inv V s → (∀ o ∈ ops ++ post, Fresh s o.id) →
      ((ops ++ post).map (·.id)).Nodup → (∀ o ∈ ops ++ post, SingleRevision o) →
      Inv V (eval V s ops) ∧ ∀ o ∈ post, Fresh (eval V s ops) o.id := by
    intro ops
    induction ops with
    | nil => intro s inv hf _ _; exact ⟨inv, fun o ho => hf o (by simpa using ho)⟩
    | cons o os ih =>
      intro s inv hf hn hs
      simp only [List.cons_append, List.map_cons, List.nodup_cons] at hn
      simp only [eval_cons]
      rcases step_cases V s o with ⟨_, hst⟩ | ⟨s1, hop, hst⟩
      · rw [hst]
        exact ih s inv (fun o' ho' => hf o' (List.mem_cons_of_mem _ ho')) hn.2
          (fun o' ho' => hs o' (List.mem_cons_of_mem _ ho'))
      · rw [hst]
        obtain ⟨i1, _, _, f1⟩ := op_inv inv (hf o List.mem_cons_self) (hs o List.mem_cons_self) hop
        refine ih s1 i1 (fun o' ho' => f1 o'.id ?_ (hf o' (List.mem_cons_of_mem _ ho'))) hn.2
          (fun o' ho' => hs o' (List.mem_cons_of_mem _ ho'))
        intro heq
        exact hn.1 (heq ▸ List.mem_map.mpr ⟨o', ho', rfl⟩)
  obtain ⟨inv1, hf1⟩ := key pre s0 inv0 hf (by simpa using hn.2) hs
  have hnpost : (post.map (·.id)).Nodup := (List.nodup_append.mp hn2).2.1
  obtain ⟨_, _, st⟩ := eval_inv post inv1 hf1 hnpost (fun o ho => hs o (List.mem_append_right _ ho))
  have : eval V s0 (pre ++ post) = eval V (eval V s0 pre) post := by
    simp [Identity.eval, List.foldl_append]
  rw [this]
  exact st id r hr hacc

/-! ### the `debug_assert!` in the `Revision` arm: why `SingleRevision` is needed -/

section Counterexample

def Vtrue : Key → Sig → Blob → Bool := fun _ _ _ => true
def d0 : IdDoc := { blob := 0, delegates := [0] }
def d1 : IdDoc := { blob := 1, delegates := [0, 1, 2] }
def d2 : IdDoc := { blob := 2, delegates := [0, 3] }
def rootOp : Op := { id := 0, author := 0, concurrent := false, actions := [.revision 1 (some d0) none 0] }
/-- one op, two `Revision` actions: the first is adopted (the author is the only delegate of `d0`), the
second — whose parent is the root, not the new current revision — overwrites it under the same id. -/
def twoRevisions : Op :=
  { id := 1, author := 0, concurrent := false,
    actions := [.revision 1 (some d1) (some 0) 0, .revision 2 (some d2) (some 0) 0] }

/-- **overwrite_counterexample**: without `SingleRevision` the history statement is FALSE of the model
(and of the release build of `/repo`, where the guard is only a `debug_assert!`): after the op
`twoRevisions` the current revision is the op's own id, but its document is `d2`, its state `stale`, its
parent the root — the document `d1` that was current after the first action (three delegates, majority
two) has been replaced in place with a single signature and without a successor revision. -/
theorem overwrite_counterexample :
    ∃ s0, fromRoot Vtrue rootOp (some d0) 0 = .ok s0 ∧ (rootOp.id :: [twoRevisions].map (·.id)).Nodup ∧
      (eval Vtrue s0 [twoRevisions]).current = 1 ∧
      (eval Vtrue s0 [twoRevisions]).currentRev.map (fun r => (r.doc.blob, r.state, r.parent, r.verdicts)) =
        some (2, RState.stale, some 0, [(0, Verdict.accept 0)]) ∧
      -- after the first action alone the current document was `d1`
      (eval Vtrue s0 [{ twoRevisions with actions := [.revision 1 (some d1) (some 0) 0] }]).currentRev.map
        (fun r => (r.doc.blob, r.state)) = some (1, RState.accepted) :=
  ⟨_, rfl, by decide, by decide, by decide, by decide⟩

end Counterexample

/-! ### non-vacuity -/

section Examples

def dA : IdDoc := { blob := 0, delegates := [0, 1, 2, 3] }
def dB : IdDoc := { blob := 1, delegates := [0, 1, 2] }
/-- signature token `k` is key `k`'s signature over blob 1; token `9` verifies for nobody. -/
def V4 : Key → Sig → Blob → Bool := fun k s b => s = k ∧ b = 1
def root4 : Op := { id := 0, author := 0, concurrent := false, actions := [.revision 1 (some dA) none 0] }
def Vroot : Key → Sig → Blob → Bool := fun k s b => (s = k ∧ b = 1) ∨ (k = 0 ∧ s = 0 ∧ b = 0)
def propose : Op := { id := 1, author := 0, concurrent := false, actions := [.revision 2 (some dB) (some 0) 0] }
def forged : Op := { id := 2, author := 1, concurrent := false, actions := [.revisionAccept 1 9] }
def honest2 : Op := { id := 3, author := 2, concurrent := false, actions := [.revisionAccept 1 2] }
def honest3 : Op := { id := 4, author := 3, concurrent := false, actions := [.revisionAccept 1 3] }

/-- The C04 witness of the pre-fix code (4 delegates, majority 3): alice proposes, bob's accept carries a
signature over other bytes (rejected, pruned, and — now — without any effect), carol accepts honestly:
the proposal is NOT adopted with 2 valid signatures; a third valid signature adopts it. -/
example : ∃ s0, fromRoot Vroot root4 (some dA) 0 = .ok s0 ∧
    (eval Vroot s0 [propose, forged, honest2]).current = 0 ∧
    (eval Vroot s0 [propose, forged, honest2, honest3]).current = 1 :=
  ⟨_, rfl, by decide, by decide⟩

/-- the hypotheses of `current_needs_majority` are satisfiable (a transition really happens). -/
example : ∃ s0, fromRoot Vroot root4 (some dA) 0 = .ok s0 ∧
    (eval Vroot s0 [propose, honest2]).current ≠ (eval Vroot s0 [propose, honest2, honest3]).current :=
  ⟨_, rfl, by decide⟩

end Examples

end HeartwoodModel.Identity
