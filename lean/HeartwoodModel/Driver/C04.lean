import HeartwoodModel.Model.Identity
import HeartwoodModel.Driver.Util
import HeartwoodModel.Driver.C08
/-!
Driver entry for C04 (reuses the generic wire helpers of `Driver/C08.lean`).

Case: `idg <repoDoc> <docs> <sigs> <vtable> g=<ranks>/<sigbits> <op0> <op1> …` (see `runGraph`: order, `concurrent`
bits and pruning are computed by the model from the abstract change graph), or the legacy form
`id <repoDoc> <docs> <sigs> <vtable> <order> <op0> <op1> …` (order given) with
* `repoDoc` = index of the document the repository is named after;
* `docs`    = `;`-separated delegate lists (`,`-separated keys); a document's blob id is its index;
* `sigs`    = `;`-separated `signer.doc|x` (how the harness builds signature token `i`; unused here);
* `vtable`  = `,`-separated `key.sig.blob` triples on which the REAL Ed25519 verification succeeds (`-` = none);
* `order`   = `,`-separated `op.c` (op index, `c` = 1 iff the real evaluation passed concurrent entries), `-` if none;
* `op`      = `author:ts:tips:act|act|…`, actions `rv,<title>,<doc|x>,<parent|->,<sig>` `ed,<rev>,<title>`
  `ac,<rev>,<sig>` `rj,<rev>` `rd,<rev>`; the id of an op is its position; the root's embedded document is the
  document of its `rv` action.
Output: `init-err` / `init-panic` / `bad-order`, or `r=<o|e|p per applied op>;cur=…;hd=…;rv=…`.
-/
namespace HeartwoodModel.Driver.C04
open HeartwoodModel.Cob HeartwoodModel.Identity HeartwoodModel.Driver.Util HeartwoodModel.Driver.C08

def parseDocs (s : String) : Option (List IdDoc) :=
  let rec go (xs : List String) (i : Nat) : Option (List IdDoc) :=
    match xs with
    | [] => some []
    | x :: rest => do
      let ds ← nats? x
      let tl ← go rest (i + 1)
      some ({ blob := i, delegates := ds } :: tl)
  go (splitOn s ';') 0

def parseV (s : String) : Option (List (Nat × Nat × Nat)) :=
  if s == "-" then some [] else
  (splitOn s ',').mapM fun t =>
    match splitOn t '.' with
    | [k, sg, b] => do some ((← nat? k), (← nat? sg), (← nat? b))
    | _ => none

def mkV (tbl : List (Nat × Nat × Nat)) : Key → Sig → Blob → Bool :=
  fun k s b => tbl.contains (k, s, b)

def parseOrder (s : String) : Option (List (Nat × Bool)) :=
  if s == "-" then some [] else
  (splitOn s ',').mapM fun t =>
    match splitOn t '.' with
    | [i, c] => do some ((← nat? i), (← bool? c))
    | _ => none

def parseAction (docs : List IdDoc) (s : String) : Option Action :=
  match splitOn s ',' with
  | ["rv", t, d, p, sg] => do
    let doc ← (if d == "x" then some none else do
      let i ← nat? d
      let doc ← docs[i]?
      some (some doc))
    some (.revision (← nat? t) doc (← optNat? p) (← nat? sg))
  | ["ed", r, t] => do some (.revisionEdit (← nat? r) (← nat? t))
  | ["ac", r, sg] => do some (.revisionAccept (← nat? r) (← nat? sg))
  | ["rj", r] => do some (.revisionReject (← nat? r))
  | ["rd", r] => do some (.revisionRedact (← nat? r))
  | _ => none

structure WOp where
  author : Nat
  tips : List Nat
  actions : List Action
  ts : Nat := 0

def parseOp (docs : List IdDoc) (s : String) : Option WOp :=
  match splitOn s ':' with
  | [au, ts, tips, acts] => do
    let ts ← nat? ts
    some { author := (← nat? au), tips := (← nats? tips), actions := (← (splitOn acts '|').mapM (parseAction docs)), ts }
  | _ => none

def showRState : RState → String
  | .active => "a" | .accepted => "c" | .rejected => "r" | .stale => "s"

def showVerdict : Key × Verdict → String
  | (k, .accept sg) => s!"{k}.a{sg}"
  | (k, .reject) => s!"{k}.r"

def showRev (id : Nat) : Option Revision → String
  | none => s!"{id}~x"
  | some r =>
    s!"{id}~{r.doc.blob}~{r.title}~{showRState r.state}~{r.author}~{showOptNat r.parent}~" ++
    showList "," ((sortBy (·.1) r.verdicts).map showVerdict)

def showIdentity (s : Identity) : String :=
  s!"cur={s.current};hd={showList "+" ((sortBy (·.1) s.heads).map fun (k, i) => s!"{k}.{i}")};" ++
  s!"rv={showList "+" ((sortBy (·.1) s.revisions).map fun (i, r) => showRev i r)}"

def showARes {α : Type} : Except AErr α → String
  | .ok _ => "o"
  | .error .panic => "p"
  | .error _ => "e"

def toOp (i : Nat) (c : Bool) (w : WOp) : Op :=
  { id := i, author := w.author, concurrent := c, actions := w.actions }

def evalOrder (V : Key → Sig → Blob → Bool) (ops : List WOp) : Identity → List (Nat × Bool) → List String →
    List Bool → Option (Identity × List String × List Bool)
  | s, [], rs, fs => some (s, rs.reverse, fs.reverse)
  | s, (i, c) :: rest, rs, fs =>
    match ops[i]? with
    | none => none
    | some w =>
      let r := op V s (toOp i c w)
      evalOrder V ops (step V s (toOp i c w)) rest (showARes r :: rs)
        ((match r with | .ok _ => true | _ => false) :: fs)

/-- Legacy form (`id …`, evaluation order and `concurrent` bits given as input; still used by the
sub-history replay of `Driver/C06.lean`). -/
def runLegacy (args : List String) : String :=
  match args with
  | "id" :: repoDoc :: docs :: _sigs :: vt :: order :: ops =>
    match nat? repoDoc, parseDocs docs, parseV vt, parseOrder order with
    | some repoDoc, some docs, some vt, some order =>
      match ops.mapM (parseOp docs) with
      | some (root :: rest) =>
        let all := root :: rest
        let V := mkV vt
        let embedded : Option IdDoc := match root.actions with
          | [.revision _ d _ _] => d
          | _ => none
        match fromRoot V (toOp 0 false root) embedded repoDoc with
        | .error .panic => "init-panic"
        | .error _ => "init-err"
        | .ok s0 =>
          match evalOrder V all s0 order [] [] with
          | none => "bad-op"
          | some (s, rs, fs) =>
            if orderOk (all.map (·.tips)) (order.map (·.1)) fs then s!"r={dash (joinWith "" rs)};{showIdentity s}"
            else "bad-order"
      | _ => "bad-op"
    | _, _, _, _ => "bad-op"
  | _ => "bad-op"

def optOkA {α : Type} : Except AErr α → Option α
  | .ok a => some a
  | .error _ => none

/-- `idg <repoDoc> <docs> <sigs> <vtable> g=<ranks>/<sigbits> <op0> …`: the MODEL computes the evaluation
order, the `concurrent` bit of every entry (`!siblings.isEmpty`), the rejected / pruned entries and the
final state from the abstract change graph (`Driver/C08.lean`, `evalGraph`). -/
def runGraph (args : List String) : String :=
  match args with
  | repoDoc :: docs :: _sigs :: vt :: gtok :: ops =>
    match nat? repoDoc, parseDocs docs, parseV vt with
    | some repoDoc, some docs, some vt =>
      match ops.mapM (parseOp docs) with
      | some (root :: rest) =>
        let all := root :: rest
        match parseG gtok all.length with
        | none => "bad-op"
        | some (ranks, sigs) =>
          let V := mkV vt
          let embeddedOf (w : WOp) : Option IdDoc := match w.actions with
            | [.revision _ d _ _] => d
            | _ => none
          match fromRoot V (toOp 0 false root) (embeddedOf root) repoDoc with
          | .error .panic => "init-panic"
          | _ =>
            let gops := mkGOps all (·.ts) sigs
            showEval true showIdentity
              (evalGraph ranks (·.tips) gops
                (fun e => optOkA (fromRoot V (toOp e.idx false e.w) (embeddedOf e.w) repoDoc))
                (fun s e conc => optOkA (op V s (toOp e.idx conc e.w))))
      | _ => "bad-op"
    | _, _, _ => "bad-op"
  | _ => "bad-op"

def run (args : List String) : String :=
  match args with
  | "idg" :: rest => runGraph rest
  | _ => runLegacy args

end HeartwoodModel.Driver.C04
