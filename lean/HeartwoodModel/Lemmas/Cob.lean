import HeartwoodModel.Model.Thread
/-! Lemmas about the association-list maps of `Model/Thread.lean`. -/
namespace HeartwoodModel.Cob

theorem mem_ins {α : Type} {k : Nat} {v : α} {m : List (Nat × α)} {x : Nat × α}
    (h : x ∈ ins k v m) : x = (k, v) ∨ x ∈ m := by
  induction m with
  | nil => simp [ins] at h; exact Or.inl h
  | cons y ys ih =>
    obtain ⟨k', v'⟩ := y
    simp only [ins] at h
    split at h
    · rcases List.mem_cons.mp h with h | h
      · exact Or.inl h
      · exact Or.inr (List.mem_cons_of_mem _ h)
    · rcases List.mem_cons.mp h with h | h
      · exact Or.inr (h ▸ List.mem_cons_self)
      · rcases ih h with h | h
        · exact Or.inl h
        · exact Or.inr (List.mem_cons_of_mem _ h)

theorem mem_keys_ins {α : Type} {k : Nat} {v : α} {m : List (Nat × α)} {a : Nat}
    (h : a ∈ (ins k v m).map (·.1)) : a = k ∨ a ∈ m.map (·.1) := by
  obtain ⟨x, hx, rfl⟩ := List.mem_map.mp h
  rcases mem_ins hx with h | h
  · exact Or.inl (by rw [h])
  · exact Or.inr (List.mem_map.mpr ⟨x, h, rfl⟩)

theorem keys_ins_nodup {α : Type} {k : Nat} {v : α} {m : List (Nat × α)}
    (h : (m.map (·.1)).Nodup) : ((ins k v m).map (·.1)).Nodup := by
  induction m with
  | nil => simp [ins]
  | cons y ys ih =>
    obtain ⟨k', v'⟩ := y
    simp only [List.map_cons, List.nodup_cons] at h
    simp only [ins]
    split
    · rename_i hk
      subst hk
      simpa using h
    · rename_i hk
      simp only [List.map_cons, List.nodup_cons]
      refine ⟨?_, ih h.2⟩
      intro hmem
      rcases mem_keys_ins hmem with h' | h'
      · exact hk h'
      · exact h.1 h'

theorem get?_ins_self {α : Type} (k : Nat) (v : α) (m : List (Nat × α)) : get? k (ins k v m) = some v := by
  induction m with
  | nil => simp [ins, get?]
  | cons y ys ih =>
    obtain ⟨k', v'⟩ := y
    simp only [ins]
    split
    · simp [get?]
    · rename_i hk
      simp [get?, hk, ih]

theorem get?_ins_ne {α : Type} {k k' : Nat} (v : α) (m : List (Nat × α)) (h : k' ≠ k) :
    get? k' (ins k v m) = get? k' m := by
  induction m with
  | nil => simp [ins, get?, Ne.symm h]
  | cons y ys ih =>
    obtain ⟨k'', v''⟩ := y
    simp only [ins]
    split
    · rename_i hk
      subst hk
      simp [get?, Ne.symm h]
    · simp only [get?, ih]

theorem get?_ins {α : Type} (k k' : Nat) (v : α) (m : List (Nat × α)) :
    get? k' (ins k v m) = if k' = k then some v else get? k' m := by
  split
  · rename_i h; subst h; exact get?_ins_self _ _ _
  · rename_i h; exact get?_ins_ne _ _ h

theorem get?_del_ne {α : Type} {k k' : Nat} (m : List (Nat × α)) (h : k' ≠ k) :
    get? k' (del k m) = get? k' m := by
  induction m with
  | nil => simp [del, get?]
  | cons y ys ih =>
    obtain ⟨k'', v''⟩ := y
    simp only [del]
    split
    · rename_i hk
      subst hk
      simp [get?, Ne.symm h, ih]
    · simp only [get?, ih]

theorem get?_mem {α : Type} {k : Nat} {v : α} {m : List (Nat × α)} (h : get? k m = some v) :
    (k, v) ∈ m := by
  induction m with
  | nil => simp [get?] at h
  | cons y ys ih =>
    obtain ⟨k', v'⟩ := y
    simp only [get?] at h
    split at h
    · rename_i hk; subst hk; cases h; exact List.mem_cons_self
    · exact List.mem_cons_of_mem _ (ih h)

end HeartwoodModel.Cob
