/-! Driver entry for property C26 (stub: not implemented yet). -/
namespace HeartwoodModel.Driver.C26

def run (_args : List String) : String := "unimplemented"

end HeartwoodModel.Driver.C26
