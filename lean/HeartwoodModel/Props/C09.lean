import HeartwoodModel.Model.CobCache
import HeartwoodModel.Lemmas.CobCache
/-!
# C09 — The COB cache answers exactly like direct evaluation

Property theorems about `Model/CobCache.lean`.

1. `cache_refines_store…`: the cache database is shared by all repositories of a storage; after any
   history of creations, updates, removals, fetched updates, `write` and `write_all` on any number of
   repositories, what the handle of repository `r` reads (`WHERE repo = r`) is the JSON encoding of what
   `r` evaluates to — whatever happens in the other repositories (`agree_step_other`: frame property);
   `write_all_restores`: `Cache::write_all` repairs any earlier divergence of its repository.
2. `get_agree`, `list_agree`, `list_by_status_agree`, `counts_agree`, `find_by_revision_agree` (patches) and
   `issue_get_agree`, `issue_list_agree`, `issue_list_by_status_agree`, `issue_counts_agree`: each cached
   query (SQL over the JSON rows) equals the direct query, for *every* encoding `c` satisfying the stated
   `Lawful` hypotheses (serde round-trip; `$.state.status`, `$.revisions` where the SQL looks for them).
3. `patch_queries_agree_after_history`, `issue_queries_agree_after_history`: 1 + 2.

The full statement is FALSE of the current code in two ways (confirmed on the real code, witnesses in
`corpus/C09/findings.case`), kept as counterexamples next to the strongest `…_partial` that holds:
`cache_refines_store_counterexample` — `Cache::remove` deletes the cache row although the object may still
evaluate from another peer's reference (`known-findings.json`: `stale-after-remove`);
`cross_repo_remove_counterexample` — `Remove::remove` is `DELETE … WHERE id = ?` without the repository, so
removing in repository `B` an id that belongs to an object of repository `A` (directly, or through
`cache_cobs` when a peer advertises a bogus reference with that id) deletes `A`'s row
(class `cross-repo-remove`). Two defects found by this property are repaired in `/repo` and documented by
`find_by_revision_pre_fix_counterexample` (08c943d) and `issue_list_by_status_pre_fix_counterexample`
(6cbb486).
-/
set_option linter.unusedSimpArgs false
set_option linter.unusedVariables false
namespace HeartwoodModel.CobCache

/-! ## 1. The cache refines the store, repository by repository -/

section Refinement
variable {α : Type}

/-- The operation names only identifiers of its own repository (`owner` says which repository an
identifier belongs to: ids are content hashes, an object lives in one repository). -/
def OpOwned (owner : Id → Repo) (r : Repo) : Op α → Prop
  | .write id _ => owner id = r
  | .remove id _ => owner id = r
  | .fetched changes refs =>
    (∀ c ∈ changes, owner c.1 = r) ∧ (∀ u ∈ refs, u.skipped = false → owner u.id = r)
  | .external changes => ∀ c ∈ changes, owner c.1 = r
  | .rewrite _ => True
  | .rewriteAll => True

/-- The contract of the fetch layer: every object whose evaluation changed is named by a reference update
that was not skipped (`applied.updated` lists every reference the fetch changed). -/
def FetchSound : Op α → Prop
  | .fetched changes refs => ∀ c ∈ changes, ∃ u ∈ refs, u.id = c.1 ∧ u.skipped = false
  | _ => True

/-- A removal after which no reference of the object remains in the repository; and no change of the
repository behind the cache's back (`external` is not one of the property's operations). -/
def RemoveLast : Op α → Prop
  | .remove _ after => after = none
  | .external _ => False
  | _ => True

/-- An id alive in repository `r` is owned by `r`. -/
private theorem owner_of_lookup {owner : Id → Repo} {s : Store α} (hb : Base owner s) {r : Repo} {k : Id}
    {o : α} (h : (s.truth r).lookup k = some o) : owner k = r := by
  rcases Decidable.em (owner k = r) with e | e
  · exact e
  · rw [hb.owned r k e] at h; cases h

/-- Operations on `r'` leave the truth of every other repository alone. -/
private theorem step_truth_other (enc : α → Json) (s : Store α) {r r' : Repo} (h : r ≠ r') (op : Op α) :
    (s.step enc r' op).truth r = s.truth r := by
  cases op with
  | write id after => exact setTruth_other _ _ h
  | remove id after => exact setTruth_other _ _ h
  | fetched changes refs => exact setTruth_other _ _ h
  | external changes => exact setTruth_other _ _ h
  | rewrite id =>
    simp only [Store.step]
    cases (s.truth r').lookup id <;> rfl
  | rewriteAll => rfl

private theorem lookup_applyChanges_other {owner : Id → Repo} {r : Repo} (t : Table α)
    (cs : List (Id × Option α)) (h : ∀ c ∈ cs, owner c.1 = r) {k : Id} (hk : owner k ≠ r) :
    (applyChanges t cs).lookup k = t.lookup k :=
  lookup_applyChanges_of_not_mem cs (fun c hc e => hk (by rw [← e]; exact h c hc))

/-- The new truth of `r'` after an operation on `r'`, and that it only holds ids owned by `r'`. -/
private theorem step_truth_owned (enc : α → Json) {owner : Id → Repo} {s : Store α} (hb : Base owner s)
    {r' : Repo} (op : Op α) (ho : OpOwned owner r' op) :
    Table.Sorted ((s.step enc r' op).truth r') ∧
    ∀ k, owner k ≠ r' → ((s.step enc r' op).truth r').lookup k = none := by
  cases op with
  | write id after =>
    simp only [Store.step, setTruth_same]
    refine ⟨Table.sorted_upsert (hb.truth_sorted r'), fun k hk => ?_⟩
    have : k ≠ id := fun e => hk (by rw [e]; exact ho)
    rw [Table.lookup_upsert, if_neg this]; exact hb.owned r' k hk
  | remove id after =>
    simp only [Store.step, setTruth_same]
    refine ⟨Table.sorted_set (hb.truth_sorted r'), fun k hk => ?_⟩
    have : k ≠ id := fun e => hk (by rw [e]; exact ho)
    rw [Table.lookup_set, if_neg this]; exact hb.owned r' k hk
  | fetched changes refs =>
    simp only [Store.step, setTruth_same]
    refine ⟨sorted_applyChanges changes (hb.truth_sorted r'), fun k hk => ?_⟩
    rw [lookup_applyChanges_other _ changes ho.1 hk]; exact hb.owned r' k hk
  | external changes =>
    simp only [Store.step, setTruth_same]
    refine ⟨sorted_applyChanges changes (hb.truth_sorted r'), fun k hk => ?_⟩
    rw [lookup_applyChanges_other _ changes ho hk]; exact hb.owned r' k hk
  | rewrite id =>
    simp only [Store.step]
    cases (s.truth r').lookup id <;> exact ⟨hb.truth_sorted r', hb.owned r'⟩
  | rewriteAll => exact ⟨hb.truth_sorted r', hb.owned r'⟩

private theorem keys_owned {owner : Id → Repo} {s : Store α} (hb : Base owner s) (r : Repo) :
    ∀ kv ∈ s.truth r, owner kv.1 = r := fun kv hkv =>
  owner_of_lookup hb (Table.lookup_of_mem (hb.truth_sorted r) (show (kv.1, kv.2) ∈ s.truth r from hkv))

private theorem rowsOwned_removeAll {owner : Id → Repo} {c : Table Row} (hs : Table.Sorted c)
    (ho : RowsOwned owner c) (r : Repo) : RowsOwned owner (cacheRemoveAll r c) := by
  intro k row hl
  rw [lookup_cacheRemoveAll hs] at hl
  cases hc : c.lookup k with
  | none => rw [hc] at hl; cases hl
  | some row' =>
    rw [hc] at hl
    by_cases h : row'.repo = r
    · simp [h] at hl
    · simp [h] at hl; rw [← hl]; exact ho k row' hc

/-- The cache after an operation on `r'`: sorted, and what happened to each row. Rows of ids that `r'`
does not own are untouched — the frame property at the level of rows. -/
private theorem step_cache (enc : α → Json) {owner : Id → Repo} {s : Store α} (hb : Base owner s)
    {r' : Repo} (op : Op α) (ho : OpOwned owner r' op) :
    Table.Sorted (s.step enc r' op).cache ∧ RowsOwned owner (s.step enc r' op).cache ∧
    ∀ k, owner k ≠ r' → (s.step enc r' op).cache.lookup k = s.cache.lookup k := by
  cases op with
  | write id after =>
    refine ⟨sorted_cacheUpdate hb.cache_sorted _ _ _, rowsOwned_cacheUpdate hb.rows_owned ho _, fun k hk => ?_⟩
    have : k ≠ id := fun e => hk (by rw [e]; exact ho)
    simp only [Store.step]
    rw [lookup_cacheUpdate hb.rows_owned ho, if_neg this]
  | remove id after =>
    refine ⟨Table.sorted_erase hb.cache_sorted, rowsOwned_erase hb.rows_owned _, fun k hk => ?_⟩
    have : k ≠ id := fun e => hk (by rw [e]; exact ho)
    simp only [Store.step, cacheRemove]
    rw [Table.lookup_erase, if_neg this]
  | fetched changes refs =>
    have hl := lookup_cacheCobs enc (applyChanges (s.truth r') changes) r' refs ho.2 hb.rows_owned
    refine ⟨sorted_cacheCobs enc _ r' refs hb.cache_sorted, ?_, fun k hk => ?_⟩
    · intro k row hrow
      simp only [Store.step] at hrow
      rw [hl k] at hrow
      by_cases hex : ∃ u ∈ refs, u.id = k ∧ u.skipped = false
      · rw [if_pos hex] at hrow
        obtain ⟨u, hu, h1, h2⟩ := hex
        cases hT : (applyChanges (s.truth r') changes).lookup k with
        | none => rw [hT] at hrow; cases hrow
        | some o => rw [hT] at hrow; cases hrow; rw [← h1]; exact (ho.2 u hu h2).symm
      · rw [if_neg hex] at hrow; exact hb.rows_owned k row hrow
    · simp only [Store.step]
      rw [hl k, if_neg]
      rintro ⟨u, hu, h1, h2⟩
      exact hk (by rw [← h1]; exact ho.2 u hu h2)
  | external changes => exact ⟨hb.cache_sorted, hb.rows_owned, fun _ _ => rfl⟩
  | rewrite id =>
    simp only [Store.step]
    cases hl : (s.truth r').lookup id with
    | none => exact ⟨hb.cache_sorted, hb.rows_owned, fun _ _ => rfl⟩
    | some o =>
      have hid : owner id = r' := owner_of_lookup hb hl
      refine ⟨sorted_cacheUpdate hb.cache_sorted _ _ _, rowsOwned_cacheUpdate hb.rows_owned hid _, fun k hk => ?_⟩
      have : k ≠ id := fun e => hk (by rw [e]; exact hid)
      rw [lookup_cacheUpdate hb.rows_owned hid, if_neg this]
  | rewriteAll =>
    have hs0 := sorted_cacheRemoveAll hb.cache_sorted r'
    have ho0 := rowsOwned_removeAll hb.cache_sorted hb.rows_owned r'
    obtain ⟨h1, h2⟩ := writeRows_spec enc r' (s.truth r') (hb.truth_sorted r') (keys_owned hb r') hs0 ho0
    refine ⟨h1, ?_, fun k hk => ?_⟩
    · intro k row hrow
      simp only [Store.step] at hrow
      rw [h2 k] at hrow
      cases hT : (s.truth r').lookup k with
      | some o => rw [hT] at hrow; cases hrow; exact (owner_of_lookup hb hT).symm
      | none => rw [hT] at hrow; exact ho0 k row hrow
    · simp only [Store.step]
      rw [h2 k, hb.owned r' k hk]
      simp only
      rw [lookup_cacheRemoveAll hb.cache_sorted]
      cases hc : s.cache.lookup k with
      | none => rfl
      | some row =>
        have : ¬ row.repo = r' := by rw [hb.rows_owned k row hc]; exact hk
        simp [this]

/-- `Base` is kept by EVERY operation that names only ids of its own repository — sound or not. -/
theorem base_step (enc : α → Json) {owner : Id → Repo} {s : Store α} (hb : Base owner s) (r' : Repo)
    (op : Op α) (ho : OpOwned owner r' op) : Base owner (s.step enc r' op) := by
  obtain ⟨ht1, ht2⟩ := step_truth_owned enc hb op ho
  obtain ⟨hc1, hc2, _⟩ := step_cache enc hb op ho
  refine ⟨fun r => ?_, hc1, fun r k hk => ?_, hc2⟩
  · by_cases h : r = r'
    · subst h; exact ht1
    · rw [step_truth_other enc s h]; exact hb.truth_sorted r
  · by_cases h : r = r'
    · subst h; exact ht2 k hk
    · rw [step_truth_other enc s h]; exact hb.owned r k hk

/-- **Frame property.** An operation on another repository `r' ≠ r` (whatever it is: even a change behind
the cache's back or a removal that leaves the object alive) does not disturb repository `r`: its truth is
untouched and its rows still agree with it. -/
theorem agree_step_other (enc : α → Json) {owner : Id → Repo} {s : Store α} (hb : Base owner s) {r r' : Repo}
    (hne : r ≠ r') (op : Op α) (ho : OpOwned owner r' op) (ha : AgreeOn enc owner r s) :
    AgreeOn enc owner r (s.step enc r' op) := by
  intro k hk
  have hk' : owner k ≠ r' := by rw [hk]; exact hne
  rw [(step_cache enc hb op ho).2.2 k hk', step_truth_other enc s hne]
  exact ha k hk

/-- A sound operation on `r` keeps `r`'s rows in agreement with `r`. -/
theorem agree_step_same (enc : α → Json) {owner : Id → Repo} {s : Store α} (hb : Base owner s) (r : Repo)
    (op : Op α) (ho : OpOwned owner r op) (hf : FetchSound op) (hr : RemoveLast op)
    (ha : AgreeOn enc owner r s) : AgreeOn enc owner r (s.step enc r op) := by
  intro k hk
  cases op with
  | write id after =>
    simp only [Store.step, setTruth_same]
    rw [lookup_cacheUpdate hb.rows_owned ho, Table.lookup_upsert]
    by_cases hki : k = id
    · simp [hki]
    · rw [if_neg hki, if_neg hki]; exact ha k hk
  | remove id after =>
    simp only [RemoveLast] at hr
    subst hr
    simp only [Store.step, setTruth_same, cacheRemove, Table.set]
    rw [Table.lookup_erase, Table.lookup_erase]
    by_cases hki : k = id
    · simp [hki]
    · rw [if_neg hki, if_neg hki]; exact ha k hk
  | fetched changes refs =>
    simp only [FetchSound] at hf
    simp only [Store.step, setTruth_same]
    rw [lookup_cacheCobs enc _ r refs ho.2 hb.rows_owned]
    by_cases hex : ∃ u ∈ refs, u.id = k ∧ u.skipped = false
    · rw [if_pos hex]
    · rw [if_neg hex, ha k hk, lookup_applyChanges_of_not_mem]
      intro c hc hck
      obtain ⟨u, hu1, hu2, hu3⟩ := hf c hc
      exact hex ⟨u, hu1, hu2.trans hck, hu3⟩
  | external changes => exact absurd hr (by simp [RemoveLast])
  | rewrite id =>
    simp only [Store.step]
    cases hl : (s.truth r).lookup id with
    | none => exact ha k hk
    | some o =>
      simp only
      rw [lookup_cacheUpdate hb.rows_owned (owner_of_lookup hb hl)]
      by_cases hki : k = id
      · subst hki; simp [hl]
      · rw [if_neg hki]; exact ha k hk
  | rewriteAll =>
    have hs0 := sorted_cacheRemoveAll hb.cache_sorted r
    have ho0 := rowsOwned_removeAll hb.cache_sorted hb.rows_owned r
    obtain ⟨_, h2⟩ := writeRows_spec enc r (s.truth r) (hb.truth_sorted r) (keys_owned hb r) hs0 ho0
    simp only [Store.step]
    rw [h2 k]
    cases hT : (s.truth r).lookup k with
    | some o => rfl
    | none =>
      simp only [Option.map]
      rw [lookup_cacheRemoveAll hb.cache_sorted]
      cases hc : s.cache.lookup k with
      | none => rfl
      | some row =>
        have : row.repo = r := by rw [hb.rows_owned k row hc]; exact hk
        simp [this]

/-- `write_all` on `r` re-establishes the agreement of `r` from ANY state (no hypothesis on `r`'s rows). -/
theorem agree_rewriteAll (enc : α → Json) {owner : Id → Repo} {s : Store α} (hb : Base owner s) (r : Repo) :
    AgreeOn enc owner r (s.step enc r .rewriteAll) := by
  intro k hk
  have hs0 := sorted_cacheRemoveAll hb.cache_sorted r
  have ho0 := rowsOwned_removeAll hb.cache_sorted hb.rows_owned r
  obtain ⟨_, h2⟩ := writeRows_spec enc r (s.truth r) (hb.truth_sorted r) (keys_owned hb r) hs0 ho0
  simp only [Store.step]
  rw [h2 k]
  cases hT : (s.truth r).lookup k with
  | some o => rfl
  | none =>
    simp only [Option.map]
    rw [lookup_cacheRemoveAll hb.cache_sorted]
    cases hc : s.cache.lookup k with
    | none => rfl
    | some row =>
      have : row.repo = r := by rw [hb.rows_owned k row hc]; exact hk
      simp [this]

/-- A history all of whose operations name ids of their own repository. -/
def Owned (owner : Id → Repo) (ops : List (Repo × Op α)) : Prop := ∀ x ∈ ops, OpOwned owner x.1 x.2

/-- The operations of the history performed ON repository `r` are sound (operations on other repositories
need not be). -/
def SoundOn (r : Repo) (ops : List (Repo × Op α)) : Prop :=
  ∀ x ∈ ops, x.1 = r → FetchSound x.2 ∧ RemoveLast x.2

private theorem run_base (enc : α → Json) {owner : Id → Repo} (ops : List (Repo × Op α)) {s : Store α}
    (hb : Base owner s) (ho : Owned owner ops) : Base owner (Store.run enc s ops) := by
  induction ops generalizing s with
  | nil => exact hb
  | cons x ops ih =>
    obtain ⟨r', op⟩ := x
    exact ih (base_step enc hb r' op (ho (r', op) List.mem_cons_self))
      (fun y hy => ho y (List.mem_cons_of_mem _ hy))

private theorem run_agree (enc : α → Json) {owner : Id → Repo} (r : Repo) (ops : List (Repo × Op α))
    {s : Store α} (hb : Base owner s) (ha : AgreeOn enc owner r s) (ho : Owned owner ops)
    (hs : SoundOn r ops) : AgreeOn enc owner r (Store.run enc s ops) := by
  induction ops generalizing s with
  | nil => exact ha
  | cons x ops ih =>
    obtain ⟨r', op⟩ := x
    have hox := ho (r', op) List.mem_cons_self
    refine ih (base_step enc hb r' op hox) ?_ (fun y hy => ho y (List.mem_cons_of_mem _ hy))
      (fun y hy => hs y (List.mem_cons_of_mem _ hy))
    by_cases h : r = r'
    · subst h
      obtain ⟨hf, hr⟩ := hs (r, op) List.mem_cons_self rfl
      exact agree_step_same enc hb r op hox hf hr ha
    · exact agree_step_other enc hb h op hox ha

/-- **Partial** refinement theorem (what holds of the current code). For every history over any number of
repositories sharing one cache, in which every operation names ids of its own repository, and for every
repository `r` whose own operations are sound (fetch contract; each removal takes away the last
reference) — whatever is done to the OTHER repositories —: what `r`'s cache handle reads is exactly the
encoding of what `r` evaluates to, and `r`'s truth is sorted by id. -/
theorem cache_refines_store_partial (enc : α → Json) (owner : Id → Repo) (ops : List (Repo × Op α))
    (ho : Owned owner ops) (r : Repo) (hs : SoundOn r ops) :
    view r (Store.run enc Store.empty ops).cache = ((Store.run enc Store.empty ops).truth r).image enc ∧
    Table.Sorted ((Store.run enc Store.empty ops).truth r) :=
  let hb := run_base enc ops (base_empty owner) ho
  ⟨view_eq hb (run_agree enc r ops (base_empty owner) (agreeOn_empty enc owner r) ho hs), hb.truth_sorted r⟩

private theorem run_append (enc : α → Json) (xs ys : List (Repo × Op α)) (s : Store α) :
    Store.run enc s (xs ++ ys) = Store.run enc (Store.run enc s xs) ys := by
  induction xs generalizing s with
  | nil => rfl
  | cons x xs ih => obtain ⟨r, op⟩ := x; exact ih _

/-- `write_all` repairs ANY divergence of its repository: whatever happened before it (removals that left
the object alive — the known finding —, changes of the repository behind the cache's back), after
`Cache::write_all` on `r` and any further history that is sound on `r`, `r`'s handle again reads exactly the
encoding of what `r` evaluates to. -/
theorem write_all_restores (enc : α → Json) (owner : Id → Repo) (r : Repo) (pre post : List (Repo × Op α))
    (hpre : Owned owner pre) (hpost : Owned owner post) (hs : SoundOn r post) :
    view r (Store.run enc Store.empty (pre ++ (r, Op.rewriteAll) :: post)).cache =
      ((Store.run enc Store.empty (pre ++ (r, Op.rewriteAll) :: post)).truth r).image enc := by
  rw [run_append]
  have hb := run_base enc pre (base_empty owner) hpre
  have hb1 := base_step enc hb r .rewriteAll trivial
  exact view_eq (run_base enc post hb1 hpost) (run_agree enc r post hb1 (agree_rewriteAll enc hb r) hpost hs)

end Refinement

/-- A small patch used by the examples. -/
def samplePatch (st : PStatus) : Patch :=
  { state := { status := st, extra := "x" }, digest := "d",
    revisions := [("p1", some { digest := "r", discussion := ["c1"], reviews := [("alice", { id := "v1", comments := ["c2"] })] }),
                  ("r2", none)] }

/-- The FULL statement — for every history respecting the fetch contract the cache is the encoding of the
store — is **false** of the current code: alice creates a patch, another peer's reference to it arrives,
alice removes the patch (`Cache::remove`). Her reference is gone, the row is deleted, but the patch still
evaluates from the other reference. (Real code: `corpus/C09/findings.case`, class `stale-after-remove`.) -/
theorem cache_refines_store_counterexample :
    ∃ ops : List (Repo × Op Patch), Owned (fun _ => "A") ops ∧ (∀ x ∈ ops, FetchSound x.2) ∧
      view "A" (Store.run encPatch Store.empty ops).cache ≠
        ((Store.run encPatch Store.empty ops).truth "A").image encPatch := by
  refine ⟨[("A", .write "p1" (samplePatch .open)), ("A", .remove "p1" (some (samplePatch .open)))], ?_, ?_, ?_⟩
  · intro x hx
    simp only [List.mem_cons, List.mem_nil_iff, or_false] at hx
    rcases hx with rfl | rfl <;> rfl
  · intro x hx
    simp only [List.mem_cons, List.mem_nil_iff, or_false] at hx
    rcases hx with rfl | rfl <;> exact trivial
  · decide

/-- The hypothesis `Owned` cannot be dropped either: `Cache::remove` on repository `B` with the id of an
object of repository `A` (nothing to remove in `B`: `Store::remove` succeeds without doing anything)
deletes `A`'s row, because `DELETE … WHERE id = ?` ignores the repository; every operation is sound in
the sense of `FetchSound`/`RemoveLast`. (Real code: `corpus/C09/findings.case`, class `cross-repo-remove`.) -/
theorem cross_repo_remove_counterexample :
    ∃ ops : List (Repo × Op Patch), (∀ x ∈ ops, FetchSound x.2 ∧ RemoveLast x.2) ∧
      view "A" (Store.run encPatch Store.empty ops).cache ≠
        ((Store.run encPatch Store.empty ops).truth "A").image encPatch := by
  refine ⟨[("A", .write "p1" (samplePatch .open)), ("B", .remove "p1" none)], ?_, ?_⟩
  · intro x hx
    simp only [List.mem_cons, List.mem_nil_iff, or_false] at hx
    rcases hx with rfl | rfl <;> exact ⟨trivial, by simp [RemoveLast]⟩
  · decide

/-- Non-vacuity of `cache_refines_store_partial`: two repositories sharing the cache, every kind of
operation, `B` being mistreated (a removal that leaves the object alive, a change behind the cache's
back) while `A`'s operations are sound. -/
example :
    let owner : Id → Repo := fun id => if id = "q1" ∨ id = "q2" then "B" else "A"
    let ops : List (Repo × Op Patch) :=
      [("A", .write "p1" (samplePatch .open)), ("B", .write "q1" (samplePatch .draft)),
       ("A", .fetched [("p2", some (samplePatch .draft)), ("p1", some (samplePatch .merged))]
          [⟨"p2", false⟩, ⟨"p1", false⟩, ⟨"p9", true⟩]),
       ("B", .remove "q1" (some (samplePatch .draft))), ("B", .external [("q2", some (samplePatch .open))]),
       ("A", .rewrite "p2"), ("A", .remove "p1" none), ("A", .fetched [("p2", none)] [⟨"p2", false⟩]),
       ("A", .rewriteAll)]
    Owned owner ops ∧ SoundOn "A" ops ∧ ¬ SoundOn "B" ops := by
  refine ⟨?_, ?_, ?_⟩
  · intro x hx
    simp only [List.mem_cons, List.mem_nil_iff, or_false] at hx
    rcases hx with rfl | rfl | rfl | rfl | rfl | rfl | rfl | rfl | rfl <;> simp [OpOwned]
  · intro x hx hr
    simp only [List.mem_cons, List.mem_nil_iff, or_false] at hx
    rcases hx with rfl | rfl | rfl | rfl | rfl | rfl | rfl | rfl | rfl <;>
      first | (exact absurd hr (by decide)) | simp [FetchSound, RemoveLast]
  · intro h
    have := (h ("B", .external [("q2", some (samplePatch .open))]) (by simp) rfl).2
    exact this

/-- Non-vacuity of `write_all_restores`: the divergent prefix of `cache_refines_store_counterexample`
plus a change behind the cache's back, then `write_all`, then a sound suffix. -/
example :
    let ops : List (Repo × Op Patch) :=
      [("A", .write "p1" (samplePatch .open)), ("A", .remove "p1" (some (samplePatch .open))),
       ("A", .external [("p2", some (samplePatch .draft))])] ++ ("A", Op.rewriteAll) :: [("A", .write "p3" (samplePatch .merged))]
    view "A" (Store.run encPatch Store.empty ops).cache = ((Store.run encPatch Store.empty ops).truth "A").image encPatch ∧
    ((Store.run encPatch Store.empty ops).truth "A").length = 3 :=
  ⟨write_all_restores encPatch (fun _ => "A") "A" _ _
    (by intro x hx; simp at hx; rcases hx with rfl | rfl | rfl <;> simp [OpOwned])
    (by intro x hx; simp at hx; subst hx; rfl)
    (by intro x hx _; simp at hx; subst hx; exact ⟨trivial, trivial⟩), by decide⟩

/-! ## 2. Patch queries -/

private theorem PStatus.name_inj {a b : PStatus} (h : a.name = b.name) : a = b := by
  cases a <;> cases b <;> first | rfl | (simp [PStatus.name] at h)

/-- `get`: the cached answer is the direct answer, for every identifier. -/
theorem get_agree (c : PatchCodec) (hc : c.Lawful) (t : Table Patch) (id : Id) :
    cachedGet c (t.image c.enc) id = .ok (directGet t id) := by
  unfold cachedGet directGet
  rw [Table.lookup_image]
  cases t.lookup id with
  | none => rfl
  | some p => simp [Res.ofOption, Res.bind, hc.dec_enc]

/-- `list`. -/
theorem list_agree (c : PatchCodec) (hc : c.Lawful) (t : Table Patch) :
    cachedList c (t.image c.enc) = .ok (directList t) :=
  decodeRows_image hc.dec_enc t

private theorem statusKey_enc (c : PatchCodec) (hc : c.Lawful) (p : Patch) :
    statusKey (c.enc p) = some (.str p.state.status.name) := by
  obtain ⟨st, h1, _, h3⟩ := hc.state_at p
  simp [statusKey, Json.path?, h1, h3]

private theorem statusIs_enc (c : PatchCodec) (hc : c.Lawful) (p : Patch) (st : PStatus) :
    statusIs st.name (c.enc p) = decide (p.state.status = st) := by
  have h := statusKey_enc c hc p
  unfold statusKey at h
  unfold statusIs
  rw [h]
  simp only [Option.bind, Json.text?]
  by_cases hs : p.state.status = st
  · simp [hs]
  · have : ¬ p.state.status.name = st.name := fun e => hs (PStatus.name_inj e)
    simp [hs, this]

/-- `list_by_status`, for every status. -/
theorem list_by_status_agree (c : PatchCodec) (hc : c.Lawful) (t : Table Patch) (st : PStatus) :
    cachedListByStatus c (t.image c.enc) st = .ok (directListByStatus t st) := by
  unfold cachedListByStatus directListByStatus
  rw [filter_image c.enc (statusIs st.name) (fun p => decide (p.state.status = st)) t
    (fun kv _ => statusIs_enc c hc kv.2 st)]
  exact decodeRows_image hc.dec_enc _

private theorem patch_addLaws :
    AddLaws (fun s : PState => s.status.name) (fun (acc : PatchCounts) s n => acc.add s.status n) where
  congr := by
    intro acc s s' n h
    rw [PStatus.name_inj h]
  merge := by
    intro acc s n m
    cases hs : s.status <;> simp [PatchCounts.add, Nat.add_assoc]
  comm := by
    intro acc s n s' m
    cases hs : s.status <;> cases hs' : s'.status <;>
      simp [PatchCounts.add, Nat.add_assoc, Nat.add_comm, Nat.add_left_comm]

/-- `counts`, whichever row of a group SQLite takes the bare `state` column from. -/
theorem counts_agree (c : PatchCodec) (hc : c.Lawful) (pick : List Json → Option Json) (hp : PickOk pick)
    (t : Table Patch) : cachedCounts c pick (t.image c.enc) = .ok (directCounts t) := by
  unfold cachedCounts directCounts
  have hgood : ∀ x ∈ t.map (fun kv => (c.enc kv.2, kv.2.state)),
      GoodRow c.decState (fun s : PState => s.status.name) x.1 x.2 := by
    intro x hx
    obtain ⟨kv, _, rfl⟩ := List.mem_map.mp hx
    obtain ⟨st, h1, h2, _⟩ := hc.state_at kv.2
    exact ⟨by simp [rowState, h1, h2], statusKey_enc c hc kv.2⟩
  have h := (countsGo_groupBy patch_addLaws hp _ hgood ({} : PatchCounts)).1
  have hmap : (t.map (fun kv => (c.enc kv.2, kv.2.state))).map (·.1) = (t.image c.enc).map (·.2) := by
    simp [Table.image, List.map_map, Function.comp_def]
  rw [hmap] at h
  rw [h, List.foldr_map]
  congr 1
  exact (foldl_eq_foldr_add patch_addLaws (fun kv : Id × Patch => kv.2.state) t {}).symm

/-- What is assumed about the evaluated patches: the table is sorted by id (`Inv`), a patch lists a
revision id once (`BTreeMap`), and a revision whose id is the id of a patch in the repository belongs to
that patch (ids are commit hashes: the first revision of a patch *is* its root commit, and an entry belongs
to one object's history). Checked by the harness on every generated store. -/
structure PatchesWF (t : Table Patch) : Prop where
  sorted : Table.Sorted t
  rev_keys : ∀ kv ∈ t, (kv.2.revisions.map (·.1)).Nodup
  owner : ∀ kv ∈ t, ∀ rid, kv.2.revision rid ≠ none → t.lookup rid ≠ none → kv.1 = rid

private theorem filter_key_nil {β : Type} (l : List (Id × β)) (rid : Id) (P : β → Bool)
    (h : rid ∉ l.map (·.1)) : l.filter (fun m => decide (m.1 = rid) && P m.2) = [] := by
  induction l with
  | nil => rfl
  | cons m l ih =>
    simp only [List.map_cons, List.mem_cons, not_or] at h
    have hne : ¬ m.1 = rid := fun e => h.1 e.symm
    rw [List.filter_cons]
    simp [hne, ih h.2]

/-- `json_each` over the encoded `revisions` object, filtered by key and non-null type: the encoding of
the revision `Patch::revision` returns, if any. -/
private theorem revision_rows (c : PatchCodec) (hc : c.Lawful) (revs : List (Id × Option Revision)) (rid : Id)
    (hn : (revs.map (·.1)).Nodup) :
    ((revs.map fun kv => (kv.1, c.encRevOpt kv.2)).filter fun m => decide (m.1 = rid ∧ m.2 ≠ Json.null)).map (·.2)
      = match (Table.lookup rid revs).bind id with
        | some r => [c.encRev r]
        | none => [] := by
  induction revs with
  | nil => rfl
  | cons kv revs ih =>
    obtain ⟨k, o⟩ := kv
    simp only [List.map_cons, List.nodup_cons] at hn
    rw [List.map_cons, List.filter_cons, Table.lookup_cons]
    by_cases hk : k = rid
    · subst hk
      have htail : (revs.map fun kv => (kv.1, c.encRevOpt kv.2)).filter
          (fun m => decide (m.1 = k ∧ m.2 ≠ Json.null)) = [] := by
        have := filter_key_nil (revs.map fun kv => (kv.1, c.encRevOpt kv.2)) k (fun v => decide (v ≠ Json.null))
          (by simpa [List.map_map, Function.comp_def] using hn.1)
        simpa [Bool.decide_and] using this
      rw [htail]
      cases o with
      | none => simp [PatchCodec.encRevOpt]
      | some r => simp [PatchCodec.encRevOpt, hc.encRev_ne_null r]
    · simp only [hk, false_and, decide_false, if_false, Bool.false_eq_true]
      exact ih hn.2

private theorem revisionRows_image (c : PatchCodec) (hc : c.Lawful) (t : Table Patch) (rid : Id)
    (hn : ∀ kv ∈ t, (kv.2.revisions.map (·.1)).Nodup) :
    (revisionRows (t.image c.enc) rid).head? =
      (t.findSome? fun kv => (kv.2.revision rid).map fun r => (kv.1, kv.2, r)).map
        fun x => (x.1, c.enc x.2.1, c.encRev x.2.2) := by
  induction t with
  | nil => rfl
  | cons kv t ih =>
    obtain ⟨k, p⟩ := kv
    have ih' := ih (fun kv hkv => hn kv (List.mem_cons_of_mem _ hkv))
    have hrows := revision_rows c hc p.revisions rid (hn (k, p) List.mem_cons_self)
    unfold revisionRows at ih' ⊢
    rw [Table.image_cons, List.flatMap_cons, List.findSome?_cons]
    simp only [hc.revisions_at p, Json.members_ofObj]
    unfold Patch.revision
    cases hrev : (Table.lookup rid p.revisions).bind id with
    | none =>
      rw [hrev] at hrows
      have hnil : (p.revisions.map fun kv => (kv.1, c.encRevOpt kv.2)).filter
          (fun m => decide (m.1 = rid ∧ m.2 ≠ Json.null)) = [] := by
        cases hf : (p.revisions.map fun kv => (kv.1, c.encRevOpt kv.2)).filter
            (fun m => decide (m.1 = rid ∧ m.2 ≠ Json.null)) with
        | nil => rfl
        | cons a l => rw [hf] at hrows; simp at hrows
      simp only [hnil, List.map_nil, List.nil_append, Option.map_none]
      exact ih'
    | some r =>
      rw [hrev] at hrows
      cases hf : (p.revisions.map fun kv => (kv.1, c.encRevOpt kv.2)).filter
          (fun m => decide (m.1 = rid ∧ m.2 ≠ Json.null)) with
      | nil => rw [hf] at hrows; simp at hrows
      | cons a l =>
        rw [hf] at hrows
        simp only [List.map_cons, List.cons.injEq] at hrows
        simp [hrows.1]

private theorem cached_find_eq (c : PatchCodec) (hc : c.Lawful) (t : Table Patch) (rid : Id)
    (hn : ∀ kv ∈ t, (kv.2.revisions.map (·.1)).Nodup) :
    cachedFindByRevision c (t.image c.enc) rid =
      .ok (t.findSome? fun kv => (kv.2.revision rid).map fun r => (kv.1, kv.2, r)) := by
  unfold cachedFindByRevision
  rw [revisionRows_image c hc t rid hn]
  cases t.findSome? fun kv => (kv.2.revision rid).map fun r => (kv.1, kv.2, r) with
  | none => rfl
  | some x =>
    obtain ⟨id, p, r⟩ := x
    simp [Res.ofOption, Res.bind, hc.dec_enc, hc.decRev_encRev]

private theorem findSome?_unique {β γ : Type} (f : β → Option γ) (l : List β) (a : β)
    (hu : ∀ x ∈ l, f x ≠ none → x = a) (ha : a ∈ l) : l.findSome? f = f a := by
  induction l with
  | nil => cases ha
  | cons x l ih =>
    rw [List.findSome?_cons]
    cases hfx : f x with
    | some y =>
      have : x = a := hu x List.mem_cons_self (by rw [hfx]; simp)
      rw [← this, hfx]
    | none =>
      simp only
      rcases List.mem_cons.mp ha with e | e
      · -- `a` is the head and `f a = none`: nothing else can match
        subst e
        rw [hfx]
        apply List.findSome?_eq_none_iff.mpr
        intro y hy
        cases hfy : f y with
        | none => rfl
        | some z =>
          have : y = a := hu y (List.mem_cons_of_mem _ hy) (by rw [hfy]; simp)
          rw [this, hfx] at hfy; cases hfy
      · exact ih (fun y hy => hu y (List.mem_cons_of_mem _ hy)) e

private theorem direct_find_eq (t : Table Patch) (hwf : PatchesWF t) (rid : Id) :
    directFindByRevision t rid =
      t.findSome? fun kv => (kv.2.revision rid).map fun r => (kv.1, kv.2, r) := by
  unfold directFindByRevision
  cases hl : t.lookup rid with
  | none => rfl
  | some p =>
    simp only
    symm
    have hmem : (rid, p) ∈ t := Table.mem_of_lookup hl
    rw [findSome?_unique (fun kv : Id × Patch => (kv.2.revision rid).map fun r => (kv.1, kv.2, r)) t (rid, p) ?_ hmem]
    intro kv hkv hne
    obtain ⟨k, q⟩ := kv
    have hrev : q.revision rid ≠ none := by
      intro e; apply hne; simp [e]
    have hk : k = rid := hwf.owner (k, q) hkv rid hrev (by rw [hl]; simp)
    subst hk
    have := Table.lookup_of_mem hwf.sorted hkv
    rw [hl] at this
    cases this
    rfl

/-- `find_by_revision`: cached = direct for EVERY identifier — the id of a revision, of a redacted
revision, of a comment or review nested inside a revision, or an unknown id. -/
theorem find_by_revision_agree (c : PatchCodec) (hc : c.Lawful) (t : Table Patch) (hwf : PatchesWF t)
    (rid : Id) : cachedFindByRevision c (t.image c.enc) rid = .ok (directFindByRevision t rid) := by
  rw [cached_find_eq c hc t rid hwf.rev_keys, direct_find_eq t hwf rid]

/-! ## 3. Issue queries -/

theorem issue_get_agree (c : IssueCodec) (hc : c.Lawful) (t : Table Issue) (id : Id) :
    icachedGet c (t.image c.enc) id = .ok (idirectGet t id) := by
  unfold icachedGet idirectGet
  rw [Table.lookup_image]
  cases t.lookup id with
  | none => rfl
  | some p => simp [Res.ofOption, Res.bind, hc.dec_enc]

theorem issue_list_agree (c : IssueCodec) (hc : c.Lawful) (t : Table Issue) :
    icachedList c (t.image c.enc) = .ok (idirectList t) :=
  decodeRows_image hc.dec_enc t

private theorem istatusKey_enc (c : IssueCodec) (hc : c.Lawful) (i : Issue) :
    statusKey (c.enc i) = some (.str i.state.name) := by
  obtain ⟨st, h1, _, h3, _⟩ := hc.state_at i
  simp [statusKey, Json.path?, h1, h3]

private theorem ireason_enc (c : IssueCodec) (hc : c.Lawful) (i : Issue) :
    (c.enc i).path? ["state", "reason"] = i.state.reasonName.map Json.str := by
  obtain ⟨st, h1, _, _, h4⟩ := hc.state_at i
  simp only [Json.path?, h1, Option.bind, h4]
  cases i.state.reasonName <;> rfl

/-- The status name and the close reason determine the state. -/
private theorem IState.eq_of_name_reason {a b : IState} (h1 : a.name = b.name) (h2 : a.reasonName = b.reasonName) :
    a = b := by
  cases a with
  | «open» =>
    cases b with
    | «open» => rfl
    | closed r => simp [IState.name] at h1
  | closed r =>
    cases b with
    | «open» => simp [IState.name] at h1
    | closed r' => cases r <;> cases r' <;> first | rfl | (simp [IState.reasonName] at h2)

/-- The two SQL conditions hold of an encoded issue iff its whole state equals the filter. -/
private theorem istate_filter_enc (c : IssueCodec) (hc : c.Lawful) (i : Issue) (f : IState) :
    (statusIs f.name (c.enc i) && reasonIs f (c.enc i)) = decide (i.state = f) := by
  have hs : statusIs f.name (c.enc i) = decide (i.state.name = f.name) := by
    have h := istatusKey_enc c hc i
    unfold statusKey at h
    unfold statusIs
    rw [h]
    simp [Option.bind, Json.text?]
  have hr : reasonIs f (c.enc i) = decide (i.state.reasonName = f.reasonName) := by
    unfold reasonIs sqlIs
    rw [ireason_enc c hc i]
    cases hi : i.state.reasonName <;> cases hf : f.reasonName <;> simp
  rw [hs, hr]
  by_cases h : i.state = f
  · subst h; simp
  · have : ¬ (i.state.name = f.name ∧ i.state.reasonName = f.reasonName) :=
      fun ⟨h1, h2⟩ => h (IState.eq_of_name_reason h1 h2)
    simp only [h, decide_false]
    by_cases h1 : i.state.name = f.name
    · have h2 : ¬ i.state.reasonName = f.reasonName := fun e => this ⟨h1, e⟩
      simp [h1, h2]
    · simp [h1]

/-- `list_by_status` for issues, for EVERY filter (open, closed as solved, closed for another reason):
cached = direct (the code after `fix: cob: cached Issues::list_by_status takes the close reason into
account`, 6cbb486). -/
theorem issue_list_by_status_agree (c : IssueCodec) (hc : c.Lawful) (t : Table Issue) (f : IState) :
    icachedListByStatus c (t.image c.enc) f = .ok (idirectListByStatus t f) := by
  unfold icachedListByStatus idirectListByStatus
  rw [filter_image c.enc (fun j => statusIs f.name j && reasonIs f j) (fun i => decide (i.state = f)) t
    (fun kv _ => istate_filter_enc c hc kv.2 f)]
  exact decodeRows_image hc.dec_enc _

/-- Before the fix 6cbb486 the statement was false for every lawful encoding: an issue closed as `other`
was returned by the cached `solved()` query and not by the direct one. Kept as documentation of the corpus
witness `corpus/C09/issue-status-reason.case`. -/
theorem issue_list_by_status_pre_fix_counterexample (c : IssueCodec) (hc : c.Lawful) :
    ∃ (t : Table Issue) (f : IState),
      preFixIcachedListByStatus c (t.image c.enc) f ≠ .ok (idirectListByStatus t f) := by
  refine ⟨[("i1", { state := .closed .other, comments := [], digest := "d" })], .closed .solved, ?_⟩
  unfold preFixIcachedListByStatus
  rw [filter_image c.enc (statusIs (IState.closed .solved).name) (fun i => decide (i.state.name = (IState.closed .solved).name))
    _ ?_, decodeRows_image hc.dec_enc]
  · simp [idirectListByStatus, IState.name]
  · intro kv _
    have h := istatusKey_enc c hc kv.2
    unfold statusKey at h
    unfold statusIs
    rw [h]
    simp [Option.bind, Json.text?]

private theorem issue_addLaws : AddLaws IState.name IssueCounts.add where
  congr := by
    intro acc s s' n h
    cases s <;> cases s' <;> first | rfl | (simp [IState.name] at h)
  merge := by
    intro acc s n m
    cases s <;> simp [IssueCounts.add, Nat.add_assoc]
  comm := by
    intro acc s n s' m
    cases s <;> cases s' <;> simp [IssueCounts.add, Nat.add_assoc, Nat.add_comm, Nat.add_left_comm]

theorem issue_counts_agree (c : IssueCodec) (hc : c.Lawful) (pick : List Json → Option Json)
    (hp : PickOk pick) (t : Table Issue) :
    icachedCounts c pick (t.image c.enc) = .ok (idirectCounts t) := by
  unfold icachedCounts idirectCounts
  have hgood : ∀ x ∈ t.map (fun kv => (c.enc kv.2, kv.2.state)),
      GoodRow c.decState IState.name x.1 x.2 := by
    intro x hx
    obtain ⟨kv, _, rfl⟩ := List.mem_map.mp hx
    obtain ⟨st, h1, h2, _, _⟩ := hc.state_at kv.2
    exact ⟨by simp [rowState, h1, h2], istatusKey_enc c hc kv.2⟩
  have h := (countsGo_groupBy issue_addLaws hp _ hgood ({} : IssueCounts)).1
  have hmap : (t.map (fun kv => (c.enc kv.2, kv.2.state))).map (·.1) = (t.image c.enc).map (·.2) := by
    simp [Table.image, List.map_map, Function.comp_def]
  rw [hmap] at h
  rw [h, List.foldr_map]
  congr 1
  exact (foldl_eq_foldr_add issue_addLaws (fun kv : Id × Issue => kv.2.state) t {}).symm

/-! ## 4. Histories -/

/-- After ANY history over any number of repositories sharing the cache (operations naming ids of their
own repository), for every repository `r` whose own operations are creations, updates, removals of a last
reference, fetched updates respecting the fetch contract, `write` and `write_all` — and whatever happens in
the other repositories — every patch query on `r`'s cache handle returns what direct evaluation in `r`
returns. -/
theorem patch_queries_agree_after_history (c : PatchCodec) (hc : c.Lawful)
    (pick : List Json → Option Json) (hp : PickOk pick) (owner : Id → Repo) (ops : List (Repo × Op Patch))
    (ho : Owned owner ops) (r : Repo) (hs : SoundOn r ops)
    (hrev : ∀ kv ∈ (Store.run c.enc Store.empty ops).truth r, (kv.2.revisions.map (·.1)).Nodup)
    (hown : ∀ kv ∈ (Store.run c.enc Store.empty ops).truth r, ∀ rid, kv.2.revision rid ≠ none →
      ((Store.run c.enc Store.empty ops).truth r).lookup rid ≠ none → kv.1 = rid) :
    let s := Store.run c.enc Store.empty ops
    (∀ id, cachedGet c (view r s.cache) id = .ok (directGet (s.truth r) id)) ∧
    cachedList c (view r s.cache) = .ok (directList (s.truth r)) ∧
    (∀ st, cachedListByStatus c (view r s.cache) st = .ok (directListByStatus (s.truth r) st)) ∧
    cachedCounts c pick (view r s.cache) = .ok (directCounts (s.truth r)) ∧
    (∀ rid, cachedFindByRevision c (view r s.cache) rid = .ok (directFindByRevision (s.truth r) rid)) := by
  intro s
  obtain ⟨hcache, hsorted⟩ := cache_refines_store_partial c.enc owner ops ho r hs
  have hcache' : view r s.cache = (s.truth r).image c.enc := hcache
  rw [hcache']
  exact ⟨get_agree c hc _, list_agree c hc _, list_by_status_agree c hc _, counts_agree c hc pick hp _,
    find_by_revision_agree c hc _ ⟨hsorted, hrev, hown⟩⟩

theorem issue_queries_agree_after_history (c : IssueCodec) (hc : c.Lawful)
    (pick : List Json → Option Json) (hp : PickOk pick) (owner : Id → Repo) (ops : List (Repo × Op Issue))
    (ho : Owned owner ops) (r : Repo) (hs : SoundOn r ops) :
    let s := Store.run c.enc Store.empty ops
    (∀ id, icachedGet c (view r s.cache) id = .ok (idirectGet (s.truth r) id)) ∧
    icachedList c (view r s.cache) = .ok (idirectList (s.truth r)) ∧
    (∀ f, icachedListByStatus c (view r s.cache) f = .ok (idirectListByStatus (s.truth r) f)) ∧
    icachedCounts c pick (view r s.cache) = .ok (idirectCounts (s.truth r)) := by
  intro s
  obtain ⟨hcache, _⟩ := cache_refines_store_partial c.enc owner ops ho r hs
  have hcache' : view r s.cache = (s.truth r).image c.enc := hcache
  rw [hcache']
  exact ⟨issue_get_agree c hc _, issue_list_agree c hc _, issue_list_by_status_agree c hc _,
    issue_counts_agree c hc pick hp _⟩

/-! ## 5. Non-vacuity, and the query before the fix -/

/-- The hypotheses on the encoding are satisfiable: the encoding used by the driver is lawful. -/
example : stdPatchCodec.Lawful := stdPatchCodec_lawful
example : stdIssueCodec.Lawful := stdIssueCodec_lawful
example : PickOk List.head? := pickOk_head

/-- One patch `p1` whose first revision (`p1`) has a comment `c1` and a review `v1` with a comment `c2`,
and whose second revision `r2` is redacted. -/
def sampleTable : Table Patch := [("p1", samplePatch .open)]

theorem sampleTable_wf : PatchesWF sampleTable where
  sorted := by simp [sampleTable, Table.Sorted]
  rev_keys := by decide
  owner := by
    intro kv hkv rid _ hl
    simp only [sampleTable, List.mem_singleton] at hkv
    subst hkv
    simp only [sampleTable, Table.lookup_cons, Table.lookup_nil] at hl
    by_cases h : "p1" = rid
    · exact h
    · rw [if_neg h] at hl; exact absurd rfl hl

/-- `find_by_revision_agree` on a non-trivial store: the existing revision is found on both paths; the
redacted revision, the nested comment, the review, the review comment and an unknown id are `None` on both
paths. -/
example :
    cachedFindByRevision stdPatchCodec (sampleTable.image encPatch) "p1" = .ok (directFindByRevision sampleTable "p1") ∧
    directFindByRevision sampleTable "p1" ≠ none ∧
    (∀ rid ∈ ["r2", "c1", "v1", "c2", "zz"],
      cachedFindByRevision stdPatchCodec (sampleTable.image encPatch) rid = .ok none ∧
      directFindByRevision sampleTable rid = none) :=
  ⟨find_by_revision_agree stdPatchCodec stdPatchCodec_lawful _ sampleTable_wf _, by decide, by decide⟩

/-- Before `fix: match only top-level, non-redacted revisions in cached find_by_revision` (08c943d) the
statement `find_by_revision_agree` was false: with `json_tree` the id of a comment nested in a revision's
discussion matched (and failed to decode as a revision), and the id of a redacted revision matched a
`null` (a panic in the `sqlite` crate), while direct evaluation answers `None`. Kept as documentation of
the corpus witnesses `corpus/C09/find-by-revision.case`. -/
theorem find_by_revision_pre_fix_counterexample :
    preFixFindByRevision stdPatchCodec (sampleTable.image encPatch) "c1" = .err ∧
    directFindByRevision sampleTable "c1" = none ∧
    preFixFindByRevision stdPatchCodec (sampleTable.image encPatch) "r2" = .panic ∧
    directFindByRevision sampleTable "r2" = none := by decide

/-- Non-vacuity of the counts / status theorems: two statuses present. -/
example :
    cachedCounts stdPatchCodec List.head?
      (Table.image encPatch [("p1", samplePatch .open), ("p2", samplePatch .merged), ("p3", samplePatch .open)])
      = .ok { open_ := 2, merged := 1 } := by decide

/-- The issue filters on the concrete encoding: `solved()` returns the solved issue only, before the fix it
also returned the issue closed as `other`. -/
example :
    icachedListByStatus stdIssueCodec
      (Table.image encIssue [("i1", { state := .closed .other, comments := [], digest := "d" }),
                             ("i2", { state := .closed .solved, comments := [], digest := "e" })]) (.closed .solved)
      = .ok [("i2", { state := .closed .solved, comments := [], digest := "e" })] ∧
    preFixIcachedListByStatus stdIssueCodec
      (Table.image encIssue [("i1", { state := .closed .other, comments := [], digest := "d" }),
                             ("i2", { state := .closed .solved, comments := [], digest := "e" })]) (.closed .solved)
      = .ok [("i1", { state := .closed .other, comments := [], digest := "d" }),
             ("i2", { state := .closed .solved, comments := [], digest := "e" })] := by
  decide

end HeartwoodModel.CobCache
