#!/usr/bin/env python3
"""Regenerate MANIFEST.json from meta/Cxx.json (claimed properties = those with a meta file whose
"claimed" is not false and a Props/Cxx.lean). Everything else is listed under not_applicable with the
reason recorded in meta/not_claimed.json (default: not built yet)."""
import json, re
from pathlib import Path
ROOT = Path(__file__).resolve().parent.parent
props = [json.loads(l) for l in (ROOT / "properties.jsonl").read_text().splitlines() if l.strip()]
nc_file = ROOT / "meta" / "not_claimed.json"
not_claimed = json.loads(nc_file.read_text()) if nc_file.exists() else {}
hooks_file = ROOT / "meta" / "hooks.json"
hooks = json.loads(hooks_file.read_text()) if hooks_file.exists() else {"source_commits": []}
checks, na = [], []
for p in props:
    pid = p["id"]
    mf = ROOT / "meta" / f"{pid}.json"
    lean = ROOT / "lean" / "HeartwoodModel" / "Props" / f"{pid}.lean"
    if mf.exists() and lean.exists() and json.loads(mf.read_text()).get("claimed", True):
        m = json.loads(mf.read_text())
        checks.append({
            "property_id": pid,
            "quick_cmd": f"./check {pid} --tier quick",
            "thorough_cmd": f"./check {pid} --tier thorough",
            "evidence_file": f"/verif/evidence/{pid}.json",
            "replay_cmd_template": f"./check {pid} --replay {{path}}",
            "engine": "lean4-proof+differential-tie",
            "level_claimed": {"category": "proof", "text": m["level_text"], "design_ref": m.get("design_ref", "DESIGN.md §6 " + pid)},
            "level_note": m["level_note"],
            "technique": m["technique"],
        })
    else:
        na.append({"property_id": pid, "reason": not_claimed.get(pid, "not claimed yet: model, theorems and harness for this property are still being built (see DESIGN.md §6 " + pid + ")")})
manifest = {
    "version": 1,
    "setup_cmd": "./setup.sh",
    "hooks": {
        "guard": "cargo feature `verif-hooks` (crates radicle-node, radicle-cob)",
        "enable": "the harness crates under /verif/harness depend on /repo/crates/* by path with features [\"verif-hooks\"] (and radicle-node's existing \"test\" feature); cargo build -p cNN rebuilds from /repo's working tree",
        "baseline_off_cmd": "cd /repo && cargo nextest run --workspace --no-fail-fast --test-threads 8 --offline || cargo test --workspace --no-fail-fast --offline",
        "source_commits": hooks.get("source_commits", []),
        "add_only": True,
    },
    "engines": [{
        "name": "lean4-proof+differential-tie",
        "path": "/verif/check",
        "serves_properties": [c["property_id"] for c in checks],
        "kind_free_text": "Lean 4 theorems about hand-written executable models (lean/HeartwoodModel), tied to /repo on every run by a Rust harness (harness/cNN) that executes the real code and a compiled Lean driver that executes the model on the same inputs; outputs diffed; property oracle on the real outputs",
    }],
    "checks": checks,
    "not_applicable": na,
    "notes": "Every check: (1) lake build of the property's theorem module + axiom audit (#print-axioms equivalent via Audit.lean) + forbidden-construct grep; (2) cargo build of the harness against /repo's working tree; (3) model-vs-implementation diff on corpus + generated cases; (4) property oracle on the real outputs; known findings in known-findings.json.",
}
(ROOT / "MANIFEST.json").write_text(json.dumps(manifest, indent=1, ensure_ascii=False) + "\n")
print(f"claimed {len(checks)}; not claimed {len(na)}")
