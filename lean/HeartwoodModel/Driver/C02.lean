import HeartwoodModel.Model.Fetch
import HeartwoodModel.Driver.Util
import HeartwoodModel.Driver.C01
/-! Driver entry for C02. C01 and C02 share one model (`Model/Fetch.lean`), one harness set-up and one
case format (DESIGN.md §6): the case parser and printer live in `Driver/C01.lean`. -/
namespace HeartwoodModel.Driver.C02

def run (args : List String) : String := HeartwoodModel.Driver.C01.run args

end HeartwoodModel.Driver.C02
