import HeartwoodModel.Model.Wire
import HeartwoodModel.Model.Frame
import HeartwoodModel.Driver.Util
/-! Driver entry for C15.

Case: `<message bytes hex> <onion set> <flag>` — `wire::deserialize::<Message>` on the bytes. `onion set`:
the raw 35-byte Tor addresses of the input accepted by the real `OnionAddrV3::from_raw_bytes`. `flag`
(`g` = the bytes were produced by `wire::serialize` from a constructed message) is for the harness oracle.

Output: `ok <re-encoding> lossy=<->|p|a>` (`p`: a ping/pong padding byte was not zero; `a`: the user agent of
a node announcement was missing and defaulted; the re-encoding is `!` when `wire::serialize`
would panic), `incomplete` (EOF error), `invalid` (any other error), `panic:<site>`.

Second form `F <stream hex> <cuts> <onion set>`: the production path — the stream is fed to a
`Deserializer<2097152, Frame<Message>>` split at `cuts`; output `<groups> end=<..> left=<n>` as in C14. -/
namespace HeartwoodModel.Driver.C15
open HeartwoodModel.Codec HeartwoodModel.Wire HeartwoodModel.Frame HeartwoodModel.Driver.Util

def toBytes (l : List Nat) : Bytes := l.map UInt8.ofNat
def ofBytes (b : Bytes) : List Nat := b.map UInt8.toNat

/-- djb2 over the bytes, 32 bit. -/
def hash (b : Bytes) : Nat := b.foldl (fun h x => (h * 33 + x.toNat) % 4294967296) 5381

def short (b : Bytes) : String :=
  if b.length ≤ 24 then toHex (ofBytes b) else s!"#{b.length}.{hash b}"

def parseSet (s : String) : Option (List Bytes) :=
  if s == "-" then some [] else ((splitOn s ',').mapM hexBytes?).map (·.map toBytes)

def showFrame (f : Frame Msg) : String :=
  match f.data with
  | .control (.open s) => s!"c{f.stream}:o{s}"
  | .control (.close s) => s!"c{f.stream}:x{s}"
  | .control (.eof s) => s!"c{f.stream}:e{s}"
  | .git d => s!"t{f.stream}:{short d}"
  | .gossip m =>
    match m.serialize? with
    | some b => s!"g{f.stream}:{short b}"
    | none => s!"g{f.stream}:!"

def showGroup (g : List (Frame Msg)) : String :=
  if g.isEmpty then "-" else joinWith ";" (g.map showFrame)

/-- Split `b` at the positions `cuts` (`pos` = bytes already cut). -/
def chunksOf (b : Bytes) (pos : Nat) : List Nat → Option (List Bytes)
  | [] => some [b]
  | c :: cs =>
    if c < pos || c - pos > b.length then none
    else (chunksOf (b.drop (c - pos)) c cs).map (b.take (c - pos) :: ·)

def runStream (streamS cutsS onionS : String) : String :=
  match hexBytes? streamS, nats? cutsS, parseSet onionS with
  | some stream, some cuts, some onions =>
    let env : Env := ⟨fun raw => onions.contains raw⟩
    match chunksOf (toBytes stream) 0 cuts with
    | none => "bad-op"
    | some chunks =>
      match Deser.feed (Frame.decode (decodeMsg env)) 2097152 ⟨[]⟩ chunks with
      | none => "fuel"
      | some (groups, s, e) =>
        let endS := match e with
          | .more => "more" | .err => "err" | .full => "full" | .panic site => s!"panic:{site}"
        let gs := if groups.isEmpty then "-" else joinWith "|" (groups.map showGroup)
        s!"{gs} end={endS} left={s.buf.length}"
  | _, _, _ => "bad-op"

def run (args : List String) : String :=
  match args with
  | ["F", streamS, cutsS, onionS] => runStream streamS cutsS onionS
  | [bytesS, onionS, _flag] =>
    match hexBytes? bytesS, parseSet onionS with
    | some bytes, some onions =>
      let env : Env := ⟨fun raw => onions.contains raw⟩
      match deserializeG env (toBytes bytes) with
      | .ok (m, g) _ =>
        let re := match m.serialize? with
          | some b => short b
          | none => "!"
        let lossy := if g.padNonZero then "p" else if g.agentDefaulted then "a" else "-"
        s!"ok {re} lossy={lossy}"
      | .incomplete => "incomplete"
      | .invalid => "invalid"
      | .panic site => s!"panic:{site}"
    | _, _ => "bad-op"
  | _ => "bad-op"

end HeartwoodModel.Driver.C15
