/-!
# Model of the node's SQLite-backed stores (C24)

* `crates/radicle/src/node/routing.rs`        — table `routing (repo, node) ⇀ timestamp`
* `crates/radicle/src/node/seed/store.rs`     — table `repo-sync-status (repo, node) ⇀ (head, timestamp)`
* `crates/radicle/src/node/refs/store.rs`     — table `refs (repo, namespace, ref) ⇀ (oid, timestamp)`
* `crates/radicle/src/node/policy/store.rs`   — tables `following id ⇀ (alias, policy)`, `seeding id ⇀ (scope, policy)`
* `crates/radicle-node/src/service/gossip/store.rs` — table `announcements (node, repo, type) ⇀ (message, signature, timestamp, relay)`

The SQL semantics are *restated*: a table with a uniqueness constraint is an association list with at
most one row per key, in insertion (rowid) order; `INSERT … ON CONFLICT DO UPDATE SET … WHERE g` is
`find`/`put` with the guard `g` evaluated on the existing row; `change_count() > 0` is "a row was inserted
or the guard held". Identifiers (repository ids, node ids, ref names, oids, aliases, payloads) are natural
numbers; timestamps are natural numbers (the code stores them as `i64`, the harness stays below
`i64::MAX`). Foreign keys are switched off (as in the repository's own store tests).

`routing.prune` is a *relation*: `DELETE … WHERE node <> ?ignore AND rowid IN (SELECT rowid … WHERE
timestamp < ?oldest ORDER BY timestamp LIMIT ?limit)` — which rows the inner `SELECT` returns is not
determined by SQL when timestamps tie at the cut. `selectionOk` says what a legal result of the inner
`SELECT` is; `Routing.pruneWith` applies the `DELETE` for a given selection.
-/
namespace HeartwoodModel.Stores

/-! ## tables -/

/-- `SELECT … WHERE key = k` -/
def find [DecidableEq K] (k : K) : List (K × V) → Option V
  | [] => none
  | (k', v) :: r => if k' = k then some v else find k r

/-- Insert a new row (at the end: the greatest rowid) or overwrite the row with key `k` in place. -/
def put [DecidableEq K] (k : K) (v : V) : List (K × V) → List (K × V)
  | [] => [(k, v)]
  | (k', v') :: r => if k' = k then (k, v) :: r else (k', v') :: put k v r

/-- `DELETE … WHERE key = k` -/
def del [DecidableEq K] (k : K) : List (K × V) → List (K × V)
  | [] => []
  | (k', v') :: r => if k' = k then del k r else (k', v') :: del k r

/-! ## routing -/

/-- `(repo, node)` -/
abbrev RKey := Nat × Nat
/-- `routing`: `(repo, node) ⇀ timestamp` -/
abbrev Routing := List (RKey × Nat)

inductive InsertResult where
  | notUpdated | timeUpdated | seedAdded
  deriving DecidableEq, Repr

/-- One iteration of `add_inventory`: `INSERT … ON CONFLICT DO UPDATE SET timestamp = ?3 WHERE timestamp < ?3`. -/
def Routing.add1 (st : Routing) (rid nid t : Nat) : Routing × InsertResult :=
  match find (rid, nid) st with
  | none => (put (rid, nid) t st, .seedAdded)
  | some ts => if ts < t then (put (rid, nid) t st, .timeUpdated) else (st, .notUpdated)

/-- `add_inventory(ids, node, time)` -/
def Routing.add (st : Routing) : List Nat → Nat → Nat → Routing × List InsertResult
  | [], _, _ => (st, [])
  | r :: rs, nid, t =>
    let s1 := Routing.add1 st r nid t
    let s2 := Routing.add s1.1 rs nid t
    (s2.1, s1.2 :: s2.2)

/-- `remove_inventory` -/
def Routing.remove (st : Routing) (rid nid : Nat) : Routing × Bool :=
  (del (rid, nid) st, (find (rid, nid) st).isSome)

/-- `remove_inventories` -/
def Routing.removeMany (st : Routing) (rids : List Nat) (nid : Nat) : Routing :=
  rids.foldl (fun s r => del (r, nid) s) st

/-- Rows with `timestamp < oldest`. -/
def Routing.candidates (st : Routing) (oldest : Nat) : Routing := st.filter (fun e => e.2 < oldest)

/-- `LIMIT ?3` with `limit.unwrap_or(i64::MAX)`. -/
def Routing.selSize (st : Routing) (oldest : Nat) (limit : Option Nat) : Nat :=
  match limit with
  | none => (Routing.candidates st oldest).length
  | some l => min l (Routing.candidates st oldest).length

/-- `sel` (a list of keys) is a legal result of
`SELECT rowid FROM routing WHERE timestamp < oldest ORDER BY timestamp LIMIT limit`: distinct candidate
rows, as many as the limit allows, and no unselected candidate is strictly older than a selected one. -/
def Routing.selectionOk (st : Routing) (oldest : Nat) (limit : Option Nat) (sel : List RKey) : Bool :=
  sel.eraseDups.length == sel.length &&
  sel.all (fun k => match find k st with
    | some t => t < oldest
    | none => false) &&
  sel.length == Routing.selSize st oldest limit &&
  sel.all (fun k => (Routing.candidates st oldest).all (fun e =>
    sel.contains e.1 || (match find k st with
      | some t => t ≤ e.2
      | none => false)))

/-- The outer `DELETE FROM routing WHERE node <> ?ignore AND rowid IN sel`; returns `change_count()`. -/
def Routing.pruneWith (st : Routing) (ignore : Nat) (sel : List RKey) : Routing × Nat :=
  let st' := st.filter (fun e => !(sel.contains e.1 && e.1.2 != ignore))
  (st', st.length - st'.length)

/-- Operations on the routing table; `prune` carries the selection made by the inner `SELECT`. -/
inductive ROp where
  | add (rids : List Nat) (nid t : Nat)
  | remove (rid nid : Nat)
  | removeMany (rids : List Nat) (nid : Nat)
  | prune (oldest : Nat) (limit : Option Nat) (ignore : Nat) (sel : List RKey)

/-- One operation; `none` when `sel` is not a legal selection (no such execution exists). -/
def Routing.step (st : Routing) : ROp → Option Routing
  | .add rids nid t => some (Routing.add st rids nid t).1
  | .remove rid nid => some (Routing.remove st rid nid).1
  | .removeMany rids nid => some (Routing.removeMany st rids nid)
  | .prune oldest limit ignore sel =>
    if Routing.selectionOk st oldest limit sel then some (Routing.pruneWith st ignore sel).1 else none

def Routing.run (st : Routing) : List ROp → Option Routing
  | [] => some st
  | op :: ops =>
    match Routing.step st op with
    | none => none
    | some st' => Routing.run st' ops

/-- `get(rid)` (sorted by the driver) -/
def Routing.get (st : Routing) (rid : Nat) : List Nat := (st.filter (fun e => e.1.1 = rid)).map (·.1.2)
/-- `get_inventory(nid)` -/
def Routing.inventory (st : Routing) (nid : Nat) : List Nat := (st.filter (fun e => e.1.2 = nid)).map (·.1.1)

/-! ## `repo-sync-status` and `refs`: guarded upsert of `(value, timestamp)` -/

/-- `key ⇀ (value, timestamp)` -/
abbrev Guarded (K : Type) := List (K × (Nat × Nat))

/-- `INSERT … ON CONFLICT DO UPDATE SET value = ?v, timestamp = ?t WHERE timestamp < ?t AND value <> ?v`;
returns `change_count() > 0`. -/
def Guarded.set [DecidableEq K] (st : Guarded K) (k : K) (v t : Nat) : Guarded K × Bool :=
  match find k st with
  | none => (put k (v, t) st, true)
  | some (v0, t0) => if t0 < t ∧ v0 ≠ v then (put k (v, t) st, true) else (st, false)

/-- `DELETE … WHERE key`; returns `change_count() > 0`. -/
def Guarded.delete [DecidableEq K] (st : Guarded K) (k : K) : Guarded K × Bool :=
  (del k st, (find k st).isSome)

inductive GuardedOp (K : Type) where
  | set (k : K) (v t : Nat)
  | delete (k : K)

def Guarded.step [DecidableEq K] (st : Guarded K) : GuardedOp K → Guarded K
  | .set k v t => (Guarded.set st k v t).1
  | .delete k => (Guarded.delete st k).1

/-- `repo-sync-status`: `(repo, node) ⇀ (head, timestamp)` -/
abbrev SyncStatus := Guarded (Nat × Nat)
/-- `refs`: `(repo, namespace, ref) ⇀ (oid, timestamp)` -/
abbrev RefsDb := Guarded (Nat × Nat × Nat)

/-! ## policies -/

inductive Policy where
  | allow | block
  deriving DecidableEq, Repr

inductive Scope where
  | followed | all
  deriving DecidableEq, Repr

/-- `following` row; `alias = 0` is the empty string (no alias). -/
structure FollowRow where
  alias : Nat
  policy : Policy
  deriving DecidableEq, Repr

structure SeedRow where
  scope : Scope
  policy : Policy
  deriving DecidableEq, Repr

structure PolicyDb where
  following : List (Nat × FollowRow)
  seeding : List (Nat × SeedRow)

inductive POp where
  | follow (id alias : Nat)
  | setFollowPolicy (id : Nat) (p : Policy)
  | unfollow (id : Nat)
  | unblockNid (id : Nat)
  | seed (id : Nat) (scope : Scope)
  | setSeedPolicy (id : Nat) (p : Policy)
  | unseed (id : Nat)
  | unblockRid (id : Nat)

/-- Every write returns `change_count() > 0`. Column defaults: `alias ''`, `scope 'followed'`, `policy 'allow'`. -/
def PolicyDb.step (db : PolicyDb) : POp → PolicyDb × Bool
  | .follow id alias =>
    match find id db.following with
    | none => ({ db with following := put id ⟨alias, .allow⟩ db.following }, true)
    | some r =>
      if r.alias ≠ alias then ({ db with following := put id { r with alias := alias } db.following }, true)
      else (db, false)
  | .setFollowPolicy id p =>
    match find id db.following with
    | none => ({ db with following := put id ⟨0, p⟩ db.following }, true)
    | some r =>
      if r.policy ≠ p then ({ db with following := put id { r with policy := p } db.following }, true)
      else (db, false)
  | .unfollow id => ({ db with following := del id db.following }, (find id db.following).isSome)
  | .unblockNid id =>
    match find id db.following with
    | some ⟨_, .block⟩ => ({ db with following := del id db.following }, true)
    | _ => (db, false)
  | .seed id scope =>
    match find id db.seeding with
    | none => ({ db with seeding := put id ⟨scope, .allow⟩ db.seeding }, true)
    | some r =>
      if r.scope ≠ scope then ({ db with seeding := put id { r with scope := scope } db.seeding }, true)
      else (db, false)
  | .setSeedPolicy id p =>
    match find id db.seeding with
    | none => ({ db with seeding := put id ⟨.followed, p⟩ db.seeding }, true)
    | some r =>
      if r.policy ≠ p then ({ db with seeding := put id { r with policy := p } db.seeding }, true)
      else (db, false)
  | .unseed id => ({ db with seeding := del id db.seeding }, (find id db.seeding).isSome)
  | .unblockRid id =>
    match find id db.seeding with
    | some ⟨_, .block⟩ => ({ db with seeding := del id db.seeding }, true)
    | _ => (db, false)

def PolicyDb.run (db : PolicyDb) (ops : List POp) : PolicyDb := ops.foldl (fun d op => (d.step op).1) db

/-- `SeedingPolicy` as returned by `seed_policy`: the scope is only visible when allowed. -/
inductive SeedingPolicy where
  | allow (scope : Scope)
  | block
  deriving DecidableEq, Repr

def PolicyDb.seedPolicy (db : PolicyDb) (id : Nat) : Option SeedingPolicy :=
  (find id db.seeding).map fun r =>
    match r.policy with
    | .allow => .allow r.scope
    | .block => .block

def PolicyDb.followPolicy (db : PolicyDb) (id : Nat) : Option FollowRow := find id db.following

/-! ## gossip store -/

inductive Relay where
  | relay | dontRelay | relayedAt (t : Nat)
  deriving DecidableEq, Repr

/-- `(node, repo, type)`; `repo = 0` is the empty string (node and inventory announcements);
`type`: 0 inventory, 1 node, 2 refs (the text order of the column values). -/
abbrev GKey := Nat × Nat × Nat

structure GRow where
  rowid : Nat
  /-- stands for `(message, signature)` -/
  payload : Nat
  ts : Nat
  relay : Relay
  deriving DecidableEq, Repr

abbrev Gossip := List (GKey × GRow)

/-- SQLite rowid of a new row: one more than the largest rowid in use. -/
def Gossip.nextRowid (st : Gossip) : Nat := st.foldl (fun m e => max m e.2.rowid) 0 + 1

inductive GOp where
  | announced (key : GKey) (payload ts : Nat)
  | setRelay (id : Nat) (r : Relay)
  | relays (now : Nat)
  | prune (cutoff : Nat)

inductive GOut where
  | id (o : Option Nat)
  | unit
  | rows (l : List (GKey × GRow))
  | count (n : Nat)
  deriving Repr

/-- One operation; `none` = the `assert_ne!(timestamp, 0)` in `announced` panics. -/
def Gossip.step (st : Gossip) : GOp → Option (Gossip × GOut)
  | .announced key payload ts =>
    if ts = 0 then none
    else
      match find key st with
      | none =>
        let id := Gossip.nextRowid st
        some (put key ⟨id, payload, ts, .dontRelay⟩ st, .id (some id))
      | some r =>
        if r.ts < ts then some (put key { r with payload := payload, ts := ts } st, .id (some r.rowid))
        else some (st, .id none)
  | .setRelay id r => some (st.map (fun e => (e.1, if e.2.rowid = id then { e.2 with relay := r } else e.2)), .unit)
  | .relays now =>
    some (st.map (fun e => (e.1, if e.2.relay = .relay then { e.2 with relay := .relayedAt now } else e.2)),
      .rows ((st.filter (fun e => e.2.relay = .relay)).map
        (fun e => (e.1, { e.2 with relay := .relayedAt now }))))
  | .prune cutoff =>
    some (st.filter (fun e => !(e.2.ts < cutoff)), .count (st.filter (fun e => e.2.ts < cutoff)).length)

/-- `filtered(_, from, to)` before the Bloom filter (rows, unsorted). -/
def Gossip.filtered (st : Gossip) (from_ to : Nat) : Gossip := st.filter (fun e => from_ ≤ e.2.ts ∧ e.2.ts < to)

/-- `last()` -/
def Gossip.last (st : Gossip) : Option Nat :=
  st.foldl (fun m e => match m with
    | none => some e.2.ts
    | some x => some (max x e.2.ts)) none

end HeartwoodModel.Stores
