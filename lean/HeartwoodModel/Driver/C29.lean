/-! Driver entry for property C29 (stub: not implemented yet). -/
namespace HeartwoodModel.Driver.C29

def run (_args : List String) : String := "unimplemented"

end HeartwoodModel.Driver.C29
