/-! Driver entry for property C27 (stub: not implemented yet). -/
namespace HeartwoodModel.Driver.C27

def run (_args : List String) : String := "unimplemented"

end HeartwoodModel.Driver.C27
