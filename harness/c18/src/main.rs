//! C18 — canonical JSON. Runs the real `CanonicalFormatter` (through `cob::store::encoding::encode`) on JSON
//! values and compares the exact bytes with the Lean model.
//!
//! Case input: `<nfc table> <tree>` (the same tokens the Lean driver reads).
//! * tree: wire syntax of `lean/HeartwoodModel/Model/JsonWire.lean`; object members are handed to the
//!   serialiser in the given order, duplicates included (a `Serialize` impl of the harness), and also
//!   through the `serde_json::Value` that the JSON text of the tree parses to.
//! * nfc table `hex>hex,…|-`: NFC of every string fragment of the tree that is not already normalised,
//!   re-computed here with the `unicode-normalization` crate and compared (`bad-case` if it differs).
//!
//! Output: `direct=<hex|err> value=<hex|err>`.
//! Oracle (the property statement on the real output): floats rejected and nothing else; output parses
//! as JSON and re-encodes to the same bytes; no byte below 0x20; no whitespace outside strings; key
//! tokens of every object strictly increasing bytewise; every string NFC; member order irrelevant when
//! no two keys collide; the hypotheses about NFC used by the theorems hold on the fragments of the case.

use std::collections::BTreeMap;

use radicle::cob::store::encoding;
use serde::ser::{Serialize, SerializeMap, SerializeSeq, Serializer};
use unicode_normalization::{is_nfc, UnicodeNormalization};
use verif_common::*;

#[derive(Clone, Debug, PartialEq)]
enum J {
    Null,
    Bool(bool),
    Int(i128),
    Float(u32),
    Str(String),
    Arr(Vec<J>),
    Obj(Vec<(String, J)>),
}

const FLOATS: &[&str] = &["1.5", "-0.25", "1e2", "2.5E-3", "1.0", "18446744073709551616", "-9223372036854775809", "0.0", "-0.0", "-0"];

impl Serialize for J {
    fn serialize<S: Serializer>(&self, s: S) -> Result<S::Ok, S::Error> {
        match self {
            J::Null => s.serialize_unit(),
            J::Bool(b) => s.serialize_bool(*b),
            J::Int(i) if *i < 0 => s.serialize_i64(*i as i64),
            J::Int(i) => s.serialize_u64(*i as u64),
            J::Float(k) => s.serialize_f64(FLOATS[*k as usize % FLOATS.len()].parse::<f64>().unwrap()),
            J::Str(x) => s.serialize_str(x),
            J::Arr(xs) => {
                let mut q = s.serialize_seq(Some(xs.len()))?;
                for x in xs {
                    q.serialize_element(x)?;
                }
                q.end()
            }
            J::Obj(kvs) => {
                let mut m = s.serialize_map(Some(kvs.len()))?;
                for (k, v) in kvs {
                    m.serialize_entry(k, v)?;
                }
                m.end()
            }
        }
    }
}

struct P<'a> {
    s: &'a [u8],
    i: usize,
}

impl<'a> P<'a> {
    fn peek(&self) -> Option<u8> {
        self.s.get(self.i).copied()
    }
    fn eat(&mut self, c: u8) -> bool {
        if self.peek() == Some(c) {
            self.i += 1;
            true
        } else {
            false
        }
    }
    fn nat(&mut self) -> Option<u128> {
        let st = self.i;
        let mut n: u128 = 0;
        while let Some(c) = self.peek() {
            if c.is_ascii_digit() {
                n = n.checked_mul(10)?.checked_add((c - b'0') as u128)?;
                self.i += 1;
            } else {
                break;
            }
        }
        if self.i == st {
            None
        } else {
            Some(n)
        }
    }
    fn hex(&mut self) -> Option<String> {
        let mut out = vec![];
        let hv = |c: u8| match c {
            b'0'..=b'9' => Some(c - b'0'),
            b'a'..=b'f' => Some(c - b'a' + 10),
            _ => None,
        };
        while self.i + 1 < self.s.len() {
            match (hv(self.s[self.i]), hv(self.s[self.i + 1])) {
                (Some(a), Some(b)) => {
                    out.push(a * 16 + b);
                    self.i += 2;
                }
                _ => break,
            }
        }
        String::from_utf8(out).ok()
    }
    fn value(&mut self, depth: usize) -> Option<J> {
        if depth > 64 {
            return None;
        }
        let c = self.peek()?;
        self.i += 1;
        match c {
            b'N' => Some(J::Null),
            b'T' => Some(J::Bool(true)),
            b'F' => Some(J::Bool(false)),
            b'D' => Some(J::Float(self.nat().unwrap_or(0) as u32)),
            b'I' => {
                let neg = self.eat(b'-');
                let n = self.nat()? as i128;
                let v = if neg { -n } else { n };
                if v < i64::MIN as i128 || v > u64::MAX as i128 {
                    return None;
                }
                Some(J::Int(v))
            }
            b'S' => Some(J::Str(self.hex()?)),
            b'A' => {
                if !self.eat(b'[') {
                    return None;
                }
                let mut xs = vec![];
                if self.eat(b']') {
                    return Some(J::Arr(xs));
                }
                loop {
                    xs.push(self.value(depth + 1)?);
                    if self.eat(b',') {
                        continue;
                    }
                    if self.eat(b']') {
                        return Some(J::Arr(xs));
                    }
                    return None;
                }
            }
            b'O' => {
                if !self.eat(b'{') {
                    return None;
                }
                let mut kvs = vec![];
                if self.eat(b'}') {
                    return Some(J::Obj(kvs));
                }
                loop {
                    let k = self.hex()?;
                    if !self.eat(b':') {
                        return None;
                    }
                    kvs.push((k, self.value(depth + 1)?));
                    if self.eat(b',') {
                        continue;
                    }
                    if self.eat(b'}') {
                        return Some(J::Obj(kvs));
                    }
                    return None;
                }
            }
            _ => None,
        }
    }
}

fn parse_tree(s: &str) -> Option<J> {
    let mut p = P { s: s.as_bytes(), i: 0 };
    let v = p.value(0)?;
    if p.i == s.len() {
        Some(v)
    } else {
        None
    }
}

fn hexs(s: &str) -> String {
    let mut o = String::new();
    for b in s.as_bytes() {
        o.push_str(&format!("{:02x}", b));
    }
    o
}

fn wire(j: &J, out: &mut String) {
    match j {
        J::Null => out.push('N'),
        J::Bool(true) => out.push('T'),
        J::Bool(false) => out.push('F'),
        J::Int(i) => out.push_str(&format!("I{i}")),
        J::Float(k) => out.push_str(&format!("D{k}")),
        J::Str(s) => {
            out.push('S');
            out.push_str(&hexs(s));
        }
        J::Arr(xs) => {
            out.push_str("A[");
            for (i, x) in xs.iter().enumerate() {
                if i > 0 {
                    out.push(',');
                }
                wire(x, out);
            }
            out.push(']');
        }
        J::Obj(kvs) => {
            out.push_str("O{");
            for (i, (k, v)) in kvs.iter().enumerate() {
                if i > 0 {
                    out.push(',');
                }
                out.push_str(&hexs(k));
                out.push(':');
                wire(v, out);
            }
            out.push('}');
        }
    }
}

fn json_str(s: &str, out: &mut String) {
    out.push('"');
    for c in s.chars() {
        match c {
            '"' => out.push_str("\\\""),
            '\\' => out.push_str("\\\\"),
            c if (c as u32) < 0x20 => out.push_str(&format!("\\u{:04x}", c as u32)),
            c => out.push(c),
        }
    }
    out.push('"');
}

fn json_text(j: &J, out: &mut String) {
    match j {
        J::Null => out.push_str("null"),
        J::Bool(b) => out.push_str(if *b { "true" } else { "false" }),
        J::Int(i) => out.push_str(&i.to_string()),
        J::Float(k) => out.push_str(FLOATS[*k as usize % FLOATS.len()]),
        J::Str(s) => json_str(s, out),
        J::Arr(xs) => {
            out.push('[');
            for (i, x) in xs.iter().enumerate() {
                if i > 0 {
                    out.push_str(" ,\n");
                }
                json_text(x, out);
            }
            out.push(']');
        }
        J::Obj(kvs) => {
            out.push('{');
            for (i, (k, v)) in kvs.iter().enumerate() {
                if i > 0 {
                    out.push_str(", ");
                }
                json_str(k, out);
                out.push_str(" :\t");
                json_text(v, out);
            }
            out.push('}');
        }
    }
}

fn strings_of<'a>(j: &'a J, out: &mut Vec<&'a str>) {
    match j {
        J::Str(s) => out.push(s),
        J::Arr(xs) => xs.iter().for_each(|x| strings_of(x, out)),
        J::Obj(kvs) => kvs.iter().for_each(|(k, v)| {
            out.push(k);
            strings_of(v, out)
        }),
        _ => {}
    }
}

fn has_float(j: &J) -> bool {
    match j {
        J::Float(_) => true,
        J::Arr(xs) => xs.iter().any(has_float),
        J::Obj(kvs) => kvs.iter().any(|(_, v)| has_float(v)),
        _ => false,
    }
}

fn needs_esc(b: u8) -> bool {
    b < 0x20 || b == b'"' || b == b'\\'
}

fn fragments(s: &str) -> Vec<&str> {
    let mut out = vec![];
    let mut start = 0;
    for (i, b) in s.bytes().enumerate() {
        if needs_esc(b) {
            if start < i {
                out.push(&s[start..i]);
            }
            start = i + 1;
        }
    }
    if start < s.len() {
        out.push(&s[start..]);
    }
    out
}

fn nfc_table(j: &J) -> BTreeMap<String, String> {
    let mut ss = vec![];
    strings_of(j, &mut ss);
    let mut t = BTreeMap::new();
    for s in ss {
        for f in fragments(s) {
            let n: String = f.nfc().collect();
            if n != f {
                t.insert(f.to_string(), n);
            }
        }
    }
    t
}

fn norm_key(s: &str) -> Vec<u8> {
    // the key token the formatter sorts by: per-fragment NFC, escapes, quotes
    let mut out = vec![];
    let mut start = 0;
    let b = s.as_bytes();
    for (i, c) in b.iter().enumerate() {
        if needs_esc(*c) {
            out.extend(s[start..i].nfc().collect::<String>().bytes());
            out.push(*c);
            start = i + 1;
        }
    }
    out.extend(s[start..].nfc().collect::<String>().bytes());
    out
}

/// No two members of any object have the same normalised key.
fn collision_free(j: &J) -> bool {
    match j {
        J::Arr(xs) => xs.iter().all(collision_free),
        J::Obj(kvs) => {
            let mut ks: Vec<Vec<u8>> = kvs.iter().map(|(k, _)| norm_key(k)).collect();
            ks.sort();
            ks.windows(2).all(|w| w[0] != w[1]) && kvs.iter().all(|(_, v)| collision_free(v))
        }
        _ => true,
    }
}

fn reversed(j: &J) -> J {
    match j {
        J::Arr(xs) => J::Arr(xs.iter().map(reversed).collect()),
        J::Obj(kvs) => J::Obj(kvs.iter().rev().map(|(k, v)| (k.clone(), reversed(v))).collect()),
        x => x.clone(),
    }
}

/// `radicle::cob::store::encoding::encode`: the public entry point to the (private) `CanonicalFormatter`,
/// `serde_json::Serializer::with_formatter(&mut buf, CanonicalFormatter::new())` on any `Serialize`.
fn encode<T: Serialize>(v: &T) -> Option<Vec<u8>> {
    encoding::encode(v).ok()
}

/// Scan canonical output: key tokens of every object in emitted order; whitespace outside strings.
struct Scan<'a> {
    b: &'a [u8],
    i: usize,
    ws_outside: bool,
    unsorted: bool,
    bad: bool,
}

impl<'a> Scan<'a> {
    fn string(&mut self) -> &'a [u8] {
        let st = self.i;
        if self.b.get(self.i) != Some(&b'"') {
            self.bad = true;
            return &[];
        }
        self.i += 1;
        while self.i < self.b.len() {
            match self.b[self.i] {
                b'\\' => self.i += 2,
                b'"' => {
                    self.i += 1;
                    return &self.b[st..self.i];
                }
                _ => self.i += 1,
            }
        }
        self.bad = true;
        &[]
    }
    fn ws(&mut self) {
        while let Some(c) = self.b.get(self.i) {
            if matches!(c, b' ' | b'\t' | b'\n' | b'\r') {
                self.ws_outside = true;
                self.i += 1;
            } else {
                break;
            }
        }
    }
    fn value(&mut self) {
        self.ws();
        match self.b.get(self.i) {
            Some(b'"') => {
                self.string();
            }
            Some(b'{') => {
                self.i += 1;
                self.ws();
                let mut prev: Option<&[u8]> = None;
                if self.b.get(self.i) == Some(&b'}') {
                    self.i += 1;
                    return;
                }
                loop {
                    self.ws();
                    let k = self.string();
                    if let Some(p) = prev {
                        if p >= k {
                            self.unsorted = true;
                        }
                    }
                    prev = Some(k);
                    self.ws();
                    if self.b.get(self.i) != Some(&b':') {
                        self.bad = true;
                        return;
                    }
                    self.i += 1;
                    self.value();
                    self.ws();
                    match self.b.get(self.i) {
                        Some(b',') => self.i += 1,
                        Some(b'}') => {
                            self.i += 1;
                            return;
                        }
                        _ => {
                            self.bad = true;
                            return;
                        }
                    }
                    if self.bad {
                        return;
                    }
                }
            }
            Some(b'[') => {
                self.i += 1;
                self.ws();
                if self.b.get(self.i) == Some(&b']') {
                    self.i += 1;
                    return;
                }
                loop {
                    self.value();
                    self.ws();
                    match self.b.get(self.i) {
                        Some(b',') => self.i += 1,
                        Some(b']') => {
                            self.i += 1;
                            return;
                        }
                        _ => {
                            self.bad = true;
                            return;
                        }
                    }
                    if self.bad {
                        return;
                    }
                }
            }
            Some(_) => {
                while let Some(c) = self.b.get(self.i) {
                    if matches!(c, b',' | b']' | b'}' | b' ' | b'\t' | b'\n' | b'\r') {
                        break;
                    }
                    self.i += 1;
                }
            }
            None => self.bad = true,
        }
    }
}

fn all_strings_nfc(v: &serde_json::Value) -> bool {
    match v {
        serde_json::Value::String(s) => is_nfc(s),
        serde_json::Value::Array(xs) => xs.iter().all(all_strings_nfc),
        serde_json::Value::Object(m) => m.iter().all(|(k, v)| is_nfc(k) && all_strings_nfc(v)),
        _ => true,
    }
}

fn check_output(what: &str, out: &[u8], viol: &mut Vec<(String, String)>) {
    if let Some(b) = out.iter().find(|b| **b < 0x20) {
        viol.push(("raw-control-byte".into(), format!("{what}: byte 0x{b:02x} in the output")));
    }
    let mut sc = Scan { b: out, i: 0, ws_outside: false, unsorted: false, bad: false };
    sc.value();
    if sc.bad || sc.i != out.len() {
        viol.push(("output-not-json".into(), format!("{what}: the output does not scan as one JSON value")));
    }
    if sc.ws_outside {
        viol.push(("insignificant-whitespace".into(), format!("{what}: whitespace between tokens")));
    }
    if sc.unsorted {
        viol.push(("keys-not-sorted".into(), format!("{what}: key tokens of an object are not strictly increasing bytewise")));
    }
    match serde_json::from_slice::<serde_json::Value>(out) {
        Err(e) => viol.push(("output-not-json".into(), format!("{what}: serde_json does not parse the output: {e}"))),
        Ok(v) => {
            if !all_strings_nfc(&v) {
                viol.push(("string-not-nfc".into(), format!("{what}: a string of the output is not NFC-normalised")));
            }
            match encode(&v) {
                Some(again) if again == out => {}
                _ => viol.push(("reencode-differs".into(), format!("{what}: decoding the output and encoding it again does not reproduce it"))),
            }
        }
    }
}

fn run_case(input: &str) -> Outcome {
    match catch(|| run_case_inner(input)) {
        Ok(Some(o)) => o,
        Ok(None) => Outcome::new("bad-case").trivial().tag("bad-case"),
        Err(msg) => Outcome::new("panic").violation("panic", format!("the real code panicked: {msg}")).tag("panic"),
    }
}

fn run_case_inner(input: &str) -> Option<Outcome> {
    let toks: Vec<&str> = input.split(' ').collect();
    if toks.len() != 2 {
        return None;
    }
    let tree = parse_tree(toks[1])?;
    let mut given = BTreeMap::new();
    if toks[0] != "-" {
        for e in toks[0].split(',') {
            let (a, b) = e.split_once('>')?;
            given.insert(String::from_utf8(unhex(a)?).ok()?, String::from_utf8(unhex(b)?).ok()?);
        }
    }
    if given != nfc_table(&tree) {
        return None;
    }
    let mut viol: Vec<(String, String)> = vec![];
    let mut tags: Vec<String> = vec![];
    // hypotheses about NFC used by the theorems, on the fragments of this case
    {
        let mut ss = vec![];
        strings_of(&tree, &mut ss);
        for s in ss {
            for f in fragments(s) {
                let n: String = f.nfc().collect();
                if n.bytes().any(needs_esc) {
                    viol.push(("nfc-hypothesis-failed".into(), format!("NFC of fragment {} contains a byte that needs escaping", hexs(f))));
                }
                if n.nfc().collect::<String>() != n {
                    viol.push(("nfc-hypothesis-failed".into(), format!("NFC is not idempotent on fragment {}", hexs(f))));
                }
            }
        }
    }
    let float = has_float(&tree);
    let direct = encode(&tree);
    let mut text = String::new();
    json_text(&tree, &mut text);
    let value: serde_json::Value = serde_json::from_str(&text).ok()?;
    let via_value = encode(&value);
    fn value_has_float(v: &serde_json::Value) -> bool {
        match v {
            serde_json::Value::Number(n) => n.is_f64(),
            serde_json::Value::Array(xs) => xs.iter().any(value_has_float),
            serde_json::Value::Object(m) => m.values().any(value_has_float),
            _ => false,
        }
    }
    // (a float member of the tree can be shadowed by a later duplicate key when the `Value` is built)
    for (what, r, float) in [("direct", &direct, float), ("value", &via_value, value_has_float(&value))] {
        match r {
            None => {
                if !float {
                    viol.push(("nonfloat-rejected".into(), format!("{what}: a value without floating point numbers was refused")));
                }
            }
            Some(out) => {
                if float {
                    viol.push(("float-accepted".into(), format!("{what}: a value containing a floating point number was encoded")));
                }
                check_output(what, out, &mut viol);
            }
        }
    }
    // single representation: member order is irrelevant when no two keys of an object collide
    if !float && collision_free(&tree) {
        tags.push("collision-free".into());
        if encode(&reversed(&tree)) != direct {
            viol.push(("order-dependent".into(), "reversing the member order of the objects changes the encoding although no two keys collide".into()));
        }
    } else if !float {
        tags.push("colliding-keys".into());
    }
    tags.push(if float { "float".into() } else { "no-float".into() });
    if !given.is_empty() {
        tags.push("non-nfc-input".into());
    }
    {
        let mut ss = vec![];
        strings_of(&tree, &mut ss);
        if ss.iter().any(|s| s.bytes().any(needs_esc)) {
            tags.push("escapes".into());
        }
        if matches!(tree, J::Obj(_) | J::Arr(_)) {
            tags.push("composite".into());
        }
    }
    let show = |r: &Option<Vec<u8>>| r.as_ref().map(|b| hex(b)).unwrap_or_else(|| "err".into());
    let mut o = Outcome::new(format!("direct={} value={}", show(&direct), show(&via_value)));
    o.nontrivial = !float && matches!(tree, J::Obj(_) | J::Arr(_));
    o.violations = viol;
    tags.sort();
    tags.dedup();
    o.tags = tags;
    Some(o)
}

// ---------------------------------------------------------------------------------------------

const STRS: &[&str] = &[
    "", "a", "b", "A", "name", "a b", "a!", "a\"", "a#", "ab", "a\u{0}", "\u{1}", "\u{1f}", "\u{7f}", "\u{80}", "\u{9f}",
    "e\u{301}", "\u{e9}", "A\u{30a}", "\u{212b}", "\u{c5}", "\u{1100}\u{1161}", "\u{ac00}", "\u{fb01}", "\u{2126}", "\u{3a9}",
    "\n", "\t", "\r", "\u{8}", "\u{c}", "\"", "\\", "\t\"q\"\\", "\u{1f600}", "e\n\u{301}", "\u{301}", "e\"\u{301}",
    "q\u{307}\u{323}", "q\u{323}\u{307}", "\u{1e0b}\u{323}", "x\u{1f}e\u{301}y\"e\u{301}", "\u{1fef}", "\u{37e}", "\u{2000}",
    "\u{f900}", "\u{2f800}", "\u{344}", "\u{958}", "\u{10ffff}", "\u{fffd}", " ", "  x ", "/", "<>&'",
];

fn gen_string(rng: &mut Rng) -> String {
    match rng.below(10) {
        0..=4 => rng.pick(STRS).to_string(),
        5..=7 => format!("{}{}", rng.pick(STRS), rng.pick(STRS)),
        8 => (0..rng.below(6)).map(|_| (b'a' + rng.below(26) as u8) as char).collect(),
        _ => {
            // random scalar values, biased to the ranges with decompositions
            (0..rng.range(1, 4))
                .filter_map(|_| {
                    let c = match rng.below(6) {
                        0 => rng.below(0x80),
                        1 => rng.range(0x80, 0x24f),
                        2 => rng.range(0x300, 0x36f),
                        3 => rng.range(0x1e00, 0x1fff),
                        4 => rng.range(0xac00, 0xd7a3),
                        _ => rng.below(0x11000),
                    };
                    char::from_u32(c as u32)
                })
                .collect()
        }
    }
}

fn gen_int(rng: &mut Rng) -> i128 {
    match rng.below(12) {
        0 => 0,
        1 => 1,
        2 => -1,
        3 => i64::MIN as i128,
        4 => i64::MAX as i128,
        5 => u64::MAX as i128,
        6 => i64::MAX as i128 + 1,
        7 => u32::MAX as i128,
        8 => -(rng.below(100000) as i128),
        9 => rng.next() as i128,
        10 => -((rng.next() >> 1) as i128),
        _ => rng.below(1000) as i128,
    }
}

fn gen_value(rng: &mut Rng, depth: u32, float_den: u64) -> J {
    let top = if depth >= 4 { 8 } else { 13 };
    match rng.below(top) {
        0 => J::Null,
        1 => J::Bool(rng.bool()),
        2..=4 => {
            if rng.chance(1, float_den) {
                J::Float(rng.below(FLOATS.len() as u64) as u32)
            } else {
                J::Int(gen_int(rng))
            }
        }
        5..=7 => J::Str(gen_string(rng)),
        8 | 9 => J::Arr((0..rng.below(4)).map(|_| gen_value(rng, depth + 1, float_den)).collect()),
        _ => {
            let n = rng.below(6);
            let mut kvs: Vec<(String, J)> = (0..n).map(|_| (gen_string(rng), gen_value(rng, depth + 1, float_den))).collect();
            if !kvs.is_empty() && rng.chance(1, 10) {
                let k = kvs[rng.below(kvs.len() as u64) as usize].0.clone();
                kvs.push((k, gen_value(rng, depth + 1, float_den)));
            }
            J::Obj(kvs)
        }
    }
}

fn format_case(tree: &J) -> String {
    let nt = nfc_table(tree);
    let nt = if nt.is_empty() { "-".to_string() } else { nt.iter().map(|(a, b)| format!("{}>{}", hexs(a), hexs(b))).collect::<Vec<_>>().join(",") };
    let mut w = String::new();
    wire(tree, &mut w);
    format!("{nt} {w}")
}

fn main() {
    let mut ctx = Ctx::from_args("C18");
    if !ctx.run_fixed(run_case) {
        let mut rng = ctx.rng();
        // every string of the pool as a value and as a key
        for s in STRS {
            for t in [J::Str(s.to_string()), J::Obj(vec![(s.to_string(), J::Null), ("m".into(), J::Str(s.to_string()))])] {
                let input = format_case(&t);
                let o = run_case(&input);
                ctx.record(&input, o);
            }
        }
        // every ordered pair of pool strings as the two keys of an object (sorting, collisions)
        for a in STRS {
            for b in STRS {
                if ctx.quick() && rng.chance(1, 2) {
                    continue;
                }
                let t = J::Obj(vec![(a.to_string(), J::Int(1)), (b.to_string(), J::Int(2))]);
                let input = format_case(&t);
                let o = run_case(&input);
                ctx.record(&input, o);
            }
        }
        let n = ctx.size(5_000, 300_000);
        for _ in 0..n {
            let top = if rng.chance(4, 5) {
                // composite at top level
                loop {
                    let v = gen_value(&mut rng, 0, 40);
                    if matches!(v, J::Obj(_) | J::Arr(_)) {
                        break v;
                    }
                }
            } else {
                gen_value(&mut rng, 0, 6)
            };
            let input = format_case(&top);
            let o = run_case(&input);
            ctx.record(&input, o);
        }
    }
    ctx.finish(
        "every pool string (control characters, quote, backslash, DEL, C1, non-NFC sequences, singleton decompositions, \
         astral) as value and key; ordered pairs of pool strings as the two keys of an object; random JSON trees (depth <= 5, \
         objects with 0-6 members in arbitrary order incl. duplicate and NFC-colliding keys, integers at the 64-bit bounds, \
         floats in about one tree in ten), each encoded directly (members handed to the serialiser as given) and through \
         serde_json::Value; non-trivial = an array or object without floats; distinct by input text",
        false,
    );
}
