import HeartwoodModel.Props.C10
import HeartwoodModel.Lemmas.Gossip
/-!
# C11 — Private repositories never leak through gossip

Theorems about `Model/Gossip.lean`. A repository (`Repo`) carries the *ground truth* about it (`priv`,
`delegates`, `allow`) and whether the node has it in storage (`present`); the code only ever consults
repositories in storage (`storageGet`). `visible r p` is `Doc::is_visible_to`.

* `private_refs_never_leak` — *no refs announcement about a private repository is written to a peer that
  may not see it* — is **false** of the current code in exactly one way
  (`private_refs_never_leak_counterexample`): a stored refs announcement about a repository the node does
  **not** have in storage is replayed to any subscriber (the `Ok(None)` arm of the `Subscribe` handler: the
  node cannot tell that the repository is private).
* `private_refs_never_leak_partial` — for **every** state and operation, every refs announcement written
  (the node's own, relayed at once, relayed on the gossip tick, replayed from stored history): if the
  repository is in storage, the recipient may see it; and unless the write is a `Subscribe` replay the
  repository *is* in storage. So the only leak is the replay of repositories not in storage.
* `inventory_excludes_private` — *no inventory announcement of the node lists a private repository* — is
  false when a repository that is listed is **made private while the node runs**
  (`inventory_excludes_private_counterexample`: the routing table, the cached inventory and the stored own
  inventory announcement are only cleaned by `initialize`). `inventory_excludes_private_partial`: along any
  run in which no listed repository is made private and `AddInventory` is only issued for public
  repositories (what `rad` does), every inventory announcement the node writes lists public repositories
  only.
-/
set_option linter.unusedSimpArgs false
set_option linter.unusedVariables false
namespace HeartwoodModel.Gossip

/-! ## Refs announcements -/

/-- Ground truth: may peer `p` know about repository `rid`? (Unknown repository: nothing is private.) -/
def mayKnow (s : State) (rid p : Nat) : Bool :=
  match findRepo s rid with
  | some r => visible r p
  | none => true

/-- The repository of a refs announcement written to `w.peer` is in storage and visible to that peer. -/
def SafeRefs (s : State) (w : Write) : Prop :=
  w.id.kind = .refs → ∃ r, storageGet s w.id.repo = some r ∧ visible r w.peer = true

theorem storageGet_congr {s s' : State} (h : s'.repos = s.repos) (rid : Nat) :
    storageGet s' rid = storageGet s rid := by
  simp [storageGet, findRepo, h]

theorem storageGet_rid {s : State} {rid : Nat} {r : Repo} (h : storageGet s rid = some r) :
    r.rid = rid ∧ findRepo s rid = some r ∧ r.present = true := by
  unfold storageGet at h
  split at h
  · rename_i r0 hf
    split at h
    · simp only [Option.some.injEq] at h
      subst h
      have := List.find?_some hf
      rename_i hp
      exact ⟨by simpa using this, hf, hp⟩
    · simp at h
  · simp at h

theorem relayWrites_safe {s s1 : State} (h : s1.repos = s.repos) (k : Nat) (id : AnnId) (inv : List Nat) :
    ∀ w ∈ relayWrites s1 k id inv, SafeRefs s w := by
  intro w hw hk
  unfold relayWrites relayTargets at hw
  simp only [List.mem_map, List.mem_filter] at hw
  obtain ⟨q, ⟨se, ⟨_, hc⟩, rfl⟩, rfl⟩ := hw
  simp only at hk
  simp only [hk, beq_self_eq_true, if_true, Bool.and_eq_true] at hc
  rw [storageGet_congr h] at hc
  cases hg : storageGet s id.repo with
  | none => rw [hg] at hc; simp at hc
  | some r => rw [hg] at hc; exact ⟨r, rfl, hc.2.1⟩

theorem announceRefs_safe {s s' : State} (h : s'.repos = s.repos) {r : Repo}
    (hr : storageGet s r.rid = some r) : ∀ w ∈ (announceRefs s' r r).2.writes, SafeRefs s w := by
  intro w hw _
  unfold announceRefs at hw
  dsimp only at hw
  split at hw
  · simp at hw
  · simp only [List.mem_map, List.mem_filter, Bool.and_eq_true] at hw
    obtain ⟨se, ⟨_, hv, _⟩, rfl⟩ := hw
    exact ⟨r, hr, hv⟩

theorem ownInv_safe {s : State} {ws : List Write} (h : ∀ w ∈ ws, w.id.kind ≠ .refs) :
    ∀ w ∈ ws, SafeRefs s w :=
  fun w hw hk => absurd hk (h w hw)

theorem announceInventory_kind (s : State) : ∀ w ∈ (announceInventory s).2, w.id.kind ≠ .refs := by
  unfold announceInventory
  split
  · simp
  · intro w hw
    simp only [List.mem_map] at hw
    obtain ⟨_, _, rfl⟩ := hw
    simp

theorem refreshInventory_kind (s : State) (t : Nat) :
    ∀ w ∈ (refreshInventory s t).2.writes, w.id.kind ≠ .refs := by
  unfold refreshInventory
  exact announceInventory_kind _

theorem addInventory_kind (s : State) (rid : Nat) :
    ∀ w ∈ (addInventory s rid).2.writes, w.id.kind ≠ .refs := by
  unfold addInventory
  dsimp only
  split
  · simp
  · exact refreshInventory_kind _ _

theorem removeInventory_kind (s : State) (rid : Nat) :
    ∀ w ∈ (removeInventory s rid).2.writes, w.id.kind ≠ .refs := by
  unfold removeInventory
  dsimp only
  split
  · exact refreshInventory_kind _ _
  · simp

@[simp] theorem announceInventory_repos (s : State) : (announceInventory s).1.repos = s.repos := by
  unfold announceInventory; split <;> rfl

@[simp] theorem addInventory_repos (s : State) (rid : Nat) : (addInventory s rid).1.repos = s.repos := by
  unfold addInventory; dsimp only; split <;> simp [timestamp, refreshInventory]

theorem handleAnn_repos {s s' : State} {p : Nat} {a : Ann} {k : Option Nat}
    (h : handleAnn s p a = .ok (s', k)) : s'.repos = s.repos := by
  unfold handleAnn at h
  split at h
  · simp at h
  · simp only [Except.ok.injEq, Prod.mk.injEq] at h; rw [← h.1]
  · split at h
    · simp only [Except.ok.injEq, Prod.mk.injEq] at h; rw [← h.1]
    · simp only [Except.ok.injEq] at h
      have h1 : s' = (s', k).1 := rfl
      rw [h1, ← h]; simp

/-- Everything written by one step, except `Subscribe` replays, is safe. -/
theorem non_replay_safe (s : State) (op : Op) (w : Write) (hw : w ∈ (step s op).2.writes)
    (hsub : ∀ p sb, op ≠ .subscribe p sb) : SafeRefs s w := by
  cases op with
  | subscribe p sb => exact absurd rfl (hsub p sb)
  | recv p a =>
    by_cases hs : hasSession s p = true
    case neg => simp [step, recv, hs] at hw
    cases h : handleAnn s p a with
    | error r => simp [step, recv, hs, h] at hw
    | ok res =>
      obtain ⟨s1, k⟩ := res
      cases k with
      | none => simp [step, recv, hs, h] at hw
      | some k =>
        simp only [step, recv_eq_of_some hs h] at hw
        split at hw
        · simp at hw
        · split at hw
          · simp at hw
          · exact relayWrites_safe (handleAnn_repos h) k a.id a.inv w hw
  | elapse dt =>
    simp only [step, wake] at hw
    rcases List.mem_append.mp hw with h | h
    · unfold gossipTask at h
      split at h
      · dsimp only [relayAnnouncements] at h
        simp only [List.mem_flatMap] at h
        obtain ⟨r, _, hwr⟩ := h
        exact relayWrites_safe (s := s) rfl r.rowid r.id r.inv w hwr
      · simp at h
    · unfold announceTask at h
      split at h
      · exact ownInv_safe (announceInventory_kind _) w h
      · simp at h
  | connect p =>
    simp only [step, connect, List.mem_cons, List.mem_singleton, List.not_mem_nil, or_false] at hw
    rcases hw with rfl | rfl <;> (intro hk; simp at hk)
  | disconnect p => simp [step, disconnect] at hw
  | tick now => simp [step] at hw
  | setClock t => simp [step] at hw
  | announceRefs rid =>
    simp only [step, cmdAnnounceRefs] at hw
    split at hw
    · simp at hw
    · rename_i r hr
      have hrid := (storageGet_rid hr).1
      exact announceRefs_safe (s := s) rfl (by rw [hrid]; exact hr) w hw
  | addInventory rid => exact ownInv_safe (addInventory_kind s rid) w hw
  | announceInventory => exact ownInv_safe (announceInventory_kind s) w hw
  | seed rid => simp [step, seed] at hw
  | unseed rid =>
    simp only [step, unseed] at hw
    split at hw
    · exact ownInv_safe (removeInventory_kind _ rid) w hw
    · simp at hw
  | fetched rid p clone upd =>
    simp only [step, fetched] at hw
    split at hw
    · simp at hw
    · split at hw
      · simp at hw
      · rename_i r hr
        have hrid := (storageGet_rid hr).1
        simp only [appendOut, List.mem_append] at hw
        rcases hw with h | h
        · unfold fetchedInventory at h
          split at h
          · exact ownInv_safe (addInventory_kind _ _) w h
          · simp at h
        · unfold fetchedRefs at h
          split at h
          · refine announceRefs_safe (s := s) ?_ (by rw [hrid]; exact hr) w h
            unfold fetchedInventory
            split <;> simp
          · simp at h
  | restart => simp [step, restart] at hw
  | setRepo r => simp [step] at hw
  | knowNode nid ts => simp [step] at hw

/-- **C11, refs announcements (`_partial`).** For every state and every operation, every refs announcement
written: (1) if the node has the repository in storage, the recipient is allowed to see it (public, or
delegate, or on the allow list) — for the node's own announcements, relays and replays alike; (2) unless
the write answers a `Subscribe`, the node has the repository in storage. -/
theorem private_refs_never_leak_partial (s : State) (op : Op) (w : Write)
    (hw : w ∈ (step s op).2.writes) (hk : w.id.kind = .refs) :
    (∀ r, storageGet s w.id.repo = some r → visible r w.peer = true) ∧
    (w.origin ≠ .replay → ∃ r, storageGet s w.id.repo = some r ∧ visible r w.peer = true) := by
  by_cases h2 : ∃ p sb, op = .subscribe p sb
  · obtain ⟨p, sb, rfl⟩ := h2
    obtain ⟨w1, _, _, _⟩ := subscribe_writes_spec s p sb w hw
    refine ⟨?_, fun h => absurd w1 h⟩
    intro r hr
    simp only [step, subscribe] at hw
    split at hw
    · simp at hw
    · simp only [List.mem_map] at hw
      obtain ⟨row, hrow, rfl⟩ := hw
      unfold replayRows at hrow
      split at hrow
      · simp at hrow
      · simp only [List.mem_filter, Bool.and_eq_true] at hrow
        have hv := hrow.2.1.2
        simp only at hk hr
        simp only [hk, bne_self_eq_false, Bool.false_or, hr] at hv
        exact hv
  · have hs := non_replay_safe s op w hw (fun p sb h => h2 ⟨p, sb, h⟩) hk
    obtain ⟨r, hr, hv⟩ := hs
    refine ⟨?_, fun _ => ⟨r, hr, hv⟩⟩
    intro r' hr'
    rw [hr] at hr'
    simp only [Option.some.injEq] at hr'
    subst hr'
    exact hv

/-- In terms of the ground truth: a refs announcement reaches a peer that may not know the repository only
as a `Subscribe` replay about a repository the node does not have in storage. -/
theorem private_refs_leak_only_by_replay_of_absent (s : State) (op : Op) (w : Write)
    (hw : w ∈ (step s op).2.writes) (hk : w.id.kind = .refs) (hleak : mayKnow s w.id.repo w.peer = false) :
    w.origin = .replay ∧ storageGet s w.id.repo = none := by
  obtain ⟨h1, h2⟩ := private_refs_never_leak_partial s op w hw hk
  have habs : storageGet s w.id.repo = none := by
    cases hg : storageGet s w.id.repo with
    | none => rfl
    | some r =>
      have hv := h1 r hg
      have hf := (storageGet_rid hg).2.1
      simp only [mayKnow, hf, hv] at hleak
      simp at hleak
  refine ⟨?_, habs⟩
  cases ho : w.origin <;> first | rfl | (exfalso; obtain ⟨r, hr, _⟩ := h2 (by rw [ho]; simp); rw [habs] at hr; simp at hr)

/-- The full statement is false of the current code. Witness: repository 2 is private (delegate: node 4
only) and the node does not have it; node 4's refs announcement about it arrives through peer 1 and is
stored (not relayed: `relay` refuses repositories it cannot check); the stranger 3 subscribes with the
all-ones filter and receives it. -/
def leakTrace : List Op :=
  [.setRepo ⟨2, false, true, [4], [], none⟩, .knowNode 4 999000, .connect 1, .connect 3,
   .recv 1 ⟨⟨4, .refs, 2, 1000001⟩, true, [], true, false⟩,
   .subscribe 3 ⟨.all, 0, 9223372036854775807⟩]

theorem private_refs_never_leak_counterexample :
    let s := finalState (init 1000000 true) leakTrace.dropLast
    (step s (.subscribe 3 ⟨.all, 0, 9223372036854775807⟩)).2.writes.any
      (fun w => w.id == ⟨4, .refs, 2, 1000001⟩ && w.peer == 3 && !mayKnow s 2 3) = true := by
  decide

/-- Non-vacuity of the partial theorem: with the repository in storage the same subscription gets nothing,
while the allow-listed peer 2 does. -/
example :
    let s := finalState (init 1000000 true)
      [.setRepo ⟨2, true, true, [4], [2], none⟩, .knowNode 4 999000, .connect 1, .connect 2, .connect 3,
       .recv 1 ⟨⟨4, .refs, 2, 1000001⟩, true, [], true, false⟩]
    ((step s (.subscribe 3 ⟨.all, 0, 9223372036854775807⟩)).2.writes.map (·.id.kind),
     (step s (.subscribe 2 ⟨.all, 0, 9223372036854775807⟩)).2.writes.map (·.id.kind)) = ([], [.refs]) := by
  decide

/-! ## Inventory announcements -/

/-- Every repository the node advertises, or would advertise again without looking at it: the cached
inventory, the local entries of the routing table (from which `refresh_and_announce_inventory` rebuilds
it), and the inventory announcements of the node in the gossip store (replayed to subscribers). -/
def listed (s : State) : List Nat := s.inv ++ localInventory s ++ ownInvPayload s.rows

theorem mem_listed {s : State} {x : Nat} :
    x ∈ listed s ↔ x ∈ s.inv ∨ x ∈ localInventory s ∨ x ∈ ownInvPayload s.rows := by
  simp [listed, List.mem_append, or_assoc]

/-- The invariant: nothing listed is private. -/
def InvClean (s : State) : Prop := ∀ x ∈ listed s, isPrivate s x = false

/-- `s'` lists nothing beyond what `s` lists and `extra`, and has the same repositories. -/
def Lists (s s' : State) (extra : List Nat) : Prop :=
  s'.repos = s.repos ∧ ∀ x ∈ listed s', x ∈ listed s ∨ x ∈ extra

theorem Lists.refl (s : State) : Lists s s [] := ⟨rfl, fun x h => Or.inl h⟩

theorem Lists.trans {s s1 s2 : State} {e1 e2 : List Nat} (h1 : Lists s s1 e1) (h2 : Lists s1 s2 e2) :
    Lists s s2 (e1 ++ e2) := by
  refine ⟨h2.1.trans h1.1, fun x hx => ?_⟩
  rcases h2.2 x hx with h | h
  · rcases h1.2 x h with h' | h'
    · exact Or.inl h'
    · exact Or.inr (List.mem_append_left _ h')
  · exact Or.inr (List.mem_append_right _ h)

theorem Lists.weaken {s s' : State} {e e' : List Nat} (h : Lists s s' e) (he : ∀ x ∈ e, x ∈ e') :
    Lists s s' e' :=
  ⟨h.1, fun x hx => (h.2 x hx).imp id (he x)⟩

/-- Same repositories; cached inventory, local routes and stored own inventories only shrink. -/
theorem Lists.of_sub {s s' : State} (hr : s'.repos = s.repos) (hi : ∀ x ∈ s'.inv, x ∈ listed s)
    (hl : ∀ x ∈ localInventory s', x ∈ listed s) (hp : ∀ x ∈ ownInvPayload s'.rows, x ∈ listed s) :
    Lists s s' [] := by
  refine ⟨hr, fun x hx => Or.inl ?_⟩
  rcases mem_listed.mp hx with h | h | h
  · exact hi x h
  · exact hl x h
  · exact hp x h

theorem listed_inv {s : State} {x : Nat} (h : x ∈ s.inv) : x ∈ listed s := mem_listed.mpr (Or.inl h)
theorem listed_local {s : State} {x : Nat} (h : x ∈ localInventory s) : x ∈ listed s :=
  mem_listed.mpr (Or.inr (Or.inl h))
theorem listed_payload {s : State} {x : Nat} (h : x ∈ ownInvPayload s.rows) : x ∈ listed s :=
  mem_listed.mpr (Or.inr (Or.inr h))

theorem localInventory_congr {s s' : State} (h : s'.routing = s.routing) :
    localInventory s' = localInventory s := by
  simp [localInventory, h]

theorem announceInventory_lists (s : State) : Lists s (announceInventory s).1 [] := by
  unfold announceInventory
  split
  · exact Lists.refl s
  · refine Lists.of_sub rfl (fun x h => listed_inv h) (fun x h => listed_local h) ?_
    intro x hx
    rcases announced_payload hx with h | ⟨_, _, h⟩
    · exact listed_payload h
    · exact listed_inv h

theorem refreshInventory_lists (s : State) (t : Nat) : Lists s (refreshInventory s t).1 [] := by
  unfold refreshInventory
  have h1 : Lists s { s with invTs := t, inv := localInventory s } [] :=
    Lists.of_sub rfl (fun x h => listed_local h) (fun x h => listed_local h) (fun x h => listed_payload h)
  exact (h1.trans (announceInventory_lists _)).weaken (by simp)

theorem timestamp_lists (s : State) : Lists s (timestamp s).1 [] :=
  Lists.of_sub rfl (fun x h => listed_inv h) (fun x h => listed_local h) (fun x h => listed_payload h)

/-- Adding a route of another node does not change the local inventory; adding a local route adds at
most that repository. -/
theorem local_after_addRoute {s s' : State} {rid nid ts : Nat}
    (h : s'.routing = (addRoute s.routing rid nid ts).1) {x : Nat} (hx : x ∈ localInventory s') :
    x ∈ localInventory s ∨ (nid = 0 ∧ x = rid) := by
  rw [mem_localInventory] at hx
  obtain ⟨e, he, h0, rfl⟩ := hx
  rw [h] at he
  rcases addRoute_mem he with h1 | rfl
  · exact Or.inl (mem_localInventory.mpr ⟨e, h1, h0, rfl⟩)
  · exact Or.inr ⟨h0, rfl⟩

theorem addInventory_lists (s : State) (rid : Nat) : Lists s (addInventory s rid).1 [rid] := by
  unfold addInventory
  dsimp only
  split
  · exact (timestamp_lists s).weaken (by simp)
  · have h1 : Lists s { (timestamp s).1 with
        routing := (addRoute (timestamp s).1.routing rid 0 (timestamp s).2).1 } [rid] := by
      refine ⟨rfl, fun x hx => ?_⟩
      rcases mem_listed.mp hx with h | h | h
      · exact Or.inl (listed_inv h)
      · rcases local_after_addRoute (s := s) rfl h with h' | ⟨_, rfl⟩
        · exact Or.inl (listed_local h')
        · exact Or.inr (by simp)
      · exact Or.inl (listed_payload h)
    exact (h1.trans (refreshInventory_lists _ _)).weaken (by simp)

theorem removeInventory_lists (s : State) (rid : Nat) : Lists s (removeInventory s rid).1 [] := by
  unfold removeInventory
  dsimp only
  split
  · have h1 : Lists s { (timestamp s).1 with routing := (removeRoute (timestamp s).1.routing rid 0).1 } [] := by
      refine Lists.of_sub rfl (fun x h => listed_inv h) ?_ (fun x h => listed_payload h)
      intro x hx
      rw [mem_localInventory] at hx
      obtain ⟨e, he, h0, rfl⟩ := hx
      exact listed_local (mem_localInventory.mpr ⟨e, removeRoute_mem he, h0, rfl⟩)
    exact (h1.trans (refreshInventory_lists _ _)).weaken (by simp)
  · exact timestamp_lists s

theorem announceRefs_lists (s : State) (r doc : Repo) : Lists s (announceRefs s r doc).1 [] := by
  unfold announceRefs
  dsimp only
  split
  · exact timestamp_lists s
  · refine Lists.of_sub rfl (fun x h => listed_inv h) (fun x h => listed_local h) ?_
    intro x hx
    rcases announced_payload hx with h | ⟨_, h, _⟩
    · exact listed_payload h
    · simp at h

theorem fetched_lists (s : State) (rid p : Nat) (clone upd : Bool) (hp : p ≠ 0) :
    ∃ extra, Lists s (fetched s rid p clone upd).1 extra ∧
      ∀ x ∈ extra, ∃ r, storageGet s rid = some r ∧ r.priv = false ∧ x = r.rid := by
  unfold fetched
  split
  · exact ⟨[], Lists.refl s, by simp⟩
  · split
    · exact ⟨[], Lists.refl s, by simp⟩
    · rename_i r hr
      dsimp only
      have h0 : Lists s { s with routing := (addRoute s.routing rid p s.clock).1 } [] := by
        refine Lists.of_sub rfl (fun x h => listed_inv h) ?_ (fun x h => listed_payload h)
        intro x hx
        rcases local_after_addRoute (s := s) rfl hx with h' | ⟨h', _⟩
        · exact listed_local h'
        · exact absurd h' hp
      generalize ({ s with routing := (addRoute s.routing rid p s.clock).1 } : State) = s0 at h0 ⊢
      have h1 : Lists s0 (fetchedInventory s0 r clone).1 (if r.priv then [] else [r.rid]) := by
        unfold fetchedInventory
        split
        · rename_i hc
          have : r.priv = false := by
            cases hpv : r.priv <;> simp [hpv] at hc ⊢
          simp only [this, Bool.false_eq_true, if_false]
          exact addInventory_lists _ _
        · exact (Lists.refl _).weaken (by simp)
      have h2 : Lists (fetchedInventory s0 r clone).1
          (fetchedRefs (fetchedInventory s0 r clone).1 r upd).1 [] := by
        unfold fetchedRefs
        split
        · exact announceRefs_lists _ _ _
        · exact Lists.refl _
      refine ⟨if r.priv then [] else [r.rid], ((h0.trans h1).trans h2).weaken (by simp), ?_⟩
      intro x hx
      cases hpv : r.priv with
      | true => simp [hpv] at hx
      | false =>
        simp only [hpv, Bool.false_eq_true, if_false, List.mem_singleton] at hx
        exact ⟨r, hr, hpv, hx⟩

/-! ### `initialize` -/

theorem initRepo_lists (db : List (Nat × Nat × Nat)) (acc : InitAcc) (r : Repo) :
    Lists acc.s (initRepo db acc r).s [] ∧
    ∀ x ∈ (initRepo db acc r).inventory, x ∈ acc.inventory ∨ (x = r.rid ∧ r.priv = false) := by
  have hinv : ∀ x ∈ (if r.priv = true then acc.inventory else acc.inventory ++ [r.rid]),
      x ∈ acc.inventory ∨ (x = r.rid ∧ r.priv = false) := by
    intro x hx
    cases hpv : r.priv with
    | true => simp [hpv] at hx; exact Or.inl hx
    | false =>
      simp only [hpv, Bool.false_eq_true, if_false, List.mem_append, List.mem_singleton] at hx
      rcases hx with h | h
      · exact Or.inl h
      · exact Or.inr ⟨h, rfl⟩
  unfold initRepo
  split
  · exact ⟨Lists.refl _, fun x h => Or.inl h⟩
  · split
    · exact ⟨Lists.refl _, fun x h => Or.inl h⟩
    · dsimp only
      split
      · exact ⟨Lists.refl _, hinv⟩
      · split
        · exact ⟨Lists.refl _, hinv⟩
        · refine ⟨?_, hinv⟩
          refine Lists.of_sub rfl (fun x h => listed_inv h) (fun x h => listed_local h) ?_
          intro x hx
          rcases announced_payload hx with h | ⟨_, h, _⟩
          · exact listed_payload h
          · simp at h

theorem initFold_lists (db : List (Nat × Nat × Nat)) (repos : List Repo) (acc : InitAcc) :
    Lists acc.s (repos.foldl (initRepo db) acc).s [] ∧
    ∀ x ∈ (repos.foldl (initRepo db) acc).inventory,
      x ∈ acc.inventory ∨ ∃ r ∈ repos, r.rid = x ∧ r.priv = false := by
  induction repos generalizing acc with
  | nil => exact ⟨Lists.refl _, fun x h => Or.inl h⟩
  | cons r rs ih =>
    simp only [List.foldl_cons]
    obtain ⟨l1, i1⟩ := initRepo_lists db acc r
    obtain ⟨l2, i2⟩ := ih (initRepo db acc r)
    refine ⟨(l1.trans l2).weaken (by simp), fun x hx => ?_⟩
    rcases i2 x hx with h | ⟨r', hr', h1, h2⟩
    · rcases i1 x h with h' | ⟨h', h''⟩
      · exact Or.inl h'
      · exact Or.inr ⟨r, by simp, h'.symm, h''⟩
    · exact Or.inr ⟨r', List.mem_cons_of_mem _ hr', h1, h2⟩

theorem restart_lists (s : State) :
    ∃ extra, Lists s (restart s).1 extra ∧ ∀ x ∈ extra, ∃ r ∈ s.repos, r.rid = x ∧ r.priv = false := by
  obtain ⟨l, i⟩ := initFold_lists s.seedsDb s.repos { s := s }
  refine ⟨(s.repos.foldl (initRepo s.seedsDb) { s := s }).inventory, ?_, ?_⟩
  · unfold restart
    dsimp only [timestamp]
    generalize s.repos.foldl (initRepo s.seedsDb) { s := s } = acc at l ⊢
    refine ⟨l.1, fun x hx => ?_⟩
    rcases mem_listed.mp hx with h | h | h
    · exact Or.inr h
    · rw [mem_localInventory] at h
      obtain ⟨e, he, h0, rfl⟩ := h
      simp only [List.mem_filter] at he
      rcases addRoutes_mem he.1 with h1 | ⟨h1, _⟩
      · rcases l.2 _ (listed_local (mem_localInventory.mpr ⟨e, h1, h0, rfl⟩)) with h' | h'
        · exact Or.inl h'
        · simp at h'
      · exact Or.inr h1
    · rcases l.2 _ (listed_payload (s := acc.s) h) with h' | h'
      · exact Or.inl h'
      · simp at h'
  · intro x hx
    rcases i x hx with h | h
    · simp at h
    · exact h

/-! ### Deliveries -/

theorem handleKind_lists (s : State) (a : Ann) (r : Option Nat) (hn : a.id.node ≠ 0) :
    Lists s (handleKind s a r).1 [] := by
  have key : ∀ s' : State, s'.repos = s.repos → s'.inv = s.inv → s'.rows = s.rows →
      (∀ e ∈ s'.routing, e ∈ s.routing ∨ e.2.1 = a.id.node) → Lists s s' [] := by
    intro s' h1 h2 h3 h4
    refine Lists.of_sub h1 (fun x h => listed_inv (h2 ▸ h)) ?_ (fun x h => listed_payload (h3 ▸ h))
    intro x hx
    rw [mem_localInventory] at hx
    obtain ⟨e, he, h0, rfl⟩ := hx
    rcases h4 e he with h | h
    · exact listed_local (mem_localInventory.mpr ⟨e, h, h0, rfl⟩)
    · exact absurd (h ▸ h0) hn
  unfold handleKind handleInv handleRefs handleNode
  dsimp only
  split
  · split
    · exact key _ rfl rfl rfl (fun e he => syncRouting_mem he)
    · exact key _ rfl rfl rfl (fun e he => syncRouting_mem he)
  · split
    · exact Lists.refl s
    · split
      · exact key _ rfl rfl rfl (fun e he => (addRoute_mem he).imp id (fun h => by rw [h]))
      · exact key _ rfl rfl rfl (fun e he => (addRoute_mem he).imp id (fun h => by rw [h]))
  · split
    · exact Lists.refl s
    · split
      · exact key _ rfl rfl rfl (fun e he => Or.inl he)
      · exact Lists.refl s

theorem handleAnn_lists {s s' : State} {p : Nat} {a : Ann} {k : Option Nat}
    (h : handleAnn s p a = .ok (s', k)) : Lists s s' [] := by
  unfold handleAnn at h
  split at h
  · simp at h
  · simp only [Except.ok.injEq, Prod.mk.injEq] at h; rw [← h.1]; exact Lists.refl s
  · rename_i hacc
    split at h
    · simp only [Except.ok.injEq, Prod.mk.injEq] at h; rw [← h.1]; exact Lists.refl s
    · rename_i k0 hk0
      simp only [Except.ok.injEq] at h
      have hn := (precheck_accept hacc).2.1
      have h1 : s' = (s', k).1 := rfl
      rw [h1, ← h]
      have l0 : Lists s { s with rows := (announced s.rows a.id a.inv).1,
                                 relayedBy := (k0, p) :: s.relayedBy } [] := by
        refine Lists.of_sub rfl (fun x h => listed_inv h) (fun x h => listed_local h) ?_
        intro x hx
        rcases announced_payload hx with h' | ⟨h', _, _⟩
        · exact listed_payload h'
        · exact absurd h' hn
      exact (l0.trans (handleKind_lists _ a _ hn)).weaken (by simp)

theorem setRelay_lists (s : State) (k : Nat) : Lists s { s with rows := setRelay s.rows k } [] := by
  refine Lists.of_sub rfl (fun x h => listed_inv h) (fun x h => listed_local h) ?_
  intro x hx
  refine listed_payload (payload_of_ids_inv ?_ hx)
  intro r' hr'
  unfold setRelay at hr'
  simp only [List.mem_map] at hr'
  obtain ⟨r, hr, rfl⟩ := hr'
  refine ⟨r, hr, ?_⟩
  split <;> exact ⟨rfl, rfl⟩

theorem recv_lists (s : State) (p : Nat) (a : Ann) : Lists s (recv s p a).1 [] := by
  by_cases hs : hasSession s p = true
  case neg => simp only [recv, hs]; exact Lists.refl s
  cases h : handleAnn s p a with
  | error r => simp only [recv, hs, h]; exact Lists.refl s
  | ok res =>
    obtain ⟨s1, k⟩ := res
    have l1 := handleAnn_lists h
    cases k with
    | none => simp only [recv, hs, h]; exact l1
    | some k =>
      rw [recv_eq_of_some hs h]
      split
      · exact l1
      · split
        · exact (l1.trans (setRelay_lists s1 k)).weaken (by simp)
        · exact l1

/-! ### Periodic tasks -/

theorem wake_lists (s : State) : Lists s (wake s).1 [] := by
  unfold wake
  dsimp only
  have h1 : Lists s (gossipTask s).1 [] := by
    unfold gossipTask
    split
    · dsimp only [relayAnnouncements]
      refine Lists.of_sub rfl (fun x h => listed_inv h) (fun x h => listed_local h) ?_
      intro x hx
      refine listed_payload (payload_of_ids_inv ?_ hx)
      intro r' hr'
      simp only [List.mem_map] at hr'
      obtain ⟨r, hr, rfl⟩ := hr'
      exact ⟨r, hr, rfl, rfl⟩
    · exact Lists.refl s
  have h2 : Lists (gossipTask s).1 (announceTask (gossipTask s).1).1 [] := by
    unfold announceTask
    split
    · have := announceInventory_lists (gossipTask s).1
      exact ⟨this.1, this.2⟩
    · exact Lists.refl _
  have h3 : Lists (announceTask (gossipTask s).1).1 (pruneTask (announceTask (gossipTask s).1).1) [] := by
    unfold pruneTask
    split
    · refine Lists.of_sub rfl (fun x h => listed_inv h) (fun x h => listed_local h) ?_
      intro x hx
      refine listed_payload (payload_of_ids_inv ?_ hx)
      intro r' hr'
      exact ⟨r', (List.mem_filter.mp hr').1, rfl, rfl⟩
    · exact Lists.refl _
  exact ((h1.trans h2).trans h3).weaken (by simp)

/-! ### Repositories are kept sorted by id -/

def ReposSorted (s : State) : Prop := (s.repos.map (·.rid)).Pairwise (· < ·)

theorem mem_insertRepo {r y : Repo} {l : List Repo} (h : y ∈ insertRepo r l) : y = r ∨ y ∈ l := by
  induction l with
  | nil => simp [insertRepo] at h; exact Or.inl h
  | cons x xs ih =>
    simp only [insertRepo] at h
    split at h
    · simp only [List.mem_cons] at h
      rcases h with h | h
      · exact Or.inl h
      · exact Or.inr (List.mem_cons_of_mem _ h)
    · split at h
      · simp only [List.mem_cons] at h
        rcases h with h | h | h
        · exact Or.inl h
        · exact Or.inr (by simp [h])
        · exact Or.inr (List.mem_cons_of_mem _ h)
      · simp only [List.mem_cons] at h
        rcases h with h | h
        · exact Or.inr (by simp [h])
        · rcases ih h with h' | h'
          · exact Or.inl h'
          · exact Or.inr (List.mem_cons_of_mem _ h')

theorem insertRepo_sorted (r : Repo) (l : List Repo) (h : (l.map (·.rid)).Pairwise (· < ·)) :
    ((insertRepo r l).map (·.rid)).Pairwise (· < ·) := by
  induction l with
  | nil => simp [insertRepo]
  | cons x xs ih =>
    simp only [List.map_cons, List.pairwise_cons, List.mem_map, forall_exists_index, and_imp,
      forall_apply_eq_imp_iff₂] at h
    obtain ⟨hx, hxs⟩ := h
    simp only [insertRepo]
    split
    · rename_i heq
      simp only [List.map_cons, List.pairwise_cons, List.mem_map, forall_exists_index, and_imp,
        forall_apply_eq_imp_iff₂]
      exact ⟨fun y hy => heq ▸ hx y hy, hxs⟩
    · split
      · rename_i hne hlt
        simp only [List.map_cons, List.pairwise_cons, List.mem_cons, List.mem_map, forall_eq_or_imp,
          forall_exists_index, and_imp, forall_apply_eq_imp_iff₂]
        exact ⟨⟨hlt, fun y hy => Nat.lt_trans hlt (hx y hy)⟩, hx, hxs⟩
      · rename_i hne hnlt
        simp only [List.map_cons, List.pairwise_cons, List.mem_map, forall_exists_index, and_imp,
          forall_apply_eq_imp_iff₂]
        refine ⟨fun y hy => ?_, ih hxs⟩
        rcases mem_insertRepo hy with rfl | hy'
        · omega
        · exact hx y hy'

theorem findRepo_of_mem {s : State} (hs : ReposSorted s) {r : Repo} (hr : r ∈ s.repos) :
    findRepo s r.rid = some r := by
  unfold findRepo
  unfold ReposSorted at hs
  generalize s.repos = l at hs hr
  induction l with
  | nil => simp at hr
  | cons x xs ih =>
    simp only [List.map_cons, List.pairwise_cons, List.mem_map, forall_exists_index, and_imp,
      forall_apply_eq_imp_iff₂] at hs
    simp only [List.mem_cons] at hr
    simp only [List.find?_cons]
    rcases hr with rfl | hr
    · simp
    · have := hs.1 r hr
      have hne : (x.rid == r.rid) = false := by simpa using (by omega : x.rid ≠ r.rid)
      rw [hne]
      exact ih hs.2 hr

/-- **`initialize` re-establishes the inventory.** For *every* state (no invariant assumed): the inventory
announcement created by `initialize` lists only repositories that are public at that moment — whatever the
routing table, the old cached inventory or the gossip store contain. This is the boundary of the known
window of `inventory_excludes_private_counterexample`: a repository made private while the node runs stays
listed only in announcements created *before* the next `initialize`. -/
theorem restart_inventory_public (s : State) (hs : ReposSorted s) :
    ∀ x ∈ (restart s).1.inv, isPrivate s x = false := by
  obtain ⟨_, i⟩ := initFold_lists s.seedsDb s.repos { s := s }
  intro x hx
  have hx' : x ∈ (s.repos.foldl (initRepo s.seedsDb) { s := s }).inventory := by
    simpa [restart, timestamp] using hx
  rcases i x hx' with h | ⟨r, hr, rfl, hp⟩
  · simp at h
  · simp [isPrivate, findRepo_of_mem hs hr, hp]

/-! ### The invariant along runs -/

/-- What the environment must respect for the inventory clause: no *listed* repository is made private,
`AddInventory` is only issued for public repositories, and peers are not the local node. -/
def OpOk (s : State) : Op → Prop
  | .setRepo r => r.priv = true → r.rid ∉ listed s
  | .addInventory rid => isPrivate s rid = false
  | .fetched _ p _ _ => p ≠ 0
  | _ => True

theorem isPrivate_of_storageGet {s : State} {rid : Nat} {r : Repo} (h : storageGet s rid = some r)
    (hp : r.priv = false) : isPrivate s r.rid = false := by
  obtain ⟨h1, h2, _⟩ := storageGet_rid h
  simp [isPrivate, h1, h2, hp]

/-- One step lists only what was listed, plus repositories that are public. -/
theorem step_lists (s : State) (op : Op) (hs : ReposSorted s) (hok : OpOk s op)
    (hset : ∀ r, op ≠ .setRepo r) :
    ∃ extra, Lists s (step s op).1 extra ∧ ∀ x ∈ extra, isPrivate s x = false := by
  cases op with
  | setRepo r => exact absurd rfl (hset r)
  | connect p => exact ⟨[], ⟨rfl, fun x h => Or.inl h⟩, by simp⟩
  | disconnect p => exact ⟨[], ⟨rfl, fun x h => Or.inl h⟩, by simp⟩
  | recv p a => exact ⟨[], recv_lists s p a, by simp⟩
  | subscribe p sb =>
    refine ⟨[], ?_, by simp⟩
    simp only [step, subscribe]
    split <;> exact ⟨rfl, fun x h => Or.inl h⟩
  | elapse dt =>
    refine ⟨[], ?_, by simp⟩
    have h0 : Lists s { s with clock := s.clock + dt } [] := ⟨rfl, fun x h => Or.inl h⟩
    exact (h0.trans (wake_lists _)).weaken (by simp)
  | tick now =>
    refine ⟨[], ?_, by simp⟩
    simp only [step]
    split <;> exact ⟨rfl, fun x h => Or.inl h⟩
  | setClock t => exact ⟨[], ⟨rfl, fun x h => Or.inl h⟩, by simp⟩
  | announceRefs rid =>
    refine ⟨[], ?_, by simp⟩
    simp only [step, cmdAnnounceRefs]
    split
    · exact Lists.refl s
    · exact announceRefs_lists _ _ _
  | addInventory rid =>
    refine ⟨[rid], addInventory_lists s rid, ?_⟩
    intro x hx
    simp only [List.mem_singleton] at hx
    subst hx
    exact hok
  | announceInventory => exact ⟨[], announceInventory_lists s, by simp⟩
  | seed rid => exact ⟨[], ⟨rfl, fun x h => Or.inl h⟩, by simp⟩
  | unseed rid =>
    refine ⟨[], ?_, by simp⟩
    simp only [step, unseed]
    split
    · have h0 : Lists s { s with seeded := s.seeded.filter (· != rid) } [] := ⟨rfl, fun x h => Or.inl h⟩
      exact (h0.trans (removeInventory_lists _ rid)).weaken (by simp)
    · exact Lists.refl s
  | fetched rid p clone upd =>
    obtain ⟨extra, l, he⟩ := fetched_lists s rid p clone upd hok
    refine ⟨extra, l, fun x hx => ?_⟩
    obtain ⟨r, hr, hp, rfl⟩ := he x hx
    exact isPrivate_of_storageGet hr hp
  | restart =>
    obtain ⟨extra, l, he⟩ := restart_lists s
    refine ⟨extra, l, fun x hx => ?_⟩
    obtain ⟨r, hr, rfl, hp⟩ := he x hx
    simp [isPrivate, findRepo_of_mem hs hr, hp]
  | knowNode nid ts =>
    refine ⟨[], ?_, by simp⟩
    simp only [step]
    split <;> exact ⟨rfl, fun x h => Or.inl h⟩

theorem isPrivate_congr {s s' : State} (h : s'.repos = s.repos) (x : Nat) :
    isPrivate s' x = isPrivate s x := by
  simp [isPrivate, findRepo, h]

/-- The invariants are preserved by every admissible step. -/
theorem step_invariant (s : State) (op : Op) (hs : ReposSorted s) (hc : InvClean s) (hok : OpOk s op) :
    ReposSorted (step s op).1 ∧ InvClean (step s op).1 := by
  by_cases hset : ∃ r, op = .setRepo r
  · obtain ⟨r, rfl⟩ := hset
    refine ⟨insertRepo_sorted r s.repos hs, ?_⟩
    intro x hx
    have hx' : x ∈ listed s := hx
    by_cases hxr : x = r.rid
    · subst hxr
      have hpub : r.priv = false := by
        cases hp : r.priv with
        | false => rfl
        | true => exact absurd hx' (hok hp)
      simp only [isPrivate, findRepo, step]
      rw [find_insertRepo_self]
      exact hpub
    · have := hc x hx'
      simp only [isPrivate, findRepo, step] at this ⊢
      rw [find_insertRepo_other r s.repos x hxr]
      exact this
  · obtain ⟨extra, l, he⟩ := step_lists s op hs hok (fun r h => hset ⟨r, h⟩)
    refine ⟨?_, ?_⟩
    · unfold ReposSorted; rw [l.1]; exact hs
    · intro x hx
      rw [isPrivate_congr l.1]
      rcases l.2 x hx with h | h
      · exact hc x h
      · exact he x h

/-! ### What the node's inventory announcements list -/

/-- An inventory announcement of the local node lists only listed repositories (of the state before or
after the step). -/
def InvWritesListed (s s' : State) (ws : List Write) : Prop :=
  ∀ w ∈ ws, w.id.node = 0 → w.id.kind = .inv → ∀ x ∈ w.inv, x ∈ listed s ∨ x ∈ listed s'

theorem announceInventory_invWrites (s : State) :
    ∀ w ∈ (announceInventory s).2, ∀ x ∈ w.inv, x ∈ s.inv := by
  unfold announceInventory
  split
  · simp
  · intro w hw x hx
    simp only [List.mem_map] at hw
    obtain ⟨_, _, rfl⟩ := hw
    exact hx

@[simp] theorem announceInventory_inv (s : State) : (announceInventory s).1.inv = s.inv := by
  unfold announceInventory; split <;> rfl

theorem refreshInventory_invWrites (s : State) (t : Nat) :
    ∀ w ∈ (refreshInventory s t).2.writes, ∀ x ∈ w.inv, x ∈ (refreshInventory s t).1.inv := by
  unfold refreshInventory
  intro w hw x hx
  simp only [announceInventory_inv]
  exact announceInventory_invWrites _ w hw x hx

theorem addInventory_invWrites (s : State) (rid : Nat) :
    ∀ w ∈ (addInventory s rid).2.writes, ∀ x ∈ w.inv, x ∈ (addInventory s rid).1.inv := by
  unfold addInventory
  dsimp only
  split
  · simp
  · exact refreshInventory_invWrites _ _

theorem removeInventory_invWrites (s : State) (rid : Nat) :
    ∀ w ∈ (removeInventory s rid).2.writes, ∀ x ∈ w.inv, x ∈ (removeInventory s rid).1.inv := by
  unfold removeInventory
  dsimp only
  split
  · exact refreshInventory_invWrites _ _
  · simp

theorem announceRefs_noInv (s : State) (r doc : Repo) :
    ∀ w ∈ (announceRefs s r doc).2.writes, w.id.kind ≠ .inv := by
  unfold announceRefs
  dsimp only
  split
  · simp
  · intro w hw
    simp only [List.mem_map] at hw
    obtain ⟨_, _, rfl⟩ := hw
    simp

@[simp] theorem announceRefs_inv (s : State) (r doc : Repo) : (announceRefs s r doc).1.inv = s.inv := by
  unfold announceRefs; dsimp only; split <;> rfl

/-- **Own inventory announcements list only listed repositories** — for every state and operation. -/
theorem own_inventory_writes_listed (s : State) (op : Op) :
    InvWritesListed s (step s op).1 (step s op).2.writes := by
  intro w hw h0 hk x hx
  by_cases h1 : ∃ p a, op = .recv p a
  · obtain ⟨p, a, rfl⟩ := h1
    obtain ⟨w1, _, hA, _⟩ := recv_writes_spec s p a w hw
    exact absurd (w1 ▸ h0) hA.2.2.1
  by_cases h2 : ∃ p sb, op = .subscribe p sb
  · obtain ⟨p, sb, rfl⟩ := h2
    simp only [step, subscribe] at hw
    split at hw
    · simp at hw
    · simp only [List.mem_map] at hw
      obtain ⟨row, hrow, rfl⟩ := hw
      unfold replayRows at hrow
      split at hrow
      · simp at hrow
      · have hmem := (List.mem_filter.mp hrow).1
        exact Or.inl (listed_payload (mem_ownInvPayload.mpr ⟨row, hmem, h0, hk, hx⟩))
  by_cases h3 : ∃ dt, op = .elapse dt
  · obtain ⟨dt, rfl⟩ := h3
    rcases wake_writes_spec _ w hw with ⟨_, hn, _⟩ | _
    · exact absurd h0 hn
    · simp only [step, wake] at hw
      rcases List.mem_append.mp hw with h | h
      · unfold gossipTask at h
        split at h
        · dsimp only [relayAnnouncements] at h
          simp only [List.mem_flatMap, List.mem_filter, Bool.and_eq_true, bne_iff_ne, ne_eq] at h
          obtain ⟨r, ⟨_, _, hnode⟩, hwr⟩ := h
          obtain ⟨w1, _⟩ := relayWrites_spec hwr
          exact absurd (w1 ▸ h0) hnode
        · simp at h
      · unfold announceTask at h
        split at h
        · have := announceInventory_invWrites _ w h x hx
          have hinv : (gossipTask { s with clock := s.clock + dt }).1.inv = s.inv := by
            unfold gossipTask; split <;> rfl
          exact Or.inl (listed_inv (hinv ▸ this))
        · simp at h
  cases op with
  | recv p a => exact absurd ⟨p, a, rfl⟩ h1
  | subscribe p sb => exact absurd ⟨p, sb, rfl⟩ h2
  | elapse dt => exact absurd ⟨dt, rfl⟩ h3
  | connect p =>
    simp only [step, connect, List.mem_cons, List.mem_singleton, List.not_mem_nil, or_false] at hw
    rcases hw with rfl | rfl
    · simp at hk
    · exact Or.inl (listed_inv hx)
  | disconnect p => simp [step, disconnect] at hw
  | tick now => simp [step] at hw
  | setClock t => simp [step] at hw
  | announceRefs rid =>
    simp only [step, cmdAnnounceRefs] at hw
    split at hw
    · simp at hw
    · exact absurd hk (announceRefs_noInv _ _ _ w hw)
  | addInventory rid => exact Or.inr (listed_inv (addInventory_invWrites s rid w hw x hx))
  | announceInventory => exact Or.inl (listed_inv (announceInventory_invWrites s w hw x hx))
  | seed rid => simp [step, seed] at hw
  | unseed rid =>
    simp only [step, unseed] at hw ⊢
    split at hw
    · rename_i hsd
      simp only [hsd, if_true]
      exact Or.inr (listed_inv (removeInventory_invWrites _ rid w hw x hx))
    · simp at hw
  | fetched rid p clone upd =>
    simp only [step, fetched] at hw ⊢
    split at hw
    · simp at hw
    · rename_i hsess
      simp only [hsess, if_false, Bool.false_eq_true]
      split at hw
      · simp at hw
      · rename_i r hr
        simp only [hr]
        simp only [appendOut, List.mem_append] at hw
        rcases hw with h | h
        · unfold fetchedInventory at h
          split at h
          · rename_i hc
            refine Or.inr (listed_inv ?_)
            unfold fetchedRefs
            have := addInventory_invWrites _ _ w h x hx
            unfold fetchedInventory
            simp only [hc, if_true]
            split
            · simpa using this
            · exact this
          · simp at h
        · unfold fetchedRefs at h
          split at h
          · exact absurd hk (announceRefs_noInv _ _ _ w h)
          · simp at h
  | restart => simp [step, restart] at hw
  | setRepo r => simp [step] at hw
  | knowNode nid ts => simp [step] at hw

theorem step_repos_or_silent (s : State) (op : Op) (hs : ReposSorted s) (hok : OpOk s op) :
    (step s op).1.repos = s.repos ∨ (step s op).2.writes = [] := by
  by_cases hset : ∃ r, op = .setRepo r
  · obtain ⟨r, rfl⟩ := hset
    exact Or.inr rfl
  · obtain ⟨_, l, _⟩ := step_lists s op hs hok (fun r h => hset ⟨r, h⟩)
    exact Or.inl l.1

/-- **C11, inventory announcements (`_partial`).** Along any run that starts in a state listing no private
repository (e.g. `init`), in which no *listed* repository is made private, `AddInventory` is only issued for
public repositories and peers are not the local node (`OpOk`): every inventory announcement of the node
that is written — on connect, by `announce_inventory`, refreshed after `add_inventory` / `unseed` /
a clone, or replayed from the gossip store — lists public repositories only. -/
theorem inventory_excludes_private_partial (s : State) (ops : List Op)
    (hs : ReposSorted s) (hc : InvClean s)
    (hok : ∀ i op, ops[i]? = some op → OpOk (stateAt s ops i) op) :
    ∀ j op w, ops[j]? = some op → w ∈ (step (stateAt s ops j) op).2.writes →
      w.id.node = 0 → w.id.kind = .inv → ∀ x ∈ w.inv, isPrivate (stateAt s ops j) x = false := by
  induction ops generalizing s with
  | nil => intro j op w hj; simp at hj
  | cons o os ih =>
    intro j op w hj hw h0 hk x hx
    have hok0 : OpOk s o := by
      have := hok 0 o (by simp)
      cases os <;> simpa [stateAt] using this
    obtain ⟨hs', hc'⟩ := step_invariant s o hs hc hok0
    cases j with
    | zero =>
      simp only [List.getElem?_cons_zero, Option.some.injEq] at hj
      subst hj
      have hst : stateAt s (o :: os) 0 = s := by cases os <;> rfl
      rw [hst] at hw ⊢
      rcases own_inventory_writes_listed s o w hw h0 hk x hx with h | h
      · exact hc x h
      · rcases step_repos_or_silent s o hs hok0 with hr | hr
        · rw [← isPrivate_congr hr]; exact hc' x h
        · rw [hr] at hw; simp at hw
    | succ j =>
      simp only [List.getElem?_cons_succ] at hj
      simp only [stateAt] at hw ⊢
      refine ih (step s o).1 hs' hc' ?_ j op w hj hw h0 hk x hx
      intro i op' hi
      have := hok (i + 1) op' (by simpa using hi)
      simpa [stateAt] using this

/-- The initial state satisfies the hypotheses. -/
theorem init_clean (t0 : Nat) (b : Bool) : ReposSorted (init t0 b) ∧ InvClean (init t0 b) := by
  refine ⟨by simp [ReposSorted, init], ?_⟩
  intro x hx
  simp [listed, init, localInventory, ownInvPayload] at hx

/-- The full statement — *no inventory announcement of the node lists a private repository* — is false of
the current code once visibility changes are allowed: repository 0 is public, seeded and added to the
inventory; it is then made private (identity document updated in storage); nothing tells the service:
the next peer to connect is sent the cached inventory, which still lists it. -/
def madePrivateTrace : List Op :=
  [.setRepo ⟨0, true, false, [0], [], none⟩, .seed 0, .addInventory 0,
   .setRepo ⟨0, true, true, [0], [], none⟩, .connect 3]

theorem inventory_excludes_private_counterexample :
    let s := finalState (init 1000000 true) madePrivateTrace.dropLast
    (step s (.connect 3)).2.writes.any
      (fun w => w.id.node == 0 && w.id.kind == .inv && w.inv.any (fun x => isPrivate s x)) = true := by
  decide

/-- …and `OpOk` is exactly what that trace violates (the repository is listed when it is made private). -/
example :
    let s := finalState (init 1000000 true) (madePrivateTrace.take 3)
    (0 ∈ listed s) = true := by decide

/-- Non-vacuity: after `initialize` (`restart`) and the next announcement the listing is clean again. -/
example :
    let s := finalState (init 1000000 true)
      (madePrivateTrace.dropLast ++ [.restart, .elapse 3600000])
    (step s (.connect 3)).2.writes.map (·.inv) = [[], []] := by decide

end HeartwoodModel.Gossip
