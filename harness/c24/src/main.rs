//! C24 — node databases behave like their simple models.
//!
//! Case input: `<store> <op> <op> …` (see `lean/HeartwoodModel/Driver/C24.lean` for the op syntax); the ops
//! are run one by one against a fresh in-memory SQLite instance of the REAL store
//! (`radicle::node::Database` for routing / repo-sync-status / refs / announcements,
//! `radicle::node::policy::store::Store` for the policies; foreign keys off, as in the repository's own store
//! tests). Output: one token per op: the op's result and, for writes, the whole table (sorted).
//!
//! `routing.prune` is relational (ties in `ORDER BY timestamp LIMIT n`): its op carries, as last field, the
//! set of rows the real code deleted (filled in by a first execution when the case is generated); the model
//! checks that this set is the outcome of a legal selection. On re-execution the harness compares the set it
//! observes with the one in the text (`hint-mismatch`).
//!
//! Oracle (the property statement evaluated on consecutive dumps of the real tables):
//! * routing: an entry present before and after an op never goes back in time (`routing-ts-decreased`);
//!   prune leaves the entries of the ignored (local) node alone (`prune-removed-local`), removes only entries
//!   older than `oldest` (`prune-removed-fresh`), at most `limit` (`prune-over-limit`), and reports what it
//!   removed (`prune-count-wrong`);
//! * sync status / refs: a row changes only to a strictly newer timestamp and a different value, namely
//!   the written ones (`sync-not-strictly-newer`, `refs-not-strictly-newer`);
//! * policies: after a write the written column shows the written value, scope shown under `allow` is the
//!   last scope written since the row exists (`policy-not-last-write`); other rows and the other table are
//!   untouched (`policy-frame-broken`);
//! * gossip: a stored announcement changes only by `announced` of the same (node, repo, type) with a
//!   strictly greater timestamp (`gossip-replaced-not-newer`, `gossip-replaced-by-other-kind`).

use std::collections::BTreeMap;
use std::str::FromStr;
use std::sync::OnceLock;

use radicle::crypto::{KeyPair, Seed, Signature};
use radicle::git::{Oid, RefString};
use radicle::identity::RepoId;
use radicle::node::policy::store::StoreWriter;
use radicle::node::policy::{Policy, Scope, SeedingPolicy};
use radicle::node::refs::Store as RefsStore;
use radicle::node::routing::{InsertResult, Store as RoutingStore};
use radicle::node::seed::Store as SeedStore;
use radicle::node::{Alias, Database, Features, NodeId, Timestamp, UserAgent};
use radicle_node::bounded::BoundedVec;
use radicle_node::service::filter::Filter;
use radicle_node::service::gossip::{RelayStatus, Store as GossipStore};
use radicle_node::service::message::{
    Announcement, AnnouncementMessage, InventoryAnnouncement, NodeAnnouncement, RefsAnnouncement,
};
use radicle_node::LocalTime;
use verif_common::*;

const POOL: usize = 8;
const MAX_TS: u64 = i64::MAX as u64;

struct Pools {
    nids: Vec<NodeId>,
    rids: Vec<RepoId>,
    oids: Vec<Oid>,
}

fn pools() -> &'static Pools {
    static P: OnceLock<Pools> = OnceLock::new();
    P.get_or_init(|| Pools {
        nids: (0..POOL as u64)
            .map(|k| {
                let mut seed = [0x24u8; 32];
                seed[..8].copy_from_slice(&k.to_le_bytes());
                NodeId::from(KeyPair::from_seed(Seed::new(seed)).pk)
            })
            .collect(),
        rids: (0..POOL).map(|i| RepoId::from(Oid::from_str(&format!("{:040x}", 0x1000 + i)).unwrap())).collect(),
        oids: (0..64).map(|i| Oid::from_str(&format!("{:040x}", 0xabc000 + i)).unwrap()).collect(),
    })
}

fn nid(i: usize) -> Option<NodeId> {
    pools().nids.get(i).copied()
}
fn rid(i: usize) -> Option<RepoId> {
    pools().rids.get(i).copied()
}
fn oid(i: usize) -> Option<Oid> {
    pools().oids.get(i).copied()
}
fn nid_ix(n: &NodeId) -> usize {
    pools().nids.iter().position(|x| x == n).unwrap_or(999)
}
fn rid_ix(r: &RepoId) -> usize {
    pools().rids.iter().position(|x| x == r).unwrap_or(999)
}
fn oid_ix(o: &Oid) -> usize {
    pools().oids.iter().position(|x| x == o).unwrap_or(999)
}
fn ts(t: u64) -> Option<Timestamp> {
    Timestamp::try_from(t).ok()
}
fn num(s: &str) -> Option<u64> {
    if s.is_empty() || !s.bytes().all(|b| b.is_ascii_digit()) {
        return None;
    }
    s.parse().ok()
}
fn ix(s: &str) -> Option<usize> {
    num(s).map(|n| n as usize)
}
fn list(s: &str) -> Option<Vec<usize>> {
    if s == "-" {
        return Some(vec![]);
    }
    s.split(',').map(ix).collect()
}
fn show<T: ToString>(rows: impl IntoIterator<Item = T>) -> String {
    let v: Vec<String> = rows.into_iter().map(|r| r.to_string()).collect();
    if v.is_empty() {
        "-".into()
    } else {
        v.join(",")
    }
}
fn memdb() -> Database {
    let db = Database::memory().expect("in-memory database");
    // as in the repository's own store tests: foreign keys are not under test here
    db.execute("PRAGMA foreign_keys = OFF").expect("pragma");
    db
}

type Viol = Vec<(String, String)>;

struct Run {
    outs: Vec<String>,
    viol: Viol,
    tags: Vec<String>,
    changed: usize,
    refused: usize,
}

impl Run {
    fn new(store: &str) -> Self {
        Run { outs: vec![], viol: vec![], tags: vec![store.to_string()], changed: 0, refused: 0 }
    }
    fn tag(&mut self, t: &str) {
        self.tags.push(t.to_string());
    }
    fn v(&mut self, class: &str, msg: String) {
        self.viol.push((class.to_string(), msg));
    }
    fn finish(mut self) -> Outcome {
        self.tags.sort();
        self.tags.dedup();
        let mut o = Outcome::new(if self.outs.is_empty() { "empty".to_string() } else { self.outs.join(" ") });
        o.violations = self.viol;
        o.tags = self.tags;
        o.nontrivial = self.changed > 0 && self.refused > 0;
        o
    }
}

fn bad() -> Outcome {
    Outcome::new("bad-case").trivial()
}

// ---------------------------------------------------------------------------------------------
// routing

type RMap = BTreeMap<(usize, usize), u64>;

fn routing_dump(db: &Database) -> Result<RMap, String> {
    let mut m = RMap::new();
    for (r, n) in db.entries().map_err(|e| e.to_string())? {
        let t = db.entry(&r, &n).map_err(|e| e.to_string())?.ok_or("entry vanished")?;
        m.insert((rid_ix(&r), nid_ix(&n)), *t);
    }
    Ok(m)
}

fn show_rmap(m: &RMap) -> String {
    show(m.iter().map(|((r, n), t)| format!("{r}.{n}@{t}")))
}

/// Runs routing ops; `resolved` receives the op texts with prune hints replaced by what the real code did.
fn run_routing(ops: &[&str], resolve: bool, resolved: &mut Vec<String>) -> Outcome {
    let mut db = memdb();
    let mut run = Run::new("routing");
    for op in ops {
        let f: Vec<&str> = op.split(':').collect();
        let before = match routing_dump(&db) {
            Ok(m) => m,
            Err(e) => return Outcome::new(format!("error:{e}")).violation("store-error", e),
        };
        let mut op_text = op.to_string();
        let mut prune_info: Option<(u64, Option<usize>, usize, usize)> = None;
        let res: Result<String, String> = match f.as_slice() {
            ["add", n, t, rids] => {
                let (Some(n), Some(t), Some(rids)) = (ix(n).and_then(nid), num(t).and_then(ts), list(rids)) else { return bad() };
                let Some(rids) = rids.into_iter().map(rid).collect::<Option<Vec<_>>>() else { return bad() };
                for r in &rids {
                    match before.get(&(rid_ix(r), nid_ix(&n))) {
                        None => run.tag("add-new"),
                        Some(t0) if *t0 < *t => run.tag("add-newer"),
                        Some(t0) if *t0 == *t => run.tag("add-equal-ts"),
                        Some(_) => run.tag("add-older"),
                    }
                }
                db.add_inventory(rids.iter(), n, t).map_err(|e| e.to_string()).map(|rs| {
                    rs.iter()
                        .map(|(_, r)| match r {
                            InsertResult::SeedAdded => 'S',
                            InsertResult::TimeUpdated => 'T',
                            InsertResult::NotUpdated => 'N',
                        })
                        .collect()
                })
            }
            ["rm", r, n] => {
                let (Some(r), Some(n)) = (ix(r).and_then(rid), ix(n).and_then(nid)) else { return bad() };
                run.tag("remove");
                db.remove_inventory(&r, &n).map_err(|e| e.to_string()).map(|b| (b as u8).to_string())
            }
            ["rmm", n, rids] => {
                let (Some(n), Some(rids)) = (ix(n).and_then(nid), list(rids)) else { return bad() };
                let Some(rids) = rids.into_iter().map(rid).collect::<Option<Vec<_>>>() else { return bad() };
                run.tag("remove-many");
                db.remove_inventories(rids.iter(), &n).map_err(|e| e.to_string()).map(|_| "ok".to_string())
            }
            ["prune", oldest, limit, ignore, hint] => {
                let (Some(o), Some(ig)) = (num(oldest), ix(ignore)) else { return bad() };
                let (Some(ot), Some(ign)) = (ts(o), nid(ig)) else { return bad() };
                let limit = if *limit == "-" { None } else { Some(ix(limit)) };
                let limit = match limit {
                    None => None,
                    Some(Some(l)) => Some(l),
                    Some(None) => return bad(),
                };
                if *hint == "?" && !resolve {
                    return bad();
                }
                prune_info = Some((o, limit, ig, 0));
                // distribution: does the cut fall inside a group of equal timestamps?
                let mut cand: Vec<u64> = before.values().copied().filter(|t| *t < o).collect();
                cand.sort();
                if let Some(l) = limit {
                    if l < cand.len() {
                        run.tag("prune-limit-binds");
                        if l > 0 && cand[l - 1] == cand[l] {
                            run.tag("prune-tie-at-cut");
                        }
                    }
                }
                if before.iter().any(|((_, n), t)| *n == ig && *t < o) {
                    run.tag("prune-local-is-old");
                }
                let _ = hint;
                RoutingStore::prune(&mut db, ot, limit, &ign).map_err(|e| e.to_string()).map(|c| c.to_string())
            }
            ["entry", r, n] => {
                let (Some(r), Some(n)) = (ix(r).and_then(rid), ix(n).and_then(nid)) else { return bad() };
                db.entry(&r, &n).map_err(|e| e.to_string()).map(|t| t.map(|t| t.to_string()).unwrap_or("-".into()))
            }
            ["get", r] => {
                let Some(r) = ix(r).and_then(rid) else { return bad() };
                RoutingStore::get(&db, &r).map_err(|e| e.to_string()).map(|s| {
                    let mut v: Vec<usize> = s.iter().map(nid_ix).collect();
                    v.sort();
                    show(v)
                })
            }
            ["inv", n] => {
                let Some(n) = ix(n).and_then(nid) else { return bad() };
                db.get_inventory(&n).map_err(|e| e.to_string()).map(|s| {
                    let mut v: Vec<usize> = s.iter().map(rid_ix).collect();
                    v.sort();
                    show(v)
                })
            }
            ["len"] => RoutingStore::len(&db).map_err(|e| e.to_string()).map(|n| n.to_string()),
            ["count", r] => {
                let Some(r) = ix(r).and_then(rid) else { return bad() };
                RoutingStore::count(&db, &r).map_err(|e| e.to_string()).map(|n| n.to_string())
            }
            _ => return bad(),
        };
        let is_write = matches!(f[0], "add" | "rm" | "rmm" | "prune");
        let res = match res {
            Ok(r) => r,
            Err(e) => {
                run.outs.push("error".into());
                run.v("store-error", format!("op {op}: {e}"));
                resolved.push(op_text);
                continue;
            }
        };
        if !is_write {
            run.outs.push(res);
            resolved.push(op_text);
            continue;
        }
        let after = match routing_dump(&db) {
            Ok(m) => m,
            Err(e) => return Outcome::new(format!("error:{e}")).violation("store-error", e),
        };
        // ---- oracle: timestamps only increase
        for (k, t0) in &before {
            if let Some(t1) = after.get(k) {
                if t1 < t0 {
                    run.v("routing-ts-decreased", format!("op {op}: entry {}.{} went from {t0} back to {t1}", k.0, k.1));
                }
            }
        }
        if after != before {
            run.changed += 1;
        } else {
            run.refused += 1;
        }
        let mut out = format!("{res}|{}", show_rmap(&after));
        if let Some((o, limit, ig, _)) = prune_info {
            let deleted: Vec<(usize, usize)> = before.keys().filter(|k| !after.contains_key(k)).copied().collect();
            // ---- oracle: prune
            for k in &deleted {
                if k.1 == ig {
                    run.v("prune-removed-local", format!("op {op}: entry {}.{} of the ignored node was removed", k.0, k.1));
                }
                if before[k] >= o {
                    run.v("prune-removed-fresh", format!("op {op}: entry {}.{} with timestamp {} >= {o} was removed", k.0, k.1, before[k]));
                }
            }
            if let Some(l) = limit {
                if deleted.len() > l {
                    run.v("prune-over-limit", format!("op {op}: {} entries removed, limit {l}", deleted.len()));
                }
            }
            for (k, t1) in &after {
                if before.get(k) != Some(t1) {
                    run.v("prune-removed-local", format!("op {op}: entry {}.{} was created or changed by prune", k.0, k.1));
                }
            }
            if res != deleted.len().to_string() {
                run.v("prune-count-wrong", format!("op {op}: reported {res}, removed {}", deleted.len()));
            }
            let shown = show(deleted.iter().map(|(r, n)| format!("{r}.{n}")));
            if f[4] == "?" {
                op_text = format!("prune:{}:{}:{}:{shown}", f[1], f[2], f[3]);
            } else if shown != canonical_keys(f[4]) {
                out.push_str("|hint-mismatch");
            }
        }
        run.outs.push(out);
        resolved.push(op_text);
    }
    run.finish()
}

fn canonical_keys(h: &str) -> String {
    if h == "-" {
        return "-".into();
    }
    let mut v: Vec<(usize, usize)> = h
        .split(',')
        .filter_map(|k| {
            let (a, b) = k.split_once('.')?;
            Some((ix(a)?, ix(b)?))
        })
        .collect();
    v.sort();
    show(v.iter().map(|(r, n)| format!("{r}.{n}")))
}

// ---------------------------------------------------------------------------------------------
// repo-sync-status and refs

type GMapT<K> = BTreeMap<K, (usize, u64)>;

fn guarded_oracle<K: Ord + Clone + std::fmt::Debug>(
    run: &mut Run,
    class: &str,
    op: &str,
    before: &GMapT<K>,
    after: &GMapT<K>,
    written: Option<(&K, usize, u64)>,
) {
    for (k, (v0, t0)) in before {
        if let Some((v1, t1)) = after.get(k) {
            if (v1, t1) != (v0, t0) {
                let ok = t1 > t0 && v1 != v0 && written.map(|(wk, wv, wt)| wk == k && wv == *v1 && wt == *t1).unwrap_or(false);
                if !ok {
                    run.v(class, format!("op {op}: row {k:?} went from {v0}@{t0} to {v1}@{t1}"));
                }
            }
        }
    }
    if let Some((k, v, t)) = written {
        match before.get(k) {
            None => run.tag("set-new"),
            Some((v0, t0)) => run.tag(&format!(
                "set-{}-{}",
                if t > *t0 { "newer" } else if t == *t0 { "equal" } else { "older" },
                if v != *v0 { "diff" } else { "same" }
            )),
        }
    }
    if after != before {
        run.changed += 1;
    } else {
        run.refused += 1;
    }
}

fn sync_dump(db: &Database) -> Result<GMapT<(usize, usize)>, String> {
    let mut m = BTreeMap::new();
    for r in &pools().rids {
        for s in db.seeds_for(r).map_err(|e| e.to_string())? {
            let s = s.map_err(|e| e.to_string())?;
            m.insert((rid_ix(r), nid_ix(&s.nid)), (oid_ix(&s.synced_at.oid), s.synced_at.timestamp.as_millis() as u64));
        }
    }
    Ok(m)
}

fn run_sync(ops: &[&str]) -> Outcome {
    let mut db = memdb();
    let mut run = Run::new("sync");
    for op in ops {
        let f: Vec<&str> = op.split(':').collect();
        match f.as_slice() {
            ["syn", r, n, h, t] => {
                let (Some(ri), Some(ni), Some(hi), Some(tt)) = (ix(r), ix(n), ix(h), num(t)) else { return bad() };
                let (Some(r), Some(n), Some(h), Some(t)) = (rid(ri), nid(ni), oid(hi), ts(tt)) else { return bad() };
                let before = match sync_dump(&db) {
                    Ok(m) => m,
                    Err(e) => return Outcome::new("error").violation("store-error", e),
                };
                match db.synced(&r, &n, h, t) {
                    Err(e) => {
                        run.outs.push("error".into());
                        run.v("store-error", format!("op {op}: {e}"));
                    }
                    Ok(b) => {
                        let after = match sync_dump(&db) {
                            Ok(m) => m,
                            Err(e) => return Outcome::new("error").violation("store-error", e),
                        };
                        guarded_oracle(&mut run, "sync-not-strictly-newer", op, &before, &after, Some((&(ri, ni), hi, tt)));
                        run.outs.push(format!(
                            "{}|{}",
                            b as u8,
                            show(after.iter().map(|((r, n), (h, t))| format!("{r}.{n}={h}@{t}")))
                        ));
                    }
                }
            }
            ["for", r] => {
                let Some(r) = ix(r).and_then(rid) else { return bad() };
                let rows: Result<Vec<_>, String> = db
                    .seeds_for(&r)
                    .map_err(|e| e.to_string())
                    .and_then(|it| it.map(|s| s.map_err(|e| e.to_string())).collect());
                match rows {
                    Err(e) => {
                        run.outs.push("error".into());
                        run.v("store-error", e);
                    }
                    Ok(rows) => {
                        let mut v: Vec<(usize, usize, u64)> = rows
                            .iter()
                            .map(|s| (nid_ix(&s.nid), oid_ix(&s.synced_at.oid), s.synced_at.timestamp.as_millis() as u64))
                            .collect();
                        v.sort();
                        run.outs.push(show(v.iter().map(|(n, h, t)| format!("{n}={h}@{t}"))));
                    }
                }
            }
            ["by", n] => {
                let Some(n) = ix(n).and_then(nid) else { return bad() };
                let rows: Result<Vec<_>, String> = db
                    .seeded_by(&n)
                    .map_err(|e| e.to_string())
                    .and_then(|it| it.map(|s| s.map_err(|e| e.to_string())).collect());
                match rows {
                    Err(e) => {
                        run.outs.push("error".into());
                        run.v("store-error", e);
                    }
                    Ok(rows) => {
                        let mut v: Vec<(usize, usize, u64)> =
                            rows.iter().map(|(r, s)| (rid_ix(r), oid_ix(&s.oid), s.timestamp.as_millis() as u64)).collect();
                        v.sort();
                        run.outs.push(show(v.iter().map(|(r, h, t)| format!("{r}={h}@{t}"))));
                    }
                }
            }
            _ => return bad(),
        }
    }
    run.finish()
}

const REFS_U: usize = 3;

fn refname(i: usize) -> radicle::git::Qualified<'static> {
    let s = RefString::try_from(format!("b{i}")).expect("valid ref component");
    radicle::git::refs::branch(&s)
}

fn refs_dump(db: &Database) -> Result<GMapT<(usize, usize, usize)>, String> {
    let mut m = BTreeMap::new();
    for r in 0..REFS_U {
        for n in 0..REFS_U {
            for f in 0..REFS_U {
                if let Some((o, t)) = RefsStore::get(db, &rid(r).unwrap(), &nid(n).unwrap(), &refname(f)).map_err(|e| e.to_string())? {
                    m.insert((r, n, f), (oid_ix(&o), t.as_millis() as u64));
                }
            }
        }
    }
    Ok(m)
}

fn run_refs(ops: &[&str]) -> Outcome {
    let mut db = memdb();
    let mut run = Run::new("refs");
    let dump_s = |m: &GMapT<(usize, usize, usize)>| show(m.iter().map(|((r, n, f), (o, t))| format!("{r}.{n}.{f}={o}@{t}")));
    for op in ops {
        let f: Vec<&str> = op.split(':').collect();
        let key = |r: &str, n: &str, rf: &str| -> Option<(usize, usize, usize)> {
            let k = (ix(r)?, ix(n)?, ix(rf)?);
            (k.0 < REFS_U && k.1 < REFS_U && k.2 < REFS_U).then_some(k)
        };
        match f.as_slice() {
            ["set", r, n, rf, o, t] => {
                let (Some(k), Some(oi), Some(tt)) = (key(r, n, rf), ix(o), num(t)) else { return bad() };
                let Some(o) = oid(oi) else { return bad() };
                if tt > MAX_TS {
                    return bad();
                }
                let before = match refs_dump(&db) {
                    Ok(m) => m,
                    Err(e) => return Outcome::new("error").violation("store-error", e),
                };
                match RefsStore::set(&mut db, &rid(k.0).unwrap(), &nid(k.1).unwrap(), &refname(k.2), o, LocalTime::from_millis(tt as u128)) {
                    Err(e) => {
                        run.outs.push("error".into());
                        run.v("store-error", format!("op {op}: {e}"));
                    }
                    Ok(b) => {
                        let after = match refs_dump(&db) {
                            Ok(m) => m,
                            Err(e) => return Outcome::new("error").violation("store-error", e),
                        };
                        guarded_oracle(&mut run, "refs-not-strictly-newer", op, &before, &after, Some((&k, oi, tt)));
                        run.outs.push(format!("{}|{}", b as u8, dump_s(&after)));
                    }
                }
            }
            ["del", r, n, rf] => {
                let Some(k) = key(r, n, rf) else { return bad() };
                let before = match refs_dump(&db) {
                    Ok(m) => m,
                    Err(e) => return Outcome::new("error").violation("store-error", e),
                };
                match RefsStore::delete(&mut db, &rid(k.0).unwrap(), &nid(k.1).unwrap(), &refname(k.2)) {
                    Err(e) => {
                        run.outs.push("error".into());
                        run.v("store-error", format!("op {op}: {e}"));
                    }
                    Ok(b) => {
                        let after = match refs_dump(&db) {
                            Ok(m) => m,
                            Err(e) => return Outcome::new("error").violation("store-error", e),
                        };
                        run.tag("delete");
                        guarded_oracle(&mut run, "refs-not-strictly-newer", op, &before, &after, None);
                        run.outs.push(format!("{}|{}", b as u8, dump_s(&after)));
                    }
                }
            }
            ["get", r, n, rf] => {
                let Some(k) = key(r, n, rf) else { return bad() };
                match RefsStore::get(&db, &rid(k.0).unwrap(), &nid(k.1).unwrap(), &refname(k.2)) {
                    Err(e) => {
                        run.outs.push("error".into());
                        run.v("store-error", format!("op {op}: {e}"));
                    }
                    Ok(None) => run.outs.push("-".into()),
                    Ok(Some((o, t))) => run.outs.push(format!("{}@{}", oid_ix(&o), t.as_millis())),
                }
            }
            ["count"] => match RefsStore::count(&db) {
                Err(e) => {
                    run.outs.push("error".into());
                    run.v("store-error", format!("op {op}: {e}"));
                }
                Ok(n) => run.outs.push(n.to_string()),
            },
            _ => return bad(),
        }
    }
    run.finish()
}

// ---------------------------------------------------------------------------------------------
// policies

const POL_U: usize = 4;

#[derive(Clone, PartialEq, Debug)]
struct PolDump {
    /// id -> (alias index, policy)
    following: BTreeMap<usize, (usize, char)>,
    /// id -> "A.f" | "A.a" | "B"
    seeding: BTreeMap<usize, String>,
}

fn alias_ix(a: &Option<Alias>) -> usize {
    match a {
        None => 0,
        Some(a) => a.as_str().strip_prefix("al").and_then(|s| s.parse().ok()).unwrap_or(999),
    }
}

fn pol_char(p: Policy) -> char {
    match p {
        Policy::Allow => 'a',
        Policy::Block => 'b',
    }
}

fn policy_dump(db: &StoreWriter, run: &mut Run) -> Result<PolDump, String> {
    let mut d = PolDump { following: BTreeMap::new(), seeding: BTreeMap::new() };
    for i in 0..POL_U {
        if let Some(fp) = db.follow_policy(&nid(i).unwrap()).map_err(|e| e.to_string())? {
            d.following.insert(i, (alias_ix(&fp.alias), pol_char(fp.policy)));
        }
        let following = db.is_following(&nid(i).unwrap()).map_err(|e| e.to_string())?;
        if following != matches!(d.following.get(&i), Some((_, 'a'))) {
            run.v("policy-view-inconsistent", format!("is_following({i}) disagrees with follow_policy"));
        }
        if let Some(sp) = db.seed_policy(&rid(i).unwrap()).map_err(|e| e.to_string())? {
            d.seeding.insert(
                i,
                match sp.policy {
                    SeedingPolicy::Allow { scope: Scope::Followed } => "A.f".to_string(),
                    SeedingPolicy::Allow { scope: Scope::All } => "A.a".to_string(),
                    SeedingPolicy::Block => "B".to_string(),
                },
            );
        }
        let seeding = db.is_seeding(&rid(i).unwrap()).map_err(|e| e.to_string())?;
        if seeding != d.seeding.get(&i).map(|s| s.starts_with('A')).unwrap_or(false) {
            run.v("policy-view-inconsistent", format!("is_seeding({i}) disagrees with seed_policy"));
        }
    }
    // the table iterators must agree with the point queries
    let all_f: BTreeMap<usize, (usize, char)> = db
        .follow_policies()
        .map_err(|e| e.to_string())?
        .map(|fp| (nid_ix(&fp.nid), (alias_ix(&fp.alias), pol_char(fp.policy))))
        .collect();
    let all_s: BTreeMap<usize, String> = db
        .seed_policies()
        .map_err(|e| e.to_string())?
        .map(|sp| {
            (
                rid_ix(&sp.rid),
                match sp.policy {
                    SeedingPolicy::Allow { scope: Scope::Followed } => "A.f".to_string(),
                    SeedingPolicy::Allow { scope: Scope::All } => "A.a".to_string(),
                    SeedingPolicy::Block => "B".to_string(),
                },
            )
        })
        .collect();
    if all_f != d.following || all_s != d.seeding {
        run.v("policy-view-inconsistent", "follow_policies/seed_policies disagree with the point queries".to_string());
    }
    Ok(d)
}

fn run_policy(ops: &[&str]) -> Outcome {
    let mut db = StoreWriter::memory().expect("in-memory policy store");
    let mut run = Run::new("policy");
    // oracle shadow: the last scope written to a row since it exists
    let mut last_scope: BTreeMap<usize, &'static str> = BTreeMap::new();
    for op in ops {
        let f: Vec<&str> = op.split(':').collect();
        let before = match policy_dump(&db, &mut run) {
            Ok(d) => d,
            Err(e) => return Outcome::new("error").violation("store-error", e),
        };
        let id = |s: &str| ix(s).filter(|i| *i < POL_U);
        let pol = |s: &str| match s {
            "a" => Some(Policy::Allow),
            "b" => Some(Policy::Block),
            _ => None,
        };
        // (table touched: 'F' or 'S', id)
        let (res, target): (Result<bool, String>, (char, usize)) = match f.as_slice() {
            ["follow", i, a] => {
                let (Some(i), Some(a)) = (id(i), ix(a)) else { return bad() };
                if a > 50 {
                    return bad();
                }
                let alias = (a > 0).then(|| Alias::new(format!("al{a}")));
                (db.follow(&nid(i).unwrap(), alias.as_ref()).map_err(|e| e.to_string()), ('F', i))
            }
            ["fpol", i, p] => {
                let (Some(i), Some(p)) = (id(i), pol(p)) else { return bad() };
                (db.set_follow_policy(&nid(i).unwrap(), p).map_err(|e| e.to_string()), ('F', i))
            }
            ["unfollow", i] => {
                let Some(i) = id(i) else { return bad() };
                (db.unfollow(&nid(i).unwrap()).map_err(|e| e.to_string()), ('F', i))
            }
            ["unblockn", i] => {
                let Some(i) = id(i) else { return bad() };
                (db.unblock_nid(&nid(i).unwrap()).map_err(|e| e.to_string()), ('F', i))
            }
            ["seed", i, s] => {
                let Some(i) = id(i) else { return bad() };
                let s = match *s {
                    "f" => Scope::Followed,
                    "a" => Scope::All,
                    _ => return bad(),
                };
                (db.seed(&rid(i).unwrap(), s).map_err(|e| e.to_string()), ('S', i))
            }
            ["spol", i, p] => {
                let (Some(i), Some(p)) = (id(i), pol(p)) else { return bad() };
                (db.set_seed_policy(&rid(i).unwrap(), p).map_err(|e| e.to_string()), ('S', i))
            }
            ["unseed", i] => {
                let Some(i) = id(i) else { return bad() };
                (db.unseed(&rid(i).unwrap()).map_err(|e| e.to_string()), ('S', i))
            }
            ["unblockr", i] => {
                let Some(i) = id(i) else { return bad() };
                (db.unblock_rid(&rid(i).unwrap()).map_err(|e| e.to_string()), ('S', i))
            }
            _ => return bad(),
        };
        run.tag(f[0]);
        let b = match res {
            Ok(b) => b,
            Err(e) => {
                run.outs.push("error".into());
                run.v("store-error", format!("op {op}: {e}"));
                continue;
            }
        };
        let after = match policy_dump(&db, &mut run) {
            Ok(d) => d,
            Err(e) => return Outcome::new("error").violation("store-error", e),
        };
        // ---- oracle: the written column shows the written value
        let i = target.1;
        match f.as_slice() {
            ["follow", _, a] => {
                if after.following.get(&i).map(|r| r.0) != ix(a) {
                    run.v("policy-not-last-write", format!("op {op}: alias of {i} is {:?}", after.following.get(&i)));
                }
                if let Some(r0) = before.following.get(&i) {
                    if after.following.get(&i).map(|r| r.1) != Some(r0.1) {
                        run.v("policy-frame-broken", format!("op {op}: follow changed the policy column of {i}"));
                    }
                }
            }
            ["fpol", _, p] => {
                if after.following.get(&i).map(|r| r.1) != p.chars().next() {
                    run.v("policy-not-last-write", format!("op {op}: policy of {i} is {:?}", after.following.get(&i)));
                }
                if let Some(r0) = before.following.get(&i) {
                    if after.following.get(&i).map(|r| r.0) != Some(r0.0) {
                        run.v("policy-frame-broken", format!("op {op}: set_follow_policy changed the alias column of {i}"));
                    }
                }
            }
            ["seed", _, s] => {
                let want = if *s == "f" { "A.f" } else { "A.a" };
                if before.seeding.get(&i).map(|s| s == "B").unwrap_or(false) {
                    run.tag("seed-on-blocked");
                }
                last_scope.insert(i, want);
                let was_blocked = before.seeding.get(&i).map(|s| s == "B").unwrap_or(false);
                match after.seeding.get(&i).map(|s| s.as_str()) {
                    // per-column reading: `seed` writes the scope column only, a blocked row stays blocked
                    Some("B") if was_blocked => {}
                    Some(x) if was_blocked => run.v("policy-frame-broken", format!("op {op}: seed changed the policy column of {i} (now {x})")),
                    Some(x) if x == want => {}
                    other => run.v("policy-not-last-write", format!("op {op}: seeding policy of {i} is {other:?}")),
                }
            }
            ["spol", _, p] => {
                if !before.seeding.contains_key(&i) {
                    run.tag("spol-creates-row");
                    last_scope.insert(i, "A.f");
                }
                let got = after.seeding.get(&i).map(|s| s.as_str());
                let ok = match (*p, got) {
                    ("b", Some("B")) => true,
                    ("a", Some(x)) => Some(&x) == last_scope.get(&i).as_ref().map(|s| *s),
                    _ => false,
                };
                if !ok {
                    run.v(
                        "policy-not-last-write",
                        format!("op {op}: seeding policy of {i} is {got:?}, last scope written {:?}", last_scope.get(&i)),
                    );
                }
            }
            ["unfollow", _] => {
                if after.following.contains_key(&i) {
                    run.v("policy-not-last-write", format!("op {op}: {i} still followed"));
                }
            }
            ["unseed", _] => {
                if after.seeding.contains_key(&i) {
                    run.v("policy-not-last-write", format!("op {op}: {i} still seeded"));
                }
            }
            ["unblockn", _] => {
                let was_blocked = before.following.get(&i).map(|r| r.1 == 'b').unwrap_or(false);
                if was_blocked == after.following.contains_key(&i) && before.following.contains_key(&i) {
                    run.v("policy-not-last-write", format!("op {op}: unblock of {i}: before {:?} after {:?}", before.following.get(&i), after.following.get(&i)));
                }
            }
            ["unblockr", _] => {
                let was_blocked = before.seeding.get(&i).map(|s| s == "B").unwrap_or(false);
                if was_blocked == after.seeding.contains_key(&i) && before.seeding.contains_key(&i) {
                    run.v("policy-not-last-write", format!("op {op}: unblock of {i}: before {:?} after {:?}", before.seeding.get(&i), after.seeding.get(&i)));
                }
            }
            _ => {}
        }
        if !after.seeding.contains_key(&i) && target.0 == 'S' {
            last_scope.remove(&i);
        }
        // ---- oracle: frame
        for j in 0..POL_U {
            if (target.0 != 'F' || j != i) && before.following.get(&j) != after.following.get(&j) {
                run.v("policy-frame-broken", format!("op {op}: following row {j} changed"));
            }
            if (target.0 != 'S' || j != i) && before.seeding.get(&j) != after.seeding.get(&j) {
                run.v("policy-frame-broken", format!("op {op}: seeding row {j} changed"));
            }
        }
        if after != before {
            run.changed += 1;
        } else {
            run.refused += 1;
        }
        run.outs.push(format!(
            "{}|F:{};S:{}",
            b as u8,
            show(after.following.iter().map(|(i, (a, p))| format!("{i}={a}/{p}"))),
            show(after.seeding.iter().map(|(i, s)| format!("{i}={s}")))
        ));
    }
    run.finish()
}

// ---------------------------------------------------------------------------------------------
// gossip

/// (node, repo (0 = none), type) -> (payload, ts)
type GDump = BTreeMap<(usize, usize, usize), (u64, u64)>;

fn make_ann(node: usize, repo: usize, ty: usize, payload: u64, t: Timestamp) -> Option<Announcement> {
    let message = match ty {
        0 => {
            let inv: Vec<RepoId> = pools().rids.iter().take((payload % 3) as usize).copied().collect();
            AnnouncementMessage::Inventory(InventoryAnnouncement { inventory: BoundedVec::try_from(inv).ok()?, timestamp: t })
        }
        1 => AnnouncementMessage::Node(NodeAnnouncement {
            version: 1,
            features: Features::SEED,
            timestamp: t,
            alias: Alias::new("verif"),
            addresses: BoundedVec::new(),
            nonce: payload,
            agent: UserAgent::default(),
        }),
        2 => AnnouncementMessage::Refs(RefsAnnouncement { rid: rid(repo.checked_sub(1)?)?, refs: BoundedVec::new(), timestamp: t }),
        _ => return None,
    };
    Some(Announcement { node: nid(node)?, signature: Signature::from([payload as u8; 64]), message })
}

fn ann_row(a: &Announcement) -> ((usize, usize, usize), (u64, u64), bool) {
    let payload = a.signature.as_ref()[0] as u64;
    let (repo, ty, consistent) = match &a.message {
        AnnouncementMessage::Inventory(m) => (0, 0, m.inventory.len() as u64 == payload % 3),
        AnnouncementMessage::Node(m) => (0, 1, m.nonce == payload),
        AnnouncementMessage::Refs(m) => (rid_ix(&m.rid) + 1, 2, true),
    };
    ((nid_ix(&a.node), repo, ty), (payload, *a.message.timestamp()), consistent)
}

fn gossip_rows(db: &Database, from: Timestamp, to: Timestamp, run: &mut Run) -> Result<Vec<((usize, usize, usize), (u64, u64))>, String> {
    let filter = Filter::default();
    let mut rows = vec![];
    let mut last = 0u64;
    for a in db.filtered(&filter, from, to).map_err(|e| e.to_string())? {
        let a = a.map_err(|e| e.to_string())?;
        let (k, v, consistent) = ann_row(&a);
        if !consistent {
            run.v("gossip-message-signature-mismatch", format!("row {k:?}: message and signature come from different announcements"));
        }
        if v.1 < last {
            run.v("gossip-filtered-unordered", format!("row {k:?} out of timestamp order"));
        }
        last = v.1;
        rows.push((k, v));
    }
    rows.sort();
    Ok(rows)
}

fn show_grows(rows: &[((usize, usize, usize), (u64, u64))]) -> String {
    show(rows.iter().map(|((n, r, t), (p, ts))| format!("{n}.{r}.{t}={p}@{ts}")))
}

fn run_gossip(ops: &[&str]) -> Outcome {
    let mut db = memdb();
    let mut run = Run::new("gossip");
    let all = |db: &Database, run: &mut Run| -> Result<GDump, String> {
        Ok(gossip_rows(db, Timestamp::MIN, Timestamp::MAX, run)?.into_iter().collect())
    };
    for op in ops {
        let f: Vec<&str> = op.split(':').collect();
        let before = match all(&db, &mut run) {
            Ok(d) => d,
            Err(e) => return Outcome::new("error").violation("store-error", e),
        };
        let mut written: Option<((usize, usize, usize), u64, u64)> = None;
        let mut is_write = true;
        let res: Result<String, String> = match f.as_slice() {
            ["ann", n, r, ty, p, t] => {
                let (Some(n), Some(r), Some(ty), Some(p), Some(tt)) = (ix(n), ix(r), ix(ty), num(p), num(t)) else { return bad() };
                let valid = (ty == 2 && r >= 1) || (ty < 2 && r == 0);
                if !valid || p > 255 || tt >= MAX_TS {
                    return bad();
                }
                let Some(ann) = ts(tt).and_then(|t| make_ann(n, r, ty, p, t)) else { return bad() };
                written = Some(((n, r, ty), p, tt));
                match before.get(&(n, r, ty)) {
                    None => run.tag("ann-new"),
                    Some((_, t0)) if tt > *t0 => run.tag("ann-newer"),
                    Some((_, t0)) if tt == *t0 => run.tag("ann-equal-ts"),
                    Some(_) => run.tag("ann-older"),
                }
                if before.keys().any(|k| k.0 == n && k.2 != ty) {
                    run.tag("ann-same-node-other-type");
                }
                let nid = ann.node;
                match catch(|| db.announced(&nid, &ann)) {
                    Err(_) => {
                        run.tag("ann-zero-ts-panic");
                        run.outs.push("panic".into());
                        return run.finish();
                    }
                    Ok(r) => r.map_err(|e| e.to_string()).map(|id| id.map(|i| i.to_string()).unwrap_or("none".into())),
                }
            }
            ["relay", id, r] => {
                let Some(id) = num(id) else { return bad() };
                let status = match *r {
                    "r" => RelayStatus::Relay,
                    "d" => RelayStatus::DontRelay,
                    s => match s.strip_prefix('t').and_then(num).and_then(ts) {
                        Some(t) => RelayStatus::RelayedAt(t),
                        None => return bad(),
                    },
                };
                run.tag("set-relay");
                is_write = false;
                let r = db.set_relay(id, status).map_err(|e| e.to_string()).map(|_| "ok".to_string());
                // relay status is not visible in the dump, but the rows must not change
                if let Ok(after) = all(&db, &mut run) {
                    if after != before {
                        run.v("gossip-replaced-not-newer", format!("op {op}: set_relay changed stored announcements"));
                    }
                }
                r
            }
            ["relays", now] => {
                let Some(now) = num(now).and_then(ts) else { return bad() };
                run.tag("relays");
                db.relays(now).map_err(|e| e.to_string()).map(|rows| {
                    show(rows.iter().map(|(id, a)| {
                        let ((n, r, t), (p, ts), _) = ann_row(a);
                        format!("{id}:{n}.{r}.{t}={p}@{ts}")
                    }))
                })
            }
            ["prune", c] => {
                let Some(c) = num(c).and_then(ts) else { return bad() };
                run.tag("prune");
                GossipStore::prune(&mut db, c).map_err(|e| e.to_string()).map(|n| n.to_string())
            }
            ["filt", a, b] => {
                let (Some(a), Some(b)) = (num(a).and_then(ts), num(b).and_then(ts)) else { return bad() };
                is_write = false;
                if a > b {
                    run.tag("filtered-inverted-range");
                }
                gossip_rows(&db, a, b, &mut run).map(|rows| show_grows(&rows))
            }
            ["last"] => {
                is_write = false;
                db.last().map_err(|e| e.to_string()).map(|t| t.map(|t| t.to_string()).unwrap_or("-".into()))
            }
            _ => return bad(),
        };
        let res = match res {
            Ok(r) => r,
            Err(e) => {
                run.outs.push("error".into());
                run.v("store-error", format!("op {op}: {e}"));
                continue;
            }
        };
        if !is_write || f[0] == "relays" {
            if f[0] == "relays" {
                if let Ok(after) = all(&db, &mut run) {
                    if after != before {
                        run.v("gossip-replaced-not-newer", format!("op {op}: relays changed stored announcements"));
                    }
                }
            }
            run.outs.push(res);
            continue;
        }
        let after = match all(&db, &mut run) {
            Ok(d) => d,
            Err(e) => {
                run.outs.push("error".into());
                run.v("store-error", format!("op {op}: {e}"));
                continue;
            }
        };
        // ---- oracle: replaced only by a strictly newer announcement of the same kind
        for (k, (p0, t0)) in &before {
            if let Some((p1, t1)) = after.get(k) {
                if (p1, t1) != (p0, t0) {
                    match written {
                        Some((wk, wp, wt)) if wk == *k => {
                            if !(t1 > t0 && wp == *p1 && wt == *t1) {
                                run.v("gossip-replaced-not-newer", format!("op {op}: row {k:?} went from {p0}@{t0} to {p1}@{t1}"));
                            }
                        }
                        _ => run.v("gossip-replaced-by-other-kind", format!("op {op}: row {k:?} went from {p0}@{t0} to {p1}@{t1}")),
                    }
                }
            } else if f[0] == "ann" {
                run.v("gossip-replaced-by-other-kind", format!("op {op}: row {k:?} disappeared"));
            }
        }
        if after != before {
            run.changed += 1;
        } else {
            run.refused += 1;
        }
        let rows: Vec<_> = after.iter().map(|(k, v)| (*k, *v)).collect();
        run.outs.push(format!("{res}|{}", show_grows(&rows)));
    }
    run.finish()
}

// ---------------------------------------------------------------------------------------------

fn run_case(input: &str) -> Outcome {
    let toks: Vec<&str> = input.split(' ').filter(|t| !t.is_empty()).collect();
    let Some((store, ops)) = toks.split_first() else { return bad() };
    match *store {
        "routing" => run_routing(ops, false, &mut vec![]),
        "sync" => run_sync(ops),
        "refs" => run_refs(ops),
        "policy" => run_policy(ops),
        "gossip" => run_gossip(ops),
        _ => bad(),
    }
}

/// Timestamps: mostly tiny (ties and equal-timestamp writes are the norm), sometimes huge.
fn gen_ts(rng: &mut Rng) -> u64 {
    match rng.below(12) {
        0 => rng.range(1_000, 2_000),
        1 => MAX_TS - 1 - rng.below(3),
        _ => rng.below(7),
    }
}

fn gen_routing(rng: &mut Rng) -> String {
    let (nr, nn) = (rng.range(2, 4), rng.range(2, 3));
    let n = rng.range(5, 30);
    let mut ops = vec![];
    for _ in 0..n {
        ops.push(match rng.below(20) {
            0..=8 => {
                let k = rng.range(1, nr);
                let mut rids: Vec<u64> = (0..k).map(|_| rng.below(nr)).collect();
                if rng.chance(3, 4) {
                    rids.sort();
                    rids.dedup();
                }
                format!("add:{}:{}:{}", rng.below(nn), gen_ts(rng), nats(&rids))
            }
            9 => format!("rm:{}:{}", rng.below(nr), rng.below(nn)),
            10 => format!("rmm:{}:{}", rng.below(nn), nats(&(0..rng.range(1, 2)).map(|_| rng.below(nr)).collect::<Vec<_>>())),
            11..=15 => {
                let limit = if rng.chance(1, 5) { "-".to_string() } else { rng.below(4).to_string() };
                let oldest = if rng.chance(1, 2) { rng.range(3, 8) } else { gen_ts(rng) + rng.below(2) };
                format!("prune:{oldest}:{limit}:{}:?", rng.below(nn))
            }
            16 => format!("entry:{}:{}", rng.below(nr), rng.below(nn)),
            17 => format!("get:{}", rng.below(nr)),
            18 => format!("inv:{}", rng.below(nn)),
            _ => {
                if rng.bool() {
                    "len".to_string()
                } else {
                    format!("count:{}", rng.below(nr))
                }
            }
        });
    }
    let text = format!("routing {}", ops.join(" "));
    // first execution: learn which rows the real prune deletes
    let toks: Vec<&str> = text.split(' ').collect();
    let mut resolved = vec![];
    let _ = run_routing(&toks[1..], true, &mut resolved);
    format!("routing {}", resolved.join(" "))
}

fn gen_sync(rng: &mut Rng) -> String {
    let (nr, nn, nh) = (rng.range(1, 2), rng.range(1, 3), rng.range(2, 3));
    let ops: Vec<String> = (0..rng.range(4, 30))
        .map(|_| match rng.below(10) {
            0 => format!("for:{}", rng.below(nr)),
            1 => format!("by:{}", rng.below(nn)),
            _ => format!("syn:{}:{}:{}:{}", rng.below(nr), rng.below(nn), rng.below(nh), gen_ts(rng)),
        })
        .collect();
    format!("sync {}", ops.join(" "))
}

fn gen_refs(rng: &mut Rng) -> String {
    let (nr, nn, nf, no) = (rng.range(1, 2), rng.range(1, 2), rng.range(1, 3), rng.range(2, 3));
    let ops: Vec<String> = (0..rng.range(4, 30))
        .map(|_| match rng.below(12) {
            0 => format!("get:{}:{}:{}", rng.below(nr), rng.below(nn), rng.below(nf)),
            1 => "count".to_string(),
            2 => format!("del:{}:{}:{}", rng.below(nr), rng.below(nn), rng.below(nf)),
            _ => format!("set:{}:{}:{}:{}:{}", rng.below(nr), rng.below(nn), rng.below(nf), rng.below(no), gen_ts(rng)),
        })
        .collect();
    format!("refs {}", ops.join(" "))
}

fn gen_policy(rng: &mut Rng) -> String {
    let ni = rng.range(1, 3);
    let ops: Vec<String> = (0..rng.range(4, 30))
        .map(|_| {
            let i = rng.below(ni);
            match rng.below(16) {
                0..=2 => format!("follow:{i}:{}", rng.below(3)),
                3..=4 => format!("fpol:{i}:{}", if rng.bool() { 'a' } else { 'b' }),
                5 => format!("unfollow:{i}"),
                6 => format!("unblockn:{i}"),
                7..=10 => format!("seed:{i}:{}", if rng.bool() { 'f' } else { 'a' }),
                11..=13 => format!("spol:{i}:{}", if rng.bool() { 'a' } else { 'b' }),
                14 => format!("unseed:{i}"),
                _ => format!("unblockr:{i}"),
            }
        })
        .collect();
    format!("policy {}", ops.join(" "))
}

fn gen_gossip(rng: &mut Rng) -> String {
    let (nn, nr) = (rng.range(1, 3), rng.range(1, 2));
    let zero = rng.chance(1, 10);
    let n = rng.range(4, 30);
    let mut ops = vec![];
    for i in 0..n {
        ops.push(match rng.below(16) {
            0..=8 => {
                let ty = rng.below(3);
                let repo = if ty == 2 { rng.range(1, nr) } else { 0 };
                let mut t = gen_ts(rng).max(1);
                if zero && i + 1 == n {
                    t = 0;
                }
                format!("ann:{}:{repo}:{ty}:{}:{t}", rng.below(nn), rng.below(200))
            }
            9..=10 => format!("relay:{}:{}", rng.range(1, 6), match rng.below(3) {
                0 => "r".to_string(),
                1 => "d".to_string(),
                _ => format!("t{}", rng.below(9)),
            }),
            11 => format!("relays:{}", rng.range(1, 9)),
            12 => format!("prune:{}", gen_ts(rng)),
            13..=14 => format!("filt:{}:{}", gen_ts(rng), gen_ts(rng)),
            _ => "last".to_string(),
        });
    }
    format!("gossip {}", ops.join(" "))
}

fn main() {
    let mut ctx = Ctx::from_args("C24");
    if !ctx.run_fixed(run_case) {
        let mut rng = ctx.rng();
        let n = ctx.size(250, 8_000);
        for _ in 0..n {
            for g in [gen_routing, gen_sync, gen_refs, gen_policy, gen_gossip] {
                let input = g(&mut rng);
                let o = run_case(&input);
                ctx.record(&input, o);
            }
        }
    }
    ctx.finish(
        "random operation sequences (4-30 ops) against a fresh in-memory instance of each of the five stores, over 1-3 ids per \
         column and timestamps mostly in 0..7 (equal-timestamp writes, same-value writes and ties at the prune cut are the norm; \
         some large and near-i64::MAX timestamps); routing prune carries the rows the real code deleted; non-trivial = at least one \
         write changed the table and at least one write was refused; distinct by input text",
        false,
    );
}
