import HeartwoodModel.Model.Sync
import HeartwoodModel.Lemmas.Sync
/-!
# C25 — Sync targets report success exactly when reached

Property theorems about `Model/Sync.lean` (`Announcer`, `Fetcher`).

Reading (DESIGN §6 C25): the *announcer's* target is "every preferred seed synced **and** the replica bound
reached", the *fetcher's* target is "every preferred seed fetched **or** the replica bound reached"; the
bound is the upper end of a range, else the minimum (`Repl.bound`). The specification side is written over
**sets of distinct nodes other than the local node**; the code counts with folds over a map (announcer)
and over a vector of results (fetcher).

Definitions used in the statements live in `Lemmas/Sync.lean`: the state invariants `Ann.Inv` / `Fet.Inv`,
`AnnCfg.WF` (configuration sets are sets), `Ann.run` (a sequence of `synced_with` notifications), `FetOp` /
`Fet.step` / `Fet.run` (a sequence of fetcher operations) and `firstReport` (the first result reported for a
node in such a sequence).
-/
set_option linter.unusedSimpArgs false
set_option linter.unusedVariables false
namespace HeartwoodModel.Sync


/-! ## Announcer -/

/-- **C25, announcer, state level.** The target test of the code holds exactly when every preferred
seed is in the synced set and the set has at least `bound` members. -/
theorem ann_reached_iff (a : Ann) (h : a.Inv) :
    a.reached.isSome = true ↔
      (∀ p ∈ a.preferred, p ∈ a.synced) ∧ a.repl.bound ≤ a.synced.length := by
  have hp := ann_pref_reached_iff a h
  unfold Ann.reached Repl.bound
  cases hu : a.repl.upper with
  | none =>
    simp only []
    by_cases hc : ((a.preferred.isEmpty || decide (a.preferred.length ≤ a.prefCount)) &&
        decide (a.repl.lower ≤ a.synced.length)) = true
    · simp only [hc, if_true, Option.isSome_some, true_iff]
      rw [Bool.and_eq_true, hp, decide_eq_true_eq] at hc
      exact hc
    · simp only [hc, Bool.false_eq_true, if_false, Option.isSome_none, false_iff]
      rw [Bool.and_eq_true, hp, decide_eq_true_eq] at hc
      exact hc
  | some mx =>
    simp only []
    by_cases hc : ((a.preferred.isEmpty || decide (a.preferred.length ≤ a.prefCount)) &&
        decide (mx ≤ a.synced.length)) = true
    · simp only [hc, if_true, Option.isSome_some, true_iff]
      rw [Bool.and_eq_true, hp, decide_eq_true_eq] at hc
      exact hc
    · simp only [hc, Bool.false_eq_true, if_false, Option.isSome_none, false_iff]
      rw [Bool.and_eq_true, hp, decide_eq_true_eq] at hc
      exact hc

/-- What `synced_with` reports: for the local node nothing changes and `Continue` is returned; for any
other node `Break(Success)` is returned exactly when the target test holds afterwards. -/
theorem ann_syncedWith_report (a : Ann) (n : Nat) :
    (n = a.me → a.syncedWith n = (a, .cont a.prefCount a.synced.length)) ∧
    (n ≠ a.me → ((∃ o, (a.syncedWith n).2 = .brk o) ↔ (a.syncedWith n).1.reached.isSome = true)) := by
  unfold Ann.syncedWith
  constructor
  · intro hn; simp [hn]
  · intro hn
    simp only [hn, if_false]
    split
    · rename_i hr; simp [hr]
    · rename_i o hr; simp [hr]

/-- `timed_out` reports success exactly when the target test holds, a timeout otherwise. -/
theorem ann_timedOut_report (a : Ann) :
    ((∃ o s, a.timedOut = .success o s) ↔ a.reached.isSome = true) ∧
    (a.reached = none → a.timedOut = .timedOut a.synced a.toSync) := by
  unfold Ann.timedOut
  cases hr : a.reached <;> simp

/-- **C25, announcer, full strength.** For every configuration and every sequence of sync notifications
(including the local node, unknown nodes and repetitions): let `S` be the set of distinct nodes other
than the local node that were synced before or have been reported since. The announcer reports success
(from `synced_with` for the last notification, and from `timed_out`) exactly when every preferred seed
other than the local node is in `S` and `|S| ≥ bound`; otherwise `timed_out` reports a timeout. The local
node is never in `S`, in the preferred set or handed out by `to_sync`. -/
theorem announcer_success_iff (c : AnnCfg) (hc : c.WF) (a0 : Ann) (h0 : Ann.new c = .ok a0)
    (ns : List Nat) :
    ∃ S : List Nat, S.Nodup ∧ (∀ x, x ∈ S ↔ x ≠ c.me ∧ (x ∈ c.synced ∨ x ∈ ns)) ∧
      (a0.run ns).synced = S ∧
      (((∃ o s, (a0.run ns).timedOut = .success o s) ↔
        (∀ p ∈ c.preferred, p ≠ c.me → p ∈ S) ∧ a0.repl.bound ≤ S.length)) ∧
      ((¬ ((∀ p ∈ c.preferred, p ≠ c.me → p ∈ S) ∧ a0.repl.bound ≤ S.length)) →
        ∃ s t, (a0.run ns).timedOut = .timedOut s t) ∧
      c.me ∉ S ∧ c.me ∉ (a0.run ns).toSyncOut := by
  obtain ⟨hinv, _, hme, hpref, hsyn⟩ := ann_new_spec c hc a0 h0
  obtain ⟨r1, r2, r3, r4, r5⟩ := ann_run_spec a0 hinv ns
  have hmem : ∀ x, x ∈ (a0.run ns).synced ↔ x ≠ c.me ∧ (x ∈ c.synced ∨ x ∈ ns) := by
    intro x
    rw [r5 x, hsyn, hme, mem_srm]
    constructor
    · rintro (⟨h1, h2⟩ | ⟨h1, h2⟩)
      · exact ⟨h2, Or.inl h1⟩
      · exact ⟨h2, Or.inr h1⟩
    · rintro ⟨h1, h2 | h2⟩
      · exact Or.inl ⟨h2, h1⟩
      · exact Or.inr ⟨h2, h1⟩
  have hiff : (a0.run ns).reached.isSome = true ↔
      (∀ p ∈ c.preferred, p ≠ c.me → p ∈ (a0.run ns).synced) ∧
        a0.repl.bound ≤ (a0.run ns).synced.length := by
    rw [ann_reached_iff _ r1, r3, r4, hpref]
    constructor
    · rintro ⟨h1, h2⟩
      exact ⟨fun p hp hne => h1 p ((mem_srm _ _ _).mpr ⟨hp, hne⟩), h2⟩
    · rintro ⟨h1, h2⟩
      exact ⟨fun p hp => h1 p ((mem_srm _ _ _).mp hp).1 ((mem_srm _ _ _).mp hp).2, h2⟩
  refine ⟨(a0.run ns).synced, r1.synced_nodup, hmem, rfl, ?_, ?_, ?_, ?_⟩
  · rw [(ann_timedOut_report _).1, hiff]
  · intro hnot
    have : (a0.run ns).reached = none := by
      cases hr : (a0.run ns).reached with
      | none => rfl
      | some o => exact absurd (hiff.mp (by simp [hr])) hnot
    exact ⟨_, _, (ann_timedOut_report _).2 this⟩
  · rw [← hme, ← r2]; exact r1.me_synced
  · simp [Ann.toSyncOut, r2, hme]

/-! ## Fetcher -/

/-- **C25, fetcher, state level.** The target test of the code holds exactly when the preferred-seed
target or the replica target is met by the *set* of nodes with a successful result. -/
theorem fet_reached_iff (f : Fet) (h : f.Inv) :
    f.reached.isSome = true ↔
      (f.seeds ≠ [] ∧ ∀ s ∈ f.seeds, s ∈ succNodes f.results) ∨
      f.repl.bound ≤ (succNodes f.results).length := by
  have hp : (!f.seeds.isEmpty && decide (f.seeds.length ≤ f.counts.1)) = true ↔
      (f.seeds ≠ [] ∧ ∀ s ∈ f.seeds, s ∈ succNodes f.results) := by
    simp only [Bool.and_eq_true, Bool.not_eq_true', List.isEmpty_eq_false_iff, decide_eq_true_eq,
      Fet.counts]
    constructor
    · rintro ⟨h1, h2⟩
      exact ⟨h1, subset_of_count_ge _ _ h.seeds_nodup h.succ_nodup (of_decide_eq_true h2)⟩
    · rintro ⟨h1, h2⟩
      exact ⟨h1, decide_eq_true (count_ge_of_subset _ _ h.seeds_nodup h2)⟩
  unfold Fet.reached Repl.bound
  simp only []
  by_cases hc : (!f.seeds.isEmpty && decide (f.seeds.length ≤ f.counts.1)) = true
  · simp only [hc, if_true, Option.isSome_some, true_iff]
    exact Or.inl (hp.mp hc)
  · simp only [hc, Bool.false_eq_true, if_false]
    have hnp := fun hh => hc (hp.mpr hh)
    cases hu : f.repl.upper with
    | none =>
      simp only [Fet.counts]
      by_cases hl : f.repl.lower ≤ (succNodes f.results).length
      · simp [hl]
      · simp only [hl, if_false, Option.isSome_none, Bool.false_eq_true, false_iff, not_or]
        exact ⟨hnp, fun hf => hf⟩
    | some mx =>
      simp only [Fet.counts]
      by_cases hl : mx ≤ (succNodes f.results).length
      · simp [hl]
      · simp only [hl, if_false, Option.isSome_none, Bool.false_eq_true, false_iff, not_or]
        exact ⟨hnp, fun hf => hf⟩

/-- `fetch_complete` breaks with `Success` exactly when the target test holds afterwards; `finish`
returns `TargetReached` exactly when it holds, `TargetError` otherwise. -/
theorem fet_reports (f : Fet) :
    (∀ n ok, (∃ o p s, (f.fetchComplete n ok).2 = .brk o p s) ↔
      (f.fetchComplete n ok).1.reached.isSome = true) ∧
    ((∃ o p s, f.finish = .targetReached o p s) ↔ f.reached.isSome = true) ∧
    (f.reached = none → ∃ m r p s, f.finish = .targetError m r p s) := by
  refine ⟨?_, ?_, ?_⟩
  · intro n ok
    rw [fet_fetchComplete_fields]
    unfold Fet.fetchComplete
    simp only []
    split
    · rename_i hr; simp [hr]
    · rename_i o hr; simp [hr]
  · unfold Fet.finish
    cases hr : f.reached <;> simp
  · intro hr
    unfold Fet.finish
    simp [hr]

/-- **C25, fetcher never hands out the local node or a node that already has a result.** -/
theorem fet_never_hands_out (f : Fet) (n : Nat) :
    (f.nextNode.2 = some n → n ≠ f.me ∧ getResult f.results n = none ∧ n ∈ f.candidates) ∧
    (f.nextFetch.2 = some n → n ≠ f.me ∧ getResult f.results n = none) := by
  constructor
  · have key : ∀ cs, (popCandidate f cs).1 = some n →
        n ≠ f.me ∧ getResult f.results n = none ∧ n ∈ cs := by
      intro cs
      induction cs with
      | nil => simp [popCandidate]
      | cons c cs ih =>
        simp only [popCandidate]
        by_cases hi : f.includeNode c = true
        · simp only [hi, if_true, Option.some.injEq]
          rintro rfl
          obtain ⟨h1, h2⟩ := (includeNode_iff f c).mp hi
          exact ⟨h2, h1, by simp⟩
        · simp only [hi, Bool.false_eq_true, if_false]
          intro h
          obtain ⟨h1, h2, h3⟩ := ih h
          exact ⟨h1, h2, by simp [h3]⟩
    intro h
    apply key f.candidates
    unfold Fet.nextNode at h
    cases hp : popCandidate f f.candidates with
    | mk r cs => simp only [hp] at h; simpa using h
  · unfold Fet.nextFetch
    cases f.fetchFrom with
    | nil => simp
    | cons m rest =>
      by_cases hi : f.includeNode m = true
      · simp only [hi, if_true, Option.some.injEq]
        rintro rfl
        obtain ⟨h1, h2⟩ := (includeNode_iff f m).mp hi
        exact ⟨h2, h1⟩
      · simp [hi]

/-- **C25, fetcher, full strength.** For every configuration and every sequence of operations
(candidates asked for, nodes marked ready, results reported — including results for the local node, for
unknown nodes, and repeated results for the same node): let `S` be the set of distinct nodes other than
the local node whose first reported result was a success. The code counts exactly `|S|` successes, and it
reports success (`Break` from `fetch_complete`, `TargetReached` from `finish`) exactly when all preferred
seeds are in `S` or `|S| ≥ bound`; `finish` reports `TargetError` otherwise. -/
theorem fetcher_success_iff (c : FetCfg) (hs : c.seeds.Nodup) (f0 : Fet) (h0 : Fet.new c = .ok f0)
    (ops : List FetOp) :
    ∃ S : List Nat, S.Nodup ∧ (∀ x, x ∈ S ↔ x ≠ c.me ∧ firstReport ops x = some true) ∧
      (f0.run ops).counts.2 = S.length ∧
      ((∃ o p s, (f0.run ops).finish = .targetReached o p s) ↔
        ((c.seeds ≠ [] ∧ ∀ s ∈ c.seeds, s ∈ S) ∨ f0.repl.bound ≤ S.length)) ∧
      ((¬ ((c.seeds ≠ [] ∧ ∀ s ∈ c.seeds, s ∈ S) ∨ f0.repl.bound ≤ S.length)) →
        ∃ m r p s, (f0.run ops).finish = .targetError m r p s) := by
  obtain ⟨hinv, hme, hseeds, hres, _⟩ := fet_new_spec c hs f0 h0
  obtain ⟨r1, r2, r3, r4⟩ := fet_run_spec f0 hinv ops
  have hmem : ∀ x, x ∈ succNodes (f0.run ops).results ↔ x ≠ c.me ∧ firstReport ops x = some true := by
    intro x
    constructor
    · intro hx
      have hne : x ≠ c.me := by
        intro e; subst e
        rw [← hme, ← r2] at hx
        exact r1.me_succ hx
      have hg := r1.first x hx
      rw [fet_run_getResult f0 ops x (by rw [hme]; exact hne), hres] at hg
      simp only [getResult] at hg
      exact ⟨hne, hg⟩
    · rintro ⟨hne, hfr⟩
      apply mem_succNodes_of_getResult
      rw [fet_run_getResult f0 ops x (by rw [hme]; exact hne), hres]
      simp only [getResult]
      exact hfr
  have hiff := fet_reached_iff _ r1
  rw [r3, r4, hseeds] at hiff
  refine ⟨succNodes (f0.run ops).results, r1.succ_nodup, hmem, rfl, ?_, ?_⟩
  · rw [(fet_reports _).2.1, hiff]
  · intro hnot
    have : (f0.run ops).reached = none := by
      cases hr : (f0.run ops).reached with
      | none => rfl
      | some o => exact absurd (hiff.mp (by simp [hr])) hnot
    exact (fet_reports _).2.2 this

/-- Every state reachable from `Fetcher::new` satisfies the invariant; in particular the local node is
never among the counted successes. -/
theorem fetcher_never_counts_local (c : FetCfg) (hs : c.seeds.Nodup) (f0 : Fet)
    (h0 : Fet.new c = .ok f0) (ops : List FetOp) :
    (f0.run ops).Inv ∧ c.me ∉ succNodes (f0.run ops).results := by
  obtain ⟨hinv, hme, _, _, _⟩ := fet_new_spec c hs f0 h0
  obtain ⟨r1, r2, _, _⟩ := fet_run_spec f0 hinv ops
  refine ⟨r1, ?_⟩
  rw [← hme, ← r2]
  exact r1.me_succ

/-! ### Non-vacuity and the pre-fix witnesses -/

/-- seeds {1,2}, target 2 replicas, local node 9: the same node reported twice counts once. -/
example :
    (Fet.new ((FetCfg.public [1, 2] (.mustReach 2) 9).withCandidates [3])).map
      (fun f => ((f.run [.complete 1 true, .complete 1 true]).finish)) =
    .ok (.targetError [2] 1 1 1) := by rfl

/-- local node 9 reported with target 1: not counted. -/
example :
    (Fet.new ((FetCfg.public [1] (.mustReach 1) 9).withCandidates [9, 3])).map
      (fun f => ((f.run [.complete 9 true]).finish)) =
    .ok (.targetError [1] 1 0 0) := by rfl

example :
    (Fet.new ((FetCfg.public [1, 2] (.mustReach 2) 9).withCandidates [3])).map
      (fun f => ((f.run [.complete 1 true, .failed 2, .complete 2 true, .complete 3 true]).finish)) =
    .ok (.targetReached (.minReplicas 2) 1 2) := by rfl

example :
    (Ann.new { me := 9, repl := .mustReach 2, preferred := [1], synced := [], unsynced := [2, 3, 9] }).map
      (fun a => ((a.run [9, 2, 2, 1]).timedOut)) =
    .ok (.success (.minRepl 1 2) [2, 1]) := by rfl

end HeartwoodModel.Sync
