#!/usr/bin/env python3
"""Print the per-property status table (DESIGN.md §11.5) from evidence/*.json and meta/*.json."""
import json, glob, os
kf = json.load(open('/verif/known-findings.json'))
known = {}
for f in kf['findings']:
    known.setdefault(f['property'], []).append(f['class'])
fixed = {}
for s in kf['fixed']:
    p = s.split('property=')[1].split()[0]
    fixed[p] = fixed.get(p, 0) + 1
print("| prop | property theorems | library obligations | quick cases (distinct non-trivial) | model/impl disagreements | defects repaired | known-finding classes |")
print("|---|---|---|---|---|---|---|")
for f in sorted(glob.glob('/verif/evidence/C*.json')):
    e = json.load(open(f)); c = e['coverage']; p = e['property_id']
    print(f"| {p} | {c.get('property_theorem_count')} | {c.get('obligations')} | {c.get('evaluations')} ({c.get('distinct_nontrivial')}) | {c.get('model_vs_impl_disagreements')} | {fixed.get(p, 0)} | {', '.join('`'+k+'`' for k in known.get(p, [])) or '—'} |")
