import HeartwoodModel.Model.Gossip
import HeartwoodModel.Lemmas.GossipStore
/-!
# C10 — Gossip is authenticated, fresh and never echoed back

Theorems about `Model/Gossip.lean` (the model of `Service::handle_announcement`, `Service::relay`,
`gossip::Store::announced`, the gossip tick and the `Subscribe` replay).

* `GossipStoreUnique` — at most one row per `(node, kind, repo)` — is an inductive invariant of the model
  (`init_storeUnique`, `step_storeUnique` for every operation incl. the prune task and `initialize`,
  `stateAt_storeUnique`); with it rowids are stable (`step_rowid_stable`) and the theorems below are stated
  per announcement identity `(announcer, kind, repo, timestamp)`; the `…_per_row` versions (stated with the
  row `find?` returns / the rowid, for *every* state) are kept.
* `stored_is_fresh_and_authentic` — for **every** state and operation: a gossip-store row of another node
  that was not there before the step exists only because the step delivered exactly that announcement
  from a connected peer with a valid signature, a non-zero timestamp at most `MAX_TIME_DELTA` ahead of the
  clock, strictly newer than the stored row of its `(node, kind, repo)` key, and (inventory / refs) an
  announcer in the address book (`Accepted`). `stored_rows_were_accepted` lifts it to runs.
* `relayed_is_stored` / `recv_writes_spec` / `wake_writes_spec` / `subscribe_writes_spec` — every
  announcement of another node that is written (relayed at once, relayed on the gossip tick, replayed to a
  subscriber) is a row of the store; what a delivery relays at once is the announcement it just accepted.
* `unknown_announcer_ignored` — inventory / refs announcements of announcers missing from the address
  book change nothing and write nothing.
* `never_sent_to_announcer` — no relay and no replay writes an announcement to its announcer.
* `never_echoed` ("a relayed announcement is never written to a peer that delivered it") is **false** of the
  current code: `never_echoed_counterexample` (a peer that delivers a *duplicate* of a stored inventory
  announcement is not recorded as relayer — the `FIXME` in `handle_announcement` — and gets it back on the
  gossip tick), `never_echoed_ignored_delivery_counterexample` (a delivery ignored because the announcer was
  unknown at the time is not recorded either) and `never_echoed_after_prune_counterexample` (`relayed_by` is keyed by rowid; a pruned and
  re-stored announcement gets another rowid). What holds: `relay_skips_recorded` (`Service::relay` never
  writes to a peer recorded in `relayed_by` for that row), `accepted_delivery_recorded` (a delivery that
  stores the announcement records the deliverer under the row's id), `relayedBy_monotone` (records are
  never dropped) — together `never_echoed_partial_per_row` (over any run, a peer whose delivery was stored in
  row `k` is never sent by relay what row `k` holds, then or later) and, with `GossipStoreUnique`,
  `never_echoed_partial`: if peer `p`'s delivery of announcement `a` was stored and `a` has stayed stored
  since (not pruned, not replaced), no later relay writes `a` to `p`.

Reading fixed: "relayed" = `Service::relay` (immediately or on the gossip tick). The answer to an explicit
`Subscribe` request may contain announcements the subscriber once delivered (only its own are skipped).
-/
set_option linter.unusedSimpArgs false
set_option linter.unusedVariables false
namespace HeartwoodModel.Gossip

/-! ## The gossip store -/

theorem announced_of_none {rows : List Row} {id : AnnId} (inv : List Nat)
    (h : rows.find? (fun r => sameKey r.id id) = none) :
    announced rows id inv =
      (rows ++ [{ rowid := maxRowid rows + 1, id := id, inv := inv, flag := false }],
       some (maxRowid rows + 1)) := by
  simp [announced, h]

theorem announced_of_lt {rows : List Row} {id : AnnId} (inv : List Nat) {r : Row}
    (h : rows.find? (fun r => sameKey r.id id) = some r) (hlt : r.id.ts < id.ts) :
    announced rows id inv =
      (rows.map (fun x => if sameKey x.id id then { x with id := id, inv := inv } else x),
       some r.rowid) := by
  simp [announced, h, hlt]

theorem announced_of_ge {rows : List Row} {id : AnnId} (inv : List Nat) {r : Row}
    (h : rows.find? (fun r => sameKey r.id id) = some r) (hge : ¬ r.id.ts < id.ts) :
    announced rows id inv = (rows, none) := by
  simp [announced, h, hge]

theorem announced_mem {rows : List Row} {id : AnnId} {inv : List Nat} {r' : Row}
    (h : r' ∈ (announced rows id inv).1) : r'.id = id ∨ ∃ r ∈ rows, r.id = r'.id := by
  cases hfind : rows.find? (fun r => sameKey r.id id) with
  | none =>
    rw [announced_of_none inv hfind] at h
    simp only [List.mem_append, List.mem_singleton] at h
    rcases h with h | rfl
    · exact Or.inr ⟨r', h, rfl⟩
    · exact Or.inl rfl
  | some r0 =>
    by_cases hlt : r0.id.ts < id.ts
    · rw [announced_of_lt inv hfind hlt] at h
      simp only [List.mem_map] at h
      obtain ⟨x, hx, rfl⟩ := h
      split
      · exact Or.inl rfl
      · exact Or.inr ⟨x, hx, rfl⟩
    · rw [announced_of_ge inv hfind hlt] at h
      exact Or.inr ⟨r', h, rfl⟩

/-- `RETURNING rowid` yields nothing ⇒ the table is unchanged. -/
theorem announced_none {rows : List Row} {id : AnnId} {inv : List Nat}
    (h : (announced rows id inv).2 = none) : (announced rows id inv).1 = rows := by
  cases hfind : rows.find? (fun r => sameKey r.id id) with
  | none => rw [announced_of_none inv hfind] at h; simp at h
  | some r0 =>
    by_cases hlt : r0.id.ts < id.ts
    · rw [announced_of_lt inv hfind hlt] at h; simp at h
    · rw [announced_of_ge inv hfind hlt]

/-- A row is written only if the announcement is strictly newer than the stored row of its key. -/
theorem announced_some_fresh {rows : List Row} {id : AnnId} {inv : List Nat} {k : Nat}
    (h : (announced rows id inv).2 = some k) :
    ∀ r0, rows.find? (fun r => sameKey r.id id) = some r0 → r0.id.ts < id.ts := by
  intro r0 h0
  by_cases hlt : r0.id.ts < id.ts
  · exact hlt
  · rw [announced_of_ge inv h0 hlt] at h; simp at h

/-- …and its rowid is the one reported. -/
theorem announced_some_row {rows : List Row} {id : AnnId} {inv : List Nat} {k : Nat}
    (h : (announced rows id inv).2 = some k) :
    ∃ r ∈ (announced rows id inv).1, r.rowid = k ∧ r.id = id := by
  cases hfind : rows.find? (fun r => sameKey r.id id) with
  | none =>
    rw [announced_of_none inv hfind] at h ⊢
    simp only [Option.some.injEq] at h
    exact ⟨{ rowid := maxRowid rows + 1, id := id, inv := inv, flag := false }, by simp, h, rfl⟩
  | some r0 =>
    by_cases hlt : r0.id.ts < id.ts
    · rw [announced_of_lt inv hfind hlt] at h ⊢
      simp only [Option.some.injEq] at h
      have hm := List.mem_of_find?_eq_some hfind
      have hk := List.find?_some hfind
      refine ⟨{ r0 with id := id, inv := inv }, ?_, h, rfl⟩
      simp only [List.mem_map]
      exact ⟨r0, hm, by simp [hk]⟩
    · rw [announced_of_ge inv hfind hlt] at h; simp at h

/-! ## `handle_announcement` -/

/-- The acceptance conditions of the property statement. -/
def Accepted (s : State) (p : Nat) (a : Ann) : Prop :=
  hasSession s p = true ∧ a.sigOk = true ∧ a.id.node ≠ 0 ∧ a.id.ts ≠ 0 ∧
  a.id.ts ≤ s.clock + MAX_TIME_DELTA ∧
  (a.id.kind ≠ .node → (lookup a.id.node s.addrBook).isSome = true) ∧
  (∀ r0, s.rows.find? (fun r => sameKey r.id a.id) = some r0 → r0.id.ts < a.id.ts)

theorem precheck_accept {s : State} {a : Ann} (h : precheck s a = .accept) :
    a.sigOk = true ∧ a.id.node ≠ 0 ∧ a.id.ts ≠ 0 ∧ a.id.ts ≤ s.clock + MAX_TIME_DELTA ∧
    (a.id.kind ≠ .node → (lookup a.id.node s.addrBook).isSome = true) := by
  unfold precheck at h
  split at h; · simp at h
  split at h; · simp at h
  split at h; · simp at h
  split at h; · simp at h
  split at h; · simp at h
  rename_i h1 h2 h3 h4 h5
  refine ⟨by simpa using h1, by simpa using h2, by simpa using h3, by omega, ?_⟩
  intro hk
  simp only [Bool.and_eq_true, bne_iff_ne, ne_eq, not_and, Bool.not_eq_true, Option.isNone_eq_false_iff] at h5
  exact h5 hk

@[simp] theorem handleKind_rows (s : State) (a : Ann) (r : Option Nat) :
    (handleKind s a r).1.rows = s.rows := by
  unfold handleKind handleInv handleRefs handleNode
  dsimp only
  repeat' split
  all_goals rfl

@[simp] theorem handleKind_relayedBy (s : State) (a : Ann) (r : Option Nat) :
    (handleKind s a r).1.relayedBy = s.relayedBy := by
  unfold handleKind handleInv handleRefs handleNode
  dsimp only
  repeat' split
  all_goals rfl

@[simp] theorem handleKind_isRelay (s : State) (a : Ann) (r : Option Nat) :
    (handleKind s a r).1.isRelay = s.isRelay := by
  unfold handleKind handleInv handleRefs handleNode
  dsimp only
  repeat' split
  all_goals rfl

@[simp] theorem handleKind_repos (s : State) (a : Ann) (r : Option Nat) :
    (handleKind s a r).1.repos = s.repos := by
  unfold handleKind handleInv handleRefs handleNode
  dsimp only
  repeat' split
  all_goals rfl

theorem handleKind_snd (s : State) (a : Ann) (r : Option Nat) :
    (handleKind s a r).2 = none ∨ (handleKind s a r).2 = r := by
  unfold handleKind handleInv handleRefs handleNode
  dsimp only
  repeat' split
  all_goals first | exact Or.inl rfl | exact Or.inr rfl

theorem learnInventory_ids (ss : List Session) (n : Nat) (inv : List Nat) :
    (learnInventory ss n inv).map (·.id) = ss.map (·.id) := by
  unfold learnInventory
  rw [List.map_map]
  apply List.map_congr_left
  intro se _
  simp only [Function.comp]
  split <;> rfl

/-- The outcomes of `handle_announcement`, in terms of the store. -/
theorem handleAnn_ok {s s' : State} {p : Nat} {a : Ann} {k : Option Nat}
    (h : handleAnn s p a = .ok (s', k)) :
    (s'.rows = s.rows ∧ s'.relayedBy = s.relayedBy ∧ k = none ∧ s' = s) ∨
    (precheck s a = .accept ∧ ∃ k0, (announced s.rows a.id a.inv).2 = some k0 ∧
      s'.rows = (announced s.rows a.id a.inv).1 ∧ s'.relayedBy = (k0, p) :: s.relayedBy ∧
      (k = none ∨ k = some k0)) := by
  unfold handleAnn at h
  split at h
  · simp at h
  · simp only [Except.ok.injEq, Prod.mk.injEq] at h
    obtain ⟨rfl, rfl⟩ := h
    exact Or.inl ⟨rfl, rfl, rfl, rfl⟩
  · rename_i hacc
    split at h
    · simp only [Except.ok.injEq, Prod.mk.injEq] at h
      obtain ⟨rfl, rfl⟩ := h
      exact Or.inl ⟨rfl, rfl, rfl, rfl⟩
    · rename_i k0 hk0
      simp only [Except.ok.injEq] at h
      have h1 : s' = (s', k).1 := rfl
      have h2 : k = (s', k).2 := rfl
      refine Or.inr ⟨hacc, k0, hk0, ?_, ?_, ?_⟩
      · rw [h1, ← h]; simp
      · rw [h1, ← h]; simp
      · rw [h2, ← h]
        rcases handleKind_snd
          { s with rows := (announced s.rows a.id a.inv).1, relayedBy := (k0, p) :: s.relayedBy } a
          (relayDecision s a k0) with hh | hh
        · exact Or.inl hh
        · rw [hh]
          unfold relayDecision
          split
          · exact Or.inr rfl
          · exact Or.inl rfl

@[simp] theorem setRelay_ids (rows : List Row) (k : Nat) :
    (setRelay rows k).map (·.id) = rows.map (·.id) := by
  unfold setRelay
  rw [List.map_map]
  apply List.map_congr_left
  intro r _
  simp only [Function.comp]
  split <;> rfl

theorem mem_ids {rows rows' : List Row} (h : rows'.map (·.id) = rows.map (·.id)) {r' : Row}
    (hr : r' ∈ rows') : ∃ r ∈ rows, r.id = r'.id := by
  have : r'.id ∈ rows'.map (·.id) := List.mem_map_of_mem hr
  rw [h, List.mem_map] at this
  exact this

/-- Rows of `recv`: as after `handle_announcement` (`set_relay` only flips a flag). -/
theorem recv_rows_ids (s : State) (p : Nat) (a : Ann) :
    (recv s p a).1.rows.map (·.id) = s.rows.map (·.id) ∨
    (Accepted s p a ∧ (recv s p a).1.rows.map (·.id) = (announced s.rows a.id a.inv).1.map (·.id)) := by
  unfold recv
  split
  · exact Or.inl rfl
  · rename_i hsess
    have key : ∀ (s1 : State) (k : Option Nat), handleAnn s p a = .ok (s1, k) →
        s1.rows = s.rows ∨ (Accepted s p a ∧ s1.rows = (announced s.rows a.id a.inv).1) := by
      intro s1 k h
      rcases handleAnn_ok h with ⟨hr, _, _, _⟩ | ⟨hacc, k0, hk0, hr, _, _⟩
      · exact Or.inl hr
      · obtain ⟨a1, a2, a3, a4, a5⟩ := precheck_accept hacc
        exact Or.inr ⟨⟨by simpa using hsess, a1, a2, a3, a4, a5, announced_some_fresh hk0⟩, hr⟩
    split
    · exact Or.inl rfl
    · rename_i s1 h
      rcases key s1 none h with hr | ⟨hA, hr⟩
      · exact Or.inl (by rw [hr])
      · exact Or.inr ⟨hA, by rw [hr]⟩
    · rename_i s1 k h
      rcases key s1 (some k) h with hr | ⟨hA, hr⟩
      · left
        split
        · rw [hr]
        · split
          · simp [hr]
          · rw [hr]
      · refine Or.inr ⟨hA, ?_⟩
        split
        · rw [hr]
        · split
          · simp [hr]
          · rw [hr]

/-! ## Rows of other nodes: every other operation only adds rows of the local node -/

/-- Every row of `s'` is a row of the local node or has the id of a row of `s`. -/
def OwnOrOld (rows rows' : List Row) : Prop :=
  ∀ r' ∈ rows', r'.id.node = 0 ∨ ∃ r ∈ rows, r.id = r'.id

theorem OwnOrOld.refl (rows : List Row) : OwnOrOld rows rows :=
  fun r' h => Or.inr ⟨r', h, rfl⟩

theorem OwnOrOld.trans {a b c : List Row} (h1 : OwnOrOld a b) (h2 : OwnOrOld b c) : OwnOrOld a c := by
  intro r' hr'
  rcases h2 r' hr' with h | ⟨r, hr, he⟩
  · exact Or.inl h
  · rcases h1 r hr with h | ⟨r0, hr0, he0⟩
    · exact Or.inl (he ▸ h)
    · exact Or.inr ⟨r0, hr0, he0.trans he⟩

theorem OwnOrOld.of_ids {a b : List Row} (h : b.map (·.id) = a.map (·.id)) : OwnOrOld a b :=
  fun _ hr' => Or.inr (mem_ids h hr')

theorem OwnOrOld.of_sub {a b : List Row} (h : ∀ r ∈ b, r ∈ a) : OwnOrOld a b :=
  fun r' hr' => Or.inr ⟨r', h r' hr', rfl⟩

theorem OwnOrOld.announced_own (rows : List Row) (id : AnnId) (inv : List Nat) (h : id.node = 0) :
    OwnOrOld rows (announced rows id inv).1 := by
  intro r' hr'
  rcases announced_mem hr' with he | he
  · exact Or.inl (he ▸ h)
  · exact Or.inr he

theorem announceInventory_own (s : State) : OwnOrOld s.rows (announceInventory s).1.rows := by
  unfold announceInventory
  split
  · exact OwnOrOld.refl _
  · exact OwnOrOld.announced_own _ _ _ rfl

theorem refreshInventory_own (s : State) (t : Nat) : OwnOrOld s.rows (refreshInventory s t).1.rows := by
  unfold refreshInventory
  exact announceInventory_own { s with invTs := t, inv := localInventory s }

theorem addInventory_own (s : State) (rid : Nat) : OwnOrOld s.rows (addInventory s rid).1.rows := by
  unfold addInventory
  dsimp only
  split
  · exact OwnOrOld.refl _
  · exact refreshInventory_own _ _

theorem removeInventory_own (s : State) (rid : Nat) : OwnOrOld s.rows (removeInventory s rid).1.rows := by
  unfold removeInventory
  dsimp only
  split
  · exact refreshInventory_own _ _
  · exact OwnOrOld.refl _

theorem announceRefs_own (s : State) (r doc : Repo) : OwnOrOld s.rows (announceRefs s r doc).1.rows := by
  unfold announceRefs
  dsimp only
  split
  · exact OwnOrOld.refl _
  · exact OwnOrOld.announced_own _ _ _ rfl

theorem fetched_own (s : State) (rid p : Nat) (clone upd : Bool) :
    OwnOrOld s.rows (fetched s rid p clone upd).1.rows := by
  unfold fetched
  split
  · exact OwnOrOld.refl _
  · split
    · exact OwnOrOld.refl _
    · rename_i r _
      dsimp only
      have h1 : OwnOrOld s.rows
          (fetchedInventory { s with routing := (addRoute s.routing rid p s.clock).1 } r clone).1.rows := by
        unfold fetchedInventory
        split
        · exact addInventory_own _ _
        · exact OwnOrOld.refl _
      refine h1.trans ?_
      unfold fetchedRefs
      split
      · exact announceRefs_own _ _ _
      · exact OwnOrOld.refl _

theorem initRepo_own (db : List (Nat × Nat × Nat)) (acc : InitAcc) (r : Repo) :
    OwnOrOld acc.s.rows (initRepo db acc r).s.rows := by
  unfold initRepo
  split
  · exact OwnOrOld.refl _
  · split
    · exact OwnOrOld.refl _
    · dsimp only
      split
      · exact OwnOrOld.refl _
      · split
        · exact OwnOrOld.refl _
        · exact OwnOrOld.announced_own _ _ _ rfl

theorem initFold_own (db : List (Nat × Nat × Nat)) (repos : List Repo) (acc : InitAcc) :
    OwnOrOld acc.s.rows (repos.foldl (initRepo db) acc).s.rows := by
  induction repos generalizing acc with
  | nil => exact OwnOrOld.refl _
  | cons r rs ih => exact (initRepo_own db acc r).trans (ih _)

theorem restart_own (s : State) : OwnOrOld s.rows (restart s).1.rows := by
  unfold restart
  dsimp only [timestamp]
  exact initFold_own s.seedsDb s.repos { s := s }

theorem relayAnnouncements_ids (s : State) :
    (relayAnnouncements s).1.rows.map (·.id) = s.rows.map (·.id) := by
  unfold relayAnnouncements
  simp [List.map_map, Function.comp]

theorem wake_own (s : State) : OwnOrOld s.rows (wake s).1.rows := by
  unfold wake
  dsimp only
  have h1 : OwnOrOld s.rows (gossipTask s).1.rows := by
    unfold gossipTask
    split
    · exact OwnOrOld.of_ids (relayAnnouncements_ids s)
    · exact OwnOrOld.refl _
  have h2 : OwnOrOld (gossipTask s).1.rows (announceTask (gossipTask s).1).1.rows := by
    unfold announceTask
    split
    · exact announceInventory_own _
    · exact OwnOrOld.refl _
  have h3 : OwnOrOld (announceTask (gossipTask s).1).1.rows
      (pruneTask (announceTask (gossipTask s).1).1).rows := by
    unfold pruneTask
    split
    · exact OwnOrOld.of_sub (fun r hr => (List.mem_filter.mp hr).1)
    · exact OwnOrOld.refl _
  exact (h1.trans h2).trans h3

/-- **C10, authenticity and freshness (store).** For every state and every operation: a row of another
node in the store after the step either has the id of a row that was there before, or the operation is
the delivery of exactly that announcement and the delivery satisfies `Accepted`. -/
theorem stored_is_fresh_and_authentic_per_row (s : State) (op : Op) (row : Row)
    (hrow : row ∈ (step s op).1.rows) (hforeign : row.id.node ≠ 0) :
    (∃ r0 ∈ s.rows, r0.id = row.id) ∨
    (∃ p a, op = .recv p a ∧ a.id = row.id ∧ Accepted s p a) := by
  have own : OwnOrOld s.rows (step s op).1.rows → (∃ r0 ∈ s.rows, r0.id = row.id) := by
    intro h
    rcases h row hrow with h | h
    · exact absurd h hforeign
    · exact h
  cases op with
  | recv p a =>
    rcases recv_rows_ids s p a with h | ⟨hA, h⟩
    · exact Or.inl (mem_ids h hrow)
    · have : row.id ∈ ((recv s p a).1.rows).map (·.id) := List.mem_map_of_mem hrow
      rw [h, List.mem_map] at this
      obtain ⟨r1, hr1, he⟩ := this
      rcases announced_mem hr1 with h1 | ⟨r0, hr0, h0⟩
      · exact Or.inr ⟨p, a, rfl, by rw [← he, h1], hA⟩
      · exact Or.inl ⟨r0, hr0, by rw [h0, he]⟩
  | connect p => exact Or.inl (own (OwnOrOld.refl _))
  | disconnect p => exact Or.inl (own (OwnOrOld.refl _))
  | subscribe p sb =>
    refine Or.inl (own ?_)
    simp only [step, subscribe]
    split <;> exact OwnOrOld.refl _
  | elapse dt => exact Or.inl (own (wake_own _))
  | tick now =>
    refine Or.inl (own ?_)
    simp only [step]
    split <;> exact OwnOrOld.refl _
  | setClock t => exact Or.inl (own (OwnOrOld.refl _))
  | announceRefs rid =>
    refine Or.inl (own ?_)
    simp only [step, cmdAnnounceRefs]
    split
    · exact OwnOrOld.refl _
    · exact announceRefs_own _ _ _
  | addInventory rid => exact Or.inl (own (addInventory_own s rid))
  | announceInventory => exact Or.inl (own (announceInventory_own s))
  | seed rid => exact Or.inl (own (OwnOrOld.refl _))
  | unseed rid =>
    refine Or.inl (own ?_)
    simp only [step, unseed]
    split
    · exact removeInventory_own _ _
    · exact OwnOrOld.refl _
  | fetched rid p clone upd => exact Or.inl (own (fetched_own s rid p clone upd))
  | restart => exact Or.inl (own (restart_own s))
  | setRepo r => exact Or.inl (own (OwnOrOld.refl _))
  | knowNode nid ts =>
    refine Or.inl (own ?_)
    simp only [step]
    split <;> exact OwnOrOld.refl _

/-- Non-vacuity of `Accepted`, and the boundaries it draws: equal timestamp, one hour ahead. -/
def exState : State :=
  { init 1000000 true with
    sessions := [⟨1, none⟩, ⟨2, none⟩], addrBook := [(3, 999000)],
    rows := [⟨1, ⟨3, .inv, 0, 999500⟩, [], false⟩] }

def exAnn (ts : Nat) : Ann := ⟨⟨3, .inv, 0, ts⟩, true, [1], false, false⟩

example : (recv exState 1 (exAnn 999501)).1.rows.map (·.id.ts) = [999501] := by decide
example : (recv exState 1 (exAnn 999500)).1.rows.map (·.id.ts) = [999500] := by decide   -- equal: ignored
example : (recv exState 1 (exAnn (1000000 + 3600000))).1.rows.map (·.id.ts) = [4600000] := by decide
example : (recv exState 1 (exAnn (1000000 + 3600001))).2.discs = [(1, .invalidTimestamp)] := by decide
example : (recv exState 1 { exAnn 999501 with sigOk := false }).2.discs = [(1, .misbehavior)] := by decide

/-! ## Runs -/

/-- The state before the `i`-th operation of a run. -/
def stateAt (s : State) : List Op → Nat → State
  | [], _ => s
  | _ :: _, 0 => s
  | op :: ops, i + 1 => stateAt (step s op).1 ops i

def finalState (s : State) : List Op → State
  | [] => s
  | op :: ops => finalState (step s op).1 ops

/-- **C10 over runs.** Starting from a store without rows of other nodes (e.g. `init`), after any sequence
of operations every row of another node was delivered by some operation of the run which satisfied
`Accepted` in the state it met. -/
theorem stored_rows_were_accepted_per_row (s : State) (ops : List Op)
    (h0 : ∀ r ∈ s.rows, r.id.node = 0) :
    ∀ row ∈ (finalState s ops).rows, row.id.node ≠ 0 →
      ∃ i p a, ops[i]? = some (.recv p a) ∧ a.id = row.id ∧ Accepted (stateAt s ops i) p a := by
  suffices H : ∀ (ops : List Op) (s : State) (P : AnnId → Prop),
      (∀ r ∈ s.rows, r.id.node ≠ 0 → P r.id) →
      ∀ row ∈ (finalState s ops).rows, row.id.node ≠ 0 →
        P row.id ∨ ∃ i p a, ops[i]? = some (.recv p a) ∧ a.id = row.id ∧ Accepted (stateAt s ops i) p a by
    intro row hrow hf
    rcases H ops s (fun _ => False) (fun r hr hn => absurd (h0 r hr) hn) row hrow hf with h | h
    · exact absurd h id
    · exact h
  intro ops
  induction ops with
  | nil =>
    intro s P hP row hrow hf
    exact Or.inl (hP row hrow hf)
  | cons op ops ih =>
    intro s P hP row hrow hf
    simp only [finalState] at hrow
    let P' : AnnId → Prop := fun id => P id ∨ ∃ p a, op = .recv p a ∧ a.id = id ∧ Accepted s p a
    have hP' : ∀ r ∈ (step s op).1.rows, r.id.node ≠ 0 → P' r.id := by
      intro r hr hn
      rcases stored_is_fresh_and_authentic_per_row s op r hr hn with ⟨r0, hr0, he⟩ | h
      · exact Or.inl (he ▸ hP r0 hr0 (he ▸ hn))
      · exact Or.inr h
    rcases ih (step s op).1 P' hP' row hrow hf with (h | ⟨p, a, hop, ha, hA⟩) | ⟨i, p, a, hi, ha, hA⟩
    · exact Or.inl h
    · exact Or.inr ⟨0, p, a, by simp [hop], ha, by simpa [stateAt] using hA⟩
    · exact Or.inr ⟨i + 1, p, a, by simpa using hi, ha, by simpa [stateAt] using hA⟩

/-! ## What is written -/

theorem relayTargets_spec {s : State} {k : Nat} {id : AnnId} {q : Nat} (h : q ∈ relayTargets s k id) :
    hasSession s q = true ∧ (k, q) ∉ s.relayedBy ∧ q ≠ id.node := by
  unfold relayTargets at h
  simp only [List.mem_map, List.mem_filter] at h
  obtain ⟨se, ⟨hse, hc⟩, rfl⟩ := h
  simp only [Bool.and_eq_true, Bool.not_eq_true', bne_iff_ne, ne_eq] at hc
  refine ⟨?_, ?_, hc.1.2⟩
  · simp only [hasSession, List.any_eq_true]
    exact ⟨se, hse, by simp⟩
  · intro hm
    have : s.relayedBy.contains (k, se.id) = true := by simpa using hm
    rw [this] at hc
    simp at hc

theorem relayWrites_spec {s : State} {k : Nat} {id : AnnId} {inv : List Nat} {w : Write}
    (h : w ∈ relayWrites s k id inv) :
    w.id = id ∧ w.inv = inv ∧ w.origin = .relay ∧ hasSession s w.peer = true ∧
    (k, w.peer) ∉ s.relayedBy ∧ w.peer ≠ id.node := by
  unfold relayWrites at h
  simp only [List.mem_map] at h
  obtain ⟨q, hq, rfl⟩ := h
  obtain ⟨h1, h2, h3⟩ := relayTargets_spec hq
  exact ⟨rfl, rfl, rfl, h1, h2, h3⟩

/-- **Immediate relay.** What the delivery of `a` by `p` makes the node write: only `a` itself, only if the
delivery was `Accepted` and stored under some rowid `k`, never to the announcer, never to `p`, never to a
peer recorded in `relayed_by` for that row. -/
theorem recv_eq_of_some {s s1 : State} {p k : Nat} {a : Ann} (hs : hasSession s p = true)
    (h : handleAnn s p a = .ok (s1, some k)) :
    recv s p a =
      if !s1.isRelay then (s1, {})
      else if a.id.kind == .inv then ({ s1 with rows := setRelay s1.rows k }, {})
      else (s1, { writes := relayWrites s1 k a.id a.inv }) := by
  simp [recv, hs, h]

theorem recv_writes_spec (s : State) (p : Nat) (a : Ann) (w : Write)
    (hw : w ∈ (recv s p a).2.writes) :
    w.id = a.id ∧ w.origin = .relay ∧ Accepted s p a ∧ w.peer ≠ a.id.node ∧ w.peer ≠ p ∧
    ∃ r ∈ (recv s p a).1.rows, r.id = a.id ∧ (r.rowid, w.peer) ∉ (recv s p a).1.relayedBy ∧
      (r.rowid, p) ∈ (recv s p a).1.relayedBy := by
  by_cases hs : hasSession s p = true
  case neg => simp [recv, hs] at hw
  cases h : handleAnn s p a with
  | error r => simp [recv, hs, h] at hw
  | ok res =>
    obtain ⟨s1, k⟩ := res
    cases k with
    | none => simp [recv, hs, h] at hw
    | some k =>
      rw [recv_eq_of_some hs h] at hw ⊢
      rcases handleAnn_ok h with ⟨_, _, hk, _⟩ | ⟨hacc, k0, hk0, hr, hrb, hk⟩
      · simp at hk
      · have hk' : k = k0 := by
          rcases hk with hk | hk
          · simp at hk
          · simpa using hk
        subst hk'
        have hA : Accepted s p a := by
          obtain ⟨a1, a2, a3, a4, a5⟩ := precheck_accept hacc
          exact ⟨hs, a1, a2, a3, a4, a5, announced_some_fresh hk0⟩
        by_cases hrel : (!s1.isRelay) = true
        · simp [hrel] at hw
        · by_cases hinv : (a.id.kind == Kind.inv) = true
          · simp [hrel, hinv] at hw
          · simp only [hrel, hinv, if_false, Bool.false_eq_true] at hw ⊢
            obtain ⟨w1, w2, w3, w4, w5, w6⟩ := relayWrites_spec hw
            obtain ⟨r, hr1, hr2, hr3⟩ := announced_some_row hk0
            refine ⟨w1, w3, hA, w6, ?_, r, by rw [hr]; exact hr1, hr3, by rw [hr2]; exact w5, ?_⟩
            · intro hp
              apply w5
              rw [hrb, hp]
              exact List.mem_cons_self
            · rw [hr2, hrb]
              exact List.mem_cons_self

/-- Writes whose announcer is the local node (own announcements and the cached ones sent on connect). -/
def OwnWrites (ws : List Write) : Prop :=
  ∀ w ∈ ws, w.id.node = 0 ∧ (w.origin = .own ∨ w.origin = .initial)

theorem OwnWrites.nil : OwnWrites [] := by simp [OwnWrites]

theorem OwnWrites.append {a b : List Write} (ha : OwnWrites a) (hb : OwnWrites b) : OwnWrites (a ++ b) := by
  intro w hw
  rcases List.mem_append.mp hw with h | h
  · exact ha w h
  · exact hb w h

theorem announceInventory_writes (s : State) : OwnWrites (announceInventory s).2 := by
  unfold announceInventory
  split
  · exact OwnWrites.nil
  · intro w hw
    simp only [List.mem_map] at hw
    obtain ⟨se, _, rfl⟩ := hw
    exact ⟨rfl, Or.inl rfl⟩

theorem refreshInventory_writes (s : State) (t : Nat) : OwnWrites (refreshInventory s t).2.writes := by
  unfold refreshInventory
  exact announceInventory_writes _

theorem addInventory_writes (s : State) (rid : Nat) : OwnWrites (addInventory s rid).2.writes := by
  unfold addInventory
  dsimp only
  split
  · exact OwnWrites.nil
  · exact refreshInventory_writes _ _

theorem removeInventory_writes (s : State) (rid : Nat) : OwnWrites (removeInventory s rid).2.writes := by
  unfold removeInventory
  dsimp only
  split
  · exact refreshInventory_writes _ _
  · exact OwnWrites.nil

theorem announceRefs_writes (s : State) (r doc : Repo) : OwnWrites (announceRefs s r doc).2.writes := by
  unfold announceRefs
  dsimp only
  split
  · exact OwnWrites.nil
  · intro w hw
    simp only [List.mem_map] at hw
    obtain ⟨se, _, rfl⟩ := hw
    exact ⟨rfl, Or.inl rfl⟩

theorem fetched_writes (s : State) (rid p : Nat) (clone upd : Bool) :
    OwnWrites (fetched s rid p clone upd).2.writes := by
  unfold fetched
  split
  · exact OwnWrites.nil
  · split
    · exact OwnWrites.nil
    · dsimp only [appendOut]
      refine OwnWrites.append ?_ ?_
      · unfold fetchedInventory
        split
        · exact addInventory_writes _ _
        · exact OwnWrites.nil
      · unfold fetchedRefs
        split
        · exact announceRefs_writes _ _ _
        · exact OwnWrites.nil

/-- **Gossip tick.** What `wake` writes: relays of flagged stored rows of other nodes (never to the
announcer, never to a recorded relayer of that row), and the node's own inventory. -/
theorem wake_writes_spec (s : State) (w : Write) (hw : w ∈ (wake s).2.writes) :
    (w.origin = .relay ∧ w.id.node ≠ 0 ∧ w.peer ≠ w.id.node ∧
      ∃ r ∈ s.rows, r.flag = true ∧ r.id = w.id ∧ (r.rowid, w.peer) ∉ s.relayedBy) ∨
    (w.id.node = 0 ∧ (w.origin = .own ∨ w.origin = .initial)) := by
  unfold wake at hw
  dsimp only at hw
  rcases List.mem_append.mp hw with h | h
  · unfold gossipTask at h
    split at h
    · left
      dsimp only [relayAnnouncements] at h
      simp only [List.mem_flatMap, List.mem_filter, Bool.and_eq_true, bne_iff_ne, ne_eq] at h
      obtain ⟨r, ⟨hr, hflag, hnode⟩, hwr⟩ := h
      obtain ⟨w1, w2, w3, w4, w5, w6⟩ := relayWrites_spec hwr
      refine ⟨w3, by rw [w1]; exact hnode, by rw [w1]; exact w6, r, hr, hflag, w1.symm, w5⟩
    · simp at h
  · right
    unfold announceTask at h
    split at h
    · exact announceInventory_writes _ w h
    · simp at h

/-- **Replay.** What the answer to `Subscribe` contains: stored rows, never one announced by the
subscriber itself, written to the subscriber only. -/
theorem subscribe_writes_spec (s : State) (p : Nat) (sb : Sub) (w : Write)
    (hw : w ∈ (subscribe s p sb).2.writes) :
    w.origin = .replay ∧ w.peer = p ∧ w.id.node ≠ p ∧ ∃ r ∈ s.rows, r.id = w.id := by
  unfold subscribe at hw
  split at hw
  · simp at hw
  · simp only [List.mem_map] at hw
    obtain ⟨r, hr, rfl⟩ := hw
    unfold replayRows at hr
    split at hr
    · simp at hr
    · simp only [List.mem_filter, Bool.and_eq_true, bne_iff_ne, ne_eq] at hr
      exact ⟨rfl, rfl, hr.2.1.1.2, r, hr.1, rfl⟩

/-- The writes of every other operation are announcements of the local node. -/
theorem other_writes_own (s : State) (op : Op)
    (h : (∀ p a, op ≠ .recv p a) ∧ (∀ p sb, op ≠ .subscribe p sb) ∧ (∀ dt, op ≠ .elapse dt)) :
    OwnWrites (step s op).2.writes := by
  obtain ⟨h1, h2, h3⟩ := h
  cases op with
  | recv p a => exact absurd rfl (h1 p a)
  | subscribe p sb => exact absurd rfl (h2 p sb)
  | elapse dt => exact absurd rfl (h3 dt)
  | connect p =>
    intro w hw
    simp only [step, connect, List.mem_cons, List.mem_singleton, List.not_mem_nil, or_false] at hw
    rcases hw with rfl | rfl <;> exact ⟨rfl, Or.inr rfl⟩
  | disconnect p => exact OwnWrites.nil
  | tick now => exact OwnWrites.nil
  | setClock t => exact OwnWrites.nil
  | announceRefs rid =>
    simp only [step, cmdAnnounceRefs]
    split
    · exact OwnWrites.nil
    · exact announceRefs_writes _ _ _
  | addInventory rid => exact addInventory_writes s rid
  | announceInventory => exact announceInventory_writes s
  | seed rid => exact OwnWrites.nil
  | unseed rid =>
    simp only [step, unseed]
    split
    · exact removeInventory_writes _ _
    · exact OwnWrites.nil
  | fetched rid p clone upd => exact fetched_writes s rid p clone upd
  | restart => exact OwnWrites.nil
  | setRepo r => exact OwnWrites.nil
  | knowNode nid ts => exact OwnWrites.nil

/-- **C10, what is relayed is stored.** For every state and operation, an announcement of another node
that is written is a row of the gossip store (after the step for an immediate relay, before it for a
tick relay or a replay) — so, by `stored_is_fresh_and_authentic`, it was `Accepted` when it arrived. -/
theorem relayed_is_stored (s : State) (op : Op) (w : Write) (hw : w ∈ (step s op).2.writes)
    (hf : w.id.node ≠ 0) :
    (w.origin = .relay ∨ w.origin = .replay) ∧
    ((∃ r ∈ s.rows, r.id = w.id) ∨ (∃ r ∈ (step s op).1.rows, r.id = w.id)) := by
  by_cases h1 : ∃ p a, op = .recv p a
  · obtain ⟨p, a, rfl⟩ := h1
    obtain ⟨w1, w2, _, _, _, r, hr, hr1, _⟩ := recv_writes_spec s p a w hw
    exact ⟨Or.inl w2, Or.inr ⟨r, hr, by rw [hr1, w1]⟩⟩
  by_cases h2 : ∃ p sb, op = .subscribe p sb
  · obtain ⟨p, sb, rfl⟩ := h2
    obtain ⟨w1, _, _, hr⟩ := subscribe_writes_spec s p sb w hw
    exact ⟨Or.inr w1, Or.inl hr⟩
  by_cases h3 : ∃ dt, op = .elapse dt
  · obtain ⟨dt, rfl⟩ := h3
    rcases wake_writes_spec _ w hw with ⟨w1, _, _, r, hr, _, hr1, _⟩ | ⟨h, _⟩
    · exact ⟨Or.inl w1, Or.inl ⟨r, hr, hr1⟩⟩
    · exact absurd h hf
  · have := other_writes_own s op
      ⟨fun p a h => h1 ⟨p, a, h⟩, fun p sb h => h2 ⟨p, sb, h⟩, fun dt h => h3 ⟨dt, h⟩⟩ w hw
    exact absurd this.1 hf

/-- **C10, never to the announcer.** For every state and operation, no relay and no replay writes an
announcement to the node that signed it. -/
theorem never_sent_to_announcer (s : State) (op : Op) (w : Write) (hw : w ∈ (step s op).2.writes)
    (ho : w.origin = .relay ∨ w.origin = .replay) : w.peer ≠ w.id.node := by
  by_cases h1 : ∃ p a, op = .recv p a
  · obtain ⟨p, a, rfl⟩ := h1
    obtain ⟨w1, _, _, w4, _⟩ := recv_writes_spec s p a w hw
    rw [w1]; exact w4
  by_cases h2 : ∃ p sb, op = .subscribe p sb
  · obtain ⟨p, sb, rfl⟩ := h2
    obtain ⟨_, w2, w3, _⟩ := subscribe_writes_spec s p sb w hw
    rw [w2]; exact fun h => w3 h.symm
  by_cases h3 : ∃ dt, op = .elapse dt
  · obtain ⟨dt, rfl⟩ := h3
    rcases wake_writes_spec _ w hw with ⟨_, _, w3, _⟩ | ⟨_, h⟩
    · exact w3
    · rcases ho with ho | ho <;> rcases h with h | h <;> rw [ho] at h <;> simp at h
  · have := other_writes_own s op
      ⟨fun p a h => h1 ⟨p, a, h⟩, fun p sb h => h2 ⟨p, sb, h⟩, fun dt h => h3 ⟨dt, h⟩⟩ w hw
    rcases ho with ho | ho <;> rcases this.2 with h | h <;> rw [ho] at h <;> simp at h

/-- **C10, unknown announcers.** An inventory or refs announcement whose announcer is not in the address
book changes nothing and makes the node write nothing (a forged or badly timestamped one gets its
deliverer disconnected, which is all that can happen). -/
theorem unknown_announcer_ignored (s : State) (p : Nat) (a : Ann) (hk : a.id.kind ≠ .node)
    (hu : lookup a.id.node s.addrBook = none) :
    (recv s p a).1 = s ∧ (recv s p a).2.writes = [] ∧ (recv s p a).2.created = [] := by
  have hpre : precheck s a ≠ .accept := by
    intro h
    have := (precheck_accept h).2.2.2.2 hk
    rw [hu] at this
    simp at this
  have hh : (∃ r, handleAnn s p a = .error r) ∨ handleAnn s p a = .ok (s, none) := by
    unfold handleAnn
    cases hp : precheck s a with
    | reject r => exact Or.inl ⟨r, rfl⟩
    | ignore => exact Or.inr rfl
    | accept => exact absurd hp hpre
  by_cases hs : hasSession s p = true
  case neg => simp [recv, hs]
  rcases hh with ⟨r, hr⟩ | hr <;> simp [recv, hs, hr]

example : lookup 4 exState.addrBook = none := by decide

/-! ## Echo -/

@[simp] theorem announceInventory_relayedBy (s : State) :
    (announceInventory s).1.relayedBy = s.relayedBy := by
  unfold announceInventory; split <;> rfl

@[simp] theorem refreshInventory_relayedBy (s : State) (t : Nat) :
    (refreshInventory s t).1.relayedBy = s.relayedBy := by
  simp [refreshInventory]

@[simp] theorem addInventory_relayedBy (s : State) (rid : Nat) :
    (addInventory s rid).1.relayedBy = s.relayedBy := by
  unfold addInventory; dsimp only; split <;> simp [timestamp]

@[simp] theorem removeInventory_relayedBy (s : State) (rid : Nat) :
    (removeInventory s rid).1.relayedBy = s.relayedBy := by
  unfold removeInventory; dsimp only; split <;> simp [timestamp]

@[simp] theorem announceRefs_relayedBy (s : State) (r doc : Repo) :
    (announceRefs s r doc).1.relayedBy = s.relayedBy := by
  unfold announceRefs; dsimp only; split <;> simp [timestamp]

@[simp] theorem fetched_relayedBy (s : State) (rid p : Nat) (clone upd : Bool) :
    (fetched s rid p clone upd).1.relayedBy = s.relayedBy := by
  unfold fetched
  split
  · rfl
  · split
    · rfl
    · dsimp only
      unfold fetchedRefs fetchedInventory
      split <;> split <;> simp

theorem initRepo_relayedBy (db : List (Nat × Nat × Nat)) (acc : InitAcc) (r : Repo) :
    (initRepo db acc r).s.relayedBy = acc.s.relayedBy := by
  unfold initRepo
  split
  · rfl
  · split
    · rfl
    · dsimp only
      split
      · rfl
      · split
        · rfl
        · simp [timestamp]

theorem initFold_relayedBy (db : List (Nat × Nat × Nat)) (repos : List Repo) (acc : InitAcc) :
    (repos.foldl (initRepo db) acc).s.relayedBy = acc.s.relayedBy := by
  induction repos generalizing acc with
  | nil => rfl
  | cons r rs ih => simp only [List.foldl_cons]; rw [ih, initRepo_relayedBy]

@[simp] theorem restart_relayedBy (s : State) : (restart s).1.relayedBy = s.relayedBy := by
  unfold restart
  dsimp only [timestamp]
  exact initFold_relayedBy s.seedsDb s.repos { s := s }

@[simp] theorem wake_relayedBy (s : State) : (wake s).1.relayedBy = s.relayedBy := by
  unfold wake pruneTask announceTask gossipTask relayAnnouncements
  dsimp only
  split <;> split <;> split <;> simp

/-- `relayed_by` changes only by recording the deliverer of an announcement that was stored. -/
theorem step_relayedBy (s : State) (op : Op) :
    (step s op).1.relayedBy = s.relayedBy ∨
    ∃ p a k, op = .recv p a ∧ (announced s.rows a.id a.inv).2 = some k ∧
      (step s op).1.relayedBy = (k, p) :: s.relayedBy := by
  cases op with
  | recv p a =>
    by_cases hs : hasSession s p = true
    case neg => left; simp [step, recv, hs]
    cases h : handleAnn s p a with
    | error r => left; simp [step, recv, hs, h]
    | ok res =>
      obtain ⟨s1, k⟩ := res
      have hrb : (step s (.recv p a)).1.relayedBy = s1.relayedBy := by
        cases k with
        | none => simp [step, recv, hs, h]
        | some k =>
          simp only [step, recv_eq_of_some hs h]
          split
          · rfl
          · split <;> rfl
      rcases handleAnn_ok h with ⟨_, hr, _, _⟩ | ⟨_, k0, hk0, _, hr, _⟩
      · left; rw [hrb, hr]
      · right; exact ⟨p, a, k0, rfl, hk0, by rw [hrb, hr]⟩
  | connect p => exact Or.inl rfl
  | disconnect p => exact Or.inl rfl
  | subscribe p sb => left; simp only [step, subscribe]; split <;> rfl
  | elapse dt => left; simp [step]
  | tick now => left; simp only [step]; split <;> rfl
  | setClock t => exact Or.inl rfl
  | announceRefs rid => left; simp only [step, cmdAnnounceRefs]; split <;> simp
  | addInventory rid => left; simp [step]
  | announceInventory => left; simp [step]
  | seed rid => exact Or.inl rfl
  | unseed rid => left; simp only [step, unseed]; split <;> simp
  | fetched rid p clone upd => left; simp [step]
  | restart => left; simp [step]
  | setRepo r => exact Or.inl rfl
  | knowNode nid ts => left; simp only [step]; split <;> rfl

/-- `relayed_by` only grows. -/
theorem relayedBy_monotone (s : State) (op : Op) (e : Nat × Nat) (h : e ∈ s.relayedBy) :
    e ∈ (step s op).1.relayedBy := by
  rcases step_relayedBy s op with h1 | ⟨p, a, k, _, _, h1⟩
  · rw [h1]; exact h
  · rw [h1]; exact List.mem_cons_of_mem _ h

/-- The state `handle_announcement` hands to the per-kind handlers once the store accepted the announcement. -/
def storedState (s : State) (p : Nat) (a : Ann) (k : Nat) : State :=
  { s with rows := (announced s.rows a.id a.inv).1, relayedBy := (k, p) :: s.relayedBy }

theorem handleAnn_accept {s : State} {p : Nat} {a : Ann} {k : Nat}
    (hp : precheck s a = .accept) (hk : (announced s.rows a.id a.inv).2 = some k) :
    handleAnn s p a = .ok (handleKind (storedState s p a k) a (relayDecision s a k)) := by
  simp [handleAnn, hp, hk, storedState]

/-- A delivery that stores the announcement (under rowid `k`) records its deliverer for that row. -/
theorem accepted_delivery_recorded (s : State) (p : Nat) (a : Ann) (hs : hasSession s p = true)
    (hp : precheck s a = .accept) {k : Nat} (hk : (announced s.rows a.id a.inv).2 = some k) :
    (k, p) ∈ (recv s p a).1.relayedBy := by
  have h := handleAnn_accept (p := p) hp hk
  generalize hres : handleKind (storedState s p a k) a (relayDecision s a k) = res at h
  obtain ⟨s1, ko⟩ := res
  have hs1 : s1.relayedBy = (k, p) :: s.relayedBy := by
    have : s1 = (handleKind (storedState s p a k) a (relayDecision s a k)).1 := by rw [hres]
    rw [this]; simp [storedState]
  have : (recv s p a).1.relayedBy = s1.relayedBy := by
    cases ko with
    | none => simp [recv, hs, h]
    | some k1 =>
      rw [recv_eq_of_some hs h]
      split
      · rfl
      · split <;> rfl
  rw [this, hs1]
  exact List.mem_cons_self

/-- **`Service::relay` skips recorded relayers.** For every state and operation, a relayed announcement is
the content of a stored row, and the peer it is written to is not recorded in `relayed_by` for that row. -/
theorem relay_skips_recorded (s : State) (op : Op) (w : Write) (hw : w ∈ (step s op).2.writes)
    (ho : w.origin = .relay) :
    ∃ r ∈ s.rows ++ (step s op).1.rows, r.id = w.id ∧ (r.rowid, w.peer) ∉ (step s op).1.relayedBy := by
  by_cases h1 : ∃ p a, op = .recv p a
  · obtain ⟨p, a, rfl⟩ := h1
    obtain ⟨w1, _, _, _, _, r, hr, hr1, hr2, _⟩ := recv_writes_spec s p a w hw
    exact ⟨r, List.mem_append_right _ hr, by rw [hr1, w1], hr2⟩
  by_cases h2 : ∃ p sb, op = .subscribe p sb
  · obtain ⟨p, sb, rfl⟩ := h2
    obtain ⟨w1, _⟩ := subscribe_writes_spec s p sb w hw
    rw [ho] at w1; simp at w1
  by_cases h3 : ∃ dt, op = .elapse dt
  · obtain ⟨dt, rfl⟩ := h3
    rcases wake_writes_spec _ w hw with ⟨_, _, _, r, hr, _, hr1, hr2⟩ | ⟨_, h⟩
    · refine ⟨r, List.mem_append_left _ hr, hr1, ?_⟩
      simp only [step, wake_relayedBy]
      exact hr2
    · rcases h with h | h <;> rw [ho] at h <;> simp at h
  · have := other_writes_own s op
      ⟨fun p a h => h1 ⟨p, a, h⟩, fun p sb h => h2 ⟨p, sb, h⟩, fun dt h => h3 ⟨dt, h⟩⟩ w hw
    rcases this.2 with h | h <;> rw [ho] at h <;> simp at h

theorem stateAt_succ (s : State) (ops : List Op) (i : Nat) (op : Op) (h : ops[i]? = some op) :
    stateAt s ops (i + 1) = (step (stateAt s ops i) op).1 := by
  induction ops generalizing s i with
  | nil => simp at h
  | cons o os ih =>
    cases i with
    | zero =>
      simp only [List.getElem?_cons_zero, Option.some.injEq] at h
      subst h
      cases os <;> simp [stateAt]
    | succ i =>
      simp only [List.getElem?_cons_succ] at h
      simp only [stateAt]
      exact ih _ i h

theorem relayedBy_mono_run (s : State) (ops : List Op) (i j : Nat) (hij : i ≤ j) (e : Nat × Nat)
    (h : e ∈ (stateAt s ops i).relayedBy) : e ∈ (stateAt s ops j).relayedBy := by
  induction ops generalizing s i j with
  | nil => simpa [stateAt] using h
  | cons o os ih =>
    cases j with
    | zero =>
      have : i = 0 := by omega
      subst this; exact h
    | succ j =>
      cases i with
      | zero =>
        simp only [stateAt] at h ⊢
        have h' : e ∈ (stateAt (step s o).1 os 0).relayedBy := by
          cases os <;> simpa [stateAt] using relayedBy_monotone s o e h
        exact ih _ 0 j (Nat.zero_le _) h'
      | succ i =>
        simp only [stateAt] at h ⊢
        exact ih _ i j (by omega) h

/-- **C10, what holds of "never echoed back" (`_partial`).** In any run from any state: once the delivery
of an announcement by peer `p` has been stored in row `k` (step `i`), every announcement relayed to `p` at
any later step `j` is the content of a row other than `k` — `p` is never sent, by relay, what is stored in
the row its delivery filled, however that row is updated afterwards. Not covered (and false, see
`never_echoed_counterexample`): deliveries that found the announcement already stored. -/
theorem never_echoed_partial_per_row (s : State) (ops : List Op) (i j p k : Nat) (a : Ann) (op : Op)
    (hij : i < j) (hi : ops[i]? = some (.recv p a))
    (hs : hasSession (stateAt s ops i) p = true) (hp : precheck (stateAt s ops i) a = .accept)
    (hk : (announced (stateAt s ops i).rows a.id a.inv).2 = some k)
    (hj : ops[j]? = some op) (w : Write) (hw : w ∈ (step (stateAt s ops j) op).2.writes)
    (ho : w.origin = .relay) (hpw : w.peer = p) :
    ∃ r ∈ (stateAt s ops j).rows ++ (step (stateAt s ops j) op).1.rows, r.id = w.id ∧ r.rowid ≠ k := by
  obtain ⟨r, hr, hid, hnot⟩ := relay_skips_recorded (stateAt s ops j) op w hw ho
  refine ⟨r, hr, hid, ?_⟩
  intro hrk
  apply hnot
  have h1 : (k, p) ∈ (stateAt s ops (i + 1)).relayedBy := by
    rw [stateAt_succ s ops i _ hi]
    exact accepted_delivery_recorded _ p a hs hp hk
  have h2 := relayedBy_mono_run s ops (i + 1) j (by omega) _ h1
  rw [hrk, hpw]
  exact relayedBy_monotone _ op _ h2

/-! ## The gossip store has a unique key; the theorems per announcement identity -/

/-- **`GossipStoreUnique`**: at most one row per `(node, kind, repo)` — the `UNIQUE` constraint of the
`announcements` table, here an inductive invariant of the model (`init_storeUnique`, `step_storeUnique`). -/
def GossipStoreUnique (s : State) : Prop := UniqueKeys s.rows

theorem init_storeUnique (t0 : Nat) (b : Bool) : GossipStoreUnique (init t0 b) := by
  simp [GossipStoreUnique, UniqueKeys, init]

theorem announceInventory_grow (s : State) : GrowOps s.rows (announceInventory s).1.rows := by
  unfold announceInventory
  split
  · exact GrowOps.refl _
  · exact GrowOps.upsert _ _ (GrowOps.refl _)

theorem refreshInventory_grow (s : State) (t : Nat) : GrowOps s.rows (refreshInventory s t).1.rows := by
  unfold refreshInventory
  exact announceInventory_grow { s with invTs := t, inv := localInventory s }

theorem addInventory_grow (s : State) (rid : Nat) : GrowOps s.rows (addInventory s rid).1.rows := by
  unfold addInventory
  dsimp only
  split
  · exact GrowOps.refl _
  · exact refreshInventory_grow
      { (timestamp s).1 with routing := (addRoute (timestamp s).1.routing rid 0 (timestamp s).2).1 }
      (timestamp s).2

theorem removeInventory_grow (s : State) (rid : Nat) : GrowOps s.rows (removeInventory s rid).1.rows := by
  unfold removeInventory
  dsimp only
  split
  · exact refreshInventory_grow
      { (timestamp s).1 with routing := (removeRoute (timestamp s).1.routing rid 0).1 } (timestamp s).2
  · exact GrowOps.refl _

theorem announceRefs_grow (s : State) (r doc : Repo) : GrowOps s.rows (announceRefs s r doc).1.rows := by
  unfold announceRefs
  dsimp only
  split
  · exact GrowOps.refl _
  · exact GrowOps.upsert _ _ (GrowOps.refl _)

theorem fetched_grow (s : State) (rid p : Nat) (clone upd : Bool) :
    GrowOps s.rows (fetched s rid p clone upd).1.rows := by
  unfold fetched
  split
  · exact GrowOps.refl _
  · split
    · exact GrowOps.refl _
    · rename_i r _
      dsimp only
      have h1 : GrowOps s.rows
          (fetchedInventory { s with routing := (addRoute s.routing rid p s.clock).1 } r clone).1.rows := by
        unfold fetchedInventory
        split
        · exact addInventory_grow { s with routing := (addRoute s.routing rid p s.clock).1 } r.rid
        · exact GrowOps.refl _
      refine h1.trans ?_
      unfold fetchedRefs
      split
      · exact announceRefs_grow _ _ _
      · exact GrowOps.refl _

theorem initRepo_grow (db : List (Nat × Nat × Nat)) (acc : InitAcc) (r : Repo) :
    GrowOps acc.s.rows (initRepo db acc r).s.rows := by
  unfold initRepo
  split
  · exact GrowOps.refl _
  · split
    · exact GrowOps.refl _
    · dsimp only
      split
      · exact GrowOps.refl _
      · split
        · exact GrowOps.refl _
        · exact GrowOps.upsert _ _ (GrowOps.refl _)

theorem initFold_grow (db : List (Nat × Nat × Nat)) (repos : List Repo) (acc : InitAcc) :
    GrowOps acc.s.rows (repos.foldl (initRepo db) acc).s.rows := by
  induction repos generalizing acc with
  | nil => exact GrowOps.refl _
  | cons r rs ih => exact (initRepo_grow db acc r).trans (ih _)

theorem restart_grow (s : State) : GrowOps s.rows (restart s).1.rows := by
  unfold restart
  dsimp only [timestamp]
  exact initFold_grow s.seedsDb s.repos { s := s }

theorem setRelay_core (rows : List Row) (k : Nat) : (setRelay rows k).map core = rows.map core := by
  unfold setRelay
  rw [List.map_map]
  apply List.map_congr_left
  intro r _
  simp only [Function.comp]
  split <;> rfl

theorem handleAnn_grow {s s' : State} {p : Nat} {a : Ann} {k : Option Nat}
    (h : handleAnn s p a = .ok (s', k)) : GrowOps s.rows s'.rows := by
  rcases handleAnn_ok h with ⟨hr, _, _, _⟩ | ⟨_, _, _, hr, _, _⟩
  · exact GrowOps.of_eq hr
  · rw [hr]; exact GrowOps.upsert _ _ (GrowOps.refl _)

theorem recv_grow (s : State) (p : Nat) (a : Ann) : GrowOps s.rows (recv s p a).1.rows := by
  by_cases hs : hasSession s p = true
  case neg => simp only [recv, hs]; exact GrowOps.refl _
  cases h : handleAnn s p a with
  | error r => simp only [recv, hs, h]; exact GrowOps.refl _
  | ok res =>
    obtain ⟨s1, k⟩ := res
    have g1 := handleAnn_grow h
    cases k with
    | none => simp only [recv, hs, h]; exact g1
    | some k =>
      rw [recv_eq_of_some hs h]
      split
      · exact g1
      · split
        · exact GrowOps.flags g1 (setRelay_core s1.rows k)
        · exact g1

theorem gossipTask_grow (s : State) : GrowOps s.rows (gossipTask s).1.rows := by
  unfold gossipTask
  split
  · refine GrowOps.flags (GrowOps.refl _) ?_
    dsimp only [relayAnnouncements]
    rw [List.map_map]
    apply List.map_congr_left
    intro r _
    rfl
  · exact GrowOps.refl _

theorem announceTask_grow (s : State) : GrowOps s.rows (announceTask s).1.rows := by
  unfold announceTask
  split
  · exact announceInventory_grow s
  · exact GrowOps.refl _

theorem pruneTask_sublist (s : State) : (pruneTask s).rows.Sublist s.rows := by
  unfold pruneTask
  split
  · exact List.filter_sublist
  · exact List.Sublist.refl _

/-- Every step touches the table by upserts and flag updates, followed at most by the prune filter. -/
theorem step_store (s : State) (op : Op) :
    ∃ mid, GrowOps s.rows mid ∧ (step s op).1.rows.Sublist mid := by
  have plain : GrowOps s.rows (step s op).1.rows → ∃ mid, GrowOps s.rows mid ∧ (step s op).1.rows.Sublist mid :=
    fun h => ⟨_, h, List.Sublist.refl _⟩
  cases op with
  | connect p => exact plain (GrowOps.refl _)
  | disconnect p => exact plain (GrowOps.refl _)
  | recv p a => exact plain (recv_grow s p a)
  | subscribe p sb =>
    refine plain ?_
    simp only [step, subscribe]
    split <;> exact GrowOps.refl _
  | elapse dt =>
    simp only [step, wake]
    refine ⟨(announceTask (gossipTask { s with clock := s.clock + dt }).1).1.rows, ?_, pruneTask_sublist _⟩
    exact (gossipTask_grow { s with clock := s.clock + dt }).trans (announceTask_grow _)
  | tick now =>
    refine plain ?_
    simp only [step]
    split <;> exact GrowOps.refl _
  | setClock t => exact plain (GrowOps.refl _)
  | announceRefs rid =>
    refine plain ?_
    simp only [step, cmdAnnounceRefs]
    split
    · exact GrowOps.refl _
    · exact announceRefs_grow _ _ _
  | addInventory rid => exact plain (addInventory_grow s rid)
  | announceInventory => exact plain (announceInventory_grow s)
  | seed rid => exact plain (GrowOps.refl _)
  | unseed rid =>
    refine plain ?_
    simp only [step, unseed]
    split
    · exact removeInventory_grow { s with seeded := s.seeded.filter (· != rid) } rid
    · exact GrowOps.refl _
  | fetched rid p clone upd => exact plain (fetched_grow s rid p clone upd)
  | restart => exact plain (restart_grow s)
  | setRepo r => exact plain (GrowOps.refl _)
  | knowNode nid ts =>
    refine plain ?_
    simp only [step]
    split <;> exact GrowOps.refl _

/-- **`GossipStoreUnique` is preserved by every operation** (deliveries, own announcements, `initialize`,
the gossip / announce / prune tasks, …). -/
theorem step_storeUnique (s : State) (op : Op) (hu : GossipStoreUnique s) :
    GossipStoreUnique (step s op).1 := by
  obtain ⟨mid, hg, hsub⟩ := step_store s op
  exact (hg.unique hu).sublist hsub

theorem stateAt_storeUnique (s : State) (ops : List Op) (hu : GossipStoreUnique s) (i : Nat) :
    GossipStoreUnique (stateAt s ops i) := by
  induction ops generalizing s i with
  | nil => exact hu
  | cons o os ih =>
    cases i with
    | zero => cases os <;> exact hu
    | succ i => simp only [stateAt]; exact ih _ (step_storeUnique s o hu) i

/-- **Rowid stability.** While the key is unique, a row that carries the same announcement identity before
and after a step has the same rowid. -/
theorem step_rowid_stable (s : State) (op : Op) (hu : GossipStoreUnique s) {r r' : Row}
    (hr : r ∈ s.rows) (hr' : r' ∈ (step s op).1.rows) (hid : r'.id = r.id) : r'.rowid = r.rowid := by
  obtain ⟨mid, hg, hsub⟩ := step_store s op
  exact stable_of_origin hu hg.grow.origin hr (hsub.subset hr') hid

/-- The acceptance conditions of the property statement, per announcement identity: strictly newer than
**every** stored announcement of the same node, kind and repository. -/
def AcceptedFresh (s : State) (p : Nat) (a : Ann) : Prop :=
  hasSession s p = true ∧ a.sigOk = true ∧ a.id.node ≠ 0 ∧ a.id.ts ≠ 0 ∧
  a.id.ts ≤ s.clock + MAX_TIME_DELTA ∧
  (a.id.kind ≠ .node → (lookup a.id.node s.addrBook).isSome = true) ∧
  (∀ r0 ∈ s.rows, sameKey r0.id a.id = true → r0.id.ts < a.id.ts)

theorem Accepted.fresh {s : State} {p : Nat} {a : Ann} (hu : GossipStoreUnique s) (h : Accepted s p a) :
    AcceptedFresh s p a := by
  obtain ⟨h1, h2, h3, h4, h5, h6, h7⟩ := h
  exact ⟨h1, h2, h3, h4, h5, h6, fun r0 hr0 hk => h7 r0 (hu.find_eq hr0 hk)⟩

/-- **C10, authenticity and freshness (store), per announcement identity.** In every state whose store has
unique keys (every reachable state: `stateAt_storeUnique`), for every operation: an announcement of another
node that is stored after the step was stored before, or this step delivers exactly it — from a connected
peer, with a valid signature, a non-zero timestamp at most one hour ahead, a known announcer (inventory /
refs), and strictly newer than every stored announcement of the same node, kind and repository. -/
theorem stored_is_fresh_and_authentic (s : State) (op : Op) (hu : GossipStoreUnique s) (row : Row)
    (hrow : row ∈ (step s op).1.rows) (hforeign : row.id.node ≠ 0) :
    (∃ r0 ∈ s.rows, r0.id = row.id) ∨
    (∃ p a, op = .recv p a ∧ a.id = row.id ∧ AcceptedFresh s p a) := by
  rcases stored_is_fresh_and_authentic_per_row s op row hrow hforeign with h | ⟨p, a, h1, h2, hA⟩
  · exact Or.inl h
  · exact Or.inr ⟨p, a, h1, h2, hA.fresh hu⟩

/-- **C10 over runs, per announcement identity.** From any state with unique keys and no rows of other
nodes (e.g. `init`), after any sequence of operations every stored announcement of another node was
delivered by an operation of the run that satisfied `AcceptedFresh` in the state it met. -/
theorem stored_rows_were_accepted (s : State) (ops : List Op) (hu : GossipStoreUnique s)
    (h0 : ∀ r ∈ s.rows, r.id.node = 0) :
    ∀ row ∈ (finalState s ops).rows, row.id.node ≠ 0 →
      ∃ i p a, ops[i]? = some (.recv p a) ∧ a.id = row.id ∧ AcceptedFresh (stateAt s ops i) p a := by
  intro row hrow hf
  obtain ⟨i, p, a, h1, h2, hA⟩ := stored_rows_were_accepted_per_row s ops h0 row hrow hf
  exact ⟨i, p, a, h1, h2, hA.fresh (stateAt_storeUnique s ops hu i)⟩

/-- Rows of `recv` once the store accepted the announcement: the upserted table, up to flags. -/
theorem recv_rows_core_of_accept {s : State} {p : Nat} {a : Ann} {k : Nat}
    (hs : hasSession s p = true) (hp : precheck s a = .accept)
    (hk : (announced s.rows a.id a.inv).2 = some k) :
    (recv s p a).1.rows.map core = (announced s.rows a.id a.inv).1.map core := by
  have h := handleAnn_accept (p := p) hp hk
  generalize hres : handleKind (storedState s p a k) a (relayDecision s a k) = res at h
  obtain ⟨s1, ko⟩ := res
  have hs1 : s1.rows = (announced s.rows a.id a.inv).1 := by
    have : s1 = (handleKind (storedState s p a k) a (relayDecision s a k)).1 := by rw [hres]
    rw [this]; simp [storedState]
  cases ko with
  | none => simp [recv, hs, h, hs1]
  | some k1 =>
    rw [recv_eq_of_some hs h]
    split
    · rw [hs1]
    · split
      · simp only [setRelay_core, hs1]
      · rw [hs1]

theorem stateAt_past_end (s : State) (ops : List Op) (m : Nat) (h : ops[m]? = none) :
    stateAt s ops (m + 1) = stateAt s ops m := by
  induction ops generalizing s m with
  | nil => rfl
  | cons o os ih =>
    cases m with
    | zero => simp at h
    | succ m =>
      simp only [List.getElem?_cons_succ] at h
      simp only [stateAt]
      exact ih _ m h

/-- While announcement `id` stays stored, the row that holds it keeps its rowid. -/
theorem rowid_kept_while_stored (s : State) (ops : List Op) (hu : GossipStoreUnique s) (id : AnnId)
    (k lo : Nat) (hlo : ∃ row ∈ (stateAt s ops lo).rows, row.id = id ∧ row.rowid = k) :
    ∀ m, lo ≤ m → (∀ n, lo < n → n ≤ m → ∃ row ∈ (stateAt s ops n).rows, row.id = id) →
      ∀ row ∈ (stateAt s ops m).rows, row.id = id → row.rowid = k := by
  intro m
  induction m with
  | zero =>
    intro hle _ row hrow hid
    have : lo = 0 := by omega
    subst this
    obtain ⟨r0, hr0, h1, h2⟩ := hlo
    have := (stateAt_storeUnique s ops hu 0).eq_of_sameKey hrow hr0 (sameKey_of_eq (hid.trans h1.symm))
    rw [this]; exact h2
  | succ m ih =>
    intro hle hkeep row hrow hid
    by_cases hlm : lo = m + 1
    · subst hlm
      obtain ⟨r0, hr0, h1, h2⟩ := hlo
      have := (stateAt_storeUnique s ops hu (m + 1)).eq_of_sameKey hrow hr0
        (sameKey_of_eq (hid.trans h1.symm))
      rw [this]; exact h2
    · have hle' : lo ≤ m := by omega
      -- the row holding `id` in state `m` has rowid `k`
      have hprev : ∃ r ∈ (stateAt s ops m).rows, r.id = id ∧ r.rowid = k := by
        by_cases hm : lo = m
        · subst hm; exact hlo
        · obtain ⟨r, hr, hrid⟩ := hkeep m (by omega) (by omega)
          exact ⟨r, hr, hrid, ih hle' (fun n h1 h2 => hkeep n h1 (by omega)) r hr hrid⟩
      obtain ⟨r, hr, hrid, hrk⟩ := hprev
      cases hop : ops[m]? with
      | none =>
        -- past the end of the run the state no longer changes
        have hst := stateAt_past_end s ops m hop
        rw [hst] at hrow
        have := (stateAt_storeUnique s ops hu m).eq_of_sameKey hrow hr (sameKey_of_eq (hid.trans hrid.symm))
        rw [this]; exact hrk
      | some op =>
        rw [stateAt_succ s ops m op hop] at hrow
        have := step_rowid_stable (stateAt s ops m) op (stateAt_storeUnique s ops hu m) hr hrow
          (hid.trans hrid.symm)
        rw [this]; exact hrk

/-- **C10, "never echoed back", per announcement identity (`_partial`).** In any run from a state with
unique keys (e.g. `init`): if peer `p`'s delivery of announcement `a` was stored at step `i` (`a` became the
row of its key) and `a` has stayed stored since (its row was neither pruned nor replaced by a newer
announcement), then no later step relays `a` to `p`. Not covered, and false
(`never_echoed_counterexample`, `never_echoed_ignored_delivery_counterexample`,
`never_echoed_after_prune_counterexample`): deliveries that did not store the announcement, and rows that
were pruned in between. -/
theorem never_echoed_partial (s : State) (ops : List Op) (hu : GossipStoreUnique s)
    (i j p k : Nat) (a : Ann) (op : Op)
    (hij : i < j) (hi : ops[i]? = some (.recv p a))
    (hs : hasSession (stateAt s ops i) p = true) (hp : precheck (stateAt s ops i) a = .accept)
    (hk : (announced (stateAt s ops i).rows a.id a.inv).2 = some k)
    (hkeep : ∀ n, i + 1 < n → n ≤ j → ∃ row ∈ (stateAt s ops n).rows, row.id = a.id)
    (hj : ops[j]? = some op) (w : Write) (hw : w ∈ (step (stateAt s ops j) op).2.writes)
    (ho : w.origin = .relay) (hpw : w.peer = p) : w.id ≠ a.id := by
  intro hwid
  -- the row that holds `a` right after the delivery has rowid `k`
  have hbase : ∃ row ∈ (stateAt s ops (i + 1)).rows, row.id = a.id ∧ row.rowid = k := by
    rw [stateAt_succ s ops i _ hi]
    obtain ⟨r, hr, hrk, hrid⟩ := announced_some_row hk
    have hc := recv_rows_core_of_accept hs hp hk
    obtain ⟨r1, hr1, h1, h2⟩ := mem_of_core hc.symm hr
    exact ⟨r1, hr1, h2.trans hrid, h1.trans hrk⟩
  have hrowid := rowid_kept_while_stored s ops hu a.id k (i + 1) hbase j (by omega) hkeep
  -- the relayed row
  obtain ⟨r, hr, hid, hnot⟩ := relay_skips_recorded (stateAt s ops j) op w hw ho
  have hrk : r.rowid = k := by
    rcases List.mem_append.mp hr with h | h
    · exact hrowid r h (hid.trans hwid)
    · -- a row of the state after step `j`: same rowid as the row holding `a` before it
      have hjs : ∃ r0 ∈ (stateAt s ops j).rows, r0.id = a.id := by
        by_cases hji : j = i + 1
        · subst hji; obtain ⟨r0, h0, h1, _⟩ := hbase; exact ⟨r0, h0, h1⟩
        · exact hkeep j (by omega) (Nat.le_refl _)
      obtain ⟨r0, hr0, hr0id⟩ := hjs
      have := step_rowid_stable (stateAt s ops j) op (stateAt_storeUnique s ops hu j) hr0 h
        ((hid.trans hwid).trans hr0id.symm)
      rw [this]; exact hrowid r0 hr0 hr0id
  apply hnot
  have h1 : (k, p) ∈ (stateAt s ops (i + 1)).relayedBy := by
    rw [stateAt_succ s ops i _ hi]
    exact accepted_delivery_recorded _ p a hs hp hk
  have h2 := relayedBy_mono_run s ops (i + 1) j (by omega) _ h1
  rw [hrk, hpw]
  exact relayedBy_monotone _ op _ h2

/-- Non-vacuity of `never_echoed_partial`: peer 1's delivery is stored, stays stored, and the gossip tick
relays it to peer 2 only. -/
example :
    let s := finalState (init 1000000 true)
      [.connect 1, .connect 2, .knowNode 3 999990,
       .recv 1 ⟨⟨3, .inv, 0, 1000005⟩, true, [1], false, false⟩]
    (GossipStoreUnique s ∧ (s.rows.map (·.id) = [⟨3, .inv, 0, 1000005⟩])) ∧
    (step s (.elapse 6000)).2.writes.map (·.peer) = [2] := by
  refine ⟨⟨?_, by decide⟩, by decide⟩
  unfold GossipStoreUnique UniqueKeys
  decide

/-- The full statement — *no relayed announcement is ever written to a peer that delivered it* — is false
of the current code. Witness: node 3 is known; peer 1 delivers its inventory announcement `X`; peer 2
delivers `X` again (stale: `announced` returns nothing, the `FIXME` branch, peer 2 is not recorded);
on the gossip tick `X` is relayed to peer 2. -/
def echoTrace : List Op :=
  [.connect 1, .connect 2,
   .recv 1 ⟨⟨3, .node, 0, 999990⟩, true, [], false, true⟩,
   .recv 1 ⟨⟨3, .inv, 0, 1000005⟩, true, [1], false, false⟩,
   .recv 2 ⟨⟨3, .inv, 0, 1000005⟩, true, [1], false, false⟩,
   .elapse 6000]

theorem never_echoed_counterexample :
    echoTrace[4]? = some (.recv 2 ⟨⟨3, .inv, 0, 1000005⟩, true, [1], false, false⟩) ∧
    (step (finalState (init 1000000 true) echoTrace.dropLast) (.elapse 6000)).2.writes.any
      (fun w => w.origin == .relay && w.peer == 2 && w.id == ⟨3, .inv, 0, 1000005⟩) = true :=
  ⟨rfl, by decide⟩

/-- The same root cause with an *ignored* delivery: peer 1 delivers `X` while its announcer is not in the
address book (`Ok(None)`, nobody recorded); the announcer becomes known; peer 2 delivers `X` (stored); on
the gossip tick `X` is relayed to peer 1. -/
def ignoredEchoTrace : List Op :=
  [.connect 1, .connect 2,
   .recv 1 ⟨⟨3, .inv, 0, 1000005⟩, true, [1], false, false⟩,
   .knowNode 3 999990,
   .recv 2 ⟨⟨3, .inv, 0, 1000005⟩, true, [1], false, false⟩,
   .elapse 6000]

theorem never_echoed_ignored_delivery_counterexample :
    (step (finalState (init 1000000 true) ignoredEchoTrace.dropLast) (.elapse 6000)).2.writes.any
      (fun w => w.origin == .relay && w.peer == 1 && w.id == ⟨3, .inv, 0, 1000005⟩) = true := by
  decide

/-- A second way to the same failure: the row a recorded deliverer filled is pruned (`prune` deletes rows
older than `gossip_max_age`; any old timestamp is accepted) and the announcement is stored again under
another rowid — `relayed_by` is keyed by rowid. Peer 1 delivers an ancient node announcement (no SEED
feature, so it is relayed whatever its age), the first prune task deletes it, peer 2 delivers it again:
it is relayed to peer 1. (`never_echoed_partial` is not contradicted: the row is a different one.) -/
def pruneEchoTrace : List Op :=
  [.connect 1, .connect 2, .connect 3, .announceInventory,
   .recv 1 ⟨⟨4, .node, 0, 5⟩, true, [], false, false⟩,
   .elapse 6000,
   .recv 3 ⟨⟨5, .node, 0, 2000000001⟩, true, [], false, false⟩,
   .recv 2 ⟨⟨4, .node, 0, 5⟩, true, [], false, false⟩]

theorem never_echoed_after_prune_counterexample :
    (step (finalState (init 2000000000 true) pruneEchoTrace.dropLast)
        (.recv 2 ⟨⟨4, .node, 0, 5⟩, true, [], false, false⟩)).2.writes.any
      (fun w => w.origin == .relay && w.peer == 1 && w.id == ⟨4, .node, 0, 5⟩) = true := by
  decide

end HeartwoodModel.Gossip
