//! C30 — unified diff text encoding. Runs the REAL `Encode`/`Decode` impls of
//! `radicle_cli::git::unified_diff`.
//!
//! Case forms (bytes in hex, `-` = empty):
//!   hdr <text>    `HunkHeader::from_bytes`            -> ok:<oldNo>,<oldSize>,<newNo>,<newSize>,<text>,<re-encoded> | err
//!   mod <text>    `Modification::from_bytes`          -> ok:<a|d|c><line>,<re-encoded> | err
//!   hunk <text>   `Hunk::<Modification>::from_bytes`  -> ok:<hunk>,<re-encoded> | err | panic
//!   rt <header> <o1>-<o2> <n1>-<n2> <lines>           a hunk value, encoded with `Hunk::encode`, then decoded
//!                 with the in-file `Hunk::decode`     -> <encoded> <as for `hunk`>
//!                 (<lines> = `-` or `a<no>:<hex>` | `d<no>:<hex>` | `c<old>.<new>:<hex>` joined by `,`)
//!   diff <tree> <tree>   git computes the diff between the two trees (libgit2 `diff_tree_to_tree` + rename/copy
//!                 detection as radicle-surf does), real `Diff::encode`, real `Diff::decode` (libgit2's patch
//!                 parser), compare files / change kinds / hunks -> `checked` (the verdict is the oracle's: the
//!                 whole-diff decoder is not modelled, so there is no model output to compare with)
//!                 (<tree> = `-` or `<path>:<f|x>:<hex content>` joined by `,`)
//!   <hunk> = <header>|<lines>|<o1>-<o2>|<n1>-<n2>
//!
//! The model covers hunk header / line / hunk level; for `diff` cases the driver only answers `checked` (the
//! whole-diff decoder is libgit2, not modelled). Every hunk git produces in a `diff` case is also recorded as
//! a derived `rt` case, so that the model's bytes are compared with the real bytes on real hunks.

use std::path::PathBuf;

use radicle::git::raw as git2;
use radicle_cli::git::unified_diff::{Decode, Encode, HunkHeader};
use radicle_surf::diff::{Addition, Deletion, Diff, DiffContent, FileDiff, Hunk, Line, Modification};
use verif_common::*;

fn show_mod(m: &Modification) -> String {
    match m {
        Modification::Addition(Addition { line, line_no }) => format!("a{line_no}:{}", hex(line.as_bytes())),
        Modification::Deletion(Deletion { line, line_no }) => format!("d{line_no}:{}", hex(line.as_bytes())),
        Modification::Context { line, line_no_old, line_no_new } => {
            format!("c{line_no_old}.{line_no_new}:{}", hex(line.as_bytes()))
        }
    }
}

fn show_lines(ls: &[Modification]) -> String {
    if ls.is_empty() {
        "-".into()
    } else {
        ls.iter().map(show_mod).collect::<Vec<_>>().join(",")
    }
}

fn show_hunk(h: &Hunk<Modification>) -> String {
    format!(
        "{}|{}|{}-{}|{}-{}",
        hex(h.header.as_bytes()),
        show_lines(&h.lines),
        h.old.start,
        h.old.end,
        h.new.start,
        h.new.end
    )
}

fn parse_lines(s: &str) -> Option<Vec<Modification>> {
    if s == "-" {
        return Some(vec![]);
    }
    s.split(',')
        .map(|t| {
            let (head, body) = t.split_once(':')?;
            let bytes = unhex(body)?;
            let kind = head.get(..1)?;
            let nums = head.get(1..)?;
            match kind {
                "a" => Some(Modification::addition(bytes, nums.parse().ok()?)),
                "d" => Some(Modification::deletion(bytes, nums.parse().ok()?)),
                "c" => {
                    let (o, n) = nums.split_once('.')?;
                    Some(Modification::context(bytes, o.parse().ok()?, n.parse().ok()?))
                }
                _ => None,
            }
        })
        .collect()
}

fn parse_range(s: &str) -> Option<std::ops::Range<u32>> {
    let (a, b) = s.split_once('-')?;
    Some(a.parse().ok()?..b.parse().ok()?)
}

/// Rust's `str::trim_end` on bytes that are valid UTF-8 (lossy otherwise, as the encoder does).
fn trim_end(b: &[u8]) -> String {
    String::from_utf8_lossy(b).trim_end().to_owned()
}

struct Repo {
    _tmp: tempfile::TempDir,
    repo: git2::Repository,
}

thread_local! {
    static REPO: Repo = {
        let tmp = tempfile::tempdir().expect("tempdir");
        let repo = git2::Repository::init_bare(tmp.path()).expect("init");
        Repo { _tmp: tmp, repo }
    };
}

type TreeSpec = Vec<(String, bool, Vec<u8>)>;

fn parse_tree(s: &str) -> Option<TreeSpec> {
    if s == "-" {
        return Some(vec![]);
    }
    s.split(',')
        .map(|e| {
            let mut p = e.split(':');
            let (name, mode, content) = (p.next()?, p.next()?, p.next()?);
            if p.next().is_some() || name.is_empty() {
                return None;
            }
            let exec = match mode {
                "f" => false,
                "x" => true,
                _ => return None,
            };
            Some((name.to_string(), exec, unhex(content)?))
        })
        .collect()
}

fn build_tree<'r>(repo: &'r git2::Repository, spec: &TreeSpec) -> Result<git2::Tree<'r>, git2::Error> {
    let empty = repo.find_tree(repo.treebuilder(None)?.write()?)?;
    let mut b = git2::build::TreeUpdateBuilder::new();
    for (name, exec, content) in spec {
        let oid = repo.blob(content)?;
        b.upsert(name.as_str(), oid, if *exec { git2::FileMode::BlobExecutable } else { git2::FileMode::Blob });
    }
    let oid = b.create_updated(repo, &empty)?;
    repo.find_tree(oid)
}

/// Files, change kinds and hunks (headers and lines): what the property compares. Object ids are
/// abbreviated by the text form and therefore not compared.
type Summary = Vec<(String, Vec<PathBuf>, Vec<(Vec<u8>, Vec<Modification>)>)>;

fn summary(diff: &Diff) -> Summary {
    diff.files()
        .map(|f| {
            let (kind, paths, content) = match f {
                FileDiff::Added(f) => ("added", vec![f.path.clone()], &f.diff),
                FileDiff::Deleted(f) => ("deleted", vec![f.path.clone()], &f.diff),
                FileDiff::Modified(f) => ("modified", vec![f.path.clone()], &f.diff),
                FileDiff::Moved(f) => ("moved", vec![f.old_path.clone(), f.new_path.clone()], &f.diff),
                FileDiff::Copied(f) => ("copied", vec![f.old_path.clone(), f.new_path.clone()], &f.diff),
            };
            let hunks = match content {
                DiffContent::Plain { hunks, .. } => {
                    hunks.iter().map(|h| (h.header.as_bytes().to_vec(), h.lines.clone())).collect()
                }
                _ => vec![],
            };
            (kind.to_owned(), paths, hunks)
        })
        .collect()
}

/// Result of a `diff` case, plus the real hunks git produced (for derived `rt` cases).
fn run_diff(old: &TreeSpec, new: &TreeSpec) -> (Outcome, Vec<Hunk<Modification>>) {
    REPO.with(|r| {
        let repo = &r.repo;
        let mk = || -> Result<Diff, String> {
            let old = build_tree(repo, old).map_err(|e| e.to_string())?;
            let new = build_tree(repo, new).map_err(|e| e.to_string())?;
            let mut raw = repo.diff_tree_to_tree(Some(&old), Some(&new), None).map_err(|e| e.to_string())?;
            // as radicle_surf::Repository::diff does
            let mut find = git2::DiffFindOptions::new();
            find.renames(true);
            find.copies(true);
            raw.find_similar(Some(&mut find)).map_err(|e| e.to_string())?;
            Diff::try_from(raw).map_err(|e| e.to_string())
        };
        let diff = match mk() {
            Ok(d) => d,
            Err(_) => return (Outcome::new("bad-case").trivial(), vec![]),
        };
        let mut tags = vec![];
        let mut hunks = vec![];
        let mut excluded = None;
        for f in diff.files() {
            let (kind, content) = match f {
                FileDiff::Added(f) => ("added", &f.diff),
                FileDiff::Deleted(f) => ("deleted", &f.diff),
                FileDiff::Modified(f) => ("modified", &f.diff),
                FileDiff::Moved(f) => ("moved", &f.diff),
                FileDiff::Copied(f) => ("copied", &f.diff),
            };
            tags.push(format!("file-{kind}"));
            match content {
                DiffContent::Binary => excluded = Some("excluded-binary-file"),
                DiffContent::Empty => tags.push("content-empty".into()),
                DiffContent::Plain { hunks: hs, eof, .. } => {
                    if !matches!(eof, radicle_surf::diff::EofNewLine::NoneMissing) {
                        excluded = Some("excluded-no-newline-at-eof");
                    }
                    if kind == "moved" && hs.iter().count() > 0 {
                        tags.push("moved-with-changes".into());
                    }
                    tags.push(format!("hunks-{}", hs.iter().count().min(3)));
                    for h in hs.iter() {
                        if h.lines.iter().any(|l| {
                            let b = match l {
                                Modification::Addition(a) => a.line.as_bytes(),
                                Modification::Deletion(d) => d.line.as_bytes(),
                                Modification::Context { line, .. } => line.as_bytes(),
                            };
                            b.len() >= 2 && (b[b.len() - 2] as char).is_ascii_whitespace()
                        }) {
                            tags.push("line-with-trailing-whitespace".into());
                        }
                        hunks.push(h.clone());
                    }
                }
            }
        }
        if diff.files().count() == 0 {
            tags.push("no-changes".into());
        }
        tags.sort();
        tags.dedup();
        let finish = |mut o: Outcome| {
            o.tags.extend(tags.clone());
            o
        };
        if let Some(why) = excluded {
            // Outside the property's hypothesis (the encoder marks these unimplemented).
            return (finish(Outcome::new("checked").tag(why).trivial()), vec![]);
        }
        // Known findings, checked apart from the other files: a renamed file's header carries no file mode
        // in the text form (`renamed-file-not-decodable`); a copied file's header is `todo!()` in the encoder
        // (`copied-file-not-encodable`).
        let has_moved = diff.files().any(|f| matches!(f, FileDiff::Moved(_)));
        let has_copied = diff.files().any(|f| matches!(f, FileDiff::Copied(_)));
        let mut o = Outcome::new("checked");
        o.nontrivial = diff.files().count() > 0;
        // Round trip of one text: Ok(()) or (class, message).
        let round_trip = |what: &str,
                          text: Result<Result<String, String>, String>,
                          expect: &Summary,
                          moved: bool,
                          copied: bool|
         -> Result<(), (String, String)> {
            let text = match text {
                Ok(Ok(t)) => t,
                Ok(Err(e)) => return Err(("diff-encode-error".into(), format!("{what}: encoding failed: {e}"))),
                Err(msg) => {
                    let class = if copied && msg.contains("not yet implemented") {
                        "copied-file-not-encodable"
                    } else {
                        "diff-encode-panic"
                    };
                    return Err((class.into(), format!("{what}: encoding panicked: {msg}")));
                }
            };
            let shown: String = text.chars().take(500).collect();
            let decoded = match catch(|| Diff::parse(&text)) {
                Ok(Ok(d)) => d,
                Ok(Err(e)) => {
                    let e = e.to_string();
                    let class = if moved && e.contains("unknown file mode") {
                        "renamed-file-not-decodable"
                    } else {
                        "diff-decode-error"
                    };
                    return Err((class.into(), format!("{what}: decoding the encoded diff failed: {e}; text={shown:?}")));
                }
                Err(msg) => return Err(("diff-decode-panic".into(), format!("{what}: decoding panicked: {msg}"))),
            };
            let got = summary(&decoded);
            if &got == expect {
                return Ok(());
            }
            // Same files, kinds, lines, and headers equal up to trailing whitespace?
            let relaxed = |s: &Summary| -> Summary {
                s.iter()
                    .map(|(k, p, hs)| {
                        (k.clone(), p.clone(), hs.iter().map(|(h, l)| (trim_end(h).into_bytes(), l.clone())).collect())
                    })
                    .collect()
            };
            let class = if relaxed(&got) == relaxed(expect) {
                "hunk-header-trailing-unicode-whitespace"
            } else {
                "diff-roundtrip-mismatch"
            };
            let first = expect
                .iter()
                .zip(got.iter())
                .find(|(x, y)| x != y)
                .map(|(x, y)| format!("first difference: {:?} vs {:?}", x, y))
                .unwrap_or_else(|| format!("{} files vs {} files", expect.len(), got.len()));
            let first: String = first.chars().take(600).collect();
            Err((class.into(), format!("{what}: {first} text={shown:?}")))
        };
        let whole = round_trip(
            "whole diff",
            catch(|| diff.to_unified_string().map_err(|e| e.to_string())),
            &summary(&diff),
            has_moved,
            has_copied,
        );
        match whole {
            Ok(()) => o = o.tag("whole-diff-round-trips"),
            Err((class, msg)) if class == "renamed-file-not-decodable" || class == "copied-file-not-encodable" => {
                o = o.violation(class, msg);
                // Every file is still held to the property, one by one; renamed and copied files fall
                // into their known classes again, anything else is reported as usual.
                let all = summary(&diff);
                for (f, s) in diff.files().zip(all.iter()) {
                    let expect = vec![s.clone()];
                    let r = round_trip(
                        &format!("file {:?}", s.1),
                        catch(|| f.to_unified_string().map_err(|e| e.to_string())),
                        &expect,
                        matches!(f, FileDiff::Moved(_)),
                        matches!(f, FileDiff::Copied(_)),
                    );
                    match r {
                        Ok(()) => o = o.tag("single-file-round-trips"),
                        Err((class, _)) if class == "renamed-file-not-decodable" || class == "copied-file-not-encodable" => {}
                        Err((class, msg)) => o = o.violation(class, msg),
                    }
                }
            }
            Err((class, msg)) => o = o.violation(class, msg),
        }
        (finish(o), hunks)
    })
}

fn rt_case(h: &Hunk<Modification>) -> String {
    format!(
        "rt {} {}-{} {}-{} {}",
        hex(h.header.as_bytes()),
        h.old.start,
        h.old.end,
        h.new.start,
        h.new.end,
        show_lines(&h.lines)
    )
}

fn run_case_full(input: &str) -> (Outcome, Vec<String>) {
    let toks: Vec<&str> = input.split(' ').collect();
    let bad = || Outcome::new("bad-case").trivial();
    let o = match toks.as_slice() {
        ["hdr", t] => {
            let Some(bytes) = unhex(t) else { return (bad(), vec![]) };
            match catch(|| HunkHeader::from_bytes(&bytes).map(|h| (h.to_unified_string(), h))) {
                Err(msg) => Outcome::new("panic").tag("hdr-panic").violation("decode-panic", msg),
                Ok(Err(_)) => Outcome::new("err").tag("hdr-err"),
                Ok(Ok((re, h))) => Outcome::new(format!(
                    "ok:{},{},{},{},{},{}",
                    h.old_line_no,
                    h.old_size,
                    h.new_line_no,
                    h.new_size,
                    hex(&h.text),
                    re.map(|s| hex(s.as_bytes())).unwrap_or_else(|_| "encode-err".into())
                ))
                .tag("hdr-ok"),
            }
        }
        ["mod", t] => {
            let Some(bytes) = unhex(t) else { return (bad(), vec![]) };
            match catch(|| Modification::from_bytes(&bytes).map(|m| (m.to_unified_string(), m))) {
                Err(msg) => Outcome::new("panic").tag("mod-panic").violation("decode-panic", msg),
                Ok(Err(_)) => Outcome::new("err").tag("mod-err"),
                Ok(Ok((re, m))) => {
                    let (k, l) = match &m {
                        Modification::Addition(a) => ('a', a.line.as_bytes()),
                        Modification::Deletion(d) => ('d', d.line.as_bytes()),
                        Modification::Context { line, .. } => ('c', line.as_bytes()),
                    };
                    Outcome::new(format!(
                        "ok:{k}{},{}",
                        hex(l),
                        re.map(|s| hex(s.as_bytes())).unwrap_or_else(|_| "encode-err".into())
                    ))
                    .tag("mod-ok")
                }
            }
        }
        ["hunk", t] => {
            let Some(bytes) = unhex(t) else { return (bad(), vec![]) };
            match catch(|| Hunk::<Modification>::from_bytes(&bytes).map(|h| (h.to_unified_string(), h))) {
                Err(msg) => Outcome::new("panic").tag("hunk-panic").violation("decode-panic", msg),
                Ok(Err(_)) => Outcome::new("err").tag("hunk-err"),
                Ok(Ok((re, h))) => Outcome::new(format!(
                    "ok:{},{}",
                    show_hunk(&h),
                    re.map(|s| hex(s.as_bytes())).unwrap_or_else(|_| "encode-err".into())
                ))
                .tag("hunk-ok"),
            }
        }
        ["rt", header, old, new, lines] => {
            let (Some(header), Some(old), Some(new), Some(lines)) =
                (unhex(header), parse_range(old), parse_range(new), parse_lines(lines))
            else {
                return (bad(), vec![]);
            };
            // The text form is a `String`: values that are not UTF-8 are outside the model.
            if std::str::from_utf8(&header).is_err()
                || lines.iter().any(|l| {
                    std::str::from_utf8(match l {
                        Modification::Addition(a) => a.line.as_bytes(),
                        Modification::Deletion(d) => d.line.as_bytes(),
                        Modification::Context { line, .. } => line.as_bytes(),
                    })
                    .is_err()
                })
            {
                return (bad(), vec![]);
            }
            let h = Hunk { header: Line::from(header), lines, old, new };
            match catch(|| h.to_unified_string()) {
                Err(msg) => Outcome::new("panic").tag("rt-encode-panic").violation("encode-panic", msg),
                Ok(Err(_)) => Outcome::new("encode-err").tag("rt-encode-err"),
                Ok(Ok(text)) => match catch(|| Hunk::<Modification>::parse(&text)) {
                    Err(msg) => Outcome::new(format!("{} panic", hex(text.as_bytes())))
                        .tag("rt-decode-panic")
                        .violation("decode-panic", msg),
                    Ok(Err(e)) => {
                        // Is the value a hunk as git produces them (the property's domain)? Then it must decode.
                        let o = Outcome::new(format!("{} err", hex(text.as_bytes()))).tag("rt-decode-err");
                        if well_formed(&h) {
                            o.violation("hunk-roundtrip", format!("well-formed hunk does not decode: {e}; text={text:?}"))
                        } else {
                            o
                        }
                    }
                    Ok(Ok(d)) => {
                        let mut o = Outcome::new(format!("{} ok:{}", hex(text.as_bytes()), show_hunk(&d))).tag("rt-ok");
                        if well_formed(&h) {
                            o = o.tag("rt-well-formed");
                            if d.lines != h.lines {
                                o = o.violation(
                                    "hunk-roundtrip",
                                    format!("lines differ after encode/decode: {:?} vs {:?}", h.lines, d.lines)
                                        .chars()
                                        .take(700)
                                        .collect::<String>(),
                                );
                            }
                            if d.header.as_bytes() != h.header.as_bytes() {
                                o = o.violation(
                                    "hunk-roundtrip",
                                    format!("headers differ: {:?} vs {:?}", h.header, d.header),
                                );
                            }
                        } else {
                            o.nontrivial = false;
                        }
                        o
                    }
                },
            }
        }
        ["diff", old, new] => {
            let (Some(old), Some(new)) = (parse_tree(old), parse_tree(new)) else { return (bad(), vec![]) };
            let (o, hunks) = run_diff(&old, &new);
            let derived = hunks.iter().take(4).map(rt_case).collect();
            return (o, derived);
        }
        _ => bad(),
    };
    (o, vec![])
}

fn run_case(input: &str) -> Outcome {
    run_case_full(input).0
}

/// Independent reading of a hunk header as git writes it: `@@ -a[,b] +c[,d] @@[ text]\n` with canonical
/// decimal numbers (no sign, no leading zeros, `,1` omitted) — does not use the code under test.
fn git_header(h: &[u8]) -> Option<(u32, u32, u32, u32)> {
    let s = std::str::from_utf8(h).ok()?;
    let s = s.strip_suffix('\n')?;
    if s.contains('\n') {
        return None;
    }
    let s = s.strip_prefix("@@ -")?;
    let (old, s) = s.split_once(" +")?;
    let (new, text) = s.split_once(" @@")?;
    if !(text.is_empty() || text.starts_with(' ')) {
        return None;
    }
    let num = |t: &str| -> Option<u32> {
        if t.is_empty() || !t.bytes().all(|b| b.is_ascii_digit()) || (t.len() > 1 && t.starts_with('0')) {
            return None;
        }
        t.parse().ok()
    };
    let range = |t: &str| -> Option<(u32, u32)> {
        match t.split_once(',') {
            None => Some((num(t)?, 1)),
            Some((a, b)) => {
                let (a, b) = (num(a)?, num(b)?);
                if b == 1 { None } else { Some((a, b)) }
            }
        }
    };
    let (a, b) = range(old)?;
    let (c, d) = range(new)?;
    Some((a, b, c, d))
}

/// A hunk as git produces them: header `@@ -a[,b] +c[,d] @@[ text]\n`, every line newline-terminated without
/// interior newline, counts and line numbers consistent with the header.
fn well_formed(h: &Hunk<Modification>) -> bool {
    let Some((old_no, old_size, new_no, new_size)) = git_header(h.header.as_bytes()) else { return false };
    if old_no as u64 + old_size as u64 + 1 >= 1 << 32 || new_no as u64 + new_size as u64 + 1 >= 1 << 32 {
        return false;
    }
    let (mut o, mut n) = (0u32, 0u32);
    for l in &h.lines {
        let (line, ok) = match l {
            Modification::Addition(a) => {
                let ok = a.line_no == new_no + n;
                n += 1;
                (a.line.as_bytes(), ok)
            }
            Modification::Deletion(d) => {
                let ok = d.line_no == old_no + o;
                o += 1;
                (d.line.as_bytes(), ok)
            }
            Modification::Context { line, line_no_old, line_no_new } => {
                let ok = *line_no_old == old_no + o && *line_no_new == new_no + n;
                o += 1;
                n += 1;
                (line.as_bytes(), ok)
            }
        };
        if !ok || !line.ends_with(b"\n") || line.iter().filter(|b| **b == b'\n').count() != 1 {
            return false;
        }
        if o > old_size || n > new_size {
            return false;
        }
    }
    o == old_size && n == new_size
}

// ---------------------------------------------------------------------------------------------
// generators

const WORDS: &[&str] = &[
    "fn main() {", "}", "let x = 1;", "", "  indented", "\tTab", "trailing  ", "trailing\t", "x \u{3000}", "\u{a0}", " ",
    "+plus", "-minus", "@@ -1 +1 @@", "diff --git a/x b/x", "--- a/x", "+++ b/x", "\\ No newline at end of file", "é界🍍",
    "cr\r", "a", "b", "c", "d", "e", "f", "g", "h", "same", "keep", "# comment", "    ", "index 0000000..1111111",
];

fn gen_line(rng: &mut Rng) -> String {
    if rng.chance(1, 6) {
        let n = rng.below(12);
        (0..n).map(|_| *rng.pick(&['a', ' ', '\t', 'z', '+', '-', '@', '界', '\r', '0'])).collect()
    } else {
        let w: &str = *rng.pick(WORDS);
        w.to_string()
    }
}

fn gen_file(rng: &mut Rng) -> Vec<String> {
    let n = rng.range(1, 14);
    (0..n).map(|_| gen_line(rng)).collect()
}

fn mutate_file(rng: &mut Rng, f: &[String]) -> Vec<String> {
    let mut f = f.to_vec();
    for _ in 0..rng.range(1, 3) {
        match rng.below(4) {
            0 if !f.is_empty() => {
                let i = rng.below(f.len() as u64) as usize;
                f[i] = gen_line(rng);
            }
            1 if f.len() > 1 => {
                let i = rng.below(f.len() as u64) as usize;
                f.remove(i);
            }
            2 if !f.is_empty() => {
                // change only the trailing whitespace of a line
                let i = rng.below(f.len() as u64) as usize;
                let t: &str = *rng.pick(&[" ", "\t", "  ", "\u{3000}", "\r"]);
                if f[i].ends_with(t) {
                    let n = f[i].len() - t.len();
                    f[i].truncate(n);
                } else {
                    f[i].push_str(t);
                }
            }
            _ => {
                let i = rng.below(f.len() as u64 + 1) as usize;
                f.insert(i, gen_line(rng));
            }
        }
    }
    if f.is_empty() {
        f.push(gen_line(rng));
    }
    f
}

fn content(lines: &[String]) -> Vec<u8> {
    let mut s = lines.join("\n");
    s.push('\n');
    s.into_bytes()
}

const NAMES: &[&str] = &["a.txt", "b.rs", "c", "dir/d.txt", "dir/sub/e.md", "README", "z.txt", "src/lib.rs"];

fn tree_token(t: &[(String, bool, Vec<u8>)]) -> String {
    if t.is_empty() {
        "-".into()
    } else {
        t.iter().map(|(n, x, c)| format!("{n}:{}:{}", if *x { "x" } else { "f" }, hex(c))).collect::<Vec<_>>().join(",")
    }
}

fn gen_diff(rng: &mut Rng) -> String {
    let mut names: Vec<&str> = NAMES.to_vec();
    let mut old: TreeSpec = vec![];
    let mut new: TreeSpec = vec![];
    let n = rng.range(1, 4);
    for _ in 0..n {
        if names.is_empty() {
            break;
        }
        let name = names.remove(rng.below(names.len() as u64) as usize).to_string();
        let f = gen_file(rng);
        let exec = rng.chance(1, 8);
        match rng.below(10) {
            0 | 1 => new.push((name, exec, content(&f))),       // added
            2 | 3 => old.push((name, exec, content(&f))),       // deleted
            4 => {
                // unchanged
                old.push((name.clone(), exec, content(&f)));
                new.push((name, exec, content(&f)));
            }
            5 if !names.is_empty() => {
                // renamed, sometimes with changes
                let to = names.remove(rng.below(names.len() as u64) as usize).to_string();
                let g = if rng.chance(1, 3) { mutate_file(rng, &f) } else { f.clone() };
                old.push((name, exec, content(&f)));
                new.push((to, exec, content(&g)));
            }
            6 => {
                // mode change, sometimes with content change
                let g = if rng.bool() { mutate_file(rng, &f) } else { f.clone() };
                old.push((name.clone(), exec, content(&f)));
                new.push((name, !exec, content(&g)));
            }
            _ => {
                // modified; long files give several hunks
                let mut f = f;
                if rng.chance(1, 3) {
                    for i in 0..rng.range(10, 30) {
                        f.push(format!("line {i}"));
                    }
                }
                let mut g = mutate_file(rng, &f);
                if rng.chance(1, 2) {
                    g = mutate_file(rng, &g);
                }
                old.push((name.clone(), exec, content(&f)));
                new.push((name, exec, content(&g)));
            }
        }
    }
    format!("diff {} {}", tree_token(&old), tree_token(&new))
}

fn gen_header_text(rng: &mut Rng) -> String {
    let no = |rng: &mut Rng| match rng.below(8) {
        0 => 0,
        1 => 1,
        2 => 4294967295u64,
        3 => 4294967296u64,
        _ => rng.below(500),
    };
    let range = |rng: &mut Rng| {
        let (a, b) = (no(rng), no(rng));
        match rng.below(6) {
            0 => format!("{a}"),
            1 => format!("+{a},{b}"),
            2 => format!("{a},"),
            3 => format!("{a},{b},{b}"),
            _ => format!("{a},{b}"),
        }
    };
    let text: &str = *rng.pick(&["", " fn main() {", " ", "  two", " @@ -1 +1 @@", " +x", " é界", "x", " trailing  "]);
    let mut s = format!("@@ -{} +{} @@{}\n", range(rng), range(rng), text);
    match rng.below(12) {
        0 => s = s.replacen("@@ -", "@@ ", 1),
        1 => s = s.replacen(" +", " ", 1),
        2 => s = s.replacen(" @@", " @", 1),
        3 => {
            s.pop();
        }
        4 => s.push_str("+following line\n"),
        5 => s = s.replacen(" +", "  +", 1),
        6 => s = s.replace('1', "x"),
        _ => {}
    }
    s
}

/// A hunk value; mostly as git would produce it.
fn gen_hunk_value(rng: &mut Rng) -> String {
    let (old_no, new_no) = (rng.below(60) as u32, rng.below(60) as u32);
    let n = rng.below(7);
    let mut lines = vec![];
    let (mut o, mut nn) = (0u32, 0u32);
    for _ in 0..n {
        let mut l = gen_line(rng).into_bytes();
        match rng.below(30) {
            0 => {}                        // no trailing newline (not well-formed)
            1 => l.extend(b"\n\n"),        // two newlines (not well-formed)
            2 => {
                l.extend(b"\nx\n");        // interior newline (not well-formed)
            }
            _ => l.push(b'\n'),
        }
        let skew = if rng.chance(1, 25) { 1 } else { 0 };
        match rng.below(3) {
            0 => {
                lines.push(Modification::addition(l, new_no + nn + skew));
                nn += 1;
            }
            1 => {
                lines.push(Modification::deletion(l, old_no + o + skew));
                o += 1;
            }
            _ => {
                lines.push(Modification::context(l, old_no + o + skew, new_no + nn));
                o += 1;
                nn += 1;
            }
        }
    }
    let (os, ns) = match rng.below(12) {
        0 => (o + 1, nn),
        1 => (o, nn + 1),
        2 if o > 0 => (o - 1, nn),
        _ => (o, nn),
    };
    let text: &str = *rng.pick(&["", "", " fn main() {", " é界", " trailing  ", "  ", " @@"]);
    let fmt = |a: u32, b: u32| if b == 1 { format!("{a}") } else { format!("{a},{b}") };
    let mut header = format!("@@ -{} +{} @@{}\n", fmt(old_no, os), fmt(new_no, ns), text);
    match rng.below(20) {
        0 => {
            header.pop();
        }
        1 => header = format!("@@ -{old_no},{os} +{new_no},{ns} @@{text}\n"), // non-canonical `,1`
        _ => {}
    }
    let h = Hunk { header: Line::from(header.into_bytes()), lines, old: old_no..old_no + os, new: new_no..new_no + ns };
    rt_case(&h)
}

fn damage_text(rng: &mut Rng, mut b: Vec<u8>) -> Vec<u8> {
    match rng.below(8) {
        0 | 1 | 2 => b,
        3 => {
            let n = rng.below(b.len() as u64 + 1) as usize;
            b.truncate(n);
            b
        }
        4 => {
            if !b.is_empty() {
                let i = rng.below(b.len() as u64) as usize;
                b[i] = *rng.pick(&[b'\n', b' ', b'+', b'-', b'@', b',', b'0', 0xff, b'x']);
            }
            b
        }
        5 => {
            if !b.is_empty() {
                let i = rng.below(b.len() as u64) as usize;
                b.remove(i);
            }
            b
        }
        6 => {
            let i = rng.below(b.len() as u64 + 1) as usize;
            let ins: &[u8] = *rng.pick(&[&b"\n"[..], b" ", b"+", b"-x\n", b"\xc3", b"@@"]);
            for (k, x) in ins.iter().enumerate() {
                b.insert(i + k, *x);
            }
            b
        }
        _ => {
            b.extend(b"+extra\n-more\n");
            b
        }
    }
}

fn main() {
    let mut ctx = Ctx::from_args("C30");
    let mut derived_seen = 0u64;
    let is_replay = {
        let (inputs, is_replay) = ctx.fixed_inputs();
        for i in inputs {
            let (o, derived) = run_case_full(&i);
            ctx.count("corpus-or-replay");
            ctx.record(&i, o);
            if !is_replay {
                for d in derived {
                    let o = run_case(&d);
                    ctx.count("derived-from-git-hunk");
                    ctx.record(&d, o);
                }
            }
        }
        is_replay
    };
    if !is_replay {
        let mut rng = ctx.rng();
        for _ in 0..ctx.size(1_000, 10_000) {
            let input = gen_diff(&mut rng);
            let (o, derived) = run_case_full(&input);
            ctx.record(&input, o);
            for d in derived {
                let o = run_case(&d);
                derived_seen += 1;
                ctx.count("derived-from-git-hunk");
                ctx.record(&d, o);
            }
        }
        for _ in 0..ctx.size(6_000, 120_000) {
            let input = match rng.below(10) {
                0..=2 => {
                    let t = gen_header_text(&mut rng).into_bytes();
                    format!("hdr {}", hex(&damage_text(&mut rng, t)))
                }
                3 | 4 => {
                    let ind: &str = *rng.pick(&["+", "-", " ", "+", "-", " ", "x", "", "\\"]);
                    let t = format!("{ind}{}\n", gen_line(&mut rng)).into_bytes();
                    format!("mod {}", hex(&damage_text(&mut rng, t)))
                }
                5 | 6 => gen_hunk_value(&mut rng),
                _ => {
                    // text of a hunk value, damaged, through the in-file decoder
                    let v = gen_hunk_value(&mut rng);
                    let o = run_case(&v);
                    let text = o.output.split(' ').next().unwrap_or("-").to_string();
                    let bytes = unhex(&text).unwrap_or_default();
                    format!("hunk {}", hex(&damage_text(&mut rng, bytes)))
                }
            };
            let o = run_case(&input);
            ctx.record(&input, o);
        }
    }
    ctx.note("hunks produced by git and re-checked at hunk level", derived_seen);
    ctx.finish(
        "diff: git (libgit2 diff_tree_to_tree + rename/copy detection) between two random trees of 1-4 newline-terminated \
         UTF-8 text files (added, deleted, unchanged, modified with 1-2 edit rounds, long files with several hunks, \
         renamed with or without changes, mode changes; lines with trailing spaces/tabs/U+3000/CR, lines that look like \
         diff syntax), real encode, real Diff::decode, compare files/kinds/hunks; every git hunk is re-run as an `rt` case \
         (real Hunk::encode + in-file Hunk::decode vs the model). hdr/mod/hunk: well-formed and damaged texts (truncation, \
         byte overwrite/removal/insertion incl. invalid UTF-8, extra lines; numbers 0, 1, 2^32-1, 2^32, `+` signs, missing \
         parts). rt: random hunk values, mostly well-formed, some with inconsistent counts/numbers or lines without/with \
         extra newlines. Non-trivial = a diff with at least one changed file / a well-formed hunk / any decode; distinct \
         by input text",
        false,
    );
}
