//! C14 — frame decoding is memory-bounded and chunking-independent.
//!
//! Runs the REAL `Deserializer<B, Frame<Message>>` (`radicle-node/src/deserializer.rs`, `wire/frame.rs`,
//! `wire/varint.rs`) on byte streams split into chunks, draining `deserialize_next` after every chunk as
//! `wire/protocol.rs` does.
//!
//! Case input (the same tokens the Lean driver reads): `<B> <stream hex> <cuts> <onion set> <flag>`
//!   * `B`     — inbox bound (one of 64, 1024, 4096, 2097152 = `MAX_INBOX_SIZE`);
//!   * `cuts`  — non-decreasing byte positions at which the stream is split into chunks (`-` = one chunk);
//!   * `onion set` — raw Tor addresses of the stream accepted by the real `OnionAddrV3::from_raw_bytes`
//!     (graph of the opaque function, recomputed and checked here);
//!   * `flag`  — `v`: the stream was produced by the real encoder from frames (oracle: must round-trip).
//! Output: `<groups> end=<more|err|full|panic:..> left=<n> a=<ok|over>`; `abort` if the process died.
//!
//! Every case runs in a persistent child process (`--worker`): an allocation failure aborts the process
//! (it is not a panic), and must be an observed outcome rather than a dead harness. A counting global
//! allocator records the largest single request made during each `deserialize_next`.

#[path = "../../c15/src/wiregen.rs"]
mod wiregen;

use std::alloc::{GlobalAlloc, Layout, System};
use std::cell::Cell;
use std::io::{BufRead, BufReader, Write};
use std::process::{Child, ChildStdin, ChildStdout, Command, Stdio};

use radicle_node::deserializer::Deserializer;
use radicle_node::service::message::Message;
use radicle_node::wire;
use radicle_node::wire::verif::{Control, Frame, FrameData, StreamId};
use radicle_node::Link;
use verif_common::*;

// ---------------------------------------------------------------------------------------------------
// counting allocator

thread_local! {
    static MEASURING: Cell<bool> = const { Cell::new(false) };
    static MAX_REQ: Cell<usize> = const { Cell::new(0) };
}

/// Requests above this size are refused while measuring (the process then aborts through
/// `handle_alloc_error`, deterministically, instead of depending on the overcommit policy of the OS).
const REFUSE_ABOVE: usize = 1 << 31;

fn note(size: usize) -> bool {
    let measuring = MEASURING.try_with(|m| m.get()).unwrap_or(false);
    if measuring {
        let _ = MAX_REQ.try_with(|m| m.set(m.get().max(size)));
        size <= REFUSE_ABOVE
    } else {
        true
    }
}

struct Tracking;

unsafe impl GlobalAlloc for Tracking {
    unsafe fn alloc(&self, l: Layout) -> *mut u8 {
        if note(l.size()) { System.alloc(l) } else { std::ptr::null_mut() }
    }
    unsafe fn alloc_zeroed(&self, l: Layout) -> *mut u8 {
        if note(l.size()) { System.alloc_zeroed(l) } else { std::ptr::null_mut() }
    }
    unsafe fn realloc(&self, p: *mut u8, l: Layout, new_size: usize) -> *mut u8 {
        if note(new_size) { System.realloc(p, l, new_size) } else { std::ptr::null_mut() }
    }
    unsafe fn dealloc(&self, p: *mut u8, l: Layout) {
        System.dealloc(p, l)
    }
}

#[global_allocator]
static ALLOC: Tracking = Tracking;

/// The bound of theorem `alloc_bounded`: `K + 2·received`, `K = 65536 + 32`.
const K: usize = 65536 + 32;

// ---------------------------------------------------------------------------------------------------
// running one case on the real code

struct Parsed {
    b: usize,
    stream: Vec<u8>,
    cuts: Vec<usize>,
    onions: String,
    valid: bool,
}

fn parse(input: &str) -> Option<Parsed> {
    let t: Vec<&str> = input.split(' ').collect();
    if t.len() != 5 {
        return None;
    }
    let b = t[0].parse().ok()?;
    let stream = unhex(t[1])?;
    let cuts: Vec<usize> =
        if t[2] == "-" { vec![] } else { t[2].split(',').map(|x| x.parse().ok()).collect::<Option<_>>()? };
    let mut pos = 0;
    for c in &cuts {
        if *c < pos || *c > stream.len() {
            return None;
        }
        pos = *c;
    }
    let valid = match t[4] {
        "v" => true,
        "-" => false,
        _ => return None,
    };
    Some(Parsed { b, stream, cuts, onions: t[3].to_string(), valid })
}

fn chunks<'a>(stream: &'a [u8], cuts: &[usize]) -> Vec<&'a [u8]> {
    let mut out = vec![];
    let mut pos = 0;
    for c in cuts {
        out.push(&stream[pos..*c]);
        pos = *c;
    }
    out.push(&stream[pos..]);
    out
}

fn show_frame(f: &Frame<Message>) -> String {
    let sid = u64::from(f.stream);
    match &f.data {
        FrameData::Control(Control::Open { stream }) => format!("c{sid}:o{}", u64::from(*stream)),
        FrameData::Control(Control::Close { stream }) => format!("c{sid}:x{}", u64::from(*stream)),
        FrameData::Control(Control::Eof { stream }) => format!("c{sid}:e{}", u64::from(*stream)),
        FrameData::Git(data) => format!("t{sid}:{}", wiregen::short(data)),
        FrameData::Gossip(msg) => match catch(|| wire::serialize(msg)) {
            Ok(b) => format!("g{sid}:{}", wiregen::short(&b)),
            Err(_) => format!("g{sid}:!"),
        },
    }
}

struct Fed {
    groups: Vec<Vec<Frame<Message>>>,
    end: String,
    left: usize,
    /// largest single allocation request over all `deserialize_next` calls, and the bytes received by then
    worst: Option<(usize, usize)>,
    reencoded: Vec<u8>,
}

/// Feed the chunks to a real `Deserializer<B, Frame>`, draining after each.
fn feed<const B: usize>(chunks: &[&[u8]]) -> Fed {
    let mut de = Deserializer::<B, Frame<Message>>::new(1024.min(B));
    let mut groups = vec![];
    let mut end = "more".to_string();
    let mut received = 0usize;
    let mut worst: Option<(usize, usize)> = None;
    'outer: for c in chunks {
        if de.input(c).is_err() {
            end = "full".into();
            break;
        }
        received += c.len();
        let mut group = vec![];
        loop {
            MAX_REQ.with(|m| m.set(0));
            MEASURING.with(|m| m.set(true));
            let r = catch(|| de.deserialize_next());
            MEASURING.with(|m| m.set(false));
            let req = MAX_REQ.with(|m| m.get());
            if req > K + 2 * received && worst.map(|(w, _)| req > w).unwrap_or(true) {
                worst = Some((req, received));
            }
            match r {
                Ok(Ok(Some(frame))) => group.push(frame),
                Ok(Ok(None)) => break,
                Ok(Err(_)) => {
                    end = "err".into();
                    groups.push(group);
                    break 'outer;
                }
                Err(msg) => {
                    end = format!("panic:{}", msg.replace(' ', "_"));
                    groups.push(group);
                    break 'outer;
                }
            }
        }
        groups.push(group);
    }
    let mut reencoded = vec![];
    for f in groups.iter().flatten() {
        match catch(|| f.to_bytes()) {
            Ok(b) => reencoded.extend_from_slice(&b),
            Err(_) => reencoded.push(0xff),
        }
    }
    Fed { groups, end, left: de.len(), worst, reencoded }
}

fn feed_b(b: usize, chunks: &[&[u8]]) -> Option<Fed> {
    match b {
        64 => Some(feed::<64>(chunks)),
        1024 => Some(feed::<1024>(chunks)),
        4096 => Some(feed::<4096>(chunks)),
        2097152 => Some(feed::<2097152>(chunks)),
        _ => None,
    }
}

/// Independent, minimal envelope parser for the oracle: if `buf` starts with a complete frame envelope
/// (version, stream id, then either a control message or a payload whose declared length is satisfied),
/// the length of that frame.
fn frame_len(buf: &[u8]) -> Option<usize> {
    fn varint(b: &[u8]) -> Option<(u64, usize)> {
        let first = *b.first()?;
        let n = 1usize << (first >> 6);
        if b.len() < n {
            return None;
        }
        let mut v = (first & 0x3f) as u64;
        for x in &b[1..n] {
            v = (v << 8) | *x as u64;
        }
        Some((v, n))
    }
    if buf.len() < 4 || buf[..4] != [b'r', b'a', b'd', 1] {
        return None;
    }
    let (sid, n) = varint(&buf[4..])?;
    let rest = &buf[4 + n..];
    match (sid >> 1) & 3 {
        0 => match rest.first() {
            Some(0..=2) => varint(&rest[1..]).map(|(_, m)| 4 + n + 1 + m),
            _ => None,
        },
        1 | 2 => match varint(rest) {
            Some((len, m)) if (rest.len() - m) as u64 >= len => Some(4 + n + m + len as usize),
            _ => None,
        },
        _ => None,
    }
}

fn envelope_complete(buf: &[u8]) -> bool {
    frame_len(buf).is_some()
}

/// The inbox clause, evaluated independently of the deserializer: does every chunk fit the inbox bound
/// together with the UNDECODED remainder it is appended to (bytes received so far minus the complete frame
/// envelopes in them)? Frame boundaries come from `frame_len`; after the first byte that does not start a
/// frame everything counts as undecoded.
fn fits_inbox(b: usize, stream: &[u8], chunks: &[&[u8]]) -> bool {
    let mut boundaries = vec![0usize];
    let mut pos = 0;
    while let Some(n) = frame_len(&stream[pos..]) {
        pos += n;
        boundaries.push(pos);
    }
    let mut received = 0usize;
    for c in chunks {
        let decoded = *boundaries.iter().filter(|x| **x <= received).last().unwrap_or(&0);
        if received - decoded + c.len() > b {
            return false;
        }
        received += c.len();
    }
    true
}

fn run_case_inproc(input: &str) -> Outcome {
    let Some(p) = parse(input) else { return Outcome::new("bad-case").trivial() };
    if wiregen::onion_token(&p.stream) != p.onions {
        return Outcome::new("bad-case").trivial();
    }
    let cs = chunks(&p.stream, &p.cuts);
    let Some(fed) = feed_b(p.b, &cs) else { return Outcome::new("bad-case").trivial() };

    let groups: Vec<String> = fed
        .groups
        .iter()
        .map(|g| if g.is_empty() { "-".to_string() } else { g.iter().map(show_frame).collect::<Vec<_>>().join(";") })
        .collect();
    let gs = if groups.is_empty() { "-".to_string() } else { groups.join("|") };
    let a = if fed.worst.is_some() { "over" } else { "ok" };
    let mut o = Outcome::new(format!("{gs} end={} left={} a={a}", fed.end, fed.left));

    // ---- oracle: the property statement on what the real code did ----
    if let Some((req, received)) = fed.worst {
        o = o.violation(
            "alloc-exceeds-received",
            format!("a single deserialize_next requested {req} bytes after only {received} bytes were received (bound {K} + 2*received)"),
        );
    }
    let n_frames: usize = fed.groups.iter().map(|g| g.len()).sum();
    let flat: Vec<String> = fed.groups.iter().flatten().map(show_frame).collect();
    // The inbox bound may only ever refuse a chunk because of UNDECODED bytes.
    let fits = fits_inbox(p.b, &p.stream, &cs);
    if fits && fed.end == "full" {
        o = o.violation(
            "inbox-bound-depends-on-chunking",
            format!(
                "input() refused a chunk (inbox {} bytes) although the undecoded remainder plus the chunk never exceeds it: \
                 already-decoded bytes are counted against the bound ({} chunks, {n_frames} frames delivered before)",
                p.b, cs.len()
            ),
        );
    }
    // Chunking independence: the outcome must be that of the same stream fed at once into a large inbox.
    if fits && (!p.cuts.is_empty() || p.b != BIG_B) && p.stream.len() <= BIG_B {
        let whole = feed::<BIG_B>(&[&p.stream[..]]);
        let wflat: Vec<String> = whole.groups.iter().flatten().map(show_frame).collect();
        let same_end = whole.end == fed.end && (fed.end != "more" || whole.left == fed.left);
        if wflat != flat || !same_end {
            o = o.violation(
                "chunking-dependent",
                format!(
                    "fed at once: {} frames end={} left={}; fed in {} chunks (inbox {}): {} frames end={} left={}",
                    wflat.len(), whole.end, whole.left, cs.len(), p.b, flat.len(), fed.end, fed.left
                ),
            );
        }
    }
    if p.valid && fits {
        if fed.end != "more" || fed.left != 0 || fed.reencoded != p.stream {
            o = o.violation(
                "valid-stream-not-reproduced",
                format!("encoder-produced stream gave {n_frames} frames end={} left={} (re-encoding equal: {})",
                    fed.end, fed.left, fed.reencoded == p.stream),
            );
        }
    }
    if fed.end == "more" && fed.left > 0 {
        let leftover = &p.stream[p.stream.len() - fed.left..];
        if envelope_complete(leftover) {
            o = o.violation(
                "complete-frame-reported-incomplete",
                format!("{} unparsed bytes start with a complete frame envelope, but deserialize_next returned None", fed.left),
            );
        }
    }

    // ---- distribution ----
    o = o.tag(format!("end-{}", fed.end.split(':').next().unwrap()));
    o = o.tag(match n_frames { 0 => "frames-0", 1 => "frames-1", 2..=4 => "frames-2-4", _ => "frames-5+" });
    for f in fed.groups.iter().flatten() {
        o = o.tag(match &f.data {
            FrameData::Control(_) => "frame-control".to_string(),
            FrameData::Git(_) => "frame-git".to_string(),
            FrameData::Gossip(m) => format!("frame-gossip-{}", wiregen::kind_name(m)),
        });
    }
    o = o.tag(match cs.len() { 1 => "chunks-1", 2 => "chunks-2", 3..=8 => "chunks-3-8", _ => "chunks-9+" });
    if fed.end == "more" && fed.left > 0 {
        o = o.tag("left-incomplete-tail");
    }
    o = o.tag(if fits { "fits-inbox" } else { "exceeds-inbox" });
    o = o.tag(format!("inbox-{}", p.b));
    o.tags.sort();
    o.tags.dedup();
    o.nontrivial = n_frames > 0 || fed.end != "more" || fed.left > 0;
    o
}

// ---------------------------------------------------------------------------------------------------
// child worker

fn worker() {
    let stdin = std::io::stdin();
    let mut out = std::io::stdout();
    for line in stdin.lock().lines() {
        let Ok(line) = line else { break };
        let o = run_case_inproc(&line);
        let viol: Vec<String> = o.violations.iter().map(|(c, m)| format!("{c}\x1f{}", m.replace(['\t', '\n'], " "))).collect();
        writeln!(out, "{}\t{}\t{}\t{}", o.output, o.nontrivial as u8, o.tags.join(","), viol.join("\x1e")).unwrap();
        out.flush().unwrap();
    }
}

struct Worker {
    child: Child,
    stdin: ChildStdin,
    stdout: BufReader<ChildStdout>,
}

impl Worker {
    fn spawn() -> Worker {
        let exe = std::env::current_exe().expect("current_exe");
        let mut child = Command::new(exe)
            .arg("--worker")
            .stdin(Stdio::piped())
            .stdout(Stdio::piped())
            .stderr(Stdio::null())
            .spawn()
            .expect("spawn worker");
        let stdin = child.stdin.take().unwrap();
        let stdout = BufReader::new(child.stdout.take().unwrap());
        Worker { child, stdin, stdout }
    }
}

struct Pool {
    w: Option<Worker>,
}

impl Pool {
    fn run(&mut self, input: &str) -> Outcome {
        if self.w.is_none() {
            self.w = Some(Worker::spawn());
        }
        let w = self.w.as_mut().unwrap();
        let sent = writeln!(w.stdin, "{input}").and_then(|_| w.stdin.flush());
        let mut line = String::new();
        let got = if sent.is_ok() { w.stdout.read_line(&mut line).unwrap_or(0) } else { 0 };
        if got == 0 || !line.ends_with('\n') {
            // the worker died while running the case
            let mut w = self.w.take().unwrap();
            let status = w.child.wait().map(|s| format!("{s}")).unwrap_or_else(|_| "?".into());
            return Outcome::new("abort")
                .tag("process-abort")
                .violation("decoder-abort", format!("the process died while decoding ({status}): allocation failure / abort"));
        }
        let f: Vec<&str> = line.trim_end_matches('\n').split('\t').collect();
        let mut o = Outcome::new(f[0]);
        o.nontrivial = f.get(1) == Some(&"1");
        if let Some(t) = f.get(2) {
            o.tags = t.split(',').filter(|x| !x.is_empty()).map(|x| x.to_string()).collect();
        }
        if let Some(v) = f.get(3) {
            for item in v.split('\x1e').filter(|x| !x.is_empty()) {
                let mut it = item.splitn(2, '\x1f');
                let c = it.next().unwrap_or("").to_string();
                let m = it.next().unwrap_or("").to_string();
                o.violations.push((c, m));
            }
        }
        o
    }
}

// ---------------------------------------------------------------------------------------------------
// generation

const BIG_B: usize = 2097152;

fn varint_bytes(v: u64, width: usize) -> Vec<u8> {
    // explicit width (possibly non-minimal): tag in the two top bits
    let tag = match width { 1 => 0u8, 2 => 1, 4 => 2, _ => 3 };
    let mut b: Vec<u8> = (0..width).rev().map(|i| (v >> (8 * i)) as u8).collect();
    b[0] = (b[0] & 0x3f) | (tag << 6);
    b
}

fn min_width(v: u64) -> usize {
    if v < 1 << 6 { 1 } else if v < 1 << 14 { 2 } else if v < 1 << 30 { 4 } else { 8 }
}

fn header(sid: u64) -> Vec<u8> {
    let mut b = vec![b'r', b'a', b'd', 1];
    b.extend(varint_bytes(sid, min_width(sid)));
    b
}

fn stream_id(rng: &mut Rng, kind: u64) -> StreamId {
    let link = if rng.bool() { Link::Inbound } else { Link::Outbound };
    let base = match kind {
        0 => StreamId::control(link),
        1 => StreamId::gossip(link),
        _ => StreamId::git(link),
    };
    let n = match rng.below(6) {
        0 => 0,
        1 => 7,                         // 1-byte / 2-byte varint boundary for the id
        2 => 8,
        3 => 2047,
        4 => rng.below(1 << 27),
        _ => (1u64 << 59) - 1,          // largest id: 2^62 - 8 + kind bits
    };
    base.nth(n).expect("below 2^62")
}

fn gen_frame(rng: &mut Rng, big: bool) -> Frame<Message> {
    match rng.below(10) {
        0..=2 => {
            let link = if rng.bool() { Link::Inbound } else { Link::Outbound };
            let s = stream_id(rng, 2);
            let ctrl = match rng.below(3) {
                0 => Control::Open { stream: s },
                1 => Control::Close { stream: s },
                _ => Control::Eof { stream: s },
            };
            Frame::control(link, ctrl)
        }
        3..=5 => {
            let n = match rng.below(8) {
                0 => 0,
                1 => 63,
                2 => 64,
                3 if big => 16383,
                4 if big => 16384,
                5 if big => 70000,
                _ => rng.below(40) as usize,
            };
            let data = rng.bytes(n);
            Frame::git(stream_id(rng, 2), data)
        }
        _ => {
            let link = if rng.bool() { Link::Inbound } else { Link::Outbound };
            let m = wiregen::message(rng, big);
            Frame::gossip(link, m)
        }
    }
}

fn random_cuts(rng: &mut Rng, len: usize) -> Vec<usize> {
    let mut cuts: Vec<usize> = match rng.below(6) {
        0 => vec![],
        1 => vec![rng.below(len as u64 + 1) as usize],
        2 if len <= 300 => (1..len).collect(),                  // one byte at a time
        3 => {
            let step = rng.range(1, 97) as usize;
            (1..).map(|i| i * step).take_while(|c| *c < len).collect()
        }
        _ => (0..rng.range(2, 8)).map(|_| rng.below(len as u64 + 1) as usize).collect(),
    };
    cuts.sort();
    if cuts.len() > 400 {
        cuts.truncate(400);
    }
    cuts
}

fn case_text(b: usize, stream: &[u8], cuts: &[usize], valid: bool) -> String {
    let cuts_s = if cuts.is_empty() { "-".to_string() } else { cuts.iter().map(|c| c.to_string()).collect::<Vec<_>>().join(",") };
    format!("{b} {} {cuts_s} {} {}", hex(stream), wiregen::onion_token(stream), if valid { "v" } else { "-" })
}

/// A stream for the inbox-bound clause: 1-8 small frames, one git frame of 0.5-0.9 x `b`, 0-3 small frames.
/// Returns the stream and the frame lengths.
fn inbox_stream(rng: &mut Rng, b: usize) -> (Vec<u8>, Vec<usize>) {
    let small = |rng: &mut Rng| -> Frame<Message> {
        match rng.below(3) {
            0 => Frame::control(Link::Outbound, Control::Open { stream: stream_id(rng, 2) }),
            1 => {
                let n = rng.below(120) as usize;
                Frame::git(stream_id(rng, 2), rng.bytes(n))
            }
            _ => {
                let kind = 4 + rng.below(3);
                Frame::gossip(Link::Inbound, wiregen::message_of_kind(rng, kind, false))
            }
        }
    };
    let mut frames = vec![];
    for _ in 0..rng.range(1, 8) {
        frames.push(small(rng));
    }
    let big = rng.range(b as u64 / 2, b as u64 * 9 / 10) as usize;
    frames.push(Frame::git(stream_id(rng, 2), rng.bytes(big)));
    for _ in 0..rng.below(4) {
        frames.push(small(rng));
    }
    let encs: Vec<Vec<u8>> = frames.iter().map(|f| f.to_bytes()).collect();
    let lens = encs.iter().map(|e| e.len()).collect();
    (encs.concat(), lens)
}

/// Cut positions such that every chunk fits `b` together with the undecoded remainder — mostly as large as
/// that allows, so that decoded-prefix + remainder + chunk exceeds `b` whenever the prefix is kept around.
fn fitting_cuts(rng: &mut Rng, b: usize, lens: &[usize]) -> Vec<usize> {
    let total: usize = lens.iter().sum();
    let mut bounds = vec![0usize];
    for l in lens {
        bounds.push(bounds.last().unwrap() + l);
    }
    let mut cuts = vec![];
    let mut pos = 0usize;
    while pos < total {
        let decoded = *bounds.iter().filter(|x| **x <= pos).last().unwrap();
        let room = b - (pos - decoded);
        let n = match rng.below(4) {
            0 => rng.range(1, room as u64) as usize,
            1 => room.saturating_sub(rng.below(3) as usize).max(1),
            _ => room,
        };
        pos = (pos + n).min(total);
        if pos < total {
            cuts.push(pos);
        }
    }
    cuts
}

fn gen_case(rng: &mut Rng) -> (String, &'static str) {
    let big = rng.chance(1, 12);
    let n = rng.range(1, 4);
    let frames: Vec<Frame<Message>> = (0..n).map(|_| gen_frame(rng, big)).collect();
    let valid_stream: Vec<u8> = frames.iter().flat_map(|f| f.to_bytes()).collect();
    match rng.below(20) {
        // valid sequences, arbitrary chunking
        0..=6 => {
            let cuts = random_cuts(rng, valid_stream.len());
            (case_text(BIG_B, &valid_stream, &cuts, true), "gen-valid")
        }
        // truncated tail
        7..=8 => {
            let cut = rng.below(valid_stream.len() as u64) as usize;
            let s = &valid_stream[..cut];
            let cuts = random_cuts(rng, s.len());
            (case_text(BIG_B, s, &cuts, false), "gen-truncated")
        }
        // huge / boundary declared lengths with few bytes behind them
        9..=10 => {
            let kind = if rng.bool() { 1 } else { 2 };
            let mut s = header(u64::from(stream_id(rng, kind)));
            let declared = *rng.pick(&[
                0u64, 1, 63, 64, 16383, 16384, (1 << 30) - 1, 1 << 30, (1 << 31) + 5, 1 << 40, (1 << 62) - 1,
            ]);
            let width = *rng.pick(&[min_width(declared), 8]);
            s.extend(varint_bytes(declared, width));
            let have = rng.below(80) as usize;
            s.extend(rng.bytes(have));
            let cuts = random_cuts(rng, s.len());
            (case_text(BIG_B, &s, &cuts, false), "gen-declared-length")
        }
        // complete gossip frame with a truncated (or over-long) inner message, valid frames behind it
        11..=13 => {
            let m = wiregen::message(rng, false);
            let payload = wire::serialize(&m);
            let mut inner = payload.clone();
            let tag;
            if rng.chance(2, 3) {
                inner.truncate(rng.below(payload.len() as u64) as usize);
                tag = "gen-inner-truncated";
            } else {
                let extra = rng.range(1, 9) as usize;
                inner.extend(rng.bytes(extra));
                tag = "gen-inner-overlong";
            }
            let mut s = header(u64::from(stream_id(rng, 1)));
            s.extend(varint_bytes(inner.len() as u64, min_width(inner.len() as u64)));
            s.extend(&inner);
            s.extend(&valid_stream);
            let cuts = random_cuts(rng, s.len());
            (case_text(BIG_B, &s, &cuts, false), tag)
        }
        // byte mutations of a valid stream
        14..=16 => {
            let mut s = valid_stream.clone();
            for _ in 0..rng.range(1, 3) {
                let i = rng.below(s.len() as u64) as usize;
                match rng.below(3) {
                    0 => s[i] ^= 1 << rng.below(8),
                    1 => s[i] = rng.next() as u8,
                    _ => { s.insert(i, rng.next() as u8); }
                }
            }
            let cuts = random_cuts(rng, s.len());
            (case_text(BIG_B, &s, &cuts, false), "gen-mutated")
        }
        // malformed headers: version, stream kind 3, unknown control command, non-minimal varints
        17..=18 => {
            let mut s = vec![];
            match rng.below(4) {
                0 => { s.extend([b'r', b'a', b'd', rng.below(4) as u8]); s.extend(varint_bytes(2, 1)); s.push(0); }
                1 => { s.extend(header(6 + 8 * rng.below(100))); s.extend(rng.bytes(3)); }
                2 => { s.extend(header(rng.below(2))); s.push(rng.range(3, 255) as u8); s.extend(rng.bytes(2)); }
                _ => {
                    // non-minimal stream id and length
                    s.extend([b'r', b'a', b'd', 1]);
                    s.extend(varint_bytes(4 + rng.below(2), *rng.pick(&[2, 4, 8])));
                    let dn = rng.below(10) as usize;
                    let data = rng.bytes(dn);
                    s.extend(varint_bytes(data.len() as u64, *rng.pick(&[2, 4, 8])));
                    s.extend(&data);
                }
            }
            s.extend(&valid_stream);
            let cuts = random_cuts(rng, s.len());
            (case_text(BIG_B, &s, &cuts, false), "gen-malformed-header")
        }
        // inbox bound: small frames, then one frame of 0.5-0.9 x the bound, delivered in chunks that are as large
        // as the bound allows given the undecoded remainder (the bound must not count decoded bytes)
        19 if rng.chance(2, 3) => {
            let b = *rng.pick(&[1024usize, 1024, 4096]);
            let (stream, lens) = inbox_stream(rng, b);
            let cuts = fitting_cuts(rng, b, &lens);
            (case_text(b, &stream, &cuts, true), "gen-inbox-fit")
        }
        // small inbox
        _ => {
            let b = *rng.pick(&[64usize, 4096]);
            let cuts = random_cuts(rng, valid_stream.len());
            let fits = valid_stream.len() <= b;
            (case_text(b, &valid_stream, &cuts, fits), "gen-small-inbox")
        }
    }
}

/// Fixed small frame sequences for the exhaustive split enumeration.
fn fixed_sequences() -> Vec<Vec<u8>> {
    let mut rng = Rng::new(0xC14);
    let ping = |z: u16| Message::Ping(radicle_node::service::message::Ping {
        ponglen: 7,
        zeroes: radicle_node::service::message::ZeroBytes::new(z),
    });
    let g = StreamId::git(Link::Outbound);
    let seqs: Vec<Vec<Frame<Message>>> = vec![
        vec![Frame::control(Link::Outbound, Control::Open { stream: g })],
        vec![Frame::git(g, vec![1, 2, 3]), Frame::control(Link::Inbound, Control::Eof { stream: g })],
        vec![
            Frame::control(Link::Outbound, Control::Open { stream: g.nth(70000).unwrap() }),
            Frame::gossip(Link::Inbound, ping(3)),
            Frame::git(g, vec![]),
            Frame::control(Link::Outbound, Control::Close { stream: g }),
        ],
        vec![Frame::gossip(Link::Outbound, wiregen::message_of_kind(&mut rng, 4, false)), Frame::git(g, vec![0xab; 70])],
        vec![Frame::gossip(Link::Inbound, wiregen::message_of_kind(&mut rng, 1, false))],
    ];
    seqs.iter().map(|fs| fs.iter().flat_map(|f| f.to_bytes()).collect()).collect()
}

fn main() {
    if std::env::args().any(|a| a == "--worker") {
        worker();
        return;
    }
    let mut ctx = Ctx::from_args("C14");
    let mut pool = Pool { w: None };
    let mut exhaustive_splits = 0u64;
    if !ctx.run_fixed(|i| pool.run(i)) {
        // every split point of fixed sequences (two chunks), and every pair for the shortest ones
        for (k, s) in fixed_sequences().iter().enumerate() {
            for c in 0..=s.len() {
                let input = case_text(BIG_B, s, &[c], true);
                let o = pool.run(&input);
                ctx.count("gen-exhaustive-split");
                exhaustive_splits += 1;
                ctx.record(&input, o);
            }
            if s.len() <= 40 || (!ctx.quick() && k < 4) {
                for c1 in 0..=s.len() {
                    for c2 in c1..=s.len() {
                        let input = case_text(BIG_B, s, &[c1, c2], true);
                        let o = pool.run(&input);
                        ctx.count("gen-exhaustive-split2");
                        exhaustive_splits += 1;
                        ctx.record(&input, o);
                    }
                }
            }
        }
        // the inbox clause: a fixed stream (3 small frames = 171 bytes, an 850-byte git frame, 1 small frame: 1035 bytes) with B = 1024,
        // every split into two chunks, and every split into three with the first cut inside the big frame
        {
            let g = StreamId::git(Link::Outbound);
            let frames: Vec<Frame<Message>> = vec![
                Frame::control(Link::Outbound, Control::Open { stream: g }),
                Frame::git(g, vec![7; 150]),
                Frame::control(Link::Inbound, Control::Eof { stream: g }),
                Frame::git(g, vec![9; 850]),
                Frame::control(Link::Outbound, Control::Close { stream: g }),
            ];
            let s: Vec<u8> = frames.iter().flat_map(|f| f.to_bytes()).collect();
            for c in 0..=s.len() {
                let input = case_text(1024, &s, &[c], true);
                let o = pool.run(&input);
                ctx.count("gen-exhaustive-inbox");
                exhaustive_splits += 1;
                ctx.record(&input, o);
            }
            let step = if ctx.quick() { 37 } else { 5 };
            for c1 in (50..s.len()).step_by(step) {
                for c2 in (c1..=s.len()).step_by(step) {
                    let input = case_text(1024, &s, &[c1, c2], true);
                    let o = pool.run(&input);
                    ctx.count("gen-exhaustive-inbox");
                    exhaustive_splits += 1;
                    ctx.record(&input, o);
                }
            }
        }
        // every varint width and boundary value as a declared length, with 0..=2 bytes behind it
        for kind in [1u64, 2] {
            for declared in [0u64, 1, 63, 64, 16383, 16384, (1 << 30) - 1, 1 << 30, (1 << 32) + 1, (1 << 62) - 1] {
                for width in [1usize, 2, 4, 8] {
                    if width < min_width(declared) {
                        continue;
                    }
                    for have in 0..3usize {
                        let mut s = header(if kind == 1 { 3 } else { 5 });
                        s.extend(varint_bytes(declared, width));
                        s.extend(std::iter::repeat(0xaa).take(have));
                        let input = case_text(BIG_B, &s, &[], false);
                        let o = pool.run(&input);
                        ctx.count("gen-exhaustive-declared");
                        ctx.record(&input, o);
                    }
                }
            }
        }
        let mut rng = ctx.rng();
        for _ in 0..ctx.size(4_000, 100_000) {
            let (input, tag) = gen_case(&mut rng);
            let o = pool.run(&input);
            ctx.count(tag);
            ctx.record(&input, o);
        }
    }
    ctx.note("exhaustive_split_cases", exhaustive_splits);
    ctx.note("alloc_bound", format!("largest single request during each deserialize_next <= {K} + 2*received"));
    ctx.finish(
        "byte streams fed to the real Deserializer<B, Frame<Message>> in chunks: (1) every split point (and every pair of \
         split points of the short ones) of fixed frame sequences of 1-4 frames; (2) every varint width x boundary value \
         as declared payload length with 0-2 bytes present; (3) random sequences of 1-4 control/git/gossip frames built \
         from the repo's types (stream ids and payload sizes at the varint boundaries, messages of every type), fed whole, \
         byte-by-byte, in fixed steps or at random cuts; truncated; with a complete envelope around a truncated or \
         over-long message followed by valid frames; byte-mutated; malformed headers; small inboxes; (4) inbox-bound shapes: small frames followed by a frame of 0.5-0.9 x the bound \
         (B = 1024 / 4096), every 2-chunk split and a grid of 3-chunk splits of a fixed one, random chunkings that fill the inbox as far \
         as the undecoded remainder allows. \
         non-trivial = at least one frame decoded, or an error, or an incomplete tail left; distinct by input text",
        false,
    );
}
