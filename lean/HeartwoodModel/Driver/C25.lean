import HeartwoodModel.Model.Sync
import HeartwoodModel.Driver.Util
/-! Driver entry for C25.

Announcer case: `A <me> <repl> <preferred> <synced> <unsynced> <ops>`
Fetcher case:   `F <me> <repl> <seeds> <extra> <ops>`

* `repl`: `m<n>` = `ReplicationFactor::must_reach(n)`, `r<lo>-<hi>` = `ReplicationFactor::range(lo, hi)`.
* sets (`preferred`, `synced`, `unsynced`, `seeds`): strictly ascending naturals, `-` = empty.
  `extra` (fetcher `with_candidates`): any list of naturals.
* announcer ops: `s<n>` synced_with, `q` to_sync, `c` can_continue, `t` timed_out.
* fetcher ops: `n` next_node, `r<k>` ready_to_fetch, `f` next_fetch, `x<k>` fetch_failed,
  `o<k>` / `e<k>` fetch_complete with a successful / failed result, `z` finish.
Output: `new:<error>` or `ok` followed by `;<answer>` per op; a terminal op (`t`, `z`, `c` answering
`NoNodes`) ends the run. -/
namespace HeartwoodModel.Driver.C25
open HeartwoodModel.Sync HeartwoodModel.Driver.Util

def insertSorted (x : Nat) : List Nat → List Nat
  | [] => [x]
  | y :: ys => if x ≤ y then x :: y :: ys else y :: insertSorted x ys

def sortNats (xs : List Nat) : List Nat := xs.foldr insertSorted []

def showSet (xs : List Nat) : String := showNats (sortNats xs)

def ascending : List Nat → Bool
  | [] => true
  | [_] => true
  | x :: y :: rest => x < y && ascending (y :: rest)

def set? (s : String) : Option (List Nat) :=
  match nats? s with
  | some xs => if ascending xs then some xs else none
  | none => none

def repl? (s : String) : Option Repl :=
  if s.startsWith "m" then (nat? (s.drop 1).toString).map Repl.mustReach
  else if s.startsWith "r" then
    match splitOn (s.drop 1).toString '-' with
    | [lo, hi] => do
      let lo ← nat? lo
      let hi ← nat? hi
      some (Repl.mkRange lo hi)
    | _ => none
  else none

def showAnnOutcome : AnnOutcome → String
  | .minRepl p s => s!"min:{p}/{s}"
  | .maxRepl p s => s!"max:{p}/{s}"

def annOps (a : Ann) : List String → List String → Option (List String)
  | [], acc => some acc.reverse
  | op :: rest, acc =>
    if op == "q" then annOps a rest (s!"Q{showSet a.toSyncOut}" :: acc)
    else if op == "c" then
      match a.canContinue with
      | some (.noNodes synced) => some ((s!"N{showSet synced}" :: acc).reverse)
      | some _ => none
      | none => annOps a rest ("K" :: acc)
    else if op == "t" then
      match a.timedOut with
      | .success o synced => some ((s!"S{showAnnOutcome o}:{showSet synced}" :: acc).reverse)
      | .timedOut synced timedOut => some ((s!"T{showSet synced}|{showSet timedOut}" :: acc).reverse)
      | .noNodes _ => none
    else if op.startsWith "s" then
      match nat? (op.drop 1).toString with
      | some n =>
        match a.syncedWith n with
        | (a', .cont p s) => annOps a' rest (s!"C{p}/{s}" :: acc)
        | (a', .brk o) => annOps a' rest (s!"B{showAnnOutcome o}" :: acc)
      | none => none
    else none

def showFetOutcome : FetOutcome → String
  | .preferredNodes p => s!"pref{p}"
  | .minReplicas s => s!"min{s}"
  | .maxReplicas s mn mx => s!"max{s}/{mn}/{mx}"

def showOpt : Option Nat → String
  | some n => toString n
  | none => "-"

def fetOps (f : Fet) : List String → List String → Option (List String)
  | [], acc => some acc.reverse
  | op :: rest, acc =>
    if op == "n" then
      let (f', r) := f.nextNode
      fetOps f' rest (s!"n{showOpt r}" :: acc)
    else if op == "f" then
      let (f', r) := f.nextFetch
      fetOps f' rest (s!"f{showOpt r}" :: acc)
    else if op == "z" then
      match f.finish with
      | .targetReached o p s => some ((s!"R{showFetOutcome o}:{p}/{s}" :: acc).reverse)
      | .targetError missing req p s => some ((s!"E{showSet missing}:{req}:{p}/{s}" :: acc).reverse)
    else
      match nat? (op.drop 1).toString with
      | none => none
      | some k =>
        if op.startsWith "r" then fetOps (f.readyToFetch k) rest ("r" :: acc)
        else if op.startsWith "x" then fetOps (f.fetchFailed k) rest ("x" :: acc)
        else if op.startsWith "o" || op.startsWith "e" then
          match f.fetchComplete k (op.startsWith "o") with
          | (f', .cont p s) => fetOps f' rest (s!"C{p}/{s}" :: acc)
          | (f', .brk o p s) => fetOps f' rest (s!"B{showFetOutcome o}:{p}/{s}" :: acc)
        else none

def ops? (s : String) : List String := if s == "-" then [] else splitOn s ','

def run (args : List String) : String :=
  match args with
  | ["A", me, repl, pref, synced, unsynced, ops] =>
    match nat? me, repl? repl, set? pref, set? synced, set? unsynced with
    | some me, some repl, some pref, some synced, some unsynced =>
      match Ann.new { me, repl, preferred := pref, synced, unsynced } with
      | .error .noSeeds => "new:noSeeds"
      | .error (.alreadySynced p s) => s!"new:already:{p}/{s}"
      | .error .target => "new:target"
      | .ok a =>
        match annOps a (ops? ops) [] with
        | some outs => joinWith ";" ("ok" :: outs)
        | none => "bad-op"
    | _, _, _, _, _ => "bad-op"
  | ["F", me, repl, seeds, extra, ops] =>
    match nat? me, repl? repl, set? seeds, nats? extra with
    | some me, some repl, some seeds, some extra =>
      match Fet.new ((FetCfg.public seeds repl me).withCandidates extra) with
      | .error .noCandidates => "new:noCandidates"
      | .error .target => "new:target"
      | .ok f =>
        match fetOps f (ops? ops) [] with
        | some outs => joinWith ";" ("ok" :: outs)
        | none => "bad-op"
    | _, _, _, _ => "bad-op"
  | _ => "bad-op"

end HeartwoodModel.Driver.C25
