import HeartwoodModel.Model.Fetch
/-!
Helper lemmas about `Model/Fetch.lean` used by the property theorems of C01 and C02:
reference databases, `repository::update` (frame and last-writer lemmas), the sorted maps, the validation
loop.
-/
set_option linter.unusedSimpArgs false
set_option linter.unusedVariables false
namespace HeartwoodModel.Fetch

/-! ### Reference databases -/

theorem Refdb.get_cons (r' : Ref) (o : Oid) (db : Refdb) (r : Ref) :
    Refdb.get ((r', o) :: db) r = if r' = r then some o else Refdb.get db r := rfl

theorem Refdb.get_filter_keep (p : Ref × Oid → Bool) (db : Refdb) (r : Ref)
    (h : ∀ o, p (r, o) = true) : Refdb.get (List.filter p db) r = Refdb.get db r := by
  induction db with
  | nil => rfl
  | cons e db ih =>
    obtain ⟨r', o⟩ := e
    rw [List.filter_cons]
    by_cases h2 : r' = r
    · subst h2
      rw [if_pos (h o)]
      simp [Refdb.get_cons]
    · cases hp : p (r', o)
      · rw [if_neg (by simp)]
        rw [ih, Refdb.get_cons, if_neg h2]
      · rw [if_pos rfl, Refdb.get_cons, if_neg h2, Refdb.get_cons, if_neg h2, ih]

theorem Refdb.get_filter_drop (p : Ref × Oid → Bool) (db : Refdb) (r : Ref)
    (h : ∀ o, p (r, o) = false) : Refdb.get (List.filter p db) r = none := by
  induction db with
  | nil => rfl
  | cons e db ih =>
    obtain ⟨r', o⟩ := e
    rw [List.filter_cons]
    by_cases h2 : r' = r
    · subst h2
      rw [if_neg (by simp [h o])]
      exact ih
    · cases hp : p (r', o)
      · rw [if_neg (by simp)]
        exact ih
      · rw [if_pos rfl, Refdb.get_cons, if_neg h2]
        exact ih

theorem Refdb.get_del_same (db : Refdb) (r : Ref) : (Refdb.del db r).get r = none :=
  Refdb.get_filter_drop _ db r (by intro o; simp)

theorem Refdb.get_del_ne (db : Refdb) {r r' : Ref} (h : r' ≠ r) : (Refdb.del db r).get r' = db.get r' :=
  Refdb.get_filter_keep _ db r' (by intro o; simp [h])

theorem Refdb.get_set_same (db : Refdb) (r : Ref) (o : Oid) : (Refdb.set db r o).get r = some o := by
  simp [Refdb.set, Refdb.get_cons]

theorem Refdb.get_set_ne (db : Refdb) {r r' : Ref} (o : Oid) (h : r' ≠ r) :
    (Refdb.set db r o).get r' = db.get r' := by
  have : ¬ r = r' := fun e => h e.symm
  simp [Refdb.set, Refdb.get_cons, this, Refdb.get_del_ne db h]

theorem Refdb.mem_of_get {db : Refdb} {r : Ref} {o : Oid} (h : db.get r = some o) : (r, o) ∈ db := by
  induction db with
  | nil => simp [Refdb.get] at h
  | cons e db ih =>
    obtain ⟨r', o'⟩ := e
    rw [Refdb.get_cons] at h
    by_cases h2 : r' = r
    · simp [h2] at h; subst h2; subst h; simp
    · simp [h2] at h; exact List.mem_cons_of_mem _ (ih h)

theorem Refdb.get_isSome_of_mem {db : Refdb} {r : Ref} {o : Oid} (h : (r, o) ∈ db) : (db.get r).isSome := by
  induction db with
  | nil => simp at h
  | cons e db ih =>
    obtain ⟨r', o'⟩ := e
    rw [Refdb.get_cons]
    by_cases h2 : r' = r
    · simp [h2]
    · simp only [h2, if_false]
      rcases List.mem_cons.mp h with h3 | h3
      · injection h3 with h4 _; exact absurd h4.symm h2
      · exact ih h3

theorem Refdb.mem_refsOf {db : Refdb} {k : Key} {n : Name} {o : Oid} :
    (n, o) ∈ db.refsOf k ↔ ((k, n), o) ∈ db := by
  unfold Refdb.refsOf
  rw [List.mem_filterMap]
  constructor
  · rintro ⟨⟨⟨k', n'⟩, o'⟩, hm, he⟩
    by_cases hk : k' = k
    · simp [hk] at he; obtain ⟨rfl, rfl⟩ := he; subst hk; exact hm
    · simp [hk] at he
  · intro h
    exact ⟨((k, n), o), h, by simp⟩

theorem lookupName_mem {n : Name} {o : Oid} {l : List (Name × Oid)} (h : lookupName n l = some o) :
    (n, o) ∈ l := by
  induction l with
  | nil => simp [lookupName] at h
  | cons e l ih =>
    obtain ⟨n', o'⟩ := e
    unfold lookupName at h
    by_cases h2 : n' = n
    · simp [h2] at h; subst h2; subst h; simp
    · simp [h2] at h; exact List.mem_cons_of_mem _ (ih h)

theorem lookupName_none {n : Name} {l : List (Name × Oid)} (h : lookupName n l = none) :
    ∀ o, (n, o) ∉ l := by
  induction l with
  | nil => simp
  | cons e l ih =>
    obtain ⟨n', o'⟩ := e
    unfold lookupName at h
    by_cases h2 : n' = n
    · simp [h2] at h
    · simp [h2] at h
      intro o hm
      rcases List.mem_cons.mp hm with h3 | h3
      · injection h3 with h4 _; exact h2 h4.symm
      · exact ih h o h3

theorem lookupName_of_mem_nodup {n : Name} {o : Oid} {l : List (Name × Oid)}
    (hnd : (l.map (·.1)).Nodup) (h : (n, o) ∈ l) : lookupName n l = some o := by
  induction l with
  | nil => simp at h
  | cons e l ih =>
    obtain ⟨n', o'⟩ := e
    simp only [List.map_cons, List.nodup_cons] at hnd
    unfold lookupName
    rcases List.mem_cons.mp h with h3 | h3
    · injection h3 with h4 h5; subst h4; subst h5; simp
    · by_cases h2 : n' = n
      · subst h2
        exact absurd (List.mem_map.mpr ⟨(n', o), h3, rfl⟩) hnd.1
      · simp [h2]; exact ih hnd.2 h3

/-! ### `repository::update`: frame -/

theorem applyOne_prune (env : Env) (db : Refdb) (k : Key) (n : Name) :
    applyOne env db (.prune k n) = .ok (db.del (k, n)) := rfl

theorem applyOne_direct (env : Env) (db : Refdb) (k : Key) (n : Name) (t : Oid) (p : Policy) :
    applyOne env db (.direct k n t p) =
      match directAct env (db.get (k, n)) t p with
      | .set => .ok (db.set (k, n) t)
      | .keep => .ok db
      | .fail => .err db := rfl

theorem applyOne_frame (env : Env) (db : Refdb) (u : Update) {r : Ref} (h : u.ref ≠ r) :
    (applyOne env db u).db.get r = db.get r := by
  have h' : r ≠ u.ref := fun e => h e.symm
  cases u with
  | prune k n =>
    simp only [Update.ref] at h'
    simp [applyOne, Applied.db, Refdb.get_del_ne db h']
  | direct k n t p =>
    simp only [Update.ref] at h'
    rw [applyOne_direct]
    cases directAct env (db.get (k, n)) t p with
    | set => simp only [Applied.db]; exact Refdb.get_set_ne db t h'
    | keep => rfl
    | fail => rfl

theorem applyAll_frame (env : Env) (us : List Update) (db : Refdb) {r : Ref}
    (h : ∀ u ∈ us, u.ref ≠ r) : (applyAll env db us).db.get r = db.get r := by
  induction us generalizing db with
  | nil => rfl
  | cons u us ih =>
    have hu := applyOne_frame env db u (h u (List.mem_cons_self ..))
    unfold applyAll
    cases hc : applyOne env db u with
    | ok db' =>
      rw [hc] at hu
      simp only [Applied.db] at hu
      simp only
      rw [ih db' (fun u' hu' => h u' (List.mem_cons_of_mem _ hu')), hu]
    | err db' =>
      rw [hc] at hu
      simpa [Applied.db] using hu

theorem applyAll_append (env : Env) (us vs : List Update) (db : Refdb) :
    applyAll env db (us ++ vs) =
      match applyAll env db us with
      | .ok db' => applyAll env db' vs
      | .err db' => .err db' := by
  induction us generalizing db with
  | nil => rfl
  | cons u us ih =>
    simp only [List.cons_append, applyAll]
    cases applyOne env db u with
    | ok db' => simp only; exact ih db'
    | err db' => rfl


/-! ### Hypotheses on the opaque parameters -/

/-- The special names are distinct and under `refs/rad`; a sigrefs blob lists every name once (it is a
`BTreeMap`). -/
structure EnvWf (env : Env) : Prop where
  id_ne_sig : env.nId ≠ env.nSig
  rad_sig : env.isRad env.nSig = true
  rad_id : env.isRad env.nId = true
  blob_nodup : ∀ k t b, env.blob k t = some b → (b.refs.map (·.1)).Nodup

/-- Every object the update asks about is present (the transport delivered what was wanted), and two
different object ids never compare `Equal` (no annotated tags among the targets). -/
def AncWf (env : Env) : Prop := ∀ a b, a ≠ b → ∃ c, env.anc a b = some c ∧ c ≠ Anc.equal

theorem ancestry_self (env : Env) (a : Oid) : ancestry env a a = some .equal := by simp [ancestry]

theorem ancestry_ne (env : Env) {a b : Oid} (h : a ≠ b) : ancestry env a b = env.anc a b := by
  simp [ancestry, h]

/-! ### `Policy::Allow` updates and prunes always apply -/

theorem directAct_allow (env : Env) (hanc : AncWf env) (prev : Option Oid) (t : Oid) :
    directAct env prev t .allow = .set ∨ (directAct env prev t .allow = .keep ∧ prev = some t) := by
  cases prev with
  | none => left; rfl
  | some prev =>
    by_cases h : prev = t
    · right; subst h; simp [directAct, ancestry_self]
    · left
      obtain ⟨c, hc, hne⟩ := hanc prev t h
      simp only [directAct, ancestry_ne env h, hc]
      cases c <;> simp_all

theorem applyOne_allow (env : Env) (hanc : AncWf env) (db : Refdb) (k : Key) (n : Name) (t : Oid) :
    ∃ db', applyOne env db (.direct k n t .allow) = .ok db' ∧ db'.get (k, n) = some t ∧
      ∀ r, r ≠ (k, n) → db'.get r = db.get r := by
  rw [applyOne_direct]
  rcases directAct_allow env hanc (db.get (k, n)) t with h | ⟨h, hp⟩
  · rw [h]
    exact ⟨_, rfl, Refdb.get_set_same .., fun r hr => Refdb.get_set_ne db t hr⟩
  · rw [h]
    exact ⟨_, rfl, hp, fun _ _ => rfl⟩

/-- Applying the direct `Allow` updates of a list of signed refs with distinct names. -/
theorem applyAll_directs (env : Env) (hanc : AncWf env) (k : Key) (l : List (Name × Oid))
    (hnd : (l.map (·.1)).Nodup) (db : Refdb) :
    ∃ db', applyAll env db (l.map (fun e => Update.direct k e.1 e.2 .allow)) = .ok db' ∧
      (∀ n o, (n, o) ∈ l → db'.get (k, n) = some o) ∧
      (∀ r, (∀ e ∈ l, (k, e.1) ≠ r) → db'.get r = db.get r) := by
  induction l generalizing db with
  | nil => exact ⟨db, rfl, by simp, fun _ _ => rfl⟩
  | cons e l ih =>
    obtain ⟨n, o⟩ := e
    simp only [List.map_cons, List.nodup_cons] at hnd
    obtain ⟨db1, h1, hget, hframe⟩ := applyOne_allow env hanc db k n o
    obtain ⟨db2, h2, hall, hfr2⟩ := ih hnd.2 db1
    refine ⟨db2, ?_, ?_, ?_⟩
    · simp only [List.map_cons, applyAll, h1]; exact h2
    · intro n' o' hm
      rcases List.mem_cons.mp hm with h3 | h3
      · injection h3 with h4 h5; subst h4; subst h5
        rw [hfr2 (k, n') ?_, hget]
        intro e he heq
        injection heq with _ h6
        exact hnd.1 (List.mem_map.mpr ⟨e, he, h6⟩)
      · exact hall n' o' h3
    · intro r hr
      rw [hfr2 r (fun e he => hr e (List.mem_cons_of_mem _ he))]
      exact hframe r (fun h => hr (n, o) (List.mem_cons_self ..) h.symm)

theorem applyAll_prunes (env : Env) (k : Key) (ns : List Name) (db : Refdb) :
    ∃ db', applyAll env db (ns.map (Update.prune k)) = .ok db' ∧
      (∀ n ∈ ns, db'.get (k, n) = none) ∧
      (∀ r, (∀ n ∈ ns, (k, n) ≠ r) → db'.get r = db.get r) := by
  induction ns generalizing db with
  | nil => exact ⟨db, rfl, by simp, fun _ _ => rfl⟩
  | cons n ns ih =>
    obtain ⟨db2, h2, hall, hfr⟩ := ih (db.del (k, n))
    refine ⟨db2, ?_, ?_, ?_⟩
    · simp only [List.map_cons, applyAll, applyOne_prune]; exact h2
    · intro n' hm
      by_cases hin : n' ∈ ns
      · exact hall n' hin
      · rcases List.mem_cons.mp hm with h3 | h3
        · subst h3
          rw [hfr (k, n') (fun m hm' heq => hin (by injection heq with _ h6; exact h6 ▸ hm'))]
          exact Refdb.get_del_same ..
        · exact absurd h3 hin
    · intro r hr
      rw [hfr r (fun m hm => hr m (List.mem_cons_of_mem _ hm))]
      exact Refdb.get_del_ne db (fun h => hr n (List.mem_cons_self ..) h.symm)

theorem mem_pruneNames {env : Env} {L : Refdb} {k : Key} {b : Blob} {n : Name} :
    n ∈ pruneNames env L k b ↔ (∃ o, ((k, n), o) ∈ L) ∧ env.isRad n = false ∧ b.lookup n = none := by
  unfold pruneNames
  simp only [List.mem_map, List.mem_filter, Bool.and_eq_true, Bool.not_eq_true', Option.isNone_iff_eq_none]
  constructor
  · rintro ⟨⟨n', o⟩, ⟨hm, h1, h2⟩, rfl⟩
    exact ⟨⟨o, Refdb.mem_refsOf.mp hm⟩, h1, h2⟩
  · rintro ⟨⟨o, hm⟩, h1, h2⟩
    exact ⟨(n, o), ⟨Refdb.mem_refsOf.mpr hm, h1, h2⟩, rfl⟩

/-- The data part of a remote's tips (`DataRefs`) always applies; afterwards the namespace carries every
signed ref, lost every stored unsigned ref outside `refs/rad`, and nothing else moved. -/
theorem applyAll_data (env : Env) (hanc : AncWf env) (L : Refdb) (k : Key) (b : Blob)
    (hnd : (b.refs.map (·.1)).Nodup) (db : Refdb) :
    ∃ db', applyAll env db (dataUpdatesOf env L k b) = .ok db' ∧
      (∀ n o, b.lookup n = some o → db'.get (k, n) = some o) ∧
      (∀ n, b.lookup n = none → env.isRad n = false → (L.get (k, n)).isSome → db'.get (k, n) = none) ∧
      (∀ n, b.lookup n = none → (env.isRad n = true ∨ L.get (k, n) = none) → db'.get (k, n) = db.get (k, n)) ∧
      (∀ k' n, k' ≠ k → db'.get (k', n) = db.get (k', n)) := by
  obtain ⟨db1, h1, hall1, hfr1⟩ := applyAll_directs env hanc k b.refs hnd db
  obtain ⟨db2, h2, hall2, hfr2⟩ := applyAll_prunes env k (pruneNames env L k b) db1
  refine ⟨db2, ?_, ?_, ?_, ?_, ?_⟩
  · unfold dataUpdatesOf; rw [applyAll_append, h1]; exact h2
  · intro n o hl
    rw [hfr2 (k, n) ?_]
    · exact hall1 n o (lookupName_mem hl)
    · intro m hm heq
      injection heq with _ h6; subst h6
      have := (mem_pruneNames.mp hm).2.2
      rw [hl] at this; cases this
  · intro n hl hr hs
    apply hall2 n
    apply mem_pruneNames.mpr
    refine ⟨?_, hr, hl⟩
    obtain ⟨o, ho⟩ := Option.isSome_iff_exists.mp hs
    exact ⟨o, Refdb.mem_of_get ho⟩
  · intro n hl hor
    rw [hfr2 (k, n) ?_, hfr1 (k, n) ?_]
    · intro e he heq
      injection heq with _ h6
      have hno := lookupName_none hl e.2
      apply hno
      rw [← h6]; exact he
    · intro m hm heq
      injection heq with _ h6; subst h6
      obtain ⟨⟨o, hmem⟩, hr, _⟩ := mem_pruneNames.mp hm
      rcases hor with h | h
      · rw [hr] at h; cases h
      · have := Refdb.get_isSome_of_mem hmem
        rw [h] at this; cases this
  · intro k' n hk
    rw [hfr2 (k', n) ?_, hfr1 (k', n) ?_]
    · intro e _ heq; injection heq with h5 _; exact hk h5.symm
    · intro m _ heq; injection heq with h5 _; exact hk h5.symm


/-! ### The in-memory refdb -/

theorem memApply_frame (m : Refdb) (u : Update) {r : Ref} (h : u.ref ≠ r) : (memApply m u).get r = m.get r := by
  have h' : r ≠ u.ref := fun e => h e.symm
  cases u with
  | direct k n t p => exact Refdb.get_set_ne m t h'
  | prune k n => exact Refdb.get_del_ne m h'

theorem memFold_frame (us : List Update) (m : Refdb) {r : Ref} (h : ∀ u ∈ us, u.ref ≠ r) :
    (us.foldl memApply m).get r = m.get r := by
  induction us generalizing m with
  | nil => rfl
  | cons u us ih =>
    rw [List.foldl_cons, ih _ (fun u' hu' => h u' (List.mem_cons_of_mem _ hu'))]
    exact memApply_frame m u (h u (List.mem_cons_self ..))

/-- A reference present in the in-memory refdb stays present unless it is pruned. -/
theorem memFold_isSome (us : List Update) (m : Refdb) {r : Ref} (hs : (m.get r).isSome)
    (h : ∀ k n, Update.prune k n ∈ us → (k, n) ≠ r) : ((us.foldl memApply m).get r).isSome := by
  induction us generalizing m with
  | nil => exact hs
  | cons u us ih =>
    rw [List.foldl_cons]
    apply ih
    · by_cases hr : u.ref = r
      · cases u with
        | direct k n t p =>
          simp only [Update.ref] at hr; subst hr
          simp [memApply, Refdb.get_set_same]
        | prune k n =>
          simp only [Update.ref] at hr
          exact absurd hr (h k n (List.mem_cons_self ..))
      · rw [memApply_frame m u hr]; exact hs
    · intro k n hm
      exact h k n (List.mem_cons_of_mem _ hm)

/-! ### What a `validated` verdict means -/

theorem loadAt_ok {env : Env} {k : Key} {t t' : Oid} {b : Blob} (h : loadAt env k t = .ok (t', b)) :
    t' = t ∧ env.blob k t = some b ∧ b.valid = true := by
  unfold loadAt at h
  split at h
  · rename_i b' hb
    split at h
    · rename_i hv
      injection h with h; injection h with h1 h2
      subst h1; subst h2; exact ⟨rfl, hb, hv⟩
    · cases h
  · cases h

theorem cachedLoad_ok {env : Env} {L sp : Refdb} {k : Key} {tip : Oid} {b : Blob}
    (h : cachedLoad env L sp k = .ok (some (tip, b))) :
    env.blob k tip = some b ∧ b.valid = true ∧
      (sp.get (k, env.nSig) = some tip ∨ (sp.get (k, env.nSig) = none ∧ L.get (k, env.nSig) = some tip)) := by
  unfold cachedLoad at h
  split at h
  · rename_i hsp
    unfold localLoad at h
    split at h
    · cases h
    · rename_i t ht
      cases hl : loadAt env k t with
      | error e => rw [hl] at h; cases h
      | ok v =>
        rw [hl] at h
        obtain ⟨t', b'⟩ := v
        simp only [Except.map] at h
        injection h with h; injection h with h; injection h with h1 h2
        subst h1; subst h2
        obtain ⟨rfl, hb, hv⟩ := loadAt_ok hl
        exact ⟨hb, hv, Or.inr ⟨hsp, ht⟩⟩
  · rename_i t ht
    cases hl : loadAt env k t with
    | error e => rw [hl] at h; cases h
    | ok v =>
      rw [hl] at h
      obtain ⟨t', b'⟩ := v
      simp only [Except.map] at h
      injection h with h; injection h with h; injection h with h1 h2
      subst h1; subst h2
      obtain ⟨rfl, hb, hv⟩ := loadAt_ok hl
      exact ⟨hb, hv, Or.inl ht⟩

theorem localLoad_ok {env : Env} {L : Refdb} {k : Key} {stored : Option (Oid × Blob)}
    (h : localLoad env L k = .ok stored) :
    (stored = none ∧ L.get (k, env.nSig) = none) ∨
    (∃ cur b, stored = some (cur, b) ∧ L.get (k, env.nSig) = some cur) := by
  unfold localLoad at h
  split at h
  · rename_i hn
    injection h with h; subst h; exact Or.inl ⟨rfl, hn⟩
  · rename_i t ht
    cases hl : loadAt env k t with
    | error e => rw [hl] at h; cases h
    | ok v =>
      rw [hl] at h
      obtain ⟨t', b'⟩ := v
      simp only [Except.map] at h
      injection h with h; subst h
      obtain ⟨rfl, _, _⟩ := loadAt_ok hl
      exact Or.inr ⟨t', b', rfl, ht⟩

theorem preCheck_validated {d : Bool} {a : Option Anc} (h : preCheck d a = .validated) :
    a = some .equal ∨ a = some .ahead := by
  cases a with
  | none => simp [preCheck] at h
  | some a => cases a <;> simp_all [preCheck] <;> (split at h <;> cases h)

theorem verdict_validated {env : Env} {L sp : Refdb} {blocked delegates : List Key} {k : Key} {tip : Oid}
    {b : Blob} (h : verdictOf env L sp blocked delegates k tip b = .validated) :
    blocked.contains k = false ∧
    (L.get (k, env.nSig) = none ∨
      ∃ cur, L.get (k, env.nSig) = some cur ∧
        (ancestry env cur tip = some .equal ∨ ancestry env cur tip = some .ahead)) ∧
    validateRemote env (memOf env L sp delegates k b) k b = true := by
  unfold verdictOf at h
  split at h
  · cases h
  · rename_i hb
    refine ⟨by simpa using hb, ?_⟩
    split at h
    · cases h
    · rename_i stored hl
      rcases localLoad_ok hl with ⟨rfl, hn⟩ | ⟨cur, b', rfl, hc⟩
      · simp only at h
        split at h
        · exact ⟨Or.inl hn, by assumption⟩
        · cases h
      · simp only at h
        cases hp : preCheck (delegates.contains k) (ancestry env cur tip) with
        | validated =>
          rw [hp] at h
          simp only at h
          split at h
          · exact ⟨Or.inr ⟨cur, hc, preCheck_validated hp⟩, by assumption⟩
          · cases h
        | skipped => rw [hp] at h; cases h
        | fail => rw [hp] at h; cases h
        | stale => rw [hp] at h; cases h
        | invalid => rw [hp] at h; cases h

theorem validateRemote_true {env : Env} {mem : Refdb} {k : Key} {b : Blob}
    (h : validateRemote env mem k b = true) :
    (∃ o, mem.get (k, env.nSig) = some o) ∧
    (∀ n o, mem.get (k, n) = some o → n = env.nSig ∨ b.lookup n = some o) ∧
    (∀ e ∈ b.refs, e.1 ≠ env.nSig) := by
  unfold validateRemote at h
  simp only [Bool.and_eq_true, List.any_eq_true, List.all_eq_true, Bool.or_eq_true, beq_iff_eq,
    bne_iff_ne] at h
  obtain ⟨⟨⟨e, he, hn⟩, h2⟩, h3⟩ := h
  refine ⟨?_, ?_, ?_⟩
  · have hm : ((k, e.1), e.2) ∈ mem := Refdb.mem_refsOf.mp he
    rw [hn] at hm
    exact Option.isSome_iff_exists.mp (Refdb.get_isSome_of_mem hm)
  · intro n o hg
    have := h2 (n, o) (Refdb.mem_refsOf.mpr (Refdb.mem_of_get hg))
    simpa using this
  · intro e he
    exact (h3 e he).1

theorem specialPolicy_ne_allow (delegates : List Key) (k : Key) : specialPolicy delegates k ≠ .allow := by
  unfold specialPolicy; split <;> simp

theorem lookup_sig_none {env : Env} {b : Blob} (h : ∀ e ∈ b.refs, e.1 ≠ env.nSig) : b.lookup env.nSig = none := by
  cases hl : b.lookup env.nSig with
  | none => rfl
  | some o => exact absurd rfl (h _ (lookupName_mem hl))

/-- No update of the data part names the remote's `rad/sigrefs` when the signed refs do not list it. -/
theorem data_not_sig {env : Env} (hw : EnvWf env) {L : Refdb} {k : Key} {b : Blob}
    (hc : ∀ e ∈ b.refs, e.1 ≠ env.nSig) : ∀ u ∈ dataUpdatesOf env L k b, u.ref ≠ (k, env.nSig) := by
  intro u hu
  unfold dataUpdatesOf at hu
  rcases List.mem_append.mp hu with h | h
  · obtain ⟨e, he, rfl⟩ := List.mem_map.mp h
    intro heq; simp only [Update.ref] at heq; injection heq with _ h2; exact hc e he h2
  · obtain ⟨n, hn, rfl⟩ := List.mem_map.mp h
    intro heq; simp only [Update.ref] at heq; injection heq with _ h2
    have := (mem_pruneNames.mp hn).2.1
    rw [h2, hw.rad_sig] at this; cases this

theorem specialUpdateOf_ref {delegates : List Key} {sp : Refdb} {k : Key} {n : Name} :
    ∀ u ∈ specialUpdateOf delegates sp k n, u.ref = (k, n) := by
  intro u hu
  unfold specialUpdateOf at hu
  split at hu
  · simp at hu; subst hu; rfl
  · simp at hu

/-- What a validated remote looks like: its `rad/sigrefs` was offered at `tip`, whose verified content is
`b`; `b` does not list `rad/sigrefs`; an offered `rad/id` is listed in `b`. -/
theorem validated_facts {env : Env} (hw : EnvWf env) {L sp : Refdb}
    {blocked delegates : List Key} {k : Key} {tip : Oid} {b : Blob}
    (hload : cachedLoad env L sp k = .ok (some (tip, b)))
    (hv : verdictOf env L sp blocked delegates k tip b = .validated) :
    env.blob k tip = some b ∧ b.valid = true ∧ (∀ e ∈ b.refs, e.1 ≠ env.nSig) ∧
    sp.get (k, env.nSig) = some tip ∧ (∀ x, sp.get (k, env.nId) = some x → b.lookup env.nId ≠ none) := by
  obtain ⟨hblob, hvalid, hsrc⟩ := cachedLoad_ok hload
  obtain ⟨_, _, hval⟩ := verdict_validated hv
  obtain ⟨⟨o, hsig⟩, hb, hc⟩ := validateRemote_true hval
  have hne : env.nId ≠ env.nSig := hw.id_ne_sig
  have hdata := data_not_sig hw (L := L) (k := k) hc
  refine ⟨hblob, hvalid, hc, ?_, ?_⟩
  · rcases hsrc with h | ⟨hnone, _⟩
    · exact h
    · -- no sigrefs among the special refs: the in-memory refdb has none either
      exfalso
      have : (memOf env L sp delegates k b).get (k, env.nSig) = none := by
        unfold memOf blockOf specialUpdatesOf
        rw [memFold_frame]
        · rfl
        · intro u hu
          rcases List.mem_append.mp hu with h | h
          · rcases List.mem_append.mp h with h | h
            · rw [specialUpdateOf_ref u h]
              intro heq; injection heq with _ h2; exact hne h2
            · unfold specialUpdateOf at h; rw [hnone] at h; simp at h
          · exact hdata u h
      rw [this] at hsig; cases hsig
  · intro x hx
    have hsome : ((memOf env L sp delegates k b).get (k, env.nId)).isSome := by
      unfold memOf blockOf specialUpdatesOf
      have hsp1 : specialUpdateOf delegates sp k env.nId =
          [Update.direct k env.nId x (specialPolicy delegates k)] := by
        unfold specialUpdateOf; rw [hx]
      rw [hsp1]
      simp only [List.cons_append, List.nil_append, List.foldl_cons]
      apply memFold_isSome
      · simp [memApply, Refdb.get_set_same]
      · intro k' n' hm heq
        injection heq with h1 h2
        rcases List.mem_append.mp hm with h | h
        · have := specialUpdateOf_ref _ h
          unfold specialUpdateOf at h
          split at h
          · simp at h
          · simp at h
        · unfold dataUpdatesOf at h
          rcases List.mem_append.mp h with h | h
          · obtain ⟨e, _, he⟩ := List.mem_map.mp h; cases he
          · obtain ⟨n, hn, he⟩ := List.mem_map.mp h
            injection he with _ h3
            have := (mem_pruneNames.mp hn).2.1
            rw [h3, h2, hw.rad_id] at this; cases this
    obtain ⟨y, hy⟩ := Option.isSome_iff_exists.mp hsome
    rcases hb env.nId y hy with h | h
    · exact absurd h hne
    · rw [h]; simp

/-! ### Applying the tips of one validated remote -/

/-- Two reference databases agree on the namespace of `k`. -/
def NsEq (db db' : Refdb) (k : Key) : Prop := ∀ n, db.get (k, n) = db'.get (k, n)

/-- The namespace of `k` in `db` has a `rad/sigrefs` whose commit reads (under key `k`) as a blob that
verifies — valid signature, identity root (if signed) naming this repository — and every other reference
of the namespace is exactly what the blob lists, *except* that a stored `refs/rad/*` reference the blob
does not list was kept as it was in `L` (the rule "'rad/' refs are never subject to pruning"). -/
def Matches (env : Env) (L db : Refdb) (k : Key) : Prop :=
  ∃ tip b, db.get (k, env.nSig) = some tip ∧ env.blob k tip = some b ∧ b.valid = true ∧
    ∀ n, n ≠ env.nSig → db.get (k, n) = b.lookup n ∨
      (env.isRad n = true ∧ b.lookup n = none ∧ db.get (k, n) = L.get (k, n))

theorem apply_sig (env : Env) (hanc : AncWf env) (db : Refdb) (k : Key) (tip : Oid) (p : Policy)
    (h : db.get (k, env.nSig) = none ∨ ∃ cur, db.get (k, env.nSig) = some cur ∧
      (ancestry env cur tip = some .equal ∨ ancestry env cur tip = some .ahead)) :
    ∃ db', applyOne env db (.direct k env.nSig tip p) = .ok db' ∧ db'.get (k, env.nSig) = some tip ∧
      ∀ r, r ≠ (k, env.nSig) → db'.get r = db.get r := by
  rw [applyOne_direct]
  rcases h with h | ⟨cur, h, ha⟩
  · rw [h]
    exact ⟨_, rfl, Refdb.get_set_same .., fun r hr => Refdb.get_set_ne db tip hr⟩
  · rw [h]
    rcases ha with ha | ha
    · have : cur = tip := by
        by_cases hct : cur = tip
        · exact hct
        · rw [ancestry_ne env hct] at ha
          obtain ⟨c, hc, hne⟩ := hanc cur tip hct
          rw [ha] at hc; injection hc with hc; exact absurd hc.symm hne
      subst this
      simp only [directAct, ha]
      exact ⟨db, rfl, h, fun _ _ => rfl⟩
    · simp only [directAct, ha]
      exact ⟨_, rfl, Refdb.get_set_same .., fun r hr => Refdb.get_set_ne db tip hr⟩

theorem finish_block (env : Env) (hw : EnvWf env) (hanc : AncWf env) {L : Refdb} {k : Key} {tip : Oid}
    {b : Blob} (hblob : env.blob k tip = some b) (hvalid : b.valid = true)
    (hc : ∀ e ∈ b.refs, e.1 ≠ env.nSig) (db dba : Refdb)
    (hns : ∀ n, db.get (k, n) = L.get (k, n))
    (ha : ∀ n, n ≠ env.nId → dba.get (k, n) = db.get (k, n))
    (hid : dba.get (k, env.nId) = db.get (k, env.nId) ∨ b.lookup env.nId ≠ none)
    (hfa : ∀ k' n, k' ≠ k → dba.get (k', n) = db.get (k', n))
    (hpre : L.get (k, env.nSig) = none ∨ ∃ cur, L.get (k, env.nSig) = some cur ∧
      (ancestry env cur tip = some .equal ∨ ancestry env cur tip = some .ahead)) (p : Policy) :
    ∃ db', applyAll env dba (Update.direct k env.nSig tip p :: dataUpdatesOf env L k b) = .ok db' ∧
      Matches env L db' k ∧ ∀ k' n, k' ≠ k → db'.get (k', n) = db.get (k', n) := by
  have hne : env.nId ≠ env.nSig := hw.id_ne_sig
  have hsigeq : dba.get (k, env.nSig) = L.get (k, env.nSig) := by
    rw [ha env.nSig (fun h => hne h.symm), hns]
  obtain ⟨db1, h1, hg1, hf1⟩ := apply_sig env hanc dba k tip p (by rw [hsigeq]; exact hpre)
  obtain ⟨db2, h2, hsome, hpruned, hkept, hother⟩ :=
    applyAll_data env hanc L k b (hw.blob_nodup k tip b hblob) db1
  refine ⟨db2, ?_, ?_, ?_⟩
  · simp only [applyAll, h1]; exact h2
  · refine ⟨tip, b, ?_, hblob, hvalid, ?_⟩
    · rw [hkept env.nSig (lookup_sig_none hc) (Or.inl hw.rad_sig)]; exact hg1
    · intro n hn
      have h1n : db1.get (k, n) = dba.get (k, n) :=
        hf1 (k, n) (fun heq => hn (by injection heq))
      cases hl : b.lookup n with
      | some o => left; exact hsome n o hl
      | none =>
        have hdba : dba.get (k, n) = L.get (k, n) := by
          by_cases hnid : n = env.nId
          · subst hnid
            rcases hid with hid | hid
            · rw [hid, hns]
            · exact absurd hl hid
          · rw [ha n hnid, hns]
        cases hr : env.isRad n with
        | true =>
          right
          refine ⟨rfl, rfl, ?_⟩
          rw [hkept n hl (Or.inl hr), h1n, hdba]
        | false =>
          left
          cases hL : L.get (k, n) with
          | none => rw [hkept n hl (Or.inr hL), h1n, hdba, hL]
          | some o => exact hpruned n hl hr (by rw [hL]; rfl)
  · intro k' n hk
    rw [hother k' n hk, hf1 (k', n) (fun heq => hk (by injection heq)), hfa k' n hk]

/-- The tips of a validated remote either abort at their first update (a diverged `rad/id` of a delegate),
leaving everything as it was, or apply completely, after which the namespace matches its signed refs. -/
theorem block_apply (env : Env) (hw : EnvWf env) (hanc : AncWf env) {L sp : Refdb}
    {blocked delegates : List Key} {k : Key} {tip : Oid} {b : Blob}
    (hload : cachedLoad env L sp k = .ok (some (tip, b)))
    (hv : verdictOf env L sp blocked delegates k tip b = .validated)
    (db : Refdb) (hns : ∀ n, db.get (k, n) = L.get (k, n)) :
    (∃ db', applyAll env db (blockOf env L sp delegates k b) = .ok db' ∧ Matches env L db' k ∧
        ∀ k' n, k' ≠ k → db'.get (k', n) = db.get (k', n)) ∨
    applyAll env db (blockOf env L sp delegates k b) = .err db := by
  obtain ⟨hblob, hvalid, hc, hsig, hid⟩ := validated_facts hw hload hv
  obtain ⟨_, hpre, _⟩ := verdict_validated hv
  have hne : env.nId ≠ env.nSig := hw.id_ne_sig
  have hsp2 : specialUpdateOf delegates sp k env.nSig =
      [Update.direct k env.nSig tip (specialPolicy delegates k)] := by
    unfold specialUpdateOf; rw [hsig]
  unfold blockOf specialUpdatesOf
  rw [hsp2]
  cases hx : sp.get (k, env.nId) with
  | none =>
    left
    have hsp1 : specialUpdateOf delegates sp k env.nId = [] := by unfold specialUpdateOf; rw [hx]
    rw [hsp1]
    simp only [List.cons_append, List.nil_append]
    exact finish_block env hw hanc hblob hvalid hc db db hns (fun _ _ => rfl) (Or.inl rfl)
      (fun _ _ _ => rfl) hpre _
  | some x =>
    have hsp1 : specialUpdateOf delegates sp k env.nId =
        [Update.direct k env.nId x (specialPolicy delegates k)] := by unfold specialUpdateOf; rw [hx]
    rw [hsp1]
    simp only [List.cons_append, List.nil_append]
    rw [applyAll, applyOne_direct]
    cases directAct env (db.get (k, env.nId)) x (specialPolicy delegates k) with
    | fail => right; rfl
    | keep =>
      left
      exact finish_block env hw hanc hblob hvalid hc db db hns (fun _ _ => rfl) (Or.inl rfl)
        (fun _ _ _ => rfl) hpre _
    | set =>
      left
      simp only
      apply finish_block env hw hanc hblob hvalid hc db (db.set (k, env.nId) x) hns
      · intro n hn
        exact Refdb.get_set_ne db x (fun heq => hn (by injection heq))
      · exact Or.inr (hid x hx)
      · intro k' n hk
        exact Refdb.get_set_ne db x (fun heq => hk (by injection heq))
      · exact hpre

/-- Every update queued for a remote names a reference of that remote's namespace. -/
theorem blockOf_ref {env : Env} {L sp : Refdb} {delegates : List Key} {k : Key} {b : Blob} :
    ∀ u ∈ blockOf env L sp delegates k b, u.ref.1 = k := by
  intro u hu
  unfold blockOf specialUpdatesOf dataUpdatesOf at hu
  rcases List.mem_append.mp hu with h | h
  · rcases List.mem_append.mp h with h | h <;> (rw [specialUpdateOf_ref u h])
  · rcases List.mem_append.mp h with h | h
    · obtain ⟨e, _, rfl⟩ := List.mem_map.mp h; rfl
    · obtain ⟨e, _, rfl⟩ := List.mem_map.mp h; rfl

/-! ### Sorted maps, `RemoteRefs::load`, the validation loop -/

theorem mem_insertKey {α : Type} {k : Key} {v : α} {m : List (Key × α)} {e : Key × α}
    (h : e ∈ insertKey k v m) : e = (k, v) ∨ e ∈ m := by
  induction m with
  | nil => simp [insertKey] at h; exact Or.inl h
  | cons x m ih =>
    obtain ⟨k', v'⟩ := x
    unfold insertKey at h
    split at h
    · rcases List.mem_cons.mp h with h | h
      · exact Or.inl h
      · exact Or.inr h
    · split at h
      · rcases List.mem_cons.mp h with h | h
        · exact Or.inl h
        · exact Or.inr (List.mem_cons_of_mem _ h)
      · rcases List.mem_cons.mp h with h | h
        · exact Or.inr (h ▸ List.mem_cons_self ..)
        · rcases ih h with h | h
          · exact Or.inl h
          · exact Or.inr (List.mem_cons_of_mem _ h)

theorem insertKey_sorted {α : Type} (k : Key) (v : α) {m : List (Key × α)}
    (h : m.Pairwise (fun a b => a.1 < b.1)) : (insertKey k v m).Pairwise (fun a b => a.1 < b.1) := by
  induction m with
  | nil => simp [insertKey]
  | cons x m ih =>
    obtain ⟨k', v'⟩ := x
    rw [List.pairwise_cons] at h
    unfold insertKey
    split
    · rename_i hlt
      rw [List.pairwise_cons]
      refine ⟨?_, List.pairwise_cons.mpr h⟩
      intro e he
      rcases List.mem_cons.mp he with he | he
      · subst he; exact hlt
      · exact Nat.lt_trans hlt (h.1 e he)
    · split
      · rename_i _ heq
        subst heq
        rw [List.pairwise_cons]
        exact ⟨h.1, h.2⟩
      · rename_i hnlt hne
        rw [List.pairwise_cons]
        refine ⟨?_, ih h.2⟩
        intro e he
        rcases mem_insertKey he with he | he
        · subst he
          show k' < k
          have : k' ≤ k := Nat.le_of_not_lt hnlt
          exact Nat.lt_of_le_of_ne this (fun h => hne h.symm)
        · exact h.1 e he

theorem remoteRefsLoad_spec {env : Env} {L sp : Refdb} (ks : List Key) (acc sr : SignedRefs)
    (h : remoteRefsLoad env L sp ks acc = .ok sr)
    (hacc : ∀ e ∈ acc, cachedLoad env L sp e.1 = .ok (some e.2))
    (hsorted : acc.Pairwise (fun a b => a.1 < b.1)) :
    (∀ e ∈ sr, cachedLoad env L sp e.1 = .ok (some e.2)) ∧ sr.Pairwise (fun a b => a.1 < b.1) := by
  induction ks generalizing acc with
  | nil =>
    simp only [remoteRefsLoad] at h
    injection h with h; subst h; exact ⟨hacc, hsorted⟩
  | cons k ks ih =>
    simp only [remoteRefsLoad] at h
    split at h
    · cases h
    · exact ih acc h hacc hsorted
    · rename_i v hv
      apply ih _ h
      · intro e he
        rcases mem_insertKey he with he | he
        · subst he; exact hv
        · exact hacc e he
      · exact insertKey_sorted k v hsorted

/-- The validated remotes are exactly the loaded remotes whose verdict is `validated`, in order. -/
theorem validateAll_remotes {env : Env} {L sp : Refdb} {blocked delegates : List Key}
    (sr : SignedRefs) (l0 l : Loop) (h : validateAll env L sp blocked delegates l0 sr = some l) :
    l.remotes = l0.remotes ++
      sr.filter (fun e => decide (verdictOf env L sp blocked delegates e.1 e.2.1 e.2.2 = .validated)) := by
  induction sr generalizing l0 with
  | nil => simp only [validateAll] at h; injection h with h; subst h; simp
  | cons e sr ih =>
    obtain ⟨k, tip, b⟩ := e
    simp only [validateAll] at h
    rw [List.filter_cons]
    cases hv : verdictOf env L sp blocked delegates k tip b with
    | fail => rw [hv] at h; cases h
    | skipped => rw [hv] at h; simp only at h; rw [ih l0 h]; simp [hv]
    | stale => rw [hv] at h; simp only at h; rw [ih l0 h]; simp [hv]
    | invalid => rw [hv] at h; simp only at h; rw [ih _ h]; simp [hv]
    | validated => rw [hv] at h; simp only at h; rw [ih _ h]; simp [hv]

theorem Matches_congr {env : Env} {L db db' : Refdb} {k : Key} (h : ∀ n, db'.get (k, n) = db.get (k, n))
    (hm : Matches env L db k) : Matches env L db' k := by
  obtain ⟨tip, b, h1, h2, h3, h4⟩ := hm
  refine ⟨tip, b, by rw [h]; exact h1, h2, h3, ?_⟩
  intro n hn
  rw [h n]; exact h4 n hn

theorem finalUpdates_cons (env : Env) (L sp : Refdb) (delegates : List Key) (e : Key × (Oid × Blob))
    (vs : SignedRefs) : finalUpdates env L sp delegates (e :: vs) =
      blockOf env L sp delegates e.1 e.2.2 ++ finalUpdates env L sp delegates vs := by
  simp [finalUpdates]

/-- Updates of other remotes leave a namespace alone. -/
theorem final_frame (env : Env) {L sp : Refdb} {delegates : List Key} (vs : SignedRefs) (db : Refdb)
    {k : Key} (hk : ∀ e ∈ vs, e.1 ≠ k) (n : Name) :
    (applyAll env db (finalUpdates env L sp delegates vs)).db.get (k, n) = db.get (k, n) := by
  apply applyAll_frame
  intro u hu heq
  unfold finalUpdates at hu
  obtain ⟨e, he, hue⟩ := List.mem_flatMap.mp hu
  have := blockOf_ref u hue
  rw [heq] at this
  exact hk e he this.symm

/-- After the tips of the validated remotes were applied — completely, or up to an abort — every namespace
is either as it was or matches its signed refs. -/
theorem apply_final (env : Env) (hw : EnvWf env) (hanc : AncWf env) {L sp : Refdb}
    {blocked delegates : List Key} (vs : SignedRefs) (hsorted : vs.Pairwise (fun a b => a.1 < b.1))
    (hvs : ∀ e ∈ vs, cachedLoad env L sp e.1 = .ok (some e.2) ∧
      verdictOf env L sp blocked delegates e.1 e.2.1 e.2.2 = .validated)
    (db : Refdb) (hunch : ∀ e ∈ vs, NsEq db L e.1) (hinv : ∀ k, NsEq db L k ∨ Matches env L db k) :
    ∀ k, NsEq (applyAll env db (finalUpdates env L sp delegates vs)).db L k ∨
      Matches env L (applyAll env db (finalUpdates env L sp delegates vs)).db k := by
  induction vs generalizing db with
  | nil => exact hinv
  | cons e vs ih =>
    obtain ⟨k0, tip, b⟩ := e
    rw [List.pairwise_cons] at hsorted
    obtain ⟨hload, hv⟩ := hvs (k0, tip, b) (List.mem_cons_self ..)
    rw [finalUpdates_cons, applyAll_append]
    rcases block_apply env hw hanc hload hv db (hunch (k0, tip, b) (List.mem_cons_self ..)) with
      ⟨db', hok, hm, hfr⟩ | herr
    · simp only [hok]
      apply ih hsorted.2 (fun e he => hvs e (List.mem_cons_of_mem _ he)) db'
      · intro e he n
        have hne : e.1 ≠ k0 := Nat.ne_of_gt (hsorted.1 e he)
        rw [hfr e.1 n hne]
        exact hunch e (List.mem_cons_of_mem _ he) n
      · intro k
        by_cases hk : k = k0
        · subst hk; exact Or.inr hm
        · rcases hinv k with h | h
          · left; intro n; rw [hfr k n hk]; exact h n
          · right; exact Matches_congr (fun n => hfr k n hk) h
    · simp only [herr, Applied.db]
      exact hinv


/-! ### Decomposition of a fetch -/

/-- Either nothing was written, or the fetch reached `repository::update` with the tips of the validated
remotes. -/
theorem fetch_cases (env : Env) (cfg : Config) (L A : Refdb) :
    ((fetch env cfg L A).2 = L ∧ ∀ rs, (fetch env cfg L A).1 ≠ .success rs) ∨
    ∃ anchor stage sr l,
      anchorOf cfg = some anchor ∧
      specialStage env cfg (blockedOf cfg) (delegatesOf cfg anchor) (thresholdOf cfg anchor) A = .ok stage ∧
      remoteRefsLoad env L stage.sp stage.loadKeys [] = .ok sr ∧
      validateAll env L stage.sp (blockedOf cfg) (delegatesOf cfg anchor)
        { remotes := [], valid := storedDelegates env L (delegatesOf cfg anchor) } sr = some l ∧
      thresholdOf cfg anchor ≤ l.valid.length ∧
      (fetch env cfg L A).2 =
        (applyAll env L (finalUpdates env L stage.sp (delegatesOf cfg anchor) l.remotes)).db ∧
      ((fetch env cfg L A).1 = .error ∨ (fetch env cfg L A).1 = .success (l.remotes.map (·.1))) := by
  unfold fetch
  split
  · left; exact ⟨rfl, fun _ h => by cases h⟩
  · split
    · left; exact ⟨rfl, fun _ h => by cases h⟩
    · rename_i anchor ha
      simp only
      split
      · left; exact ⟨rfl, fun _ h => by cases h⟩
      · rename_i stage hs
        split
        · left; exact ⟨rfl, fun _ h => by cases h⟩
        · rename_i sr hsr
          split
          · left; exact ⟨rfl, fun _ h => by cases h⟩
          · rename_i l hl
            split
            · rename_i hge
              right
              refine ⟨anchor, stage, sr, l, ha, hs, hsr, hl, hge, ?_⟩
              split
              · rename_i heq; rw [heq]; exact ⟨rfl, Or.inr rfl⟩
              · rename_i heq; rw [heq]; exact ⟨rfl, Or.inl rfl⟩
            · left; exact ⟨rfl, fun _ h => by cases h⟩


/-- The validated remotes of a fetch: sorted by key, each loaded through `Cached::load` and validated. -/
theorem loop_remotes_spec {env : Env} {L sp : Refdb} {blocked delegates : List Key} {keys : List Key}
    {sr : SignedRefs} {l : Loop} {valid0 : List Key}
    (hsr : remoteRefsLoad env L sp keys [] = .ok sr)
    (hl : validateAll env L sp blocked delegates { remotes := [], valid := valid0 } sr = some l) :
    l.remotes.Pairwise (fun a b => a.1 < b.1) ∧
    ∀ e ∈ l.remotes, cachedLoad env L sp e.1 = .ok (some e.2) ∧
      verdictOf env L sp blocked delegates e.1 e.2.1 e.2.2 = .validated := by
  obtain ⟨hload, hsorted⟩ := remoteRefsLoad_spec keys [] sr hsr (by simp) List.Pairwise.nil
  have hrem := validateAll_remotes sr _ l hl
  simp only [List.nil_append] at hrem
  rw [hrem]
  refine ⟨List.Pairwise.filter _ hsorted, ?_⟩
  intro e he
  obtain ⟨hm, hv⟩ := List.mem_filter.mp he
  exact ⟨hload e hm, by simpa using hv⟩


/-! ### C02: a `rad/sigrefs` reference only ever moves forward -/

theorem directAct_set_nonallow {env : Env} {c t : Oid} {p : Policy} (hp : p ≠ .allow)
    (h : directAct env (some c) t p = .set) : env.anc c t = some .ahead := by
  unfold directAct at h
  simp only at h
  cases ha : ancestry env c t with
  | none => rw [ha] at h; cases h
  | some a =>
    rw [ha] at h
    cases a with
    | equal => cases h
    | ahead =>
      by_cases hct : c = t
      · subst hct; rw [ancestry_self] at ha; cases ha
      · rw [ancestry_ne env hct] at ha; exact ha
    | behind => simp [hp] at h
    | diverged => cases p <;> simp_all

/-- A list of updates in which exactly one (`u`) names the reference `r`: the final value of `r` is the
initial one, or what `u` made of it. -/
theorem applyAll_single_touch (env : Env) (A C : List Update) (u : Update) (db : Refdb) {r : Ref}
    (hA : ∀ a ∈ A, a.ref ≠ r) (hC : ∀ c ∈ C, c.ref ≠ r) :
    (applyAll env db (A ++ u :: C)).db.get r = db.get r ∨
    ∃ dbA, dbA.get r = db.get r ∧ (applyAll env db (A ++ u :: C)).db.get r = (applyOne env dbA u).db.get r := by
  rw [applyAll_append]
  have hfA := applyAll_frame env A db hA
  cases hAr : applyAll env db A with
  | err dbA =>
    left
    rw [hAr] at hfA
    simpa [Applied.db] using hfA
  | ok dbA =>
    right
    rw [hAr] at hfA
    simp only [Applied.db] at hfA
    refine ⟨dbA, hfA, ?_⟩
    simp only [applyAll]
    cases hu : applyOne env dbA u with
    | err db' => rfl
    | ok db' =>
      simp only
      exact applyAll_frame env C db' hC

theorem finalUpdates_append (env : Env) (L sp : Refdb) (delegates : List Key) (s t : SignedRefs) :
    finalUpdates env L sp delegates (s ++ t) =
      finalUpdates env L sp delegates s ++ finalUpdates env L sp delegates t := by
  simp [finalUpdates]

theorem finalUpdates_not_ns (env : Env) {L sp : Refdb} {delegates : List Key} (vs : SignedRefs) {k : Key}
    (hk : ∀ e ∈ vs, e.1 ≠ k) : ∀ u ∈ finalUpdates env L sp delegates vs, ∀ n, u.ref ≠ (k, n) := by
  intro u hu n heq
  unfold finalUpdates at hu
  obtain ⟨e, he, hue⟩ := List.mem_flatMap.mp hu
  have := blockOf_ref u hue
  rw [heq] at this
  exact hk e he this.symm

/-- `rad/sigrefs` of any namespace — delegate or not, blocked or not — is, after the fetch, the stored
commit or one that is `Ahead` of it. -/
theorem sigrefs_monotone_aux (env : Env) (hw : EnvWf env) {L sp : Refdb}
    {blocked delegates : List Key} (vs : SignedRefs) (hsorted : vs.Pairwise (fun a b => a.1 < b.1))
    (hvs : ∀ e ∈ vs, cachedLoad env L sp e.1 = .ok (some e.2) ∧
      verdictOf env L sp blocked delegates e.1 e.2.1 e.2.2 = .validated)
    (k : Key) (c : Oid) (hc : L.get (k, env.nSig) = some c) :
    ∃ c', (applyAll env L (finalUpdates env L sp delegates vs)).db.get (k, env.nSig) = some c' ∧
      (c' = c ∨ env.anc c c' = some .ahead) := by
  have hne : env.nId ≠ env.nSig := hw.id_ne_sig
  by_cases hin : ∃ e ∈ vs, e.1 = k
  · obtain ⟨e, he, hek⟩ := hin
    obtain ⟨s, t, hst⟩ := List.append_of_mem he
    obtain ⟨k0, tip, b⟩ := e
    simp only at hek; subst hek
    rw [hst] at hsorted
    have hs_ne : ∀ e' ∈ s, e'.1 ≠ k0 := by
      intro e' he'
      have := (List.pairwise_append.mp hsorted).2.2 e' he' (k0, tip, b) (List.mem_cons_self ..)
      exact Nat.ne_of_lt this
    have ht_ne : ∀ e' ∈ t, e'.1 ≠ k0 := by
      intro e' he'
      have := (List.pairwise_cons.mp (List.pairwise_append.mp hsorted).2.1).1 e' he'
      exact Nat.ne_of_gt this
    obtain ⟨hload, hv⟩ := hvs (k0, tip, b) he
    obtain ⟨_, _, hcc, hsig, _⟩ := validated_facts hw hload hv
    -- the tips of `k0`: at most a `rad/id` update, the `rad/sigrefs` update, the data part
    have hblock : ∃ pre, (∀ u ∈ pre, u.ref ≠ (k0, env.nSig)) ∧
        blockOf env L sp delegates k0 b =
          pre ++ Update.direct k0 env.nSig tip (specialPolicy delegates k0) :: dataUpdatesOf env L k0 b := by
      unfold blockOf specialUpdatesOf
      refine ⟨specialUpdateOf delegates sp k0 env.nId, ?_, ?_⟩
      · intro u hu
        rw [specialUpdateOf_ref u hu]
        intro heq; injection heq with _ h2; exact hne h2
      · have : specialUpdateOf delegates sp k0 env.nSig =
            [Update.direct k0 env.nSig tip (specialPolicy delegates k0)] := by
          unfold specialUpdateOf; rw [hsig]
        rw [this]; simp
    obtain ⟨pre, hpre, hb⟩ := hblock
    have hlist : finalUpdates env L sp delegates vs =
        (finalUpdates env L sp delegates s ++ pre) ++
          Update.direct k0 env.nSig tip (specialPolicy delegates k0) ::
            (dataUpdatesOf env L k0 b ++ finalUpdates env L sp delegates t) := by
      rw [hst, finalUpdates_append, finalUpdates_cons]
      simp only [hb, List.append_assoc, List.cons_append]
    rw [hlist]
    have hA : ∀ a ∈ finalUpdates env L sp delegates s ++ pre, a.ref ≠ (k0, env.nSig) := by
      intro a ha
      rcases List.mem_append.mp ha with h | h
      · exact finalUpdates_not_ns env s hs_ne a h env.nSig
      · exact hpre a h
    have hC : ∀ a ∈ dataUpdatesOf env L k0 b ++ finalUpdates env L sp delegates t,
        a.ref ≠ (k0, env.nSig) := by
      intro a ha
      rcases List.mem_append.mp ha with h | h
      · exact data_not_sig hw hcc a h
      · exact finalUpdates_not_ns env t ht_ne a h env.nSig
    rcases applyAll_single_touch env _ _ _ L hA hC with h | ⟨dbA, hdbA, h⟩
    · exact ⟨c, by rw [h]; exact hc, Or.inl rfl⟩
    · rw [h, applyOne_direct, hdbA, hc]
      cases hact : directAct env (some c) tip (specialPolicy delegates k0) with
      | set =>
        refine ⟨tip, by simp [Applied.db, Refdb.get_set_same], Or.inr ?_⟩
        exact directAct_set_nonallow (specialPolicy_ne_allow delegates k0) hact
      | keep => exact ⟨c, by simp only [Applied.db]; rw [hdbA]; exact hc, Or.inl rfl⟩
      | fail => exact ⟨c, by simp only [Applied.db]; rw [hdbA]; exact hc, Or.inl rfl⟩
  · refine ⟨c, ?_, Or.inl rfl⟩
    rw [final_frame env vs L (fun e he heq => hin ⟨e, he, heq⟩)]
    exact hc

/-! ### C02: the threshold gate -/

/-- The signed refs offered for `d` by this fetch verify. -/
def offeredValid (env : Env) (sp : Refdb) (d : Key) : Bool :=
  match sp.get (d, env.nSig) with
  | some tip =>
    match env.blob d tip with
    | some b => b.valid
    | none => false
  | none => false

/-- The delegates that can count towards the threshold at all: considered by the fetch (not blocked, not
the local node on `pull`) and with a `rad/sigrefs` stored before the fetch or validly offered by it. -/
def canBeValid (env : Env) (L sp : Refdb) (delegates : List Key) : List Key :=
  delegates.filter (fun d => (L.get (d, env.nSig)).isSome || offeredValid env sp d)

theorem length_le_of_subset_nodup {l m : List Key} (hnd : l.Nodup) (hsub : ∀ x ∈ l, x ∈ m) :
    l.length ≤ m.length := by
  induction l generalizing m with
  | nil => simp
  | cons a l ih =>
    rw [List.nodup_cons] at hnd
    have ha : a ∈ m := hsub a (List.mem_cons_self ..)
    have hsub' : ∀ x ∈ l, x ∈ m.erase a := by
      intro x hx
      have hxa : x ≠ a := fun h => hnd.1 (h ▸ hx)
      exact (List.mem_erase_of_ne hxa).mpr (hsub x (List.mem_cons_of_mem _ hx))
    have := ih hnd.2 hsub'
    rw [List.length_erase_of_mem ha] at this
    have hpos : 0 < m.length := List.length_pos_of_mem ha
    simp only [List.length_cons]
    omega

theorem setInsert_spec (k : Key) (s : List Key) (hnd : s.Nodup) :
    (setInsert k s).Nodup ∧ ∀ x ∈ setInsert k s, x = k ∨ x ∈ s := by
  unfold setInsert
  split
  · exact ⟨hnd, fun x hx => Or.inr hx⟩
  · rename_i hc
    have hk : k ∉ s := by simpa using hc
    constructor
    · rw [List.nodup_append]
      refine ⟨hnd, by simp, ?_⟩
      intro a ha b hb
      simp at hb; subst hb
      exact fun h => hk (h ▸ ha)
    · intro x hx
      rcases List.mem_append.mp hx with h | h
      · exact Or.inr h
      · simp at h; exact Or.inl h

/-- `valid_delegates` stays within the delegates that can be valid, without duplicates. -/
theorem validateAll_valid {env : Env} {L sp : Refdb} {blocked delegates : List Key}
    (sr : SignedRefs) (l0 l : Loop) (h : validateAll env L sp blocked delegates l0 sr = some l)
    (hload : ∀ e ∈ sr, cachedLoad env L sp e.1 = .ok (some e.2))
    (hsub : ∀ x ∈ l0.valid, x ∈ canBeValid env L sp delegates) (hnd : l0.valid.Nodup) :
    (∀ x ∈ l.valid, x ∈ canBeValid env L sp delegates) ∧ l.valid.Nodup := by
  induction sr generalizing l0 with
  | nil => simp only [validateAll] at h; injection h with h; subst h; exact ⟨hsub, hnd⟩
  | cons e sr ih =>
    obtain ⟨k, tip, b⟩ := e
    have hload' : ∀ e ∈ sr, cachedLoad env L sp e.1 = .ok (some e.2) :=
      fun e he => hload e (List.mem_cons_of_mem _ he)
    simp only [validateAll] at h
    cases hv : verdictOf env L sp blocked delegates k tip b with
    | fail => rw [hv] at h; cases h
    | skipped => rw [hv] at h; exact ih l0 h hload' hsub hnd
    | stale => rw [hv] at h; exact ih l0 h hload' hsub hnd
    | invalid =>
      rw [hv] at h
      apply ih _ h hload'
      · intro x hx
        simp only at hx
        split at hx
        · exact hsub x (List.mem_of_mem_erase hx)
        · exact hsub x hx
      · simp only
        split
        · exact hnd.erase k
        · exact hnd
    | validated =>
      rw [hv] at h
      apply ih _ h hload'
      · intro x hx
        simp only at hx
        split at hx
        · rename_i hd
          rcases (setInsert_spec k l0.valid hnd).2 x hx with hxk | hxs
          · subst hxk
            unfold canBeValid
            rw [List.mem_filter]
            refine ⟨by simpa using hd, ?_⟩
            obtain ⟨hblob, hvalid, hsrc⟩ := cachedLoad_ok (hload (x, tip, b) (List.mem_cons_self ..))
            rcases hsrc with h1 | ⟨_, h1⟩
            · simp [offeredValid, h1, hblob, hvalid]
            · simp [h1]
          · exact hsub x hxs
        · exact hsub x hx
      · simp only
        split
        · exact (setInsert_spec k l0.valid hnd).1
        · exact hnd


/-! ### C02: the delegates with valid signed refs, exactly -/

/-- **The reading of "a delegate has valid signed refs" (DESIGN §6 C02)**, for a delegate `d` considered by
the fetch: if `d` is not part of this fetch (its signed refs are not loaded: on the `refs_at` path a delegate
that was not announced), it is valid iff a `rad/sigrefs` is stored for it. Otherwise it is valid iff signed
refs are found for it (the offered tip, else the stored one), they load and verify, and they pass every check
of this fetch (`verdictOf … = validated`: tip not behind/diverged, `rad/sigrefs` offered, blob does not list
`rad/sigrefs`, an offered `rad/id` is signed); when the offered tip is merely *behind* the stored one the
stored refs stay valid. A delegate whose offered data fails a check in this fetch is NOT valid, even if
valid refs are stored for it (`valid_delegates.remove`). -/
def delegateValid (env : Env) (L : Refdb) (stage : Stage) (blocked delegates : List Key) (d : Key) : Bool :=
  let stored := (L.get (d, env.nSig)).isSome
  if stage.loadKeys.contains d then
    match cachedLoad env L stage.sp d with
    | .ok (some (tip, b)) =>
      match verdictOf env L stage.sp blocked delegates d tip b with
      | .validated => true
      | .stale => stored
      | .skipped => stored
      | _ => false
    | _ => false
  else stored

def validDelegates (env : Env) (L : Refdb) (stage : Stage) (blocked delegates : List Key) : List Key :=
  delegates.filter (delegateValid env L stage blocked delegates)

theorem insertKey_mem_self {α : Type} (k : Key) (v : α) (m : List (Key × α)) : (k, v) ∈ insertKey k v m := by
  induction m with
  | nil => simp [insertKey]
  | cons x m ih =>
    obtain ⟨kx, vx⟩ := x
    unfold insertKey
    split
    · simp
    · split
      · simp
      · exact List.mem_cons_of_mem _ ih

theorem insertKey_keeps_key {α : Type} (k : Key) (v : α) {m : List (Key × α)} {e : Key × α} (h : e ∈ m) :
    ∃ v', (e.1, v') ∈ insertKey k v m := by
  induction m with
  | nil => simp at h
  | cons x m ih =>
    obtain ⟨kx, vx⟩ := x
    unfold insertKey
    split
    · exact ⟨e.2, List.mem_cons_of_mem _ h⟩
    · split
      · rename_i heq
        rcases List.mem_cons.mp h with h | h
        · subst h; exact ⟨v, by simp [heq]⟩
        · exact ⟨e.2, List.mem_cons_of_mem _ h⟩
      · rcases List.mem_cons.mp h with h | h
        · subst h; exact ⟨vx, List.mem_cons_self ..⟩
        · obtain ⟨v', hv'⟩ := ih h
          exact ⟨v', List.mem_cons_of_mem _ hv'⟩

/-- `RemoteRefs::load`, completeness: every requested remote either has no signed refs anywhere or is in
the result; and the result only contains requested remotes. -/
theorem remoteRefsLoad_complete {env : Env} {L sp : Refdb} (ks : List Key) (acc sr : SignedRefs)
    (h : remoteRefsLoad env L sp ks acc = .ok sr) :
    (∀ k ∈ ks, cachedLoad env L sp k = .ok none ∨ ∃ v, (k, v) ∈ sr) ∧
    (∀ e ∈ acc, ∃ v, (e.1, v) ∈ sr) ∧
    (∀ e ∈ sr, e.1 ∈ ks ∨ ∃ v, (e.1, v) ∈ acc) := by
  induction ks generalizing acc with
  | nil =>
    simp only [remoteRefsLoad] at h
    injection h with h; subst h
    exact ⟨by simp, fun e he => ⟨e.2, he⟩, fun e he => Or.inr ⟨e.2, he⟩⟩
  | cons k ks ih =>
    simp only [remoteRefsLoad] at h
    split at h
    · cases h
    · rename_i hk
      obtain ⟨h1, h2, h3⟩ := ih acc h
      refine ⟨?_, h2, ?_⟩
      · intro k' hk'
        rcases List.mem_cons.mp hk' with rfl | hk'
        · exact Or.inl hk
        · exact h1 k' hk'
      · intro e he
        rcases h3 e he with h | h
        · exact Or.inl (List.mem_cons_of_mem _ h)
        · exact Or.inr h
    · rename_i v hv
      obtain ⟨h1, h2, h3⟩ := ih _ h
      refine ⟨?_, ?_, ?_⟩
      · intro k' hk'
        rcases List.mem_cons.mp hk' with rfl | hk'
        · exact Or.inr (h2 (k', v) (insertKey_mem_self k' v acc))
        · exact h1 k' hk'
      · intro e he
        obtain ⟨v', hv'⟩ := insertKey_keeps_key k v he
        exact h2 (e.1, v') hv'
      · intro e he
        rcases h3 e he with h | ⟨w, hw⟩
        · exact Or.inl (List.mem_cons_of_mem _ h)
        · rcases mem_insertKey hw with heq | hin
          · injection heq with h1' _
            exact Or.inl (h1' ▸ List.mem_cons_self ..)
          · exact Or.inr ⟨w, hin⟩

theorem cachedLoad_none_not_stored {env : Env} {L sp : Refdb} {k : Key}
    (h : cachedLoad env L sp k = .ok none) : L.get (k, env.nSig) = none := by
  unfold cachedLoad at h
  split at h
  · unfold localLoad at h
    split at h
    · assumption
    · rename_i t _
      cases hl : loadAt env k t with
      | error e => rw [hl] at h; cases h
      | ok v => rw [hl] at h; simp [Except.map] at h
  · rename_i t _
    cases hl : loadAt env k t with
    | error e => rw [hl] at h; cases h
    | ok v => rw [hl] at h; simp [Except.map] at h

/-- What makes a processed remote count as good, given the loop's verdict on it. -/
def verdictGood (stored : Bool) : Verdict → Prop
  | .validated => True
  | .stale => stored = true
  | .skipped => stored = true
  | _ => False

/-- `valid_delegates` is, at every point of the validation loop, made of delegates that are stored if still
to be processed, and `good` if already processed or not part of the loop. -/
theorem validateAll_valid_exact {env : Env} {L sp : Refdb} {blocked delegates : List Key}
    (good : Key → Prop) (sr : SignedRefs) (l0 l : Loop)
    (h : validateAll env L sp blocked delegates l0 sr = some l)
    (hsorted : sr.Pairwise (fun a b => a.1 < b.1))
    (hgood : ∀ e ∈ sr, verdictGood (L.get (e.1, env.nSig)).isSome
      (verdictOf env L sp blocked delegates e.1 e.2.1 e.2.2) → good e.1)
    (hinv : ∀ x ∈ l0.valid, ((∃ e ∈ sr, e.1 = x) → (L.get (x, env.nSig)).isSome = true) ∧
      ((¬ ∃ e ∈ sr, e.1 = x) → good x))
    (hdel : ∀ x ∈ l0.valid, delegates.contains x = true)
    (hnd : l0.valid.Nodup) :
    (∀ x ∈ l.valid, good x ∧ delegates.contains x = true) ∧ l.valid.Nodup := by
  induction sr generalizing l0 with
  | nil =>
    simp only [validateAll] at h; injection h with h; subst h
    exact ⟨fun x hx => ⟨(hinv x hx).2 (by simp), hdel x hx⟩, hnd⟩
  | cons e sr ih =>
    obtain ⟨k, tip, b⟩ := e
    rw [List.pairwise_cons] at hsorted
    have hk_notin : ¬ ∃ e ∈ sr, e.1 = k := by
      rintro ⟨e, he, heq⟩
      have := hsorted.1 e he
      rw [heq] at this; exact Nat.lt_irrefl _ this
    have hgood' : ∀ e ∈ sr, verdictGood (L.get (e.1, env.nSig)).isSome
        (verdictOf env L sp blocked delegates e.1 e.2.1 e.2.2) → good e.1 :=
      fun e he => hgood e (List.mem_cons_of_mem _ he)
    have hgk := hgood (k, tip, b) (List.mem_cons_self ..)
    simp only at hgk
    -- an element different from `k` keeps its status
    have keep : ∀ x, x ≠ k → (((∃ e ∈ (k, tip, b) :: sr, e.1 = x) → (L.get (x, env.nSig)).isSome = true) ∧
        ((¬ ∃ e ∈ (k, tip, b) :: sr, e.1 = x) → good x)) →
        (((∃ e ∈ sr, e.1 = x) → (L.get (x, env.nSig)).isSome = true) ∧ ((¬ ∃ e ∈ sr, e.1 = x) → good x)) := by
      intro x hxk ⟨h1, h2⟩
      refine ⟨fun ⟨e, he, heq⟩ => h1 ⟨e, List.mem_cons_of_mem _ he, heq⟩, fun hn => h2 ?_⟩
      rintro ⟨e, he, heq⟩
      rcases List.mem_cons.mp he with rfl | he
      · exact hxk heq.symm
      · exact hn ⟨e, he, heq⟩
    -- `k` itself, when it stays in `valid` and the verdict leaves it good if stored
    have stay : (verdictGood (L.get (k, env.nSig)).isSome (verdictOf env L sp blocked delegates k tip b) ↔
          (L.get (k, env.nSig)).isSome = true) →
        ∀ x ∈ l0.valid, (((∃ e ∈ sr, e.1 = x) → (L.get (x, env.nSig)).isSome = true) ∧
          ((¬ ∃ e ∈ sr, e.1 = x) → good x)) := by
      intro hiff x hx
      by_cases hxk : x = k
      · subst hxk
        have hst := (hinv x hx).1 ⟨_, List.mem_cons_self .., rfl⟩
        exact ⟨fun _ => hst, fun _ => hgk (hiff.mpr hst)⟩
      · exact keep x hxk (hinv x hx)
    simp only [validateAll] at h
    cases hv : verdictOf env L sp blocked delegates k tip b with
    | fail => rw [hv] at h; cases h
    | skipped =>
      rw [hv] at h
      exact ih l0 h hsorted.2 hgood' (stay (by rw [hv]; exact Iff.rfl)) hdel hnd
    | stale =>
      rw [hv] at h
      exact ih l0 h hsorted.2 hgood' (stay (by rw [hv]; exact Iff.rfl)) hdel hnd
    | invalid =>
      rw [hv] at h
      by_cases hd : delegates.contains k = true
      · simp only [hd, if_true] at h
        apply ih _ h hsorted.2 hgood'
        · intro x hx
          have hxk : x ≠ k := fun heq => ((List.Nodup.mem_erase_iff hnd).mp hx).1 heq
          exact keep x hxk (hinv x (List.mem_of_mem_erase hx))
        · intro x hx; exact hdel x (List.mem_of_mem_erase hx)
        · exact hnd.erase k
      · simp only [hd] at h
        apply ih _ h hsorted.2 hgood' _ hdel hnd
        intro x hx
        have hxk : x ≠ k := fun heq => hd (heq ▸ hdel x hx)
        exact keep x hxk (hinv x hx)
    | validated =>
      rw [hv] at h hgk
      by_cases hd : delegates.contains k = true
      · simp only [hd, if_true] at h
        apply ih _ h hsorted.2 hgood'
        · intro x hx
          by_cases hxk : x = k
          · subst hxk
            exact ⟨fun hex => absurd hex hk_notin, fun _ => hgk trivial⟩
          · rcases (setInsert_spec k l0.valid hnd).2 x hx with h' | h'
            · exact absurd h' hxk
            · exact keep x hxk (hinv x h')
        · intro x hx
          rcases (setInsert_spec k l0.valid hnd).2 x hx with h' | h'
          · subst h'; exact hd
          · exact hdel x h'
        · exact (setInsert_spec k l0.valid hnd).1
      · simp only [hd] at h
        apply ih _ h hsorted.2 hgood' _ hdel hnd
        intro x hx
        have hxk : x ≠ k := fun heq => hd (heq ▸ hdel x hx)
        exact keep x hxk (hinv x hx)

end HeartwoodModel.Fetch
