import HeartwoodModel.Lemmas.Frame
import HeartwoodModel.Lemmas.Wire
import HeartwoodModel.Lemmas.Pktline
import HeartwoodModel.Lemmas.ServiceInput
import HeartwoodModel.Lemmas.ServiceInputShape
import HeartwoodModel.Lemmas.Streams
/-!
# C13 — No input from a remote peer can crash the node

Three sub-models, each with an explicit `panic` outcome for every assert / expect / unwrap / index / slice /
`unreachable!` on the modelled path:

* (a) bytes → frames → messages: `Model/Codec`, `Varint`, `Frame`, `Wire` (written for C14/C15; their
  decoders return `Res.panic site`): `decode_total`, `deserializer_total`;
* (b) well-formed messages → service: `Model/ServiceInput`: `handle_message_no_panic`, `history_no_panic`;
* (c) git request header: `Model/Pktline`: `git_request_no_panic`;
* (d) control frames → stream table of the wire protocol: `Model/Streams`: `control_frames_no_panic`.

The repairs on `/repo` main are what makes the statements provable; each has a `…_prefix_counterexample`
showing the panic of the code before it (regression witnesses in the corpus):
e41c53f, 7f81fc9 (first round), 192a092 (`history_no_panic` / `restart_tiny_timestamp_prefix_counterexample`, b)
and 614904d (`control_frames_no_panic` / `control_frames_prefix_counterexample`, d).

The repairs already on `/repo` main are what makes (b) and (c) provable: the `…_prefix_counterexample`
theorems show the panics of the code before them.
-/
namespace HeartwoodModel.C13
open HeartwoodModel

/-! ## (a) bytes → frames → messages -/
section A
open Codec

/-- **Decoding is total**: whatever bytes a peer sends, decoding a `Frame<Message>` yields a frame, asks for
more bytes, or reports an error — it reaches none of the panic sites of `varint.rs`, `frame.rs`,
`wire.rs`, `wire/message.rs` (among them the `unreachable!` of the varint decoder). For every behaviour
of the opaque Tor-address check (`env`). -/
theorem decode_total (env : Wire.Env) (b : Bytes) (site : String) :
    Frame.decode (Wire.decodeMsg env) b ≠ .panic site :=
  Frame.decode_no_panic (Wire.decodeMsg_no_panic env) b site

/-- `Deserializer::deserialize_next` on any buffer content. -/
theorem deserialize_next_total (env : Wire.Env) (s : Deser) (site : String) :
    (match s.next (Frame.decode (Wire.decodeMsg env)) with | .panic x => x = site | _ => False) → False := by
  unfold Deser.next
  cases h : Frame.decode (Wire.decodeMsg env) s.buf with
  | panic x => exact absurd h (decode_total env s.buf x)
  | ok a r => simp
  | incomplete => simp
  | invalid => simp

/-- Draining the inbox (`while let Some(frame) = de.deserialize_next()?`) never ends in a panic, for any
buffer content, and (`Frame.drain_fuel`) never runs out of the fuel the driver uses. -/
theorem deserializer_total (env : Wire.Env) :
    ∀ (fuel : Nat) (s s' : Deser) (items : List (Frame.Frame Wire.Msg)) (st : Status),
      Deser.drain (Frame.decode (Wire.decodeMsg env)) fuel s = some (items, s', st) →
      ∀ site, st ≠ .panic site := by
  intro fuel
  induction fuel with
  | zero => intro s s' items st h; simp [Deser.drain] at h
  | succ fuel ih =>
    intro s s' items st h site
    unfold Deser.drain Deser.next at h
    cases hd : Frame.decode (Wire.decodeMsg env) s.buf with
    | panic x => exact absurd hd (decode_total env s.buf x)
    | ok a r =>
      simp only [hd] at h
      cases hr : Deser.drain (Frame.decode (Wire.decodeMsg env)) fuel ⟨r⟩ with
      | none => simp [hr] at h
      | some v =>
        obtain ⟨as, s'', st'⟩ := v
        simp only [hr, Option.some.injEq, Prod.mk.injEq] at h
        obtain ⟨_, _, rfl⟩ := h
        exact ih ⟨r⟩ s'' as st' hr site
    | incomplete =>
      simp only [hd, Option.some.injEq, Prod.mk.injEq] at h
      obtain ⟨_, _, rfl⟩ := h; simp
    | invalid =>
      simp only [hd, Option.some.injEq, Prod.mk.injEq] at h
      obtain ⟨_, _, rfl⟩ := h; simp

theorem deserializer_fuel (env : Wire.Env) (s : Deser) :
    (Deser.drain (Frame.decode (Wire.decodeMsg env)) (drainFuel s) s).isSome :=
  Frame.drain_fuel _ s

/-- Non-vacuity: a real control frame (`Open{4}` on stream 0) followed by garbage decodes to one frame and an error. -/
example : Deser.drain (Frame.decode (Wire.decodeMsg ⟨fun _ => false⟩)) 20
    ⟨[0x72, 0x61, 0x64, 0x01, 0x00, 0x00, 0x04, 0xff, 0xff, 0xff, 0xff]⟩ =
    some ([⟨0, .control (.open 4)⟩], ⟨[0xff, 0xff, 0xff, 0xff]⟩, .err) := by decide
end A

/-! ## (b) well-formed messages → service -/
section B
open ServiceInput

/-- **One message.** In every state satisfying the invariant, for every database / storage / RNG behaviour
(`env`), every sender and every well-formed message — timestamp 0 or `i64::MAX`, `since > until`, empty
or maximal vectors, unknown announcers, the node's own id, pings asking for any pong length — handling
the message reaches no assertion; the invariant is preserved. The outcome is therefore `ok` or a
disconnect of that peer. -/
theorem handle_message_no_panic (env : Env) (σ : State) (h : Inv σ) (remote : Nid) (m : Msg) :
    (∀ site, (handleMessage Code.current env σ remote m).1 ≠ .panic site) ∧
    Inv (handleMessage Code.current env σ remote m).2 :=
  handleMessage_ok Code.current Code.current_msgLike env h remote m

/-- Invalid input leads at most to that peer being disconnected. -/
theorem handle_message_outcome (env : Env) (σ : State) (h : Inv σ) (remote : Nid) (m : Msg) :
    (handleMessage Code.current env σ remote m).1 = .ok ∨
    ∃ e, (handleMessage Code.current env σ remote m).1 = .disconnect e := by
  have := (handle_message_no_panic env σ h remote m).1
  cases ho : (handleMessage Code.current env σ remote m).1 with
  | ok => exact .inl rfl
  | disconnect e => exact .inr ⟨e, rfl⟩
  | panic s => exact absurd ho (this s)

/-- **Any history** — FULL statement, for `/repo` main (`Code.current`, `Service::initial` saturates since 192a092): messages from any peers in any order, interleaved with connections, disconnections and
restarts of the node, the oracle answering differently at every step: no step panics. -/
theorem history_no_panic (envs : Nat → Env) (σ : State) (h : Inv σ) (ops : List Op) :
    ∀ o, o ∈ run Code.current envs σ ops 0 → ∀ site, o ≠ .panic site :=
  run_ok envs h ops 0

/-- One step of the code BEFORE 192a092: the only assertion site that can be reached is the backlog subtraction
of `Service::initial`, on a connection event, when the newest stored announcement is younger than 3 minutes
after the epoch; the invariant is preserved in any case. -/
theorem step_before192a092 (env : Env) (σ : State) (h : Inv σ) (op : Op) :
    (∀ site, (step Code.before192a092 env σ op).1 = .panic site →
      site = .subscribeBacklog ∧ (∃ r ho ro p, op = .connectIn r ho ro p) ∧
      ∃ last, σ.lastOnline = some last ∧ last < SUBSCRIBE_BACKLOG_DELTA) ∧
    Inv (step Code.before192a092 env σ op).2 := by
  cases op with
  | recv r m =>
    obtain ⟨hn, hi⟩ := handleMessage_ok Code.before192a092 Code.before192a092_msgLike env h r m
    exact ⟨fun site hs => absurd hs (hn site), hi⟩
  | disconnect r => exact ⟨fun site hs => by simp [step] at hs, disconnected_ok h r⟩
  | restart cfg => exact ⟨fun site hs => by simp [step] at hs, restarted_ok σ cfg⟩
  | connectIn r ho ro p =>
    simp only [step, connectedInbound, initialSince, Code.before192a092, Bool.false_eq_true, if_false]
    cases hl : σ.lastOnline with
    | none => exact ⟨fun site hs => by simp at hs, connectedSessions_ok h r ho ro p⟩
    | some last =>
      simp only
      by_cases hlt : last < SUBSCRIBE_BACKLOG_DELTA
      · simp only [hlt, if_true]
        refine ⟨fun site hs => ?_, h⟩
        simp only [Outcome.panic.injEq] at hs
        exact ⟨hs.symm, ⟨r, ho, ro, p, rfl⟩, last, rfl, hlt⟩
      · simp only [hlt, if_false]
        exact ⟨fun site hs => by simp at hs, connectedSessions_ok h r ho ro p⟩

/-- `history_no_panic_partial` (code before 192a092): in any history, the only panic is that one. -/
theorem history_no_panic_partial (envs : Nat → Env) (ops : List Op) : ∀ (σ : State) (i : Nat), Inv σ →
    ∀ o, o ∈ run Code.before192a092 envs σ ops i → ∀ site, o = .panic site → site = .subscribeBacklog := by
  induction ops with
  | nil => intro σ i _ o ho; simp [run] at ho
  | cons op ops ih =>
    intro σ i h o ho site hs
    obtain ⟨hp, hinv⟩ := step_before192a092 (envs i) σ h op
    unfold run at ho
    split at ho
    · rename_i s' σ' heq
      simp only [List.mem_singleton] at ho
      subst ho
      simp only [Outcome.panic.injEq] at hs
      subst hs
      exact (hp s' (by rw [heq])).1
    · rename_i o' σ' hne heq
      simp only [List.mem_cons] at ho
      rcases ho with rfl | ho
      · exact absurd hs (hne site)
      · have : Inv σ' := by rw [heq] at hinv; exact hinv
        exact ih σ' (i + 1) this o ho site hs

/-- **The outcome does not depend on the databases.** Two runs of the same history from states that agree
on the session table up to fetch sets / queues (`SameShape`), under oracles that agree only on whether the
rate limiter drops a message, produce the same outcome for every step. (This is what the driver relies on
when it runs the model with one fixed oracle; each outcome is `msgClass`, a function of the guards only.) -/
theorem outcome_env_irrelevant (envs1 envs2 : Nat → Env) (hl : ∀ i, (envs1 i).limited = (envs2 i).limited)
    (σ τ : State) (hσ : Inv σ) (hτ : Inv τ) (hs : SameShape σ τ) (ops : List Op) :
    run Code.current envs1 σ ops 0 = run Code.current envs2 τ ops 0 :=
  run_env_irrelevant envs1 envs2 hl ops σ τ 0 hσ hτ hs

/-- The guards, in the order of the code: which inputs disconnect the sender. -/
theorem disconnect_iff (env : Env) (σ : State) (h : Inv σ) (remote : Nid) (m : Msg) (e : SessErr) :
    (handleMessage Code.current env σ remote m).1 = .disconnect e ↔
      msgClass env.limited σ remote m = .disconnect e := by
  rw [(handleMessage_class Code.current Code.current_msgLike env h remote m).1]

/-- The invariant holds in every state without ongoing fetches (in particular the initial one). -/
theorem inv_of_idle (σ : State) (hid : ∀ k s, σ.sessions k = some s → s.id = k)
    (hidle : ∀ k s fs aw, σ.sessions k = some s → s.state = .connected fs aw → fs = [])
    (hb : ∀ h t, σ.buckets h = some t → t ≤ σ.now) : Inv σ := by
  refine ⟨hid, ?_, hb⟩
  intro k s fs aw hs hst rid hrid
  rw [hidle k s fs aw hs hst] at hrid
  simp at hrid

/-! ### what the repairs of e41c53f removed -/

/-- A state with one connected peer (0). -/
def exState : State :=
  { self := 9, now := 1000, fetchConcurrency := 1,
    sessions := fun k => if k = 0 then
      some { id := 0, host := 0, routable := true, persistent := false, state := .connected [] none,
             queue := [], subscribed := false } else none,
    fetching := fun _ => none,
    buckets := fun _ => none,
    gossip := fun _ => none, gossipMax := none, lastOnline := none, known := fun k => k == 0 }

def exEnv : Env :=
  { limited := false, knownNode := fun _ => true, announcedFresh := true, routingSynced := true,
    seeded := fun _ => true, haveLocal := fun _ => false, wanted := fun _ r => r, shuffle := id }

theorem exState_inv : Inv exState := by
  apply inv_of_idle
  · intro k s hs
    simp only [exState] at hs
    split at hs
    · simp only [Option.some.injEq] at hs; subst hs; simp [*]
    · simp at hs
  · intro k s fs aw hs hst
    simp only [exState] at hs
    split at hs
    · simp only [Option.some.injEq] at hs; subst hs
      simp only [SessState.connected.injEq] at hst; exact hst.1.symm
    · simp at hs
  · intro h t ht; simp [exState] at ht

/-- A validly signed node announcement with timestamp 0, relayed by the connected peer. -/
def zeroTsAnn : Msg :=
  .announcement { announcer := 3, sigOk := true, timestamp := 0, kind := .node true }

/-- Before e41c53f the full statement was FALSE: the announcement reached `assert_ne!(timestamp, 0)` in
`gossip::Store::announced` (confirmed on the real code, `fixes-pending/C13-demo.md`). -/
theorem zero_timestamp_prefix_counterexample :
    (handleMessage Code.beforeE41c53f exEnv exState 0 zeroTsAnn).1 = .panic .announcedZeroTimestamp := by
  decide

/-- … and `Subscribe { since: 5, until: 3 }` reached `assert!(*from <= *to)` in `gossip::Store::filtered`. -/
theorem subscribe_range_prefix_counterexample :
    (handleMessage Code.beforeE41c53f exEnv exState 0 (.subscribe 5 3)).1 = .panic .filteredRange := by
  decide

/-- The same two inputs on the current code: the relayer is disconnected for an invalid timestamp; the
inverted range is accepted (and matches no stored announcement). -/
example : (handleMessage Code.current exEnv exState 0 zeroTsAnn).1 = .disconnect .invalidTimestamp := by decide
example : (handleMessage Code.current exEnv exState 0 (.subscribe 5 3)).1 = .ok := by decide

/-- A validly signed node announcement with timestamp 1 ms (it passes every check and is stored), a restart
of the node, and the next connection: before 192a092 the FULL statement `history_no_panic` was FALSE —
`Service::initial` computed `last - SUBSCRIBE_BACKLOG_DELTA` on `LocalTime` without a guard (confirmed on the real
code; regression witness: corpus `restart.case`, oracle class `subscribe-backlog-underflow`). -/
theorem restart_tiny_timestamp_prefix_counterexample :
    run Code.before192a092 (fun _ => exEnv) exState
      [.recv 0 (.announcement { announcer := 3, sigOk := true, timestamp := 1, kind := .node true }),
       .restart [], .connectIn 1 1 true false] 0
    = [.ok, .ok, .panic .subscribeBacklog] := by decide

/-- The same history on the current code. -/
example :
    run Code.current (fun _ => exEnv) exState
      [.recv 0 (.announcement { announcer := 3, sigOk := true, timestamp := 1, kind := .node true }),
       .restart [], .connectIn 1 1 true false] 0
    = [.ok, .ok, .ok] := by decide

/-- Non-vacuity of the fetch path: an inventory announcement of a known, connected peer for two seeded,
missing repositories starts one fetch (concurrency 1) and queues the other. -/
example :
    let σ' := (handleMessage Code.current exEnv exState 0
      (.announcement { announcer := 0, sigOk := true, timestamp := 1001, kind := .inventory [1, 2] })).2
    σ'.fetching 1 = some (0, []) ∧ σ'.fetching 2 = none ∧
    (σ'.sessions 0).map (·.queue) = some [(2, [])] := by decide
end B

/-! ## (c) git request header -/
section C
open Pktline

/-- **The request header of a git stream**: whatever the peer sends as first packet-line (any of the
65 536 length prefixes, any payload, any amount of data behind it, any behaviour of the `RepoId`
decoder), `git_request` returns a request or an error; no slice of the 1024-byte buffer is out of range. -/
theorem git_request_no_panic {Rid : Type} (ridOf : Bytes → Option Rid) (stream : Bytes) (s : Site) :
    gitRequest ridOf stream ≠ .panic s :=
  gitRequest_ne_panic ridOf stream s

/-- What is accepted: the declared length lies in `4..=1024` and the stream holds that many bytes. -/
theorem git_request_ok_bounds {Rid : Type} (ridOf : Bytes → Option Rid) (stream : Bytes) (r : GitRequest Rid)
    (h : gitRequest ridOf stream = .ok r) :
    ∃ length, parseLen (stream.take 4) = some length ∧ 4 ≤ length ∧ length ≤ 1024 ∧ length ≤ stream.length := by
  unfold gitRequest at h
  split at h
  · simp at h
  · simp at h
  · rename_i payload rest hp
    obtain ⟨length, h1, h2, h3, _, _, h6⟩ := readPktline_ok hp
    exact ⟨length, h1, h2, h3, h6⟩

/-- Before 7f81fc9 the statement was FALSE: headers `0000`, `0003`, `0401`, `ffff` sliced `buf[4..length]` out of range. -/
theorem pktline_prefix_counterexample :
    readPktlineUnchecked [0x30, 0x30, 0x30, 0x30] = .panic .body ∧
    readPktlineUnchecked [0x30, 0x30, 0x30, 0x33] = .panic .body ∧
    readPktlineUnchecked [0x30, 0x34, 0x30, 0x31] = .panic .body ∧
    readPktlineUnchecked [0x66, 0x66, 0x66, 0x66] = .panic .body := by decide

/-- The same headers on the current code are invalid input; `0004` (empty payload) is read and then fails to parse. -/
example : readPktline [0x30, 0x30, 0x30, 0x30] = .err .invalid ∧
    readPktline [0x30, 0x34, 0x30, 0x31] = .err .invalid ∧
    readPktline [0x30, 0x30, 0x30, 0x34] = .ok ([], []) := by decide
end C

/-! ## (d) control frames → stream table -/
section D
open Streams

/-- **Control frames** — FULL statement, for `/repo` main (`Streams.Code.current`, `Open` handler of 614904d): on a connection of either direction, whatever control frames (`Open`, `Close`, `Eof`
with ANY stream id: ours, the peer's, control / gossip / git kinds, twice, before `Open`, after `Close`) and
git frames the peer sends, interleaved in any order with our own fetches and with worker results for any
stream, neither `expect` of `Streams::open` fires (for fewer than 2^58 fetches per connection). -/
theorem control_frames_no_panic (l : Link) (ops : List Op) (hn : ops.length < 2 ^ 58) :
    ∀ r, r ∈ Streams.run Streams.Code.current (init l) ops → ∀ s, r ≠ .error s := by
  refine run_fixed ops (init l) (init_inv l) ?_
  have : l.bit ≤ 1 := by cases l <;> simp [Link.bit]
  simp only [gitId, init, ID_BOUND]
  omega

/-- Before 614904d the statement was FALSE: the peer opens the stream id our side will allocate next
(`12 = StreamId::git(Outbound).nth(1)`, resp. `13` on an inbound connection); our next fetch then hits
`.expect("Streams::open: stream was already open")` in the reactor thread (confirmed on the real `Wire`:
regression witness: corpus `control.case`, oracle class `stream-preopened-by-peer`). -/
theorem control_frames_prefix_counterexample :
    Streams.run Streams.Code.before614904d (init .outbound) [.recvOpen 12, .fetch]
      = [.ok [.task true 12], .error .streamAlreadyOpen] ∧
    Streams.run Streams.Code.before614904d (init .inbound) [.recvOpen 13, .fetch]
      = [.ok [.task true 13], .error .streamAlreadyOpen] := ⟨rfl, rfl⟩

/-- The same frames on the current code are ignored, and a legitimate `Open` (the peer's initiator bit, git
kind) still spawns a responder task. -/
example : Streams.run Streams.Code.current (init .outbound) [.recvOpen 12, .fetch, .recvOpen 13, .workerResult 12]
    = [.ok [], .ok [.task false 12, .sendOpen 12], .ok [.task true 13], .ok [.sendClose 12]] := rfl
end D

end HeartwoodModel.C13
