//! C08 harness (stub: not implemented yet).
fn main() {
    eprintln!("C08: harness not implemented");
    std::process::exit(3);
}
