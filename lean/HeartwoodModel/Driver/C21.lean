/-! Driver entry for property C21 (stub: not implemented yet). -/
namespace HeartwoodModel.Driver.C21

def run (_args : List String) : String := "unimplemented"

end HeartwoodModel.Driver.C21
