import HeartwoodModel.Driver.Loop
import HeartwoodModel.Driver.C01
def main : IO Unit := HeartwoodModel.Driver.driverMain "C01" HeartwoodModel.Driver.C01.run
