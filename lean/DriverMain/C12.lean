import HeartwoodModel.Driver.Loop
import HeartwoodModel.Driver.C12
def main : IO Unit := HeartwoodModel.Driver.driverMain "C12" HeartwoodModel.Driver.C12.run
