import HeartwoodModel.Model.Json
/-!
Helper lemmas about `Model/Json.lean` shared by `Props/C18.lean` and `Props/C19.lean`:
strings without bytes that need escaping, and how the string encoder treats them.
-/
set_option linter.unusedSimpArgs false
set_option linter.unusedVariables false
namespace HeartwoodModel.Json

/-- No byte of `s` is escaped by the JSON string encoder. -/
def plain (s : Bytes) : Bool := s.all (fun b => !needsEsc b)

/-- `plain` and 7-bit: printable ASCII other than `"` and `\`. -/
def plainAscii (s : Bytes) : Bool := s.all (fun b => !needsEsc b && decide (b < 0x80))

theorem plain_of_plainAscii {s : Bytes} (h : plainAscii s = true) : plain s = true := by
  simp only [plainAscii, plain, List.all_eq_true, Bool.and_eq_true] at *
  exact fun b hb => (h b hb).1

theorem plain_append {s t : Bytes} : plain (s ++ t) = (plain s && plain t) := by
  simp [plain, List.all_append]

theorem plain_cons {b : Nat} {t : Bytes} : plain (b :: t) = (!needsEsc b && plain t) := by
  simp [plain]

theorem flush_id (s : Bytes) : flush id s = s := by
  unfold flush
  cases s <;> simp

theorem escGo_plain (nfc : Bytes → Bytes) (frag rest : Bytes) (h : plain rest = true) :
    escGo nfc frag rest = flush nfc (frag ++ rest) := by
  induction rest generalizing frag with
  | nil => simp [escGo]
  | cons b rest ih =>
    rw [plain_cons, Bool.and_eq_true] at h
    have hb : needsEsc b = false := by simpa using h.1
    rw [escGo, hb]
    simp only [Bool.false_eq_true, if_false]
    rw [ih _ h.2]
    simp

theorem normGo_plain (nfc : Bytes → Bytes) (frag rest : Bytes) (h : plain rest = true) :
    normGo nfc frag rest = flush nfc (frag ++ rest) := by
  induction rest generalizing frag with
  | nil => simp [normGo]
  | cons b rest ih =>
    rw [plain_cons, Bool.and_eq_true] at h
    have hb : needsEsc b = false := by simpa using h.1
    rw [normGo, hb]
    simp only [Bool.false_eq_true, if_false]
    rw [ih _ h.2]
    simp

/-- A plain string is encoded as itself between quotes when no normalisation is applied. -/
theorem encStr_id_plain {s : Bytes} (h : plain s = true) : encStr id s = 0x22 :: (s ++ [0x22]) := by
  simp [encStr, escGo_plain id [] s h, flush_id]

/-- `nfc` leaves printable-ASCII strings alone (true of Unicode NFC; a hypothesis about the parameter). -/
def NfcFixesAscii (nfc : Bytes → Bytes) : Prop := ∀ s, plainAscii s = true → nfc s = s

theorem normStr_plainAscii {nfc : Bytes → Bytes} (hnfc : NfcFixesAscii nfc) {s : Bytes}
    (h : plainAscii s = true) : normStr nfc s = s := by
  unfold normStr
  rw [normGo_plain nfc [] s (plain_of_plainAscii h)]
  simp only [List.nil_append, flush]
  cases s with
  | nil => simp
  | cons a t => simp [hnfc _ h]

theorem encStr_plainAscii {nfc : Bytes → Bytes} (hnfc : NfcFixesAscii nfc) {s : Bytes}
    (h : plainAscii s = true) : encStr nfc s = 0x22 :: (s ++ [0x22]) := by
  unfold encStr
  rw [escGo_plain nfc [] s (plain_of_plainAscii h)]
  simp only [List.nil_append, flush]
  cases s with
  | nil => simp
  | cons a t => simp [hnfc _ h]

/-! ### `lexLt` is a strict total order -/

theorem lexLt_irrefl (a : Bytes) : lexLt a a = false := by
  induction a with
  | nil => rfl
  | cons x xs ih => simp [lexLt, ih]

theorem lexLt_trans {a b c : Bytes} (h1 : lexLt a b = true) (h2 : lexLt b c = true) : lexLt a c = true := by
  induction a generalizing b c with
  | nil =>
    cases b with
    | nil => simp [lexLt] at h1
    | cons y ys =>
      cases c with
      | nil => simp [lexLt] at h2
      | cons z zs => simp [lexLt]
  | cons x xs ih =>
    cases b with
    | nil => simp [lexLt] at h1
    | cons y ys =>
      cases c with
      | nil => simp [lexLt] at h2
      | cons z zs =>
        simp only [lexLt] at h1 h2 ⊢
        by_cases hxy : x < y
        · by_cases hyz : y < z
          · have : x < z := Nat.lt_trans hxy hyz
            simp [this]
          · simp only [hyz, if_false] at h2
            by_cases hzy : z < y
            · simp [hzy] at h2
            · have : y = z := by omega
              subst this
              simp [hxy]
        · simp only [hxy, if_false] at h1
          by_cases hyx : y < x
          · simp [hyx] at h1
          · simp only [hyx, if_false] at h1
            have : x = y := by omega
            subst this
            by_cases hxz : x < z
            · simp [hxz]
            · simp only [hxz, if_false] at h2 ⊢
              by_cases hzx : z < x
              · simp [hzx] at h2
              · simp only [hzx, if_false] at h2 ⊢
                exact ih h1 h2

theorem lexLt_asymm {a b : Bytes} (h : lexLt a b = true) : lexLt b a = false := by
  cases hb : lexLt b a with
  | false => rfl
  | true =>
    have := lexLt_trans h hb
    rw [lexLt_irrefl] at this
    cases this

theorem lexLt_total {a b : Bytes} (h1 : lexLt a b = false) (h2 : lexLt b a = false) : a = b := by
  induction a generalizing b with
  | nil =>
    cases b with
    | nil => rfl
    | cons y ys => simp [lexLt] at h1
  | cons x xs ih =>
    cases b with
    | nil => simp [lexLt] at h2
    | cons y ys =>
      simp only [lexLt] at h1 h2
      by_cases hxy : x < y
      · simp [hxy] at h1
      · by_cases hyx : y < x
        · simp [hyx] at h2
        · simp only [hxy, hyx, if_false] at h1 h2
          have : x = y := by omega
          subst this
          rw [ih h1 h2]

/-! ### `mapInsert` keeps a map sorted -/

/-- Strictly increasing in the sort key. -/
def Sorted {β : Type} (key : Bytes → Bytes) (m : List (Bytes × β)) : Prop :=
  m.Pairwise (fun x y => lexLt (key x.1) (key y.1) = true)

theorem mem_mapInsert {β : Type} {key : Bytes → Bytes} {k : Bytes} {v : β} {m : List (Bytes × β)}
    {x : Bytes × β} (h : x ∈ mapInsert key k v m) : x = (k, v) ∨ x ∈ m := by
  induction m with
  | nil => simpa [mapInsert] using h
  | cons a t ih =>
    obtain ⟨k', v'⟩ := a
    unfold mapInsert at h
    split at h
    · simpa using h
    · split at h
      · rcases List.mem_cons.mp h with h | h
        · exact Or.inr (h ▸ List.mem_cons_self)
        · rcases ih h with h | h
          · exact Or.inl h
          · exact Or.inr (List.mem_cons_of_mem _ h)
      · rcases List.mem_cons.mp h with h | h
        · exact Or.inl h
        · exact Or.inr (List.mem_cons_of_mem _ h)

theorem mapInsert_sorted {β : Type} (key : Bytes → Bytes) (k : Bytes) (v : β) {m : List (Bytes × β)}
    (h : Sorted key m) : Sorted key (mapInsert key k v m) := by
  induction m with
  | nil => simp [mapInsert, Sorted]
  | cons a t ih =>
    obtain ⟨k', v'⟩ := a
    unfold Sorted at h
    rw [List.pairwise_cons] at h
    unfold mapInsert
    split
    · rename_i hlt
      unfold Sorted
      rw [List.pairwise_cons]
      refine ⟨?_, List.pairwise_cons.mpr h⟩
      intro x hx
      rcases List.mem_cons.mp hx with rfl | hx
      · exact hlt
      · exact lexLt_trans hlt (h.1 x hx)
    · split
      · rename_i _ hgt
        unfold Sorted
        rw [List.pairwise_cons]
        refine ⟨?_, ih h.2⟩
        intro x hx
        rcases mem_mapInsert hx with rfl | hx
        · exact hgt
        · exact h.1 x hx
      · rename_i h1 h2
        have heq : key k = key k' :=
          lexLt_total (by simpa using h1) (by simpa using h2)
        unfold Sorted
        rw [List.pairwise_cons]
        refine ⟨?_, h.2⟩
        intro x hx
        simp only [heq]
        exact h.1 x hx

/-- Inserting a key above every key of the map appends it. -/
theorem mapInsert_last {β : Type} (key : Bytes → Bytes) (k : Bytes) (v : β) (m : List (Bytes × β))
    (h : ∀ x ∈ m, lexLt (key x.1) (key k) = true) : mapInsert key k v m = m ++ [(k, v)] := by
  induction m with
  | nil => rfl
  | cons a t ih =>
    obtain ⟨k', v'⟩ := a
    have h1 : lexLt (key k') (key k) = true := h (k', v') List.mem_cons_self
    have h2 : lexLt (key k) (key k') = false := lexLt_asymm h1
    simp [mapInsert, h1, h2, ih (fun x hx => h x (List.mem_cons_of_mem _ hx))]

/-- `mapInsert` commutes with re-keying by the sort key and mapping the values. -/
theorem mapInsert_map {β γ : Type} (key : Bytes → Bytes) (g : β → γ) (k : Bytes) (v : β)
    (m : List (Bytes × β)) :
    (mapInsert key k v m).map (fun kv => (key kv.1, g kv.2)) =
      mapInsert id (key k) (g v) (m.map (fun kv => (key kv.1, g kv.2))) := by
  induction m with
  | nil => rfl
  | cons a t ih =>
    obtain ⟨k', v'⟩ := a
    simp only [mapInsert, List.map_cons, id]
    split
    · rfl
    · split
      · simp [ih]
      · rfl

/-! ### Strings: escaping after normalisation -/

/-- NFC never introduces a byte that needs escaping (no character decomposes or composes to a C0 control,
`"` or `\`). A hypothesis about the parameter. -/
def NfcSafe (nfc : Bytes → Bytes) : Prop := ∀ s, plain s = true → plain (nfc s) = true

/-- NFC is idempotent on escape-free strings. -/
def NfcIdem (nfc : Bytes → Bytes) : Prop := ∀ s, plain s = true → nfc (nfc s) = nfc s

theorem plain_flush {nfc : Bytes → Bytes} (hs : NfcSafe nfc) {f : Bytes} (h : plain f = true) :
    plain (flush nfc f) = true := by
  unfold flush
  split
  · rfl
  · exact hs f h

theorem escGo_id_append_esc (acc t u : Bytes) (b : Nat) (ht : plain t = true) (hb : needsEsc b = true) :
    escGo id acc (t ++ b :: u) = (acc ++ t) ++ escapeByte b ++ escGo id [] u := by
  induction t generalizing acc with
  | nil => simp [escGo, hb, flush_id]
  | cons x xs ih =>
    rw [plain_cons, Bool.and_eq_true] at ht
    have hx : needsEsc x = false := by simpa using ht.1
    simp only [List.cons_append, escGo, hx, Bool.false_eq_true, if_false]
    rw [ih _ ht.2]
    simp

theorem normGo_append_esc (nfc : Bytes → Bytes) (acc t u : Bytes) (b : Nat) (ht : plain t = true)
    (hb : needsEsc b = true) :
    normGo nfc acc (t ++ b :: u) = flush nfc (acc ++ t) ++ b :: normGo nfc [] u := by
  induction t generalizing acc with
  | nil => simp [normGo, hb]
  | cons x xs ih =>
    rw [plain_cons, Bool.and_eq_true] at ht
    have hx : needsEsc x = false := by simpa using ht.1
    simp only [List.cons_append, normGo, hx, Bool.false_eq_true, if_false]
    rw [ih _ ht.2]
    simp

/-- Encoding with NFC is plain escaping of the normalised string. -/
theorem escGo_factors {nfc : Bytes → Bytes} (hs : NfcSafe nfc) (frag rest : Bytes) (hf : plain frag = true) :
    escGo nfc frag rest = escGo id [] (normGo nfc frag rest) := by
  induction rest generalizing frag with
  | nil =>
    simp only [escGo, normGo]
    rw [escGo_plain id [] _ (plain_flush hs hf)]
    simp [flush_id]
  | cons b rest ih =>
    by_cases hb : needsEsc b = true
    · simp only [escGo, normGo, hb, if_true]
      rw [escGo_id_append_esc [] _ _ b (plain_flush hs hf) hb, ih [] rfl]
      simp
    · have hb' : needsEsc b = false := by simpa using hb
      simp only [escGo, normGo, hb', Bool.false_eq_true, if_false]
      apply ih
      rw [plain_append, hf]
      simp [plain, hb']

theorem encStr_factors {nfc : Bytes → Bytes} (hs : NfcSafe nfc) (s : Bytes) :
    encStr nfc s = encStr id (normStr nfc s) := by
  simp only [encStr, normStr]
  rw [escGo_factors hs [] s rfl]

theorem flush_flush {nfc : Bytes → Bytes} (hi : NfcIdem nfc) {f : Bytes} (h : plain f = true) :
    flush nfc (flush nfc f) = flush nfc f := by
  unfold flush
  by_cases hf : f.isEmpty = true
  · simp [hf]
  · simp only [hf, Bool.false_eq_true, if_false]
    by_cases hn : (nfc f).isEmpty = true
    · simp only [hn, if_true]
      have : nfc f = [] := by simpa using hn
      exact this.symm
    · simp only [hn, Bool.false_eq_true, if_false]
      exact hi f h

/-- Normalising a normalised string changes nothing. -/
theorem normGo_idem {nfc : Bytes → Bytes} (hs : NfcSafe nfc) (hi : NfcIdem nfc) (frag rest : Bytes)
    (hf : plain frag = true) : normGo nfc [] (normGo nfc frag rest) = normGo nfc frag rest := by
  induction rest generalizing frag with
  | nil =>
    simp only [normGo]
    rw [normGo_plain nfc [] _ (plain_flush hs hf)]
    simp [flush_flush hi hf]
  | cons b rest ih =>
    by_cases hb : needsEsc b = true
    · simp only [normGo, hb, if_true]
      rw [normGo_append_esc nfc [] _ _ b (plain_flush hs hf) hb, ih [] rfl]
      simp [flush_flush hi hf]
    · have hb' : needsEsc b = false := by simpa using hb
      simp only [normGo, hb', Bool.false_eq_true, if_false]
      apply ih
      rw [plain_append, hf]
      simp [plain, hb']

theorem normStr_idem {nfc : Bytes → Bytes} (hs : NfcSafe nfc) (hi : NfcIdem nfc) (s : Bytes) :
    normStr nfc (normStr nfc s) = normStr nfc s :=
  normGo_idem hs hi [] s rfl

/-- Escaping is injective (on arbitrary strings, with no normalisation). -/
theorem escapeByte_ne_nil (b : Nat) : escapeByte b ≠ [] := by
  unfold escapeByte
  repeat' split
  all_goals simp

/-! ### Sorted maps are determined by their entries; insertion order is irrelevant -/

theorem self_mem_mapInsert {β : Type} (key : Bytes → Bytes) (k : Bytes) (v : β) (m : List (Bytes × β)) :
    (k, v) ∈ mapInsert key k v m := by
  induction m with
  | nil => simp [mapInsert]
  | cons a t ih =>
    obtain ⟨k', v'⟩ := a
    unfold mapInsert
    split
    · exact List.mem_cons_self
    · split
      · exact List.mem_cons_of_mem _ ih
      · exact List.mem_cons_self

theorem mem_mapInsert_of_ne {β : Type} {k : Bytes} {v : β} {m : List (Bytes × β)} {x : Bytes × β}
    (hx : x ∈ m) (hne : x.1 ≠ k) : x ∈ mapInsert id k v m := by
  induction m with
  | nil => cases hx
  | cons a t ih =>
    obtain ⟨k', v'⟩ := a
    unfold mapInsert
    split
    · exact List.mem_cons_of_mem _ hx
    · split
      · rcases List.mem_cons.mp hx with rfl | hx
        · exact List.mem_cons_self
        · exact List.mem_cons_of_mem _ (ih hx)
      · rename_i h1 h2
        have heq : k = k' := lexLt_total (by simpa using h1) (by simpa using h2)
        rcases List.mem_cons.mp hx with rfl | hx
        · exact absurd heq.symm hne
        · exact List.mem_cons_of_mem _ hx

/-- In a strictly sorted map a key occurs once. -/
theorem sorted_key_unique {β : Type} {m : List (Bytes × β)} (h : Sorted id m) {x y : Bytes × β}
    (hx : x ∈ m) (hy : y ∈ m) (hk : x.1 = y.1) : x = y := by
  induction m with
  | nil => cases hx
  | cons a t ih =>
    unfold Sorted at h
    rw [List.pairwise_cons] at h
    rcases List.mem_cons.mp hx with hxa | hxt
    · rcases List.mem_cons.mp hy with hya | hyt
      · rw [hxa, hya]
      · have := h.1 y hyt
        rw [← hxa] at this
        simp only [id, hk, lexLt_irrefl] at this
        cases this
    · rcases List.mem_cons.mp hy with hya | hyt
      · have := h.1 x hxt
        rw [← hya] at this
        simp only [id, ← hk, lexLt_irrefl] at this
        cases this
      · exact ih h.2 hxt hyt

theorem mem_mapInsert_iff {β : Type} {k : Bytes} {v : β} {m : List (Bytes × β)} (h : Sorted id m)
    (x : Bytes × β) : x ∈ mapInsert id k v m ↔ x = (k, v) ∨ (x ∈ m ∧ x.1 ≠ k) := by
  constructor
  · intro hx
    rcases mem_mapInsert hx with rfl | hm
    · exact Or.inl rfl
    · by_cases hk : x.1 = k
      · exact Or.inl (sorted_key_unique (mapInsert_sorted id k v h) hx (self_mem_mapInsert id k v m) hk)
      · exact Or.inr ⟨hm, hk⟩
  · rintro (rfl | ⟨hm, hk⟩)
    · exact self_mem_mapInsert id _ _ m
    · exact mem_mapInsert_of_ne hm hk

/-- Two strictly sorted maps with the same entries are equal. -/
theorem sorted_ext {β : Type} {a b : List (Bytes × β)} (ha : Sorted id a) (hb : Sorted id b)
    (h : ∀ x, x ∈ a ↔ x ∈ b) : a = b := by
  induction a generalizing b with
  | nil =>
    cases b with
    | nil => rfl
    | cons y t => exact absurd ((h y).mpr List.mem_cons_self) (by simp)
  | cons x a' ih =>
    cases b with
    | nil => exact absurd ((h x).mp List.mem_cons_self) (by simp)
    | cons y b' =>
      unfold Sorted at ha hb
      rw [List.pairwise_cons] at ha hb
      have hxy : x = y := by
        rcases List.mem_cons.mp ((h x).mp List.mem_cons_self) with hx | hx
        · exact hx
        · rcases List.mem_cons.mp ((h y).mpr List.mem_cons_self) with hy | hy
          · exact hy.symm
          · have h1 := hb.1 x hx
            have h2 := ha.1 y hy
            have := lexLt_asymm h1
            rw [h2] at this
            cases this
      subst hxy
      congr 1
      apply ih ha.2 hb.2
      intro z
      constructor
      · intro hz
        rcases List.mem_cons.mp ((h z).mp (List.mem_cons_of_mem _ hz)) with rfl | hz'
        · have := ha.1 z hz
          simp only [lexLt_irrefl] at this
          cases this
        · exact hz'
      · intro hz
        rcases List.mem_cons.mp ((h z).mpr (List.mem_cons_of_mem _ hz)) with rfl | hz'
        · have := hb.1 z hz
          simp only [lexLt_irrefl] at this
          cases this
        · exact hz'

/-- Insertions under different keys commute. -/
theorem mapInsert_comm {β : Type} {k1 k2 : Bytes} (v1 v2 : β) {m : List (Bytes × β)} (h : Sorted id m)
    (hne : k1 ≠ k2) :
    mapInsert id k1 v1 (mapInsert id k2 v2 m) = mapInsert id k2 v2 (mapInsert id k1 v1 m) := by
  have s1 := mapInsert_sorted id k2 v2 h
  have s2 := mapInsert_sorted id k1 v1 h
  apply sorted_ext (mapInsert_sorted id k1 v1 s1) (mapInsert_sorted id k2 v2 s2)
  intro x
  rw [mem_mapInsert_iff s1, mem_mapInsert_iff h, mem_mapInsert_iff s2, mem_mapInsert_iff h]
  constructor
  · rintro (rfl | ⟨rfl | ⟨hm, hk2⟩, hk1⟩)
    · exact Or.inr ⟨Or.inl rfl, hne⟩
    · exact Or.inl rfl
    · exact Or.inr ⟨Or.inr ⟨hm, hk1⟩, hk2⟩
  · rintro (rfl | ⟨rfl | ⟨hm, hk1⟩, hk2⟩)
    · exact Or.inr ⟨Or.inl rfl, fun h => hne h.symm⟩
    · exact Or.inl rfl
    · exact Or.inr ⟨Or.inr ⟨hm, hk2⟩, hk1⟩

/-- The formatter's object state as a fold over encoded members (`none` = the member's value failed). -/
def insertAll : List (Bytes × Option Bytes) → List (Bytes × Bytes) → Option (List (Bytes × Bytes))
  | [], acc => some acc
  | (_, none) :: _, _ => none
  | (k, some v) :: rest, acc => insertAll rest (mapInsert id k v acc)

theorem insertAll_none_of_mem {l : List (Bytes × Option Bytes)} {k : Bytes} (h : (k, none) ∈ l)
    (acc : List (Bytes × Bytes)) : insertAll l acc = none := by
  induction l generalizing acc with
  | nil => cases h
  | cons a t ih =>
    obtain ⟨k', o⟩ := a
    cases o with
    | none => rfl
    | some v =>
      rcases List.mem_cons.mp h with h | h
      · cases h
      · exact ih h _

/-- The result does not depend on the order in which members with pairwise different key tokens arrive. -/
theorem insertAll_perm {l l' : List (Bytes × Option Bytes)} (hp : l.Perm l')
    (hd : (l.map (·.1)).Nodup) (acc : List (Bytes × Bytes)) (hs : Sorted id acc) :
    insertAll l acc = insertAll l' acc := by
  induction hp generalizing acc with
  | nil => rfl
  | cons x _ ih =>
    obtain ⟨k, o⟩ := x
    simp only [List.map_cons, List.nodup_cons] at hd
    cases o with
    | none => rfl
    | some v => exact ih hd.2 _ (mapInsert_sorted id k v hs)
  | swap x y t =>
    obtain ⟨k1, o1⟩ := x
    obtain ⟨k2, o2⟩ := y
    simp only [List.map_cons, List.nodup_cons, List.mem_cons, not_or] at hd
    have hne : k2 ≠ k1 := hd.1.1
    cases o1 <;> cases o2 <;> simp only [insertAll]
    rw [mapInsert_comm _ _ hs hne]
  | trans h1 _ ih1 ih2 =>
    rw [ih1 hd acc hs]
    apply ih2 _ acc hs
    exact (h1.map (·.1)).nodup_iff.mp hd

end HeartwoodModel.Json
