import HeartwoodModel.Model.Frame
import HeartwoodModel.Model.Wire
import HeartwoodModel.Driver.Util
/-! Driver entry for C14.

Case: `<B> <stream hex> <cuts> <onion set> <flag>` — a `Deserializer<B, Frame<Message>>` is fed the stream
split at the (non-decreasing) byte positions `cuts`, draining after every chunk. `onion set` lists the raw
35-byte Tor addresses (hex, comma separated) accepted by the real `OnionAddrV3::from_raw_bytes` among the
candidates of the stream. `flag` (`v` = stream was produced by the real encoder) is for the harness oracle.

Output: `<groups> end=<more|err|full|panic:site> left=<n> a=<ok|over>` where `groups` are the frames obtained
after each chunk (`|` between chunks, `;` between frames, `-` for none), `left` the unparsed bytes and `a`
whether every `deserialize_next` stayed within `K + 2·received` requested bytes. -/
namespace HeartwoodModel.Driver.C14
open HeartwoodModel.Codec HeartwoodModel.Frame HeartwoodModel.Wire HeartwoodModel.Driver.Util

def toBytes (l : List Nat) : Bytes := l.map UInt8.ofNat
def ofBytes (b : Bytes) : List Nat := b.map UInt8.toNat

/-- djb2 over the bytes, 32 bit. -/
def hash (b : Bytes) : Nat := b.foldl (fun h x => (h * 33 + x.toNat) % 4294967296) 5381

/-- Short byte strings in hex, long ones as `#<len>.<hash>`. -/
def short (b : Bytes) : String :=
  if b.length ≤ 24 then toHex (ofBytes b) else s!"#{b.length}.{hash b}"

def showFrame (f : Frame Msg) : String :=
  match f.data with
  | .control (.open s) => s!"c{f.stream}:o{s}"
  | .control (.close s) => s!"c{f.stream}:x{s}"
  | .control (.eof s) => s!"c{f.stream}:e{s}"
  | .git d => s!"t{f.stream}:{short d}"
  | .gossip m =>
    match m.serialize? with
    | some b => s!"g{f.stream}:{short b}"
    | none => s!"g{f.stream}:!"

def showGroup (g : List (Frame Msg)) : String :=
  if g.isEmpty then "-" else joinWith ";" (g.map showFrame)

/-- Split `b` at the positions `cuts` (relative to the start of the stream; `pos` = bytes already cut). -/
def chunksOf (b : Bytes) (pos : Nat) : List Nat → Option (List Bytes)
  | [] => some [b]
  | c :: cs =>
    if c < pos || c - pos > b.length then none
    else (chunksOf (b.drop (c - pos)) c cs).map (b.take (c - pos) :: ·)

/-- Largest modelled buffer request over all `deserialize_next` calls, compared with the bound: returns
`false` if some call asked for more than `K + 2·received`. Mirrors `Deser.feed`. -/
def allocDrain (d : Dec (Frame Msg)) (received : Nat) : Nat → Deser → Bool × Deser × Bool
  | 0, s => (true, s, false)
  | fuel + 1, s =>
    let within := decide (Frame.alloc msgAlloc s.buf ≤ allocMax + 32 + 2 * received)
    match s.next d with
    | .item _ s' =>
      let (ok, s'', cont) := allocDrain d received fuel s'
      (within && ok, s'', cont)
    | .none => (within, s, true)
    | _ => (within, s, false)

def allocFeed (d : Dec (Frame Msg)) (B : Nat) : Deser → Nat → List Bytes → Bool
  | _, _, [] => true
  | s, received, c :: cs =>
    match s.input B c with
    | none => true
    | some s1 =>
      let received := received + c.length
      let (ok, s2, cont) := allocDrain d received (drainFuel s1) s1
      if cont then ok && allocFeed d B s2 received cs else ok

def parseSet (s : String) : Option (List Bytes) :=
  if s == "-" then some [] else ((splitOn s ',').mapM hexBytes?).map (·.map toBytes)

def run (args : List String) : String :=
  match args with
  | [bS, streamS, cutsS, onionS, _flag] =>
    match nat? bS, hexBytes? streamS, nats? cutsS, parseSet onionS with
    | some B, some stream, some cuts, some onions =>
      let env : Env := ⟨fun raw => onions.contains raw⟩
      let d := Frame.decode (decodeMsg env)
      match chunksOf (toBytes stream) 0 cuts with
      | none => "bad-op"
      | some chunks =>
        match Deser.feed d B ⟨[]⟩ chunks with
        | none => "fuel"
        | some (groups, s, e) =>
          let endS := match e with
            | .more => "more" | .err => "err" | .full => "full" | .panic site => s!"panic:{site}"
          let a := if allocFeed d B ⟨[]⟩ 0 chunks then "ok" else "over"
          let gs := if groups.isEmpty then "-" else joinWith "|" (groups.map showGroup)
          s!"{gs} end={endS} left={s.buf.length} a={a}"
    | _, _, _, _ => "bad-op"
  | _ => "bad-op"

end HeartwoodModel.Driver.C14
