/-!
# Model of `radicle/src/canonical/formatter.rs` (C18) — JSON values and the canonical encoder

Strings are **UTF-8 byte lists** (`Bytes = List Nat`, every element a byte) everywhere: in values, in
object keys and in the encoded output.  This is the representation the Rust code itself works on:
`serde_json::ser::format_escaped_str_contents` scans the *bytes* of the `&str` against the 256-entry
`ESCAPE` table, and `CanonicalFormatter` keeps every object under construction in a
`BTreeMap<Vec<u8>, Vec<u8>>` keyed by the *encoded* key bytes.

Unicode NFC normalisation (`unicode_normalization::UnicodeNormalization::nfc`) is an opaque parameter
`nfc : Bytes → Bytes`.  The formatter applies it in `write_string_fragment`, i.e. **per fragment**: the
maximal runs of bytes between two escaped bytes, not the whole string.

`Json.float` stands for any `f32`/`f64` number (the value is irrelevant: `write_f32`/`write_f64` always
fail).  Integers are `Int` (the harness stays inside `i64::MIN ..= u64::MAX`, the range of
`serde_json::Number`).
-/
namespace HeartwoodModel.Json

abbrev Bytes := List Nat

/-- Lexicographic order on byte strings (`Ord for Vec<u8>` / `Ord for String`). -/
def lexLt : Bytes → Bytes → Bool
  | [], [] => false
  | [], _ :: _ => true
  | _ :: _, [] => false
  | a :: as, b :: bs => if a < b then true else if b < a then false else lexLt as bs

inductive Json where
  | null
  | bool (b : Bool)
  | int (i : Int)
  /-- any floating point number -/
  | float
  | str (s : Bytes)
  | arr (xs : List Json)
  /-- members in the order in which the serialiser emits them; duplicate keys are possible -/
  | obj (kvs : List (Bytes × Json))
  deriving Repr, Inhabited

/-! ## Boolean equality (the nested inductive has no derived `DecidableEq`) -/

mutual
def Json.beq : Json → Json → Bool
  | .null, .null => true
  | .bool a, .bool b => a == b
  | .int a, .int b => a == b
  | .float, .float => true
  | .str a, .str b => a == b
  | .arr a, .arr b => beqList a b
  | .obj a, .obj b => beqMembers a b
  | _, _ => false
def beqList : List Json → List Json → Bool
  | [], [] => true
  | x :: xs, y :: ys => x.beq y && beqList xs ys
  | _, _ => false
def beqMembers : List (Bytes × Json) → List (Bytes × Json) → Bool
  | [], [] => true
  | (k, x) :: xs, (l, y) :: ys => k == l && x.beq y && beqMembers xs ys
  | _, _ => false
end

/-! ## Sorted association lists: the `BTreeMap`s of the formatter and of `serde_json::Value` -/

/-- `BTreeMap::insert` on a map kept as a list sorted by `lexLt (key ·)`: an existing entry with an equal
sort key is replaced (last write wins), order is maintained. `key` projects the sort key out of the
stored key. -/
def mapInsert {β : Type} (key : Bytes → Bytes) (k : Bytes) (v : β) : List (Bytes × β) → List (Bytes × β)
  | [] => [(k, v)]
  | (k', v') :: rest =>
    if lexLt (key k) (key k') then (k, v) :: (k', v') :: rest
    else if lexLt (key k') (key k) then (k', v') :: mapInsert key k v rest
    else (k, v) :: rest

/-- Insert every pair, first to last, into the empty map. -/
def mapOfList {β : Type} (key : Bytes → Bytes) (kvs : List (Bytes × β)) : List (Bytes × β) :=
  kvs.foldl (fun m kv => mapInsert key kv.1 kv.2 m) []

/-! ## String escaping (serde_json's `ESCAPE` table and `CharEscape`) -/

/-- `ESCAPE[b] != 0`: control characters below U+0020, the quote and the backslash. Nothing else
(not U+007F, not the C1 controls U+0080–U+009F, whose UTF-8 bytes are ≥ 0x80). -/
def needsEsc (b : Nat) : Bool := b < 0x20 || b == 0x22 || b == 0x5c

def hexDigit (n : Nat) : Nat := if n < 10 then 48 + n else 87 + n

/-- `Formatter::write_char_escape` (of `CompactFormatter`). -/
def escapeByte (b : Nat) : Bytes :=
  if b == 0x22 then [0x5c, 0x22]
  else if b == 0x5c then [0x5c, 0x5c]
  else if b == 0x08 then [0x5c, 0x62]
  else if b == 0x09 then [0x5c, 0x74]
  else if b == 0x0a then [0x5c, 0x6e]
  else if b == 0x0c then [0x5c, 0x66]
  else if b == 0x0d then [0x5c, 0x72]
  else [0x5c, 0x75, 0x30, 0x30, hexDigit (b / 16 % 16), hexDigit (b % 16)]

/-- `write_string_fragment` is only called on non-empty fragments. -/
def flush (nfc : Bytes → Bytes) (frag : Bytes) : Bytes := if frag.isEmpty then [] else nfc frag

/-- `format_escaped_str_contents` with `CanonicalFormatter`'s `write_string_fragment` /
`write_char_escape`: `frag` is the pending fragment `value[start..i]`. -/
def escGo (nfc : Bytes → Bytes) : (frag : Bytes) → (rest : Bytes) → Bytes
  | frag, [] => flush nfc frag
  | frag, b :: rest =>
    if needsEsc b then flush nfc frag ++ escapeByte b ++ escGo nfc [] rest
    else escGo nfc (frag ++ [b]) rest

/-- The string the encoded form denotes: every fragment normalised, escaped bytes kept as they are. -/
def normGo (nfc : Bytes → Bytes) : (frag : Bytes) → (rest : Bytes) → Bytes
  | frag, [] => flush nfc frag
  | frag, b :: rest =>
    if needsEsc b then flush nfc frag ++ b :: normGo nfc [] rest
    else normGo nfc (frag ++ [b]) rest

def normStr (nfc : Bytes → Bytes) (s : Bytes) : Bytes := normGo nfc [] s

/-- `format_escaped_str`: `begin_string`, contents, `end_string`. This is also the sort key of an object
member: the formatter's map is keyed by these bytes, quotes included. -/
def encStr (nfc : Bytes → Bytes) (s : Bytes) : Bytes := 0x22 :: (escGo nfc [] s ++ [0x22])

/-! ## Numbers -/

def natDigits (n : Nat) : Bytes := (Nat.toDigits 10 n).map Char.toNat

/-- `itoa` -/
def showInt (i : Int) : Bytes :=
  match i with
  | .ofNat n => natDigits n
  | .negSucc n => 0x2d :: natDigits (n + 1)

/-! ## The encoder -/

def joinComma : List Bytes → Bytes
  | [] => []
  | [x] => x
  | x :: y :: rest => x ++ 0x2c :: joinComma (y :: rest)

/-- `end_object`: `key ':' value` for every entry of the map, in map order. -/
def memberBytes (kv : Bytes × Bytes) : Bytes := kv.1 ++ 0x3a :: kv.2

mutual
/-- `value.serialize(&mut Serializer::with_formatter(buf, CanonicalFormatter::new()))`.
`none` = the serialiser returned an error (a floating point number somewhere in the value). -/
def encode (nfc : Bytes → Bytes) : Json → Option Bytes
  | .null => some [0x6e, 0x75, 0x6c, 0x6c]
  | .bool true => some [0x74, 0x72, 0x75, 0x65]
  | .bool false => some [0x66, 0x61, 0x6c, 0x73, 0x65]
  | .int i => some (showInt i)
  | .float => none
  | .str s => some (encStr nfc s)
  | .arr xs =>
    match encodeList nfc xs with
    | none => none
    | some es => some (0x5b :: (joinComma es ++ [0x5d]))
  | .obj kvs =>
    match encodeMembers nfc kvs [] with
    | none => none
    | some m => some (0x7b :: (joinComma (m.map memberBytes) ++ [0x7d]))
def encodeList (nfc : Bytes → Bytes) : List Json → Option (List Bytes)
  | [] => some []
  | x :: xs =>
    match encode nfc x, encodeList nfc xs with
    | some e, some es => some (e :: es)
    | _, _ => none
/-- `end_object_value` for each member in turn: `object.obj.insert(next_key, next_value)`. -/
def encodeMembers (nfc : Bytes → Bytes) : List (Bytes × Json) → List (Bytes × Bytes) → Option (List (Bytes × Bytes))
  | [], acc => some acc
  | (k, v) :: rest, acc =>
    match encode nfc v with
    | none => none
    | some ev => encodeMembers nfc rest (mapInsert id (encStr nfc k) ev acc)
end

/-! ## Canonical values

`canon nfc v` is the value the canonical encoding denotes: strings and keys normalised fragment-wise,
members with colliding encoded keys collapsed (last wins) and ordered by encoded key. `encode nfc v =
encode id (canon nfc v)` (theorem `encode_factors` in `Props/C18.lean`). -/

mutual
def canon (nfc : Bytes → Bytes) : Json → Option Json
  | .null => some .null
  | .bool b => some (.bool b)
  | .int i => some (.int i)
  | .float => none
  | .str s => some (.str (normStr nfc s))
  | .arr xs =>
    match canonList nfc xs with
    | none => none
    | some ys => some (.arr ys)
  | .obj kvs =>
    match canonMembers nfc kvs [] with
    | none => none
    | some m => some (.obj m)
def canonList (nfc : Bytes → Bytes) : List Json → Option (List Json)
  | [] => some []
  | x :: xs =>
    match canon nfc x, canonList nfc xs with
    | some y, some ys => some (y :: ys)
    | _, _ => none
def canonMembers (nfc : Bytes → Bytes) : List (Bytes × Json) → List (Bytes × Json) → Option (List (Bytes × Json))
  | [], acc => some acc
  | (k, v) :: rest, acc =>
    match canon nfc v with
    | none => none
    | some cv => canonMembers nfc rest (mapInsert (encStr id) (normStr nfc k) cv acc)
end

/-! ## `serde_json::Value`

`radicle` builds serde_json with `preserve_order`: a `Value::Object` is an `IndexMap<String, Value>` —
members stay in insertion order, a repeated key keeps its *first position* and its *last value*
(`IndexMap::insert`). `norm` maps a member-list value (what a JSON text spells out) to the list form of
the `Value` the parser builds. `==` on `Value`s ignores member order (`IndexMap: PartialEq`): `Json.eqv`.
The serialiser, however, walks members in order — which is observable in the canonical encoding exactly
when two keys collide after normalisation. -/

/-- `IndexMap::insert` -/
def setOrPush {β : Type} (k : Bytes) (v : β) : List (Bytes × β) → List (Bytes × β)
  | [] => [(k, v)]
  | (k', v') :: rest => if k == k' then (k', v) :: rest else (k', v') :: setOrPush k v rest

mutual
def norm : Json → Json
  | .arr xs => .arr (normList xs)
  | .obj kvs => .obj (normMembers kvs [])
  | j => j
def normList : List Json → List Json
  | [] => []
  | x :: xs => norm x :: normList xs
def normMembers : List (Bytes × Json) → List (Bytes × Json) → List (Bytes × Json)
  | [], acc => acc
  | (k, v) :: rest, acc => normMembers rest (setOrPush k (norm v) acc)
end

def lookupKey {β : Type} (k : Bytes) : List (Bytes × β) → Option β
  | [] => none
  | (k', v) :: rest => if k == k' then some v else lookupKey k rest

mutual
/-- `PartialEq for serde_json::Value` on `norm`-al forms: arrays pointwise, objects as maps (same number
of members, every member of the left found on the right with an equal value). All floats are identified
(the model does not carry their value; no statement below depends on comparing two floats). -/
def Json.eqv : Json → Json → Bool
  | .null, .null => true
  | .bool a, .bool b => a == b
  | .int a, .int b => a == b
  | .float, .float => true
  | .str a, .str b => a == b
  | .arr a, .arr b => eqvList a b
  | .obj a, .obj b => a.length == b.length && eqvSub a b
  | _, _ => false
def eqvList : List Json → List Json → Bool
  | [], [] => true
  | x :: xs, y :: ys => x.eqv y && eqvList xs ys
  | _, _ => false
def eqvSub : List (Bytes × Json) → List (Bytes × Json) → Bool
  | [], _ => true
  | (k, v) :: rest, b =>
    (match lookupKey k b with
     | some v' => v.eqv v'
     | none => false) && eqvSub rest b
end

end HeartwoodModel.Json
