import HeartwoodModel.Driver.Loop
import HeartwoodModel.Driver.C05
def main : IO Unit := HeartwoodModel.Driver.driverMain "C05" HeartwoodModel.Driver.C05.run
