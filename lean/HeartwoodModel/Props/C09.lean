import HeartwoodModel.Model.CobCache
import HeartwoodModel.Lemmas.CobCache
/-!
# C09 — The COB cache answers exactly like direct evaluation

Property theorems about `Model/CobCache.lean`.

1. `cache_refines_store…`: after any history of creations, updates, removals, fetched updates, `write`
   and `write_all`, every cache row is the JSON encoding of the object the repository evaluates to;
   `write_all_restores`: `Cache::write_all` repairs any earlier divergence.
2. `get_agree`, `list_agree`, `list_by_status_agree`, `counts_agree`, `find_by_revision_agree` (patches) and
   `issue_get_agree`, `issue_list_agree`, `issue_list_by_status_agree`, `issue_counts_agree`: each cached
   query (SQL over the JSON rows) equals the direct query, for *every* encoding `c` satisfying the stated
   `Lawful` hypotheses (serde round-trip; `$.state.status`, `$.revisions` where the SQL looks for them).
3. `patch_queries_agree_after_history`, `issue_queries_agree_after_history`: 1 + 2.

One statement is FALSE of the current code (confirmed on the real code, witness in
`corpus/C09/findings.case`, recorded in `known-findings.json` as `stale-after-remove`); the full statement
is kept as `cache_refines_store_counterexample`, next to the strongest `…_partial` that holds:
`Cache::remove` deletes the cache row although the object may still evaluate from another peer's
reference. Two defects found by this property are repaired in `/repo` and documented by
`find_by_revision_pre_fix_counterexample` (08c943d) and `issue_list_by_status_pre_fix_counterexample`
(6cbb486).
-/
set_option linter.unusedSimpArgs false
set_option linter.unusedVariables false
namespace HeartwoodModel.CobCache

/-! ## 1. The cache refines the store -/

section Refinement
variable {α : Type}

/-- The contract of the fetch layer: every object whose evaluation changed is named by a reference update
that was not skipped (`applied.updated` lists every reference the fetch changed). -/
def FetchSound : Op α → Prop
  | .fetched changes refs => ∀ c ∈ changes, ∃ r ∈ refs, r.id = c.1 ∧ r.skipped = false
  | _ => True

/-- A removal after which no reference of the object remains in the repository; and no change of the
repository behind the cache's back (`external` is not one of the property's operations). -/
def RemoveLast : Op α → Prop
  | .remove _ after => after = none
  | .external _ => False
  | _ => True

theorem step_preserves_inv (enc : α → Json) {s : Store α} (h : Inv enc s) (op : Op α)
    (hf : FetchSound op) (hr : RemoveLast op) : Inv enc (s.step enc op) := by
  cases op with
  | write id after =>
    refine ⟨Table.sorted_upsert h.truth_sorted, Table.sorted_upsert h.cache_sorted, ?_⟩
    intro k
    simp only [Store.step, Table.lookup_upsert, h.agree k]
    by_cases hk : k = id <;> simp [hk]
  | remove id after =>
    simp only [RemoveLast] at hr
    subst hr
    refine ⟨Table.sorted_erase h.truth_sorted, Table.sorted_erase h.cache_sorted, ?_⟩
    intro k
    simp only [Store.step, Table.set, Table.lookup_erase, h.agree k]
    by_cases hk : k = id <;> simp [hk]
  | fetched changes refs =>
    simp only [FetchSound] at hf
    refine ⟨sorted_applyChanges changes h.truth_sorted,
      sorted_cacheCobs enc _ refs h.cache_sorted, ?_⟩
    intro k
    simp only [Store.step, lookup_cacheCobs]
    by_cases hex : ∃ r ∈ refs, r.id = k ∧ r.skipped = false
    · rw [if_pos hex]
    · rw [if_neg hex, h.agree k, lookup_applyChanges_of_not_mem]
      intro c hc hck
      obtain ⟨r, hr1, hr2, hr3⟩ := hf c hc
      exact hex ⟨r, hr1, hr2.trans hck, hr3⟩
  | external changes => exact absurd hr (by simp [RemoveLast])
  | rewrite id =>
    simp only [Store.step]
    cases hl : s.truth.lookup id with
    | none => exact h
    | some o =>
      refine ⟨h.truth_sorted, Table.sorted_upsert h.cache_sorted, ?_⟩
      intro k
      simp only [Table.lookup_upsert, h.agree k]
      by_cases hk : k = id
      · subst hk; simp [hl]
      · simp [hk]
  | rewriteAll =>
    exact ⟨h.truth_sorted, Table.sorted_image enc h.truth_sorted, fun k => Table.lookup_image enc k _⟩

private theorem run_preserves_inv (enc : α → Json) (ops : List (Op α)) {s : Store α} (h : Inv enc s)
    (hf : ∀ op ∈ ops, FetchSound op) (hr : ∀ op ∈ ops, RemoveLast op) : Inv enc (Store.run enc s ops) := by
  induction ops generalizing s with
  | nil => exact h
  | cons op ops ih =>
    exact ih (step_preserves_inv enc h op (hf op List.mem_cons_self) (hr op List.mem_cons_self))
      (fun o ho => hf o (List.mem_cons_of_mem _ ho)) (fun o ho => hr o (List.mem_cons_of_mem _ ho))

/-- **Partial** refinement theorem (what holds of the current code): for every history in which each
removal takes away the last reference of its object, the cache is exactly the encoding of the store, and
the store is sorted by id. -/
theorem cache_refines_store_partial (enc : α → Json) (ops : List (Op α))
    (hf : ∀ op ∈ ops, FetchSound op) (hr : ∀ op ∈ ops, RemoveLast op) :
    (Store.run enc Store.empty ops).cache = (Store.run enc Store.empty ops).truth.image enc ∧
    Table.Sorted (Store.run enc Store.empty ops).truth :=
  let h := run_preserves_inv enc ops (inv_empty enc) hf hr
  ⟨h.cache_eq, h.truth_sorted⟩

/-- Every operation keeps the truth table sorted (no hypothesis on the operation). -/
private theorem step_truth_sorted (enc : α → Json) {s : Store α} (h : Table.Sorted s.truth) (op : Op α) :
    Table.Sorted (s.step enc op).truth := by
  cases op with
  | write id after => exact Table.sorted_upsert h
  | remove id after => exact Table.sorted_set h
  | fetched changes refs => exact sorted_applyChanges changes h
  | external changes => exact sorted_applyChanges changes h
  | rewrite id =>
    simp only [Store.step]
    cases s.truth.lookup id <;> exact h
  | rewriteAll => exact h

private theorem run_truth_sorted (enc : α → Json) (ops : List (Op α)) {s : Store α}
    (h : Table.Sorted s.truth) : Table.Sorted (Store.run enc s ops).truth := by
  induction ops generalizing s with
  | nil => exact h
  | cons op ops ih => exact ih (step_truth_sorted enc h op)

private theorem run_append (enc : α → Json) (xs ys : List (Op α)) (s : Store α) :
    Store.run enc s (xs ++ ys) = Store.run enc (Store.run enc s xs) ys := by
  induction xs generalizing s with
  | nil => rfl
  | cons x xs ih => exact ih _

/-- `write_all` repairs ANY divergence: whatever happened before it (removals that left the object alive —
the known finding —, changes of the repository behind the cache's back), after `Cache::write_all` and any
further history of sound operations the cache is again exactly the encoding of the store. -/
theorem write_all_restores (enc : α → Json) (pre post : List (Op α))
    (hf : ∀ op ∈ post, FetchSound op) (hr : ∀ op ∈ post, RemoveLast op) :
    (Store.run enc Store.empty (pre ++ Op.rewriteAll :: post)).cache =
      (Store.run enc Store.empty (pre ++ Op.rewriteAll :: post)).truth.image enc := by
  rw [run_append]
  have hs : Table.Sorted (Store.run enc (Store.empty : Store α) pre).truth :=
    run_truth_sorted enc pre Table.sorted_nil
  have hinv : Inv enc ((Store.run enc (Store.empty : Store α) pre).step enc .rewriteAll) :=
    ⟨hs, Table.sorted_image enc hs, fun k => Table.lookup_image enc k _⟩
  exact (run_preserves_inv enc post hinv hf hr).cache_eq

end Refinement

/-- A small patch used by the examples. -/
def samplePatch (st : PStatus) : Patch :=
  { state := { status := st, extra := "x" }, digest := "d",
    revisions := [("p1", some { digest := "r", discussion := ["c1"], reviews := [("alice", { id := "v1", comments := ["c2"] })] }),
                  ("r2", none)] }

/-- The FULL statement — for every history respecting the fetch contract the cache is the encoding of the
store — is **false** of the current code: alice creates a patch, another peer's reference to it arrives,
alice removes the patch (`Cache::remove`). Her reference is gone, the row is deleted, but the patch still
evaluates from the other reference. (Real code: `corpus/C09/findings.case`, class `stale-after-remove`.) -/
theorem cache_refines_store_counterexample :
    ∃ ops : List (Op Patch), (∀ op ∈ ops, FetchSound op) ∧
      (Store.run encPatch Store.empty ops).cache ≠ (Store.run encPatch Store.empty ops).truth.image encPatch := by
  refine ⟨[.write "p1" (samplePatch .open), .remove "p1" (some (samplePatch .open))], ?_, ?_⟩
  · intro op hop
    simp only [List.mem_cons, List.mem_nil_iff, or_false] at hop
    rcases hop with rfl | rfl <;> exact trivial
  · simp [Store.run, Store.step, Store.empty, Table.upsert, Table.erase, Table.set, Table.image]

/-- Non-vacuity of `cache_refines_store_partial`: a history with every kind of operation that satisfies
its hypotheses. -/
example : ∃ ops : List (Op Patch), ops.length = 6 ∧ (∀ op ∈ ops, FetchSound op) ∧ (∀ op ∈ ops, RemoveLast op) :=
  ⟨[.write "p1" (samplePatch .open),
    .fetched [("p2", some (samplePatch .draft)), ("p1", some (samplePatch .merged))]
      [⟨"p2", false⟩, ⟨"p1", false⟩, ⟨"p9", true⟩],
    .rewrite "p2", .remove "p1" none, .fetched [("p2", none)] [⟨"p2", false⟩], .rewriteAll],
   rfl,
   by
    intro op hop
    simp only [List.mem_cons, List.mem_nil_iff, or_false] at hop
    rcases hop with rfl | rfl | rfl | rfl | rfl | rfl <;> simp [FetchSound],
   by
    intro op hop
    simp only [List.mem_cons, List.mem_nil_iff, or_false] at hop
    rcases hop with rfl | rfl | rfl | rfl | rfl | rfl <;> simp [RemoveLast]⟩

/-- Non-vacuity of `write_all_restores`: the divergent prefix of `cache_refines_store_counterexample`
plus a change behind the cache's back, then `write_all`, then a sound suffix. -/
example :
    let ops : List (Op Patch) :=
      [.write "p1" (samplePatch .open), .remove "p1" (some (samplePatch .open)),
       .external [("p2", some (samplePatch .draft))]] ++ Op.rewriteAll :: [.write "p3" (samplePatch .merged)]
    (Store.run encPatch Store.empty ops).cache = (Store.run encPatch Store.empty ops).truth.image encPatch ∧
    (Store.run encPatch Store.empty ops).truth.length = 3 :=
  ⟨write_all_restores encPatch _ _ (by intro op hop; simp at hop; subst hop; trivial)
    (by intro op hop; simp at hop; subst hop; trivial), by decide⟩

/-! ## 2. Patch queries -/

private theorem PStatus.name_inj {a b : PStatus} (h : a.name = b.name) : a = b := by
  cases a <;> cases b <;> first | rfl | (simp [PStatus.name] at h)

/-- `get`: the cached answer is the direct answer, for every identifier. -/
theorem get_agree (c : PatchCodec) (hc : c.Lawful) (t : Table Patch) (id : Id) :
    cachedGet c (t.image c.enc) id = .ok (directGet t id) := by
  unfold cachedGet directGet
  rw [Table.lookup_image]
  cases t.lookup id with
  | none => rfl
  | some p => simp [Res.ofOption, Res.bind, hc.dec_enc]

/-- `list`. -/
theorem list_agree (c : PatchCodec) (hc : c.Lawful) (t : Table Patch) :
    cachedList c (t.image c.enc) = .ok (directList t) :=
  decodeRows_image hc.dec_enc t

private theorem statusKey_enc (c : PatchCodec) (hc : c.Lawful) (p : Patch) :
    statusKey (c.enc p) = some (.str p.state.status.name) := by
  obtain ⟨st, h1, _, h3⟩ := hc.state_at p
  simp [statusKey, Json.path?, h1, h3]

private theorem statusIs_enc (c : PatchCodec) (hc : c.Lawful) (p : Patch) (st : PStatus) :
    statusIs st.name (c.enc p) = decide (p.state.status = st) := by
  have h := statusKey_enc c hc p
  unfold statusKey at h
  unfold statusIs
  rw [h]
  simp only [Option.bind, Json.text?]
  by_cases hs : p.state.status = st
  · simp [hs]
  · have : ¬ p.state.status.name = st.name := fun e => hs (PStatus.name_inj e)
    simp [hs, this]

/-- `list_by_status`, for every status. -/
theorem list_by_status_agree (c : PatchCodec) (hc : c.Lawful) (t : Table Patch) (st : PStatus) :
    cachedListByStatus c (t.image c.enc) st = .ok (directListByStatus t st) := by
  unfold cachedListByStatus directListByStatus
  rw [filter_image c.enc (statusIs st.name) (fun p => decide (p.state.status = st)) t
    (fun kv _ => statusIs_enc c hc kv.2 st)]
  exact decodeRows_image hc.dec_enc _

private theorem patch_addLaws :
    AddLaws (fun s : PState => s.status.name) (fun (acc : PatchCounts) s n => acc.add s.status n) where
  congr := by
    intro acc s s' n h
    rw [PStatus.name_inj h]
  merge := by
    intro acc s n m
    cases hs : s.status <;> simp [PatchCounts.add, Nat.add_assoc]
  comm := by
    intro acc s n s' m
    cases hs : s.status <;> cases hs' : s'.status <;>
      simp [PatchCounts.add, Nat.add_assoc, Nat.add_comm, Nat.add_left_comm]

/-- `counts`, whichever row of a group SQLite takes the bare `state` column from. -/
theorem counts_agree (c : PatchCodec) (hc : c.Lawful) (pick : List Json → Option Json) (hp : PickOk pick)
    (t : Table Patch) : cachedCounts c pick (t.image c.enc) = .ok (directCounts t) := by
  unfold cachedCounts directCounts
  have hgood : ∀ x ∈ t.map (fun kv => (c.enc kv.2, kv.2.state)),
      GoodRow c.decState (fun s : PState => s.status.name) x.1 x.2 := by
    intro x hx
    obtain ⟨kv, _, rfl⟩ := List.mem_map.mp hx
    obtain ⟨st, h1, h2, _⟩ := hc.state_at kv.2
    exact ⟨by simp [rowState, h1, h2], statusKey_enc c hc kv.2⟩
  have h := (countsGo_groupBy patch_addLaws hp _ hgood ({} : PatchCounts)).1
  have hmap : (t.map (fun kv => (c.enc kv.2, kv.2.state))).map (·.1) = (t.image c.enc).map (·.2) := by
    simp [Table.image, List.map_map, Function.comp_def]
  rw [hmap] at h
  rw [h, List.foldr_map]
  congr 1
  exact (foldl_eq_foldr_add patch_addLaws (fun kv : Id × Patch => kv.2.state) t {}).symm

/-- What is assumed about the evaluated patches: the table is sorted by id (`Inv`), a patch lists a
revision id once (`BTreeMap`), and a revision whose id is the id of a patch in the repository belongs to
that patch (ids are commit hashes: the first revision of a patch *is* its root commit, and an entry belongs
to one object's history). Checked by the harness on every generated store. -/
structure PatchesWF (t : Table Patch) : Prop where
  sorted : Table.Sorted t
  rev_keys : ∀ kv ∈ t, (kv.2.revisions.map (·.1)).Nodup
  owner : ∀ kv ∈ t, ∀ rid, kv.2.revision rid ≠ none → t.lookup rid ≠ none → kv.1 = rid

private theorem filter_key_nil {β : Type} (l : List (Id × β)) (rid : Id) (P : β → Bool)
    (h : rid ∉ l.map (·.1)) : l.filter (fun m => decide (m.1 = rid) && P m.2) = [] := by
  induction l with
  | nil => rfl
  | cons m l ih =>
    simp only [List.map_cons, List.mem_cons, not_or] at h
    have hne : ¬ m.1 = rid := fun e => h.1 e.symm
    rw [List.filter_cons]
    simp [hne, ih h.2]

/-- `json_each` over the encoded `revisions` object, filtered by key and non-null type: the encoding of
the revision `Patch::revision` returns, if any. -/
private theorem revision_rows (c : PatchCodec) (hc : c.Lawful) (revs : List (Id × Option Revision)) (rid : Id)
    (hn : (revs.map (·.1)).Nodup) :
    ((revs.map fun kv => (kv.1, c.encRevOpt kv.2)).filter fun m => decide (m.1 = rid ∧ m.2 ≠ Json.null)).map (·.2)
      = match (Table.lookup rid revs).bind id with
        | some r => [c.encRev r]
        | none => [] := by
  induction revs with
  | nil => rfl
  | cons kv revs ih =>
    obtain ⟨k, o⟩ := kv
    simp only [List.map_cons, List.nodup_cons] at hn
    rw [List.map_cons, List.filter_cons, Table.lookup_cons]
    by_cases hk : k = rid
    · subst hk
      have htail : (revs.map fun kv => (kv.1, c.encRevOpt kv.2)).filter
          (fun m => decide (m.1 = k ∧ m.2 ≠ Json.null)) = [] := by
        have := filter_key_nil (revs.map fun kv => (kv.1, c.encRevOpt kv.2)) k (fun v => decide (v ≠ Json.null))
          (by simpa [List.map_map, Function.comp_def] using hn.1)
        simpa [Bool.decide_and] using this
      rw [htail]
      cases o with
      | none => simp [PatchCodec.encRevOpt]
      | some r => simp [PatchCodec.encRevOpt, hc.encRev_ne_null r]
    · simp only [hk, false_and, decide_false, if_false, Bool.false_eq_true]
      exact ih hn.2

private theorem revisionRows_image (c : PatchCodec) (hc : c.Lawful) (t : Table Patch) (rid : Id)
    (hn : ∀ kv ∈ t, (kv.2.revisions.map (·.1)).Nodup) :
    (revisionRows (t.image c.enc) rid).head? =
      (t.findSome? fun kv => (kv.2.revision rid).map fun r => (kv.1, kv.2, r)).map
        fun x => (x.1, c.enc x.2.1, c.encRev x.2.2) := by
  induction t with
  | nil => rfl
  | cons kv t ih =>
    obtain ⟨k, p⟩ := kv
    have ih' := ih (fun kv hkv => hn kv (List.mem_cons_of_mem _ hkv))
    have hrows := revision_rows c hc p.revisions rid (hn (k, p) List.mem_cons_self)
    unfold revisionRows at ih' ⊢
    rw [Table.image_cons, List.flatMap_cons, List.findSome?_cons]
    simp only [hc.revisions_at p, Json.members_ofObj]
    unfold Patch.revision
    cases hrev : (Table.lookup rid p.revisions).bind id with
    | none =>
      rw [hrev] at hrows
      have hnil : (p.revisions.map fun kv => (kv.1, c.encRevOpt kv.2)).filter
          (fun m => decide (m.1 = rid ∧ m.2 ≠ Json.null)) = [] := by
        cases hf : (p.revisions.map fun kv => (kv.1, c.encRevOpt kv.2)).filter
            (fun m => decide (m.1 = rid ∧ m.2 ≠ Json.null)) with
        | nil => rfl
        | cons a l => rw [hf] at hrows; simp at hrows
      simp only [hnil, List.map_nil, List.nil_append, Option.map_none]
      exact ih'
    | some r =>
      rw [hrev] at hrows
      cases hf : (p.revisions.map fun kv => (kv.1, c.encRevOpt kv.2)).filter
          (fun m => decide (m.1 = rid ∧ m.2 ≠ Json.null)) with
      | nil => rw [hf] at hrows; simp at hrows
      | cons a l =>
        rw [hf] at hrows
        simp only [List.map_cons, List.cons.injEq] at hrows
        simp [hrows.1]

private theorem cached_find_eq (c : PatchCodec) (hc : c.Lawful) (t : Table Patch) (rid : Id)
    (hn : ∀ kv ∈ t, (kv.2.revisions.map (·.1)).Nodup) :
    cachedFindByRevision c (t.image c.enc) rid =
      .ok (t.findSome? fun kv => (kv.2.revision rid).map fun r => (kv.1, kv.2, r)) := by
  unfold cachedFindByRevision
  rw [revisionRows_image c hc t rid hn]
  cases t.findSome? fun kv => (kv.2.revision rid).map fun r => (kv.1, kv.2, r) with
  | none => rfl
  | some x =>
    obtain ⟨id, p, r⟩ := x
    simp [Res.ofOption, Res.bind, hc.dec_enc, hc.decRev_encRev]

private theorem findSome?_unique {β γ : Type} (f : β → Option γ) (l : List β) (a : β)
    (hu : ∀ x ∈ l, f x ≠ none → x = a) (ha : a ∈ l) : l.findSome? f = f a := by
  induction l with
  | nil => cases ha
  | cons x l ih =>
    rw [List.findSome?_cons]
    cases hfx : f x with
    | some y =>
      have : x = a := hu x List.mem_cons_self (by rw [hfx]; simp)
      rw [← this, hfx]
    | none =>
      simp only
      rcases List.mem_cons.mp ha with e | e
      · -- `a` is the head and `f a = none`: nothing else can match
        subst e
        rw [hfx]
        apply List.findSome?_eq_none_iff.mpr
        intro y hy
        cases hfy : f y with
        | none => rfl
        | some z =>
          have : y = a := hu y (List.mem_cons_of_mem _ hy) (by rw [hfy]; simp)
          rw [this, hfx] at hfy; cases hfy
      · exact ih (fun y hy => hu y (List.mem_cons_of_mem _ hy)) e

private theorem direct_find_eq (t : Table Patch) (hwf : PatchesWF t) (rid : Id) :
    directFindByRevision t rid =
      t.findSome? fun kv => (kv.2.revision rid).map fun r => (kv.1, kv.2, r) := by
  unfold directFindByRevision
  cases hl : t.lookup rid with
  | none => rfl
  | some p =>
    simp only
    symm
    have hmem : (rid, p) ∈ t := Table.mem_of_lookup hl
    rw [findSome?_unique (fun kv : Id × Patch => (kv.2.revision rid).map fun r => (kv.1, kv.2, r)) t (rid, p) ?_ hmem]
    intro kv hkv hne
    obtain ⟨k, q⟩ := kv
    have hrev : q.revision rid ≠ none := by
      intro e; apply hne; simp [e]
    have hk : k = rid := hwf.owner (k, q) hkv rid hrev (by rw [hl]; simp)
    subst hk
    have := Table.lookup_of_mem hwf.sorted hkv
    rw [hl] at this
    cases this
    rfl

/-- `find_by_revision`: cached = direct for EVERY identifier — the id of a revision, of a redacted
revision, of a comment or review nested inside a revision, or an unknown id. -/
theorem find_by_revision_agree (c : PatchCodec) (hc : c.Lawful) (t : Table Patch) (hwf : PatchesWF t)
    (rid : Id) : cachedFindByRevision c (t.image c.enc) rid = .ok (directFindByRevision t rid) := by
  rw [cached_find_eq c hc t rid hwf.rev_keys, direct_find_eq t hwf rid]

/-! ## 3. Issue queries -/

theorem issue_get_agree (c : IssueCodec) (hc : c.Lawful) (t : Table Issue) (id : Id) :
    icachedGet c (t.image c.enc) id = .ok (idirectGet t id) := by
  unfold icachedGet idirectGet
  rw [Table.lookup_image]
  cases t.lookup id with
  | none => rfl
  | some p => simp [Res.ofOption, Res.bind, hc.dec_enc]

theorem issue_list_agree (c : IssueCodec) (hc : c.Lawful) (t : Table Issue) :
    icachedList c (t.image c.enc) = .ok (idirectList t) :=
  decodeRows_image hc.dec_enc t

private theorem istatusKey_enc (c : IssueCodec) (hc : c.Lawful) (i : Issue) :
    statusKey (c.enc i) = some (.str i.state.name) := by
  obtain ⟨st, h1, _, h3, _⟩ := hc.state_at i
  simp [statusKey, Json.path?, h1, h3]

private theorem ireason_enc (c : IssueCodec) (hc : c.Lawful) (i : Issue) :
    (c.enc i).path? ["state", "reason"] = i.state.reasonName.map Json.str := by
  obtain ⟨st, h1, _, _, h4⟩ := hc.state_at i
  simp only [Json.path?, h1, Option.bind, h4]
  cases i.state.reasonName <;> rfl

/-- The status name and the close reason determine the state. -/
private theorem IState.eq_of_name_reason {a b : IState} (h1 : a.name = b.name) (h2 : a.reasonName = b.reasonName) :
    a = b := by
  cases a with
  | «open» =>
    cases b with
    | «open» => rfl
    | closed r => simp [IState.name] at h1
  | closed r =>
    cases b with
    | «open» => simp [IState.name] at h1
    | closed r' => cases r <;> cases r' <;> first | rfl | (simp [IState.reasonName] at h2)

/-- The two SQL conditions hold of an encoded issue iff its whole state equals the filter. -/
private theorem istate_filter_enc (c : IssueCodec) (hc : c.Lawful) (i : Issue) (f : IState) :
    (statusIs f.name (c.enc i) && reasonIs f (c.enc i)) = decide (i.state = f) := by
  have hs : statusIs f.name (c.enc i) = decide (i.state.name = f.name) := by
    have h := istatusKey_enc c hc i
    unfold statusKey at h
    unfold statusIs
    rw [h]
    simp [Option.bind, Json.text?]
  have hr : reasonIs f (c.enc i) = decide (i.state.reasonName = f.reasonName) := by
    unfold reasonIs sqlIs
    rw [ireason_enc c hc i]
    cases hi : i.state.reasonName <;> cases hf : f.reasonName <;> simp
  rw [hs, hr]
  by_cases h : i.state = f
  · subst h; simp
  · have : ¬ (i.state.name = f.name ∧ i.state.reasonName = f.reasonName) :=
      fun ⟨h1, h2⟩ => h (IState.eq_of_name_reason h1 h2)
    simp only [h, decide_false]
    by_cases h1 : i.state.name = f.name
    · have h2 : ¬ i.state.reasonName = f.reasonName := fun e => this ⟨h1, e⟩
      simp [h1, h2]
    · simp [h1]

/-- `list_by_status` for issues, for EVERY filter (open, closed as solved, closed for another reason):
cached = direct (the code after `fix: cob: cached Issues::list_by_status takes the close reason into
account`, 6cbb486). -/
theorem issue_list_by_status_agree (c : IssueCodec) (hc : c.Lawful) (t : Table Issue) (f : IState) :
    icachedListByStatus c (t.image c.enc) f = .ok (idirectListByStatus t f) := by
  unfold icachedListByStatus idirectListByStatus
  rw [filter_image c.enc (fun j => statusIs f.name j && reasonIs f j) (fun i => decide (i.state = f)) t
    (fun kv _ => istate_filter_enc c hc kv.2 f)]
  exact decodeRows_image hc.dec_enc _

/-- Before the fix 6cbb486 the statement was false for every lawful encoding: an issue closed as `other`
was returned by the cached `solved()` query and not by the direct one. Kept as documentation of the corpus
witness `corpus/C09/issue-status-reason.case`. -/
theorem issue_list_by_status_pre_fix_counterexample (c : IssueCodec) (hc : c.Lawful) :
    ∃ (t : Table Issue) (f : IState),
      preFixIcachedListByStatus c (t.image c.enc) f ≠ .ok (idirectListByStatus t f) := by
  refine ⟨[("i1", { state := .closed .other, comments := [], digest := "d" })], .closed .solved, ?_⟩
  unfold preFixIcachedListByStatus
  rw [filter_image c.enc (statusIs (IState.closed .solved).name) (fun i => decide (i.state.name = (IState.closed .solved).name))
    _ ?_, decodeRows_image hc.dec_enc]
  · simp [idirectListByStatus, IState.name]
  · intro kv _
    have h := istatusKey_enc c hc kv.2
    unfold statusKey at h
    unfold statusIs
    rw [h]
    simp [Option.bind, Json.text?]

private theorem issue_addLaws : AddLaws IState.name IssueCounts.add where
  congr := by
    intro acc s s' n h
    cases s <;> cases s' <;> first | rfl | (simp [IState.name] at h)
  merge := by
    intro acc s n m
    cases s <;> simp [IssueCounts.add, Nat.add_assoc]
  comm := by
    intro acc s n s' m
    cases s <;> cases s' <;> simp [IssueCounts.add, Nat.add_assoc, Nat.add_comm, Nat.add_left_comm]

theorem issue_counts_agree (c : IssueCodec) (hc : c.Lawful) (pick : List Json → Option Json)
    (hp : PickOk pick) (t : Table Issue) :
    icachedCounts c pick (t.image c.enc) = .ok (idirectCounts t) := by
  unfold icachedCounts idirectCounts
  have hgood : ∀ x ∈ t.map (fun kv => (c.enc kv.2, kv.2.state)),
      GoodRow c.decState IState.name x.1 x.2 := by
    intro x hx
    obtain ⟨kv, _, rfl⟩ := List.mem_map.mp hx
    obtain ⟨st, h1, h2, _, _⟩ := hc.state_at kv.2
    exact ⟨by simp [rowState, h1, h2], istatusKey_enc c hc kv.2⟩
  have h := (countsGo_groupBy issue_addLaws hp _ hgood ({} : IssueCounts)).1
  have hmap : (t.map (fun kv => (c.enc kv.2, kv.2.state))).map (·.1) = (t.image c.enc).map (·.2) := by
    simp [Table.image, List.map_map, Function.comp_def]
  rw [hmap] at h
  rw [h, List.foldr_map]
  congr 1
  exact (foldl_eq_foldr_add issue_addLaws (fun kv : Id × Issue => kv.2.state) t {}).symm

/-! ## 4. Histories -/

/-- After ANY history of creations, updates, removals of a last reference, fetched updates (respecting the
fetch contract), `write` and `write_all`, every patch query on the cache returns what direct evaluation
returns. -/
theorem patch_queries_agree_after_history (c : PatchCodec) (hc : c.Lawful)
    (pick : List Json → Option Json) (hp : PickOk pick) (ops : List (Op Patch))
    (hf : ∀ op ∈ ops, FetchSound op) (hr : ∀ op ∈ ops, RemoveLast op)
    (hrev : ∀ kv ∈ (Store.run c.enc Store.empty ops).truth, (kv.2.revisions.map (·.1)).Nodup)
    (hown : ∀ kv ∈ (Store.run c.enc Store.empty ops).truth, ∀ rid, kv.2.revision rid ≠ none →
      (Store.run c.enc Store.empty ops).truth.lookup rid ≠ none → kv.1 = rid) :
    let s := Store.run c.enc Store.empty ops
    (∀ id, cachedGet c s.cache id = .ok (directGet s.truth id)) ∧
    cachedList c s.cache = .ok (directList s.truth) ∧
    (∀ st, cachedListByStatus c s.cache st = .ok (directListByStatus s.truth st)) ∧
    cachedCounts c pick s.cache = .ok (directCounts s.truth) ∧
    (∀ rid, cachedFindByRevision c s.cache rid = .ok (directFindByRevision s.truth rid)) := by
  intro s
  obtain ⟨hcache, hsorted⟩ := cache_refines_store_partial c.enc ops hf hr
  have hcache' : s.cache = s.truth.image c.enc := hcache
  rw [hcache']
  exact ⟨get_agree c hc _, list_agree c hc _, list_by_status_agree c hc _, counts_agree c hc pick hp _,
    find_by_revision_agree c hc _ ⟨hsorted, hrev, hown⟩⟩

theorem issue_queries_agree_after_history (c : IssueCodec) (hc : c.Lawful)
    (pick : List Json → Option Json) (hp : PickOk pick) (ops : List (Op Issue))
    (hf : ∀ op ∈ ops, FetchSound op) (hr : ∀ op ∈ ops, RemoveLast op) :
    let s := Store.run c.enc Store.empty ops
    (∀ id, icachedGet c s.cache id = .ok (idirectGet s.truth id)) ∧
    icachedList c s.cache = .ok (idirectList s.truth) ∧
    (∀ f, icachedListByStatus c s.cache f = .ok (idirectListByStatus s.truth f)) ∧
    icachedCounts c pick s.cache = .ok (idirectCounts s.truth) := by
  intro s
  obtain ⟨hcache, _⟩ := cache_refines_store_partial c.enc ops hf hr
  have hcache' : s.cache = s.truth.image c.enc := hcache
  rw [hcache']
  exact ⟨issue_get_agree c hc _, issue_list_agree c hc _, issue_list_by_status_agree c hc _,
    issue_counts_agree c hc pick hp _⟩

/-! ## 5. Non-vacuity, and the query before the fix -/

/-- The hypotheses on the encoding are satisfiable: the encoding used by the driver is lawful. -/
example : stdPatchCodec.Lawful := stdPatchCodec_lawful
example : stdIssueCodec.Lawful := stdIssueCodec_lawful
example : PickOk List.head? := pickOk_head

/-- One patch `p1` whose first revision (`p1`) has a comment `c1` and a review `v1` with a comment `c2`,
and whose second revision `r2` is redacted. -/
def sampleTable : Table Patch := [("p1", samplePatch .open)]

theorem sampleTable_wf : PatchesWF sampleTable where
  sorted := by simp [sampleTable, Table.Sorted]
  rev_keys := by decide
  owner := by
    intro kv hkv rid _ hl
    simp only [sampleTable, List.mem_singleton] at hkv
    subst hkv
    simp only [sampleTable, Table.lookup_cons, Table.lookup_nil] at hl
    by_cases h : "p1" = rid
    · exact h
    · rw [if_neg h] at hl; exact absurd rfl hl

/-- `find_by_revision_agree` on a non-trivial store: the existing revision is found on both paths; the
redacted revision, the nested comment, the review, the review comment and an unknown id are `None` on both
paths. -/
example :
    cachedFindByRevision stdPatchCodec (sampleTable.image encPatch) "p1" = .ok (directFindByRevision sampleTable "p1") ∧
    directFindByRevision sampleTable "p1" ≠ none ∧
    (∀ rid ∈ ["r2", "c1", "v1", "c2", "zz"],
      cachedFindByRevision stdPatchCodec (sampleTable.image encPatch) rid = .ok none ∧
      directFindByRevision sampleTable rid = none) :=
  ⟨find_by_revision_agree stdPatchCodec stdPatchCodec_lawful _ sampleTable_wf _, by decide, by decide⟩

/-- Before `fix: match only top-level, non-redacted revisions in cached find_by_revision` (08c943d) the
statement `find_by_revision_agree` was false: with `json_tree` the id of a comment nested in a revision's
discussion matched (and failed to decode as a revision), and the id of a redacted revision matched a
`null` (a panic in the `sqlite` crate), while direct evaluation answers `None`. Kept as documentation of
the corpus witnesses `corpus/C09/find-by-revision.case`. -/
theorem find_by_revision_pre_fix_counterexample :
    preFixFindByRevision stdPatchCodec (sampleTable.image encPatch) "c1" = .err ∧
    directFindByRevision sampleTable "c1" = none ∧
    preFixFindByRevision stdPatchCodec (sampleTable.image encPatch) "r2" = .panic ∧
    directFindByRevision sampleTable "r2" = none := by decide

/-- Non-vacuity of the counts / status theorems: two statuses present. -/
example :
    cachedCounts stdPatchCodec List.head?
      (Table.image encPatch [("p1", samplePatch .open), ("p2", samplePatch .merged), ("p3", samplePatch .open)])
      = .ok { open_ := 2, merged := 1 } := by decide

/-- The issue filters on the concrete encoding: `solved()` returns the solved issue only, before the fix it
also returned the issue closed as `other`. -/
example :
    icachedListByStatus stdIssueCodec
      (Table.image encIssue [("i1", { state := .closed .other, comments := [], digest := "d" }),
                             ("i2", { state := .closed .solved, comments := [], digest := "e" })]) (.closed .solved)
      = .ok [("i2", { state := .closed .solved, comments := [], digest := "e" })] ∧
    preFixIcachedListByStatus stdIssueCodec
      (Table.image encIssue [("i1", { state := .closed .other, comments := [], digest := "d" }),
                             ("i2", { state := .closed .solved, comments := [], digest := "e" })]) (.closed .solved)
      = .ok [("i1", { state := .closed .other, comments := [], digest := "d" }),
             ("i2", { state := .closed .solved, comments := [], digest := "e" })] := by
  decide

end HeartwoodModel.CobCache
